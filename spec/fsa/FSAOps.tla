------------------------------ MODULE FSAOps ------------------------------
(***************************************************************************)
(* Language-level semantics of the FSA operations (property C10):          *)
(* acceptance, word following, longest accepted prefix, enumeration,       *)
(* k-multiple automaton, recurrent version, shortest-path version,         *)
(* relabelling.  The module is a library of pure operators over            *)
(* (V, S, start) plus a "one state per automaton" exploration in which TLC *)
(* checks the theorems relating the operators on EVERY deterministic       *)
(* automaton over the constants, and emits, per automaton, the table of    *)
(* specified results that the conformance harness compares the library     *)
(* against.                                                                *)
(***************************************************************************)
EXTENDS Naturals, Integers, Sequences, FiniteSets, TLC, Json

CONSTANTS Verts, Labels, Start, MaxLen, MaxMult, Foreign

VARIABLES vs, E

NoV == -1
Edge == Verts \X Labels \X Verts
Det(S) == \A e1, e2 \in S : (e1[1] = e2[1] /\ e1[2] = e2[2]) => e1[3] = e2[3]

(***************************************************************************)
(* Walking                                                                 *)
(***************************************************************************)
\* S may carry labels of any kind (letters, or words for a k-multiple automaton)
Step(S, v, l) == IF \E e \in S : e[1] = v /\ e[2] = l
                 THEN (CHOOSE e \in S : e[1] = v /\ e[2] = l)[3] ELSE NoV

RECURSIVE Follow(_, _, _)
Follow(S, v, w) == IF v = NoV \/ w = <<>> THEN v ELSE Follow(S, Step(S, v, Head(w)), Tail(w))

Accepts(S, v, w) == Follow(S, v, w) # NoV

RECURSIVE PrefixLen(_, _, _)
PrefixLen(S, v, w) == IF w = <<>> \/ Step(S, v, Head(w)) = NoV THEN 0
                      ELSE 1 + PrefixLen(S, Step(S, v, Head(w)), Tail(w))

\* paths of length exactly k leaving v: pairs <<sequence of labels, end vertex>>
RECURSIVE Paths(_, _, _)
Paths(S, v, k) == IF k = 0 THEN {<<<<>>, v>>}
                  ELSE UNION {{<<Append(p[1], e[2]), e[3]>> : e \in {f \in S : f[1] = p[2]}} : p \in Paths(S, v, k - 1)}

\* enumerate_words(L, start_vertex = v): the accepted words of length <= L (with the state each one ends in)
WordsUpToLen(S, v, L) == UNION {Paths(S, v, k) : k \in 0..L}
RECURSIVE CountUpToLen(_, _, _)
CountUpToLen(S, v, L) == Cardinality(Paths(S, v, L)) + (IF L = 0 THEN 0 ELSE CountUpToLen(S, v, L - 1))

RECURSIVE WordsOver(_, _)
WordsOver(A, k) == IF k = 0 THEN {<<>>} ELSE {Append(w, a) : w \in WordsOver(A, k - 1), a \in A}
WordsUpTo(A, k) == UNION {WordsOver(A, j) : j \in 0..k}

RECURSIVE Flat(_)
Flat(ws) == IF ws = <<>> THEN <<>> ELSE Head(ws) \o Flat(Tail(ws))

(***************************************************************************)
(* Derived automata                                                        *)
(***************************************************************************)
\* vertices reachable from `from` in a multiple of k steps
RECURSIVE ReachMult(_, _, _)
ReachMult(S, R, k) ==
  LET nxt == R \cup UNION {{p[2] : p \in Paths(S, v, k)} : v \in R}
  IN IF nxt = R THEN R ELSE ReachMult(S, nxt, k)

\* automaton_multiple(k): one edge per k-step path, labelled by the k-letter word
MultV(S, s, k) == ReachMult(S, {s}, k)
MultE(S, s, k) == UNION {{<<v, p[1], p[2]>> : p \in Paths(S, v, k)} : v \in MultV(S, s, k)}

\* recurrent(): greatest sub-automaton without forward or backward dead ends
RECURSIVE PruneAll(_, _)
PruneAll(V, S) ==
  LET dead == {v \in V : (\A e \in S : e[1] # v) \/ (\A e \in S : e[3] # v)}
  IN IF dead = {} THEN <<V, S>>
     ELSE PruneAll(V \ dead, {e \in S : e[1] \notin dead /\ e[3] \notin dead})

\* breadth-first layers from root
RECURSIVE Layers(_, _, _)
Layers(S, front, seen) ==
  IF front = {} THEN <<>>
  ELSE LET nxt == {e[3] : e \in {f \in S : f[1] \in front}} \ seen
       IN <<front>> \o Layers(S, nxt, seen \cup nxt)
Dist(S, root, v) ==
  LET Ls == Layers(S, {root}, {root})
  IN IF \E i \in 1..Len(Ls) : v \in Ls[i] THEN (CHOOSE i \in 1..Len(Ls) : v \in Ls[i]) - 1 ELSE NoV

\* remove_long_paths(root): keep exactly the edges on shortest paths from root
ShortE(S, root) == {e \in S : Dist(S, root, e[1]) # NoV /\ Dist(S, root, e[3]) = Dist(S, root, e[1]) + 1}

\* rename_generators(m)
Rename(S, m) == {<<e[1], m[e[2]], e[3]>> : e \in S}
Bij(A) == {m \in [A -> A] : \A x, y \in A : m[x] = m[y] => x = y}

(***************************************************************************)
(* One state per automaton                                                 *)
(***************************************************************************)
Init == /\ vs \in SUBSET Verts
        /\ E \in {S \in SUBSET (vs \X Labels \X vs) : Det(S)}
Next == UNCHANGED <<vs, E>>

HasStart == Start \in vs

(***************************************************************************)
(* Theorems, checked on every automaton                                    *)
(***************************************************************************)
\* enumeration lists exactly the accepted words, each once, with the state follow_word reaches
EnumerationIsAcceptance ==
  \A v \in vs : \A w \in WordsUpTo(Labels, MaxLen) :
    LET hits == {p \in Paths(E, v, Len(w)) : p[1] = w}
    IN /\ Cardinality(hits) <= 1
       /\ (hits # {}) <=> Accepts(E, v, w)
       /\ \A p \in hits : p[2] = Follow(E, v, w)
       /\ Accepts(E, v, w) <=> PrefixLen(E, v, w) = Len(w)

\* enumerate_words(L) for EVERY bound L in 0..MaxLen (L = 0: the empty word alone): the listings by exact length
\* are pairwise disjoint, so listing them one after the other lists each accepted word of length <= L exactly once
EnumerateWordsBound ==
  \A v \in vs :
    /\ WordsUpToLen(E, v, 0) = {<<<<>>, v>>}
    /\ \A L \in 0..MaxLen :
         /\ Cardinality(WordsUpToLen(E, v, L)) = CountUpToLen(E, v, L)
         /\ \A w \in WordsUpTo(Labels, L) : Accepts(E, v, w) <=> (\E p \in WordsUpToLen(E, v, L) : p[1] = w)
         /\ \A p \in WordsUpToLen(E, v, L) : Len(p[1]) <= L /\ p[2] = Follow(E, v, p[1])

\* the k-multiple automaton accepts exactly the accepted words whose length is a multiple of k
MultipleLanguage ==
  HasStart =>
  \A k \in 1..MaxMult : \A j \in 0..(MaxLen \div k) :
    {<<Flat(p[1]), p[2]>> : p \in Paths(MultE(E, Start, k), Start, j)} = Paths(E, Start, k * j)

MultipleDeterministic ==
  HasStart => \A k \in 1..MaxMult : Det(MultE(E, Start, k))

\* recurrent = greatest subset in which every vertex has a predecessor and a successor inside
RecurrentGreatest ==
  LET r == PruneAll(vs, E) IN
  /\ \A v \in r[1] : (\E e \in r[2] : e[1] = v) /\ (\E e \in r[2] : e[3] = v)
  /\ r[2] = {e \in E : e[1] \in r[1] /\ e[3] \in r[1]}
  /\ \A V \in SUBSET vs :
       (\A v \in V : (\E e \in E : e[1] = v /\ e[3] \in V) /\ (\E e \in E : e[3] = v /\ e[1] \in V))
         => V \subseteq r[1]

\* the shortest-path version is acyclic and preserves distances from the root
ShortestPathsSound ==
  \A root \in vs :
    LET H == ShortE(E, root) IN
    /\ \A v \in vs : Dist(H, root, v) = Dist(E, root, v)
    /\ \A e \in H : Dist(E, root, e[3]) > Dist(E, root, e[1])
    \* and it keeps every edge that lies on some shortest path
    /\ \A e \in E : (Dist(E, root, e[1]) # NoV /\ Dist(E, root, e[3]) = Dist(E, root, e[1]) + 1) => e \in H

\* relabelling maps the language letter by letter
RenameCommutes ==
  \A m \in Bij(Labels) : \A v \in vs : \A k \in 0..MaxLen :
    Paths(Rename(E, m), v, k) = {<<[i \in 1..Len(p[1]) |-> m[p[1][i]]], p[2]>> : p \in Paths(E, v, k)}

(***************************************************************************)
(* Table of specified results, one line per automaton                      *)
(***************************************************************************)
Probe == WordsUpTo(Labels \cup {Foreign}, MaxLen)

Obs ==
  [ vs  |-> vs, E |-> E,
    lang |-> [v \in vs |-> [k \in 0..MaxLen |-> Paths(E, v, k)]],
    bounds |-> 0..MaxLen,       \* enumerate_words(L) is specified as the listings lang[v][0..L] one after the other
    prefix |-> IF HasStart THEN {<<w, PrefixLen(E, Start, w)>> : w \in Probe} ELSE {},
    follow |-> {<<v, w, Follow(E, v, w)>> : v \in vs, w \in WordsUpTo(Labels \cup {Foreign}, 2)},
    mult |-> IF HasStart THEN [k \in 1..MaxMult |-> [V |-> MultV(E, Start, k), E |-> MultE(E, Start, k)]] ELSE <<>>,
    rec  |-> [V |-> PruneAll(vs, E)[1], E |-> PruneAll(vs, E)[2]],
    short |-> [r \in vs |-> ShortE(E, r)] ]

EmitObs == PrintT("OBS " \o ToJson(Obs))
=============================================================================
