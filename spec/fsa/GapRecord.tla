----------------------------- MODULE GapRecord -----------------------------
(***************************************************************************)
(* kbmag / GAP record route of property C09.  An abstract record is a      *)
(* dense deterministic transition table t[i][j] over states 1..n and an    *)
(* alphabet of k names (0 = fail state), an initial state, and the layout  *)
(* choices the GAP record grammar leaves free.  The specified meaning of   *)
(* loading it is the automaton with vertices 1..n, start vertex `init`     *)
(* and edges {<<i, names[j], t[i][j]>> : t[i][j] # 0}.  TLC enumerates     *)
(* every record over the constants, checks that walking the table and      *)
(* walking the edge set accept the same words, and emits each record for   *)
(* the harness to render as text and load through the real parser.         *)
(***************************************************************************)
EXTENDS Naturals, Integers, Sequences, FiniteSets, TLC, Json

CONSTANTS MaxStates, Names, LayoutMode, MaxLen

VARIABLES n, names, table, init, layout

Seps == {"none", "space", "newline"}
\* interval: `accepting` (and the list inside the nested extra record) written [1..n];  rowint: every row of
\* table.transitions that is a run of consecutive integers written [x..y] (GAP: [2..4] = [2,3,4]), in whatever
\* position the row stands;  initint: `initial` written [i..i]
Layouts == [sep : Seps, interval : BOOLEAN, quoted : BOOLEAN, order : {"std", "table_first", "initial_last"},
            nested_extra : BOOLEAN, rowint : BOOLEAN, initint : BOOLEAN]

\* all injective sequences (orderings) of non-empty subsets of Names
Orderings == {s \in UNION {[1..m -> Names] : m \in 1..Cardinality(Names)} :
                 \A i, j \in 1..Len(s) : s[i] = s[j] => i = j}

\* layout number h (mixed radix 3 x 2 x 2 x 3 x 2 x 2 x 2)
LayoutNo(h) == [sep |-> <<"none", "space", "newline">>[(h % 3) + 1],
                interval |-> ((h \div 3) % 2 = 0),
                quoted |-> ((h \div 6) % 2 = 0),
                order |-> <<"std", "table_first", "initial_last">>[((h \div 12) % 3) + 1],
                nested_extra |-> ((h \div 36) % 2 = 0),
                rowint |-> ((h \div 72) % 2 = 0),
                initint |-> ((h \div 144) % 2 = 1)]
NLayouts == 288

RECURSIVE SumSeq(_)
SumSeq(s) == IF s = <<>> THEN 0 ELSE Head(s) + SumSeq(Tail(s))
TableHash(t) == SumSeq([i \in 1..Len(t) |-> i * SumSeq([j \in 1..Len(t[i]) |-> (j + 1) * t[i][j]])])

Init ==
  /\ n \in 1..MaxStates
  /\ names \in Orderings
  /\ table \in [1..n -> [1..Len(names) -> 0..n]]
  /\ init \in 1..n
  /\ IF LayoutMode = "all" THEN layout \in Layouts
     ELSE layout = LayoutNo((TableHash(table) + 5 * init + 7 * Len(names)) % NLayouts)

Next == UNCHANGED <<n, names, table, init, layout>>

EdgesOfTable == {<<i, names[j], table[i][j]>> : i \in 1..n, j \in 1..Len(names)} \ {e \in (1..n) \X Names \X {0} : TRUE}
E == {e \in EdgesOfTable : e[3] # 0}

\* only the parametric operators of FSAOps are used (walks over an explicit edge set)
Ops == INSTANCE FSAOps WITH Verts <- 1..MaxStates, Labels <- Names, Start <- 1, MaxLen <- MaxLen, MaxMult <- 1,
                            Foreign <- "z", vs <- 1..n, E <- E

Idx(a) == CHOOSE j \in 1..Len(names) : names[j] = a
RECURSIVE TableWalk(_, _)
TableWalk(s, w) == IF s = 0 \/ w = <<>> THEN s
                   ELSE IF Head(w) \in {names[j] : j \in 1..Len(names)}
                        THEN TableWalk(table[s][Idx(Head(w))], Tail(w)) ELSE 0

\* the edge set means what the table means
TableMeaning ==
  \A w \in Ops!WordsUpTo(Names, MaxLen) :
     (TableWalk(init, w) # 0) <=> Ops!Accepts(E, init, w)

Deterministic == Ops!Det(E)

\* a row that GAP's interval syntax can denote, and how each row is to be written under the layout
IsRun(r) == \A j \in 1..(Len(r) - 1) : r[j + 1] = r[j] + 1
RowForm == [i \in 1..n |-> IF layout.rowint /\ IsRun(table[i]) THEN "interval" ELSE "list"]
\* the interval [x..y] denotes the row it replaces
IntervalMeaning ==
  \A i \in 1..n : RowForm[i] = "interval" =>
     LET x == table[i][1]  y == table[i][Len(names)] IN
     /\ y - x + 1 = Len(names)
     /\ \A j \in 1..Len(names) : table[i][j] = x + j - 1

EmitRec == PrintT("REC " \o ToJson([n |-> n, names |-> names, table |-> table, init |-> init,
                                      layout |-> layout, rowform |-> RowForm, E |-> E]))
=============================================================================
