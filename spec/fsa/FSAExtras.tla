----------------------------- MODULE FSAExtras -----------------------------
(***************************************************************************)
(* Extension X02: behaviour of the automata package that none of the       *)
(* listed properties states.                                               *)
(*                                                                         *)
(* Contract specified (from the docstrings, there are no callers in the    *)
(* library):                                                               *)
(*  - FSA.initial_rejected_subword(w): "An initial subword of w which is   *)
(*    rejected by the automaton, with minimal length.  If the word is      *)
(*    accepted, return None."  So the result is the accepted prefix plus   *)
(*    the first letter that cannot be read, and None for an accepted word. *)
(*  - kbmag_utils.dict_to_dot(out view): a DOT digraph with one line       *)
(*    "v -> t [label=l]" per ordered pair (v,t) joined by an edge, l one   *)
(*    of the labels of that pair, and one line "v;" for every vertex       *)
(*    without outgoing edge (the function is written against the           *)
(*    vertex -> neighbour -> [labels] view).                               *)
(***************************************************************************)
EXTENDS FSAOps

Rejected(S, v, w) ==
  LET n == PrefixLen(S, v, w) IN IF n = Len(w) THEN <<>> ELSE SubSeq(w, 1, n + 1)
IsAcceptedWord(S, v, w) == PrefixLen(S, v, w) = Len(w)

\* the rejected prefix is rejected, every shorter prefix is accepted, and accepted words have none
RejectedMinimal ==
  HasStart =>
  \A w \in Probe :
    LET r == Rejected(E, Start, w) IN
    IF IsAcceptedWord(E, Start, w)
    THEN \A k \in 0..Len(w) : Accepts(E, Start, SubSeq(w, 1, k))
    ELSE /\ ~Accepts(E, Start, r)
         /\ \A k \in 0..(Len(r) - 1) : Accepts(E, Start, SubSeq(r, 1, k))
         /\ r = SubSeq(w, 1, Len(r))

\* accepted prefix and rejected prefix differ by exactly one letter
AcceptedRejectedAdjacent ==
  HasStart =>
  \A w \in Probe : ~IsAcceptedWord(E, Start, w) =>
     Len(Rejected(E, Start, w)) = PrefixLen(E, Start, w) + 1

Pairs == {<<e[1], e[3]>> : e \in E}
PairLabels(p) == {e[2] : e \in {f \in E : f[1] = p[1] /\ f[3] = p[2]}}
Sinks == {v \in vs : \A e \in E : e[1] # v}

\* every vertex is mentioned by the DOT text: as a sink line or as the tail of an arrow
DotMentionsAll == \A v \in vs : v \in Sinks \/ \E p \in Pairs : p[1] = v

ObsX ==
  [ vs |-> vs, E |-> E,
    rej |-> IF HasStart THEN {<<w, IsAcceptedWord(E, Start, w), Rejected(E, Start, w)>> : w \in Probe} ELSE {},
    pairs |-> {<<p[1], p[2], PairLabels(p)>> : p \in Pairs},
    sinks |-> Sinks ]

EmitObsX == PrintT("OBS " \o ToJson(ObsX))
=============================================================================
