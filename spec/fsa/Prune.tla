------------------------------- MODULE Prune -------------------------------
(***************************************************************************)
(* Confluence of dead-end pruning: FSA.recurrent() deletes vertices        *)
(* without incoming or without outgoing edges in whatever order its        *)
(* iteration meets them.  Here pruning is a nondeterministic action that   *)
(* removes ONE dead vertex at a time; TLC explores every order, from every *)
(* deterministic automaton, and checks that every terminal state is the    *)
(* greatest fixed point FSAOps!PruneAll computes in one sweep.             *)
(***************************************************************************)
EXTENDS Naturals, FiniteSets, TLC
CONSTANTS Verts, Labels
VARIABLES V0, S0, V, S

Det(T) == \A e1, e2 \in T : (e1[1] = e2[1] /\ e1[2] = e2[2]) => e1[3] = e2[3]

RECURSIVE PruneAll(_, _)
PruneAll(W, T) ==
  LET dead == {v \in W : (\A e \in T : e[1] # v) \/ (\A e \in T : e[3] # v)}
  IN IF dead = {} THEN <<W, T>>
     ELSE PruneAll(W \ dead, {e \in T : e[1] \notin dead /\ e[3] \notin dead})

Dead(v) == v \in V /\ ((\A e \in S : e[1] # v) \/ (\A e \in S : e[3] # v))

Init == /\ V0 \in SUBSET Verts
        /\ S0 \in {T \in SUBSET (V0 \X Labels \X V0) : Det(T)}
        /\ V = V0 /\ S = S0

Prune(v) == /\ Dead(v)
            /\ V' = V \ {v}
            /\ S' = {e \in S : e[1] # v /\ e[3] # v}
            /\ UNCHANGED <<V0, S0>>

Next == \E v \in Verts : Prune(v)

TypeOK == V \subseteq V0 /\ S \subseteq S0
\* pruning never removes a vertex of the greatest fixed point, and stops exactly there
Confluent == /\ PruneAll(V0, S0)[1] \subseteq V
             /\ (\A v \in Verts : ~Dead(v)) => <<V, S>> = PruneAll(V0, S0)
=============================================================================
