------------------------------ MODULE FSAPair ------------------------------
(***************************************************************************)
(* Property C09, "however an automaton is obtained ... and after any       *)
(* sequence of edits ... equal the edge set a plain set-based model        *)
(* predicts for that history": the model of an automaton's history is a    *)
(* function of the calls made ON THAT AUTOMATON only.  This module states  *)
(* the frame part of that sentence, which a single-object state machine    *)
(* cannot: the state is TWO automata a caller holds plus the data the      *)
(* first one was obtained from (`src`: the caller's dictionary, the        *)
(* generating sequence, the name of a file).                               *)
(*                                                                         *)
(*  - the automaton under the cursor is (vs, E) of FSA.tla, so every       *)
(*    mutating action of FSA.tla (MutateK) is reused verbatim as Edit;     *)
(*    the other automaton is (ovs, oE); Swap exchanges the roles;          *)
(*  - Second(p) obtains the second automaton: through the SAME route with  *)
(*    the SAME input as the first one (the caller's dictionary object      *)
(*    again, the same file name again, the same generating sequence        *)
(*    again), from the first one's label view or outgoing view, by         *)
(*    deepcopy, or as the result of a non-in-place operation;              *)
(*  - frame conditions: an Edit changes the automaton under the cursor     *)
(*    only; obtaining the second automaton changes nothing; the route      *)
(*    with the same input yields SrcState(src) whatever was done to the    *)
(*    first automaton in between.                                          *)
(*                                                                         *)
(* Routes: the two dictionary layouts and FSA() of FSA.tla, the free-group *)
(* constructor (BuildFree: states "" and the letters, an edge g -h-> h     *)
(* unless h is the inverse of g; TLC checks that this accepts exactly the  *)
(* freely reduced words), and named routes (a built-in file, a kbmag       *)
(* record text) whose meaning is the table written in the text (constant   *)
(* Named, supplied by the harness from GapRecord / an independent reader). *)
(*                                                                         *)
(* Every history is a state (variable hist), so the state graph is the     *)
(* tree of histories; each complete history is emitted once with the       *)
(* specified state of BOTH automata after every step.                      *)
(***************************************************************************)
EXTENDS FSA, Integers

CONSTANTS Routes,      \* subset of {"empty", "graph", "out", "free", "named"}
          Provs,       \* subset of {"same_input", "graph_view", "out_view", "deepcopy", "recurrent_copy", "rename_copy"}
          EditKinds,   \* names (field a of last) of the FSA.tla mutating actions used as edits
          Budget,      \* number of edits in a history
          Named        \* set of records [name, vs, E]: the automaton written in a file / record text

VARIABLES ovs, oE,     \* the automaton NOT under the cursor
          has2,        \* the second automaton exists
          cur,         \* 1: the cursor is on the automaton obtained first, 2: on the second one
          src,         \* what the first automaton was obtained from
          budget,      \* edits left
          hist         \* the history so far, with the specified states after every step

pvars == <<ovs, oE, has2, cur, src, budget, hist>>

(***************************************************************************)
(* The free-group constructor                                              *)
(***************************************************************************)
Inv(g) == CASE g = "a" -> "A" [] g = "A" -> "a" [] g = "b" -> "B" [] g = "B" -> "b"
            [] g = "c" -> "C" [] g = "C" -> "c" [] g = "d" -> "D" [] g = "D" -> "d"

SeqSet(s) == {s[i] : i \in 1..Len(s)}
MaxRank == Cardinality(Labels) \div 2
\* generating sequences: distinct letters of either case, never a letter together with its own inverse
GenSeqs == {s \in UNION {[1..m -> Labels] : m \in 0..MaxRank} :
               \A i, j \in 1..Len(s) : i # j => (s[i] # s[j] /\ s[i] # Inv(s[j]))}

FreeLetters(G) == SeqSet(G) \cup {Inv(g) : g \in SeqSet(G)}
FreeV(G) == {""} \cup FreeLetters(G)
FreeE(G) == {<<g, h, h>> : g \in FreeV(G), h \in FreeLetters(G)} \ {<<Inv(h), h, h>> : h \in FreeLetters(G)}

IsReduced(w) == \A i \in 1..(Len(w) - 1) : w[i + 1] # Inv(w[i])

\* walking an edge set whose vertices are strings ("#" = no such path)
FStep(S, v, l) == IF \E e \in S : e[1] = v /\ e[2] = l
                  THEN (CHOOSE e \in S : e[1] = v /\ e[2] = l)[3] ELSE "#"
RECURSIVE FFollow(_, _, _)
FFollow(S, v, w) == IF v = "#" \/ w = <<>> THEN v ELSE FFollow(S, FStep(S, v, Head(w)), Tail(w))
RECURSIVE WordsOver(_, _)
WordsOver(A, k) == IF k = 0 THEN {<<>>} ELSE {Append(w, a) : w \in WordsOver(A, k - 1), a \in A}
WordsUpTo(A, k) == UNION {WordsOver(A, j) : j \in 0..k}

\* the automaton of BuildFree accepts, from "", exactly the freely reduced words, and the state it reaches is
\* the last letter read (checked for every generating sequence of the universe)
FreeAcceptsReduced ==
  \A G \in GenSeqs :
    /\ Det(FreeE(G))
    /\ \A w \in WordsUpTo(FreeLetters(G), 3) :
         /\ (FFollow(FreeE(G), "", w) # "#") <=> IsReduced(w)
         /\ (IsReduced(w) /\ w # <<>>) => FFollow(FreeE(G), "", w) = w[Len(w)]
ASSUME "free" \in Routes => FreeAcceptsReduced

BuildFree(G) ==
  /\ ~built /\ built' = TRUE
  /\ vs' = FreeV(G) /\ E' = FreeE(G)
  /\ last' = [a |-> "build_free", gens |-> G]

BuildNamed(r) ==
  /\ ~built /\ built' = TRUE
  /\ vs' = r.vs /\ E' = r.E
  /\ last' = [a |-> "build_named", name |-> r.name]

(***************************************************************************)
(* What a route yields for a given input: a function of the input alone    *)
(***************************************************************************)
SrcState(s) ==
  CASE s.route = "empty" -> <<{}, {}>>
    [] s.route = "graph" -> <<s.keys \cup Heads(s.edges), s.edges>>
    [] s.route = "out"   -> <<s.keys, s.edges>>
    [] s.route = "free"  -> <<FreeV(s.gens), FreeE(s.gens)>>
    [] s.route = "named" -> LET r == CHOOSE x \in Named : x.name = s.name IN <<r.vs, r.E>>

PairInit ==
  /\ Init
  /\ ovs = {} /\ oE = {} /\ has2 = FALSE /\ cur = 1
  /\ src = [route |-> "none"] /\ budget = Budget /\ hist = <<>>

First ==
  /\ ~built
  /\ \/ "empty" \in Routes /\ BuildEmpty /\ src' = [route |-> "empty"]
     \/ /\ "graph" \in Routes
        /\ \E K \in SUBSET Verts : \E S \in SmallEdgeSets :
              BuildGraphDict(K, S) /\ src' = [route |-> "graph", keys |-> K, edges |-> S]
     \/ /\ "out" \in Routes
        /\ \E K \in SUBSET Verts : \E S \in SmallEdgeSets :
              BuildOutDict(K, S) /\ src' = [route |-> "out", keys |-> K, edges |-> S]
     \/ /\ "free" \in Routes
        /\ \E G \in GenSeqs : BuildFree(G) /\ src' = [route |-> "free", gens |-> G]
     \/ /\ "named" \in Routes
        /\ \E r \in Named : BuildNamed(r) /\ src' = [route |-> "named", name |-> r.name]
  /\ UNCHANGED <<ovs, oE, has2, cur, budget>>

\* an in-place edit of the automaton under the cursor: nothing else changes
Edit ==
  /\ built /\ budget > 0
  /\ MutateK(EditKinds)
  /\ budget' = budget - 1
  /\ UNCHANGED <<ovs, oE, has2, cur, src>>

\* the caller obtains a second automaton; the first one is under the cursor and stays there
Second(p) ==
  /\ built /\ ~has2 /\ has2' = TRUE
  /\ LET st == CASE p = "same_input" -> SrcState(src)          \* whatever happened to the first automaton
                 [] p \in {"graph_view", "out_view", "deepcopy", "rename_copy"} -> <<vs, E>>
                 [] p = "recurrent_copy" -> PruneAll(vs, E)
     IN ovs' = st[1] /\ oE' = st[2]
  /\ UNCHANGED <<vs, E, built, cur, src, budget>>
  /\ last' = [a |-> "second", prov |-> p]

Swap ==
  /\ built /\ has2 /\ budget > 0 /\ last.a # "swap"
  /\ vs' = ovs /\ E' = oE /\ ovs' = vs /\ oE' = E /\ cur' = 3 - cur
  /\ UNCHANGED <<built, has2, src, budget>>
  /\ last' = [a |-> "swap"]

StepRec == [act |-> last, vs |-> vs, E |-> E, ovs |-> ovs, oE |-> oE, has2 |-> has2, cur |-> cur]

PairNext ==
  /\ \/ First
     \/ Edit
     \/ \E p \in Provs : Second(p)
     \/ Swap
  /\ hist' = Append(hist, StepRec')

(***************************************************************************)
(* Invariants checked by TLC on the model                                  *)
(***************************************************************************)
PairTypeOK ==
  /\ TypeOK
  /\ ovs \subseteq Verts /\ oE \subseteq Edge
  /\ has2 \in BOOLEAN /\ cur \in {1, 2} /\ budget \in 0..Budget
  /\ (~has2) => (cur = 1 /\ ovs = {} /\ oE = {})

\* both automata are automata at every step
OtherDeterministic == Det(oE)
OtherNoDangling == Tails(oE) \cup Heads(oE) \subseteq ovs

\* every route yields an automaton, and the first automaton starts as what its route says
SrcIsAutomaton ==
  built => LET st == SrcState(src) IN
           /\ Det(st[2]) /\ Tails(st[2]) \cup Heads(st[2]) \subseteq st[1]
           /\ hist # <<>> /\ hist[1].vs = st[1] /\ hist[1].E = st[2]

\* frame: along the recorded history, a step that is not an edit, a swap or the first construction leaves the
\* automaton under the cursor as it was, and only Second and Swap change the other one
Frame ==
  \A i \in 2..Len(hist) :
    LET p == hist[i - 1]  q == hist[i] IN
    /\ (q.act.a = "second") => (q.vs = p.vs /\ q.E = p.E /\ ~p.has2 /\ q.has2)
    /\ (q.act.a = "swap") => (q.vs = p.ovs /\ q.E = p.oE /\ q.ovs = p.vs /\ q.oE = p.E)
    /\ (q.act.a \notin {"second", "swap"}) => (q.ovs = p.ovs /\ q.oE = p.oE /\ q.cur = p.cur)

(***************************************************************************)
(* Emission: one line per complete history                                 *)
(***************************************************************************)
Complete == has2 /\ budget = 0 /\ last.a # "swap"
EmitHist == Complete => PrintT("HIST " \o ToJson([src |-> src, steps |-> hist]))
=============================================================================
