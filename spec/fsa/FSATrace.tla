------------------------------ MODULE FSATrace ------------------------------
(***************************************************************************)
(* Trace validation (code -> spec) for FSA.  A trace file (JSON) holds a    *)
(* sequence of histories; each history is a sequence of events recorded    *)
(* from the real object: the public call, its arguments, its result, and   *)
(* the three views of the object after the call.  A history is accepted    *)
(* iff every event is a step of FSA.tla's action for that call, the logged *)
(* result is the value FSAOps.tla specifies, and every logged view equals  *)
(* the specification's post-state (each edge listed exactly once).         *)
(* All histories of a file are validated in one TLC run (variable tid).    *)
(***************************************************************************)
EXTENDS FSA, Integers, IOUtils, SequencesExt

VARIABLES tid, l

Ops == INSTANCE FSAOps WITH Start <- 0, MaxLen <- 3, MaxMult <- 3, Foreign <- "z"

Traces == JsonDeserialize(IOEnv.TRACE_FILE)
Verbose == "TRACE_VERBOSE" \in DOMAIN IOEnv /\ IOEnv.TRACE_VERBOSE = "1"

SetOf(s) == {s[i] : i \in 1..Len(s)}
EdgesOf(s) == {<<s[i][1], s[i][2], s[i][3]>> : i \in 1..Len(s)}
NoDup(s) == Cardinality(SetOf(s)) = Len(s)

\* the three logged views describe exactly (V, S), no edge twice
ViewsAre(p, V, S) ==
  /\ SetOf(p.gk) = V /\ SetOf(p.ok) = V /\ SetOf(p.ik) \subseteq V
  /\ EdgesOf(p.ge) = S /\ NoDup(p.ge)
  /\ EdgesOf(p.oe) = S /\ NoDup(p.oe)
  /\ EdgesOf(p.ie) = S /\ NoDup(p.ie)
  \* adjacency listed by the outgoing / incoming view (entries with an empty label list count)
  /\ {<<x[1], x[2]>> : x \in SetOf(p.on)} = {<<e[1], e[3]>> : e \in S}
  /\ {<<x[1], x[2]>> : x \in SetOf(p.inn)} = {<<e[3], e[1]>> : e \in S}

Post(ev) == ViewsAre(ev.post, vs', E')

StartOK == 0 \in vs

WordOf(s) == s   \* words are logged as sequences of labels

TraceInit == /\ Init
             /\ tid \in 1..Len(Traces)
             /\ l = 0

\* add_edges(list of (t, h, l))
AddEdges(S) ==
  /\ built /\ Det(E \cup S)
  /\ vs' = vs \cup Tails(S) \cup Heads(S) /\ E' = E \cup S /\ UNCHANGED built
  /\ last' = [a |-> "add_edges"]

Pure == Query

Step(ev) ==
  \/ /\ ev.op = "build_empty" /\ BuildEmpty
  \/ /\ ev.op = "build_graph_dict" /\ BuildGraphDict(SetOf(ev.keys), EdgesOf(ev.edges))
  \/ /\ ev.op = "build_out_dict" /\ BuildOutDict(SetOf(ev.keys), EdgesOf(ev.edges))
  \/ /\ ev.op = "add_vertices" /\ AddVertices(SetOf(ev.vertices))
  \/ /\ ev.op = "add_edge" /\ AddEdge(ev.t, ev.h, ev.l)
  \/ /\ ev.op = "add_edge_list" /\ AddEdgeList(ev.t, ev.h, SetOf(ev.ls))
  \/ /\ ev.op = "add_edges" /\ AddEdges(EdgesOf(ev.edges))
  \/ /\ ev.op = "delete_vertex" /\ DeleteVertex(ev.v)
  \/ /\ ev.op = "delete_vertices" /\ DeleteVertices(SetOf(ev.vertices))
  \/ /\ ev.op = "recurrent_inplace" /\ RecurrentInPlace
  \/ /\ ev.op = "rename_inplace" /\ RenameInPlace(ev.m)
  \/ /\ ev.op = "copy" /\ Copy
  \* ---- read-only queries: state unchanged, result as specified
  \/ /\ ev.op = "has_edge" /\ Pure /\ ev.res = HasEdge(ev.t, ev.h)
  \/ /\ ev.op = "edge_labels" /\ Pure /\ SetOf(ev.res) = EdgeLabels(ev.t, ev.h) /\ NoDup(ev.res)
  \/ /\ ev.op = "neighbors_out" /\ Pure /\ SetOf(ev.res) = NeighborsOut(ev.v)
  \/ /\ ev.op = "neighbors_in" /\ Pure /\ SetOf(ev.res) = NeighborsIn(ev.v)
  \/ /\ ev.op = "accepts" /\ Pure /\ StartOK /\ ev.res = Ops!Accepts(E, 0, ev.w)
  \/ /\ ev.op = "follow" /\ Pure /\ ev.res = Ops!Follow(E, ev.v, ev.w)
  \/ /\ ev.op = "prefix" /\ Pure /\ StartOK /\ ev.res = Ops!PrefixLen(E, 0, ev.w)
  \/ /\ ev.op = "enumerate" /\ Pure
     /\ {<<p[1], p[2]>> : p \in SetOf(ev.res)} = Ops!Paths(E, ev.v, ev.k) /\ NoDup(ev.res)
  \/ /\ ev.op = "enumerate_words" /\ Pure
     /\ {<<p[1], p[2]>> : p \in SetOf(ev.res)} = Ops!WordsUpToLen(E, ev.v, ev.k) /\ NoDup(ev.res)
  \* ---- operations returning a new automaton: original unchanged, result as specified
  \/ /\ ev.op = "recurrent_copy" /\ Pure
     /\ ViewsAre(ev.res, Ops!PruneAll(vs, E)[1], Ops!PruneAll(vs, E)[2])
  \/ /\ ev.op = "multiple" /\ Pure /\ StartOK
     /\ ViewsAre(ev.res, Ops!MultV(E, 0, ev.k), Ops!MultE(E, 0, ev.k))
  \/ /\ ev.op = "short" /\ Pure
     /\ ViewsAre(ev.res, vs, Ops!ShortE(E, ev.root))
  \/ /\ ev.op = "rename_copy" /\ Pure
     /\ ViewsAre(ev.res, vs, {<<e[1], ev.m[e[2]], e[3]>> : e \in E})

TraceNext ==
  /\ l < Len(Traces[tid])
  /\ l' = l + 1 /\ UNCHANGED tid
  /\ LET ev == Traces[tid][l + 1] IN Step(ev) /\ Post(ev)

TraceSpec == TraceInit /\ [][TraceNext]_<<vars, last, tid, l>>

\* printed once per accepted history; with TRACE_VERBOSE=1 the progress of every history
Accepted ==
  /\ (l = Len(Traces[tid])) => PrintT("ACCEPT " \o ToString(tid))
  /\ Verbose => PrintT("AT " \o ToString(tid) \o " " \o ToString(l))

TraceView == <<vars, tid, l>>
=============================================================================
