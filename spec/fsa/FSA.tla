------------------------------- MODULE FSA -------------------------------
(***************************************************************************)
(* Reference semantics of geometry_tools.automata.fsa.FSA as a state       *)
(* machine.  The abstract state is what the three dictionaries of the      *)
(* implementation (label view `graph_dict`, outgoing view `out_dict`,      *)
(* incoming view `in_dict`) are supposed to describe: a vertex set and a   *)
(* deterministic set of labelled edges.  One action per public mutating    *)
(* method; read-only queries are specified by the operators in section     *)
(* "Views and queries" and exercised by the Query action (state unchanged).*)
(*                                                                         *)
(* Property C09: in every reachable state, every view equals (vs, E).      *)
(***************************************************************************)
EXTENDS Naturals, Sequences, FiniteSets, TLC, Json

CONSTANTS Verts,        \* universe of vertex names (small naturals)
          Labels,       \* universe of edge labels (strings)
          MaxBuildEdges \* bound on the number of edges of a dictionary passed to the constructor

VARIABLES vs,     \* set of vertices
          E,      \* set of edges <<tail, label, head>>
          built,  \* FALSE before the constructor ran
          last    \* label of the transition that produced this state (hidden by VIEW)

vars == <<vs, E, built>>

Edge == Verts \X Labels \X Verts
Tails(S) == {e[1] : e \in S}
Heads(S) == {e[3] : e \in S}

\* at most one head per (tail, label): the defining constraint of an automaton
Det(S) == \A e1, e2 \in S : (e1[1] = e2[1] /\ e1[2] = e2[2]) => e1[3] = e2[3]

TypeOK == /\ vs \subseteq Verts
          /\ E \subseteq Edge
          /\ built \in BOOLEAN

(***************************************************************************)
(* Views and queries (specified results of the read-only API)              *)
(***************************************************************************)
LabelView(v) == {<<e[2], e[3]>> : e \in {f \in E : f[1] = v}}        \* graph_dict[v].items()
OutView(v)   == {<<e[3], e[2]>> : e \in {f \in E : f[1] = v}}        \* (head, label) in out_dict[v]
InView(v)    == {<<e[1], e[2]>> : e \in {f \in E : f[3] = v}}        \* (tail, label) in in_dict[v]
NeighborsOut(v) == {e[3] : e \in {f \in E : f[1] = v}}
NeighborsIn(v)  == {e[1] : e \in {f \in E : f[3] = v}}
EdgeLabels(t, h) == {e[2] : e \in {f \in E : f[1] = t /\ f[3] = h}}
HasEdge(t, h) == EdgeLabels(t, h) # {}

\* the greatest sub-automaton in which every vertex has an incoming and an outgoing edge
RECURSIVE PruneAll(_, _)
PruneAll(V, S) ==
  LET dead == {v \in V : (\A e \in S : e[1] # v) \/ (\A e \in S : e[3] # v)}
  IN IF dead = {} THEN <<V, S>>
     ELSE PruneAll(V \ dead, {e \in S : e[1] \notin dead /\ e[3] \notin dead})

(***************************************************************************)
(* Constructor routes                                                      *)
(***************************************************************************)
SmallEdgeSets == {S \in SUBSET Edge : Cardinality(S) <= MaxBuildEdges /\ Det(S)}

Init == vs = {} /\ E = {} /\ built = FALSE /\ last = [a |-> "none"]

\* FSA(): the empty automaton
BuildEmpty ==
  /\ ~built /\ built' = TRUE /\ vs' = {} /\ E' = {}
  /\ last' = [a |-> "build_empty"]

\* FSA({v: {label: head}}): keys K; heads that are not keys become ("hidden") vertices
BuildGraphDict(K, S) ==
  /\ ~built /\ built' = TRUE
  /\ Tails(S) \subseteq K
  /\ vs' = K \cup Heads(S) /\ E' = S
  /\ last' = [a |-> "build_graph_dict", keys |-> K, edges |-> S]

\* FSA({v: {head: [labels]}}, graph_dict=False): every head is a key
BuildOutDict(K, S) ==
  /\ ~built /\ built' = TRUE
  /\ Tails(S) \cup Heads(S) \subseteq K
  /\ vs' = K /\ E' = S
  /\ last' = [a |-> "build_out_dict", keys |-> K, edges |-> S]

(***************************************************************************)
(* Mutating methods                                                        *)
(***************************************************************************)
AddVertices(S) ==
  /\ built /\ vs' = vs \cup S /\ UNCHANGED <<E, built>>
  /\ last' = [a |-> "add_vertices", vertices |-> S]

\* add_edges([(t, h, l)]): inserting a second head for (t, l) is outside the domain of the
\* property (the result would not be an automaton); re-adding an existing edge is a no-op.
AddEdge(t, h, l) ==
  /\ built /\ Det(E \cup {<<t, l, h>>})
  /\ vs' = vs \cup {t, h} /\ E' = E \cup {<<t, l, h>>} /\ UNCHANGED built
  /\ last' = [a |-> "add_edge", t |-> t, h |-> h, l |-> l]

\* add_edges([(t, h, Ls)], elist=True)
AddEdgeList(t, h, Ls) ==
  LET new == {<<t, l, h>> : l \in Ls} IN
  /\ built /\ Det(E \cup new)
  /\ vs' = vs \cup {t, h} /\ E' = E \cup new /\ UNCHANGED built
  /\ last' = [a |-> "add_edge_list", t |-> t, h |-> h, ls |-> Ls]

\* add_edges([e1, e2]) : one call, two edges
AddTwoEdges(e1, e2) ==
  LET new == {e1, e2} IN
  /\ built /\ e1 # e2 /\ Det(E \cup new)
  /\ vs' = vs \cup Tails(new) \cup Heads(new) /\ E' = E \cup new /\ UNCHANGED built
  /\ last' = [a |-> "add_two_edges", e1 |-> e1, e2 |-> e2]

DeleteVertex(v) ==
  /\ built /\ v \in vs
  /\ vs' = vs \ {v} /\ E' = {e \in E : e[1] # v /\ e[3] # v} /\ UNCHANGED built
  /\ last' = [a |-> "delete_vertex", v |-> v]

DeleteVertices(S) ==
  /\ built /\ S \subseteq vs
  /\ vs' = vs \ S /\ E' = {e \in E : e[1] \notin S /\ e[3] \notin S} /\ UNCHANGED built
  /\ last' = [a |-> "delete_vertices", vertices |-> S]

RecurrentInPlace ==
  /\ built
  /\ LET r == PruneAll(vs, E) IN vs' = r[1] /\ E' = r[2]
  /\ UNCHANGED built
  /\ last' = [a |-> "recurrent_inplace"]

\* rename_generators(m, inplace=True) for a bijection m of the label universe
RenameInPlace(m) ==
  /\ built
  /\ E' = {<<e[1], m[e[2]], e[3]>> : e \in E} /\ UNCHANGED <<vs, built>>
  /\ last' = [a |-> "rename_inplace", m |-> m]

\* copy.deepcopy(fsa): the copy replaces the object under test
Copy == /\ built /\ UNCHANGED vars /\ last' = [a |-> "copy"]

\* any read-only query: has_edge, edge_labels, edge_label, neighbors_*, edges_*, edges, vertices
Query == /\ built /\ UNCHANGED vars /\ last' = [a |-> "query"]

Bij(S) == {m \in [S -> S] : \A x, y \in S : m[x] = m[y] => x = y}

\* every in-place edit of the public API (one disjunct per mutating method / calling convention);
\* MutateK(Ks) restricts to the actions whose name (field a of last) is in Ks
AllKinds == {"add_vertices", "add_edge", "add_edge_list", "add_two_edges", "delete_vertex", "delete_vertices",
             "recurrent_inplace", "rename_inplace"}
MutateK(Ks) ==
  \/ "add_vertices" \in Ks /\ \E S \in (SUBSET Verts) \ {{}} : AddVertices(S)
  \/ "add_edge" \in Ks /\ \E t, h \in Verts : \E l \in Labels : AddEdge(t, h, l)
  \/ "add_edge_list" \in Ks /\ \E t, h \in Verts : \E Ls \in {L \in SUBSET Labels : Cardinality(L) >= 2} : AddEdgeList(t, h, Ls)
  \/ "add_two_edges" \in Ks /\ \E e1, e2 \in Edge :
        /\ \/ (e1[1] = e2[1] /\ e1[3] = e2[3])      \* parallel edges in one call
           \/ (e1[1] = e2[3] /\ e1[3] = e2[1])      \* an edge and its reverse in one call
        /\ AddTwoEdges(e1, e2)
  \/ "delete_vertex" \in Ks /\ \E v \in Verts : DeleteVertex(v)
  \/ "delete_vertices" \in Ks /\ \E S \in {T \in SUBSET Verts : Cardinality(T) = 2} : DeleteVertices(S)
  \/ "recurrent_inplace" \in Ks /\ RecurrentInPlace
  \/ "rename_inplace" \in Ks /\ \E m \in Bij(Labels) : RenameInPlace(m)
Mutate == MutateK(AllKinds)

Next ==
  \/ BuildEmpty
  \/ \E K \in SUBSET Verts : \E S \in SmallEdgeSets : BuildGraphDict(K, S) \/ BuildOutDict(K, S)
  \/ Mutate
  \/ Copy
  \/ Query

Spec == Init /\ [][Next]_<<vars, last>>

(***************************************************************************)
(* Invariants checked by TLC on the model                                  *)
(***************************************************************************)
Deterministic == Det(E)
NoDangling == Tails(E) \cup Heads(E) \subseteq vs
\* the three views are three presentations of one relation
ViewsAgree ==
  \A v \in vs :
    /\ {<<v, p[1], p[2]>> : p \in LabelView(v)} = {<<v, p[2], p[1]>> : p \in OutView(v)}
    /\ \A w \in vs : (\E l \in Labels : <<w, l>> \in OutView(v)) <=> (\E l \in Labels : <<v, l>> \in InView(w))
\* the recurrent version is a fixed point and is the greatest one
RecurrentIsGreatest ==
  LET r == PruneAll(vs, E) IN
  /\ \A v \in r[1] : (\E e \in r[2] : e[1] = v) /\ (\E e \in r[2] : e[3] = v)
  /\ \A V \in SUBSET vs :
       (\A v \in V : (\E e \in E : e[1] = v /\ e[3] \in V) /\ (\E e \in E : e[3] = v /\ e[1] \in V))
         => V \subseteq r[1]

(***************************************************************************)
(* Emission of the labelled transition system for conformance replay       *)
(***************************************************************************)
StateRec(V, S, b) == [vs |-> V, E |-> S, built |-> b]
Emit == PrintT("EMIT " \o ToJson([from |-> StateRec(vs, E, built), act |-> last',
                                    to |-> StateRec(vs', E', built')]))
View == vars
=============================================================================
