------------------------------ MODULE FormOps ------------------------------
(***************************************************************************)
(* Exact linear algebra over the integers for property C18 (the indefinite *)
(* linear-algebra helpers): pure operators, no state.                      *)
(*                                                                         *)
(*  - GJ        fraction-free Gauss-Jordan elimination (Bareiss): rank,    *)
(*              determinant, pivot columns, an integer kernel basis, the   *)
(*              rational solution of a square system                       *)
(*  - FDot      pairing of integer vectors by an integer symmetric form    *)
(*  - NewU      one step of the fraction-free Gram-Schmidt recurrence:     *)
(*              for rows v_1..v_i with leading Gram minors D_1..D_i the    *)
(*              orthogonalised row is w_i = u_i / D_{i-1} with u_i an      *)
(*              INTEGER vector and <w_i, w_i> = D_i / D_{i-1}              *)
(*  - RGS       the textbook (modified) Gram-Schmidt in rationals, i.e.    *)
(*              the recursion the library performs, used as a theorem      *)
(*              RGS = u/D on small universes                               *)
(*  - Jacobi    signature of a symmetric integer matrix from the signs of  *)
(*              its leading principal minors                               *)
(*  - Centre    centre of the sphere through m+1 points of Z^m             *)
(*                                                                         *)
(* TLC integers are 32 bit and TLC aborts on overflow.  Every multiplying  *)
(* operator that is used on a seed-dependent universe is guarded (Bnd,     *)
(* GBnd) and reports failure instead of multiplying large numbers.         *)
(***************************************************************************)
EXTENDS IntLinAlg, Naturals, FiniteSets, TLC

Bnd == 2000       \* bound on |u_i[c]| and |D_i| for a Gram-Schmidt state to be extended
GBnd == 30000     \* bound on matrix entries inside the elimination (2 * GBnd^2 < 2^31)

Neg1 == 0 - 1
Big(v) == \E c \in 1..Len(v) : Abs(v[c]) > Bnd
Supp(v) == Cardinality({c \in 1..Len(v) : v[c] # 0})
ZeroVec(n) == [c \in 1..n |-> 0]
Prefix(s, k) == [i \in 1..k |-> s[i]]
RECURSIVE SetSeq(_)
SetSeq(S) == IF S = {} THEN <<>> ELSE LET x == CHOOSE y \in S : TRUE IN <<x>> \o SetSeq(S \ {x})

(***************************************************************************)
(* Similarity factors.  The contracts of C18 are covariant under scaling:  *)
(* sphere(c (P + t)) = (c (centre + t), |c| radius); kernels, normalised   *)
(* Gram-Schmidt rows and signatures do not change when rows (or the form)  *)
(* are multiplied by positive factors.  The specifications check these     *)
(* laws exactly for small integer factors and name, per record, the exact  *)
(* rational factors (powers of ten) the harness has to apply.              *)
(***************************************************************************)
ScaleTable == <<R(1, 1000000), R(1, 1000), R(1000, 1), R(0 - 1, 1000), R(1, 1)>>   \* any sign (similarities)
PosScaleTable == <<R(1, 1000), R(1000, 1), R(1, 1)>>                               \* positive factors
FoPick(tab, k) == tab[(k % Len(tab)) + 1]
\* a cheap state-dependent index so that neighbouring records get different factors
FoWeight(M) == ISum([i \in 1..Len(M) |-> ISum([c \in 1..Len(M[i]) |-> (i + 2 * c) * Abs(M[i][c])])])

DiagMat(e) == [i \in 1..Len(e) |-> [j \in 1..Len(e) |-> IF i = j THEN e[i] ELSE 0]]
IsSym(G) == \A i, j \in 1..Len(G) : G[i][j] = G[j][i]
\* <u, v>_G = u^T G v
FDot(u, v, G) == Dot(u, MatVec(G, v))
Gram(M, G) == TLCEval([i \in 1..Len(M) |-> [j \in 1..Len(M) |-> FDot(M[i], M[j], G)]])

(***************************************************************************)
(* Fraction-free Gauss-Jordan elimination.                                 *)
(* After the step with pivot p every earlier pivot entry equals p, every   *)
(* other entry of a pivot column is 0, and every division by the previous  *)
(* pivot is exact (Sylvester's identity) -- `exact` records that it was.   *)
(***************************************************************************)
SwapRows(A, i, j) == [k \in 1..Len(A) |-> IF k = i THEN A[j] ELSE IF k = j THEN A[i] ELSE A[k]]

RECURSIVE GJ(_, _, _, _, _, _, _)
GJ(A, r, c, prev, sgn, pc, ok) ==
  LET m == Len(A)
      nc == Len(A[1])
  IN IF r = m \/ c > nc
     THEN [A |-> A, rank |-> r, piv |-> prev, sgn |-> sgn, pc |-> pc, ok |-> ok]
     ELSE IF \A i \in (r + 1)..m : A[i][c] = 0
          THEN GJ(A, r, c + 1, prev, sgn, pc, ok)
          ELSE LET i0 == CHOOSE i \in (r + 1)..m : A[i][c] # 0 /\ \A k \in (r + 1)..(i - 1) : A[k][c] = 0
                   B == TLCEval(SwapRows(A, r + 1, i0))
                   p == B[r + 1][c]
                   small == \A i \in 1..m : \A j \in 1..nc : Abs(B[i][j]) <= GBnd
                   num(i, j) == p * B[i][j] - B[i][c] * B[r + 1][j]
                   \* TLCEval: force the (otherwise lazily re-evaluated) function into a tuple
                   C == TLCEval([i \in 1..m |-> IF i = r + 1 THEN B[i]
                                                ELSE TLCEval([j \in 1..nc |-> num(i, j) \div prev])])
                   exact == \A i \in 1..m : i # r + 1 => \A j \in 1..nc : num(i, j) % Abs(prev) = 0
               IN IF ~small
                  THEN [A |-> A, rank |-> r, piv |-> prev, sgn |-> sgn, pc |-> pc, ok |-> FALSE]
                  ELSE GJ(C, r + 1, c + 1, p, IF i0 = r + 1 THEN sgn ELSE 0 - sgn, Append(pc, c), ok /\ exact)

Elim(A) == GJ(A, 0, 1, 1, 1, <<>>, TRUE)

\* rank of a matrix with at least one row
RankOf(A) == IF A = <<>> THEN 0 ELSE Elim(A).rank
\* determinant of a square matrix (n >= 1)
DetOf(A) == LET e == Elim(A) IN IF e.rank < Len(A) THEN 0 ELSE e.sgn * e.piv
ElimOk(A) == A = <<>> \/ Elim(A).ok

\* integer basis of {x : A x = 0}: one vector per free column f, x[f] = pivot,
\* x[pivot column of row i] = -A'[i][f]
KernelBasis(A) ==
  LET e == Elim(A)
      nc == Len(A[1])
      pcs == {e.pc[i] : i \in 1..e.rank}
      free == {f \in 1..nc : f \notin pcs}
      rowOf(c) == CHOOSE i \in 1..e.rank : e.pc[i] = c
  IN {TLCEval([c \in 1..nc |-> IF c = f THEN e.piv
                               ELSE IF c \in pcs THEN 0 - e.A[rowOf(c)][f] ELSE 0]) : f \in free}

\* unique solution of the square system A x = b (A non-singular), as rationals
Solve(A, b) ==
  LET n == Len(A)
      aug == TLCEval([i \in 1..n |-> Append(A[i], b[i])])
      e == Elim(aug)
  IN [i \in 1..n |-> R(e.A[i][n + 1], e.piv)]
Solvable(A) == RankOf(A) = Len(A)

(***************************************************************************)
(* Fraction-free Gram-Schmidt.  Us = <<u_1..u_{i-1}>>, Ds = <<D_1..D_{i-1}>>*)
(* t_0 = v,  t_j = (D_j t_{j-1} - <v,u_j> u_j) / D_{j-1},  u_i = t_{i-1},  *)
(* D_i = <v, u_i>.  Returns <<>> if an intermediate exceeds Bnd.           *)
(***************************************************************************)
Dm(Ds, j) == IF j = 0 THEN 1 ELSE Ds[j]

RECURSIVE Resid(_, _, _, _, _, _)
Resid(G, v, Us, Ds, j, t) ==
  IF j > Len(Us) THEN t
  ELSE IF Big(t) THEN <<>>
  ELSE LET lam == FDot(v, Us[j], G)
       IN Resid(G, v, Us, Ds, j + 1,
                TLCEval([c \in 1..Len(v) |-> (Ds[j] * t[c] - lam * Us[j][c]) \div Dm(Ds, j - 1)]))
NewU(G, v, Us, Ds) == Resid(G, v, Us, Ds, 1, v)

\* the whole recurrence from scratch: [U, D, ok]; ok = FALSE when a size guard or a zero minor stops it
RECURSIVE GSAll(_, _, _)
GSAll(G, M, i) ==
  IF i = 0 THEN [U |-> <<>>, D |-> <<>>, ok |-> TRUE]
  ELSE LET g == GSAll(G, M, i - 1) IN
       IF ~g.ok THEN g
       ELSE LET u == NewU(G, M[i], g.U, g.D) IN
            IF u = <<>> \/ Big(u) THEN [U |-> g.U, D |-> g.D, ok |-> FALSE]
            ELSE LET d == FDot(M[i], u, G) IN
                 IF d = 0 \/ Abs(d) > Bnd THEN [U |-> g.U, D |-> g.D, ok |-> FALSE]
                 ELSE [U |-> Append(g.U, u), D |-> Append(g.D, d), ok |-> TRUE]

\* sign of <w_i, w_i> = D_i / D_{i-1}
Eps(Ds, i) == Sgn(Ds[i]) * Sgn(Dm(Ds, i - 1))

(***************************************************************************)
(* Gram-Schmidt as the library performs it (row -= projection(row, w_j)    *)
(* for j = 1..i-1, in this order, on the running row), in rationals.       *)
(***************************************************************************)
RFDot(x, y, G) == RSum([a \in 1..Len(x) |-> RMul(x[a], RSum([b \in 1..Len(y) |-> RMul(RInt(G[a][b]), y[b])]))])
RProj(x, w, G) == RScale(RDiv(RFDot(x, w, G), RFDot(w, w, G)), w)
RECURSIVE RGSRow(_, _, _, _)
RGSRow(G, row, Ws, j) == IF j > Len(Ws) THEN row ELSE RGSRow(G, RVSub(row, RProj(row, Ws[j], G)), Ws, j + 1)
RECURSIVE RGS(_, _, _)
RGS(G, M, i) == IF i = 0 THEN <<>>
                ELSE LET Ws == RGS(G, M, i - 1) IN Append(Ws, RGSRow(G, RVec(M[i]), Ws, 1))

(***************************************************************************)
(* Signature                                                               *)
(***************************************************************************)
LeadMinor(G, k) == DetOf(TLCEval([i \in 1..k |-> [j \in 1..k |-> G[i][j]]]))
LeadMinors(G) == TLCEval([k \in 1..Len(G) |-> LeadMinor(G, k)])
\* Jacobi: with all leading minors non-zero, the number of negative squares is the number of
\* sign changes in 1, m_1, ..., m_n
JacobiDefined(ms) == \A k \in 1..Len(ms) : ms[k] # 0
JacobiNeg(ms) == Cardinality({k \in 1..Len(ms) : Sgn(ms[k]) # Sgn(Dm(ms, k - 1))})

\* the orders diagonalize_form promises, as sign sequences: p positive and q negative squares
Signs(k, s) == [i \in 1..k |-> s]
SignedOrder(p, q) == Signs(q, Neg1) \o Signs(p, 1)                       \* increasing eigenvalue
MinkowskiOrders(p, q) == IF q < p THEN {Signs(q, Neg1) \o Signs(p, 1)}   \* rarer sign first
                         ELSE IF p < q THEN {Signs(p, 1) \o Signs(q, Neg1)}
                         ELSE {Signs(q, Neg1) \o Signs(p, 1), Signs(p, 1) \o Signs(q, Neg1)}
Reverse(s) == [i \in 1..Len(s) |-> s[Len(s) + 1 - i]]

(***************************************************************************)
(* Spheres: centre of the sphere through P[1..m+1] in Z^m                  *)
(*   2 (P[j] - P[1]) . x = |P[j]|^2 - |P[1]|^2,  j = 2..m+1                *)
(***************************************************************************)
SphereA(P) == [j \in 1..(Len(P) - 1) |-> VScale(2, VSub(P[j + 1], P[1]))]
SphereB(P) == [j \in 1..(Len(P) - 1) |-> Dot(P[j + 1], P[j + 1]) - Dot(P[1], P[1])]
AffIndep(P) == Len(P) <= 1 \/ RankOf([j \in 1..(Len(P) - 1) |-> VSub(P[j + 1], P[1])]) = Len(P) - 1
Centre(P) == Solve(SphereA(P), SphereB(P))
RDist2(x, p) == RNormSq(RVSub(x, RVec(p)))
=============================================================================
