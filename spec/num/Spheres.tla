------------------------------ MODULE Spheres ------------------------------
(***************************************************************************)
(* Property C18, part 3: the sphere through N+1 points of R^N in general   *)
(* position.  A behaviour picks points one at a time; a point is accepted  *)
(* only if the points picked so far stay affinely independent (general     *)
(* position is this exact predicate).  Two universes:                      *)
(*   Shell = FALSE : arbitrary points of the box [-Rng, Rng]^N; the centre *)
(*                   is the rational solution of the linear system         *)
(*                   2 (P_j - P_1).x = |P_j|^2 - |P_1|^2                   *)
(*   Shell = TRUE  : points ctr + d with |d|^2 = R2 (3^2+4^2 = 5^2+0^2,    *)
(*                   1+4+4 = 9+0+0, ...), so centre and radius are known   *)
(*                   by construction                                       *)
(* TLC checks that the solved centre is equidistant from all the points    *)
(* (exact integers, common denominator) and, in the shell universe, that   *)
(* it is the centre the points were built around with squared radius R2.   *)
(***************************************************************************)
EXTENDS FormOps, Json

CONSTANTS N,        \* dimension of the ambient space (N+1 points)
          Rng,      \* box of points (Shell = FALSE) or of the centre (Shell = TRUE)
          Shell,    \* BOOLEAN
          R2,       \* squared radius of the shell
          ShellBox  \* shell vectors have entries in -ShellBox..ShellBox

VARIABLES P, ctr,
          sol       \* solved centre of the N+1 points: [a, d] meaning a / d (<<>> before that)

ShellVecs == {d \in Box(N, ShellBox) : Dot(d, d) = R2}
Cands == IF Shell THEN {VAdd(ctr, d) : d \in ShellVecs} ELSE Box(N, Rng)

Init == /\ P = <<>> /\ sol = <<>>
        /\ ctr \in (IF Shell THEN Box(N, Rng) ELSE {ZeroVec(N)})

\* centre = a / d with one common denominator: Gauss-Jordan on the augmented system
Sys(Q) == Elim(TLCEval([j \in 1..(Len(Q) - 1) |-> Append(SphereA(Q)[j], SphereB(Q)[j])]))
Sol(Q) == LET e == Sys(Q) IN [a |-> TLCEval([i \in 1..N |-> e.A[i][N + 1]]), d |-> e.piv, ok |-> e.ok /\ e.rank = N]
SmallSol(Q, s) == /\ s.ok /\ Abs(s.d) <= 20000
                  /\ \A j \in 1..Len(Q) : \A c \in 1..N : Abs(s.a[c] - s.d * Q[j][c]) <= 20000

AddPoint(p) ==
  /\ Len(P) <= N
  /\ LET Q == Append(P, p) IN
       /\ AffIndep(Q)
       /\ P' = Q
       /\ IF Len(Q) = N + 1
          THEN LET s == Sol(Q) IN SmallSol(Q, s) /\ sol' = s      \* size guard: no 32-bit overflow below
          ELSE sol' = <<>>
  /\ UNCHANGED ctr
Next == \E p \in Cands : AddPoint(p)

Full == Len(P) = N + 1
\* d^2 |x - P_j|^2 for the solved centre x = a / d
Dist2Num(j) == ISum([c \in 1..N |-> (sol.a[c] - sol.d * P[j][c]) * (sol.a[c] - sol.d * P[j][c])])
CentreRat == [i \in 1..N |-> R(sol.a[i], sol.d)]

GeneralPosition == AffIndep(P)
SystemRegular == Full => sol.ok
Equidistant == Full => \A j \in 2..(N + 1) : Dist2Num(j) = Dist2Num(1)
ShellCentre == (Full /\ Shell) => /\ CentreRat = RVec(ctr)
                                  /\ Dist2Num(1) \div (sol.d * sol.d) = R2
                                  /\ Dist2Num(1) % (sol.d * sol.d) = 0
\* the solution agrees with the generic solver of FormOps
SolveAgrees == Full => Centre(P) = CentreRat
\* the centre does not depend on the order of the points
OrderFree == Full => \A i \in 2..(N + 1) :
                LET Q == [j \in 1..(N + 1) |-> IF j = 1 THEN P[i] ELSE IF j = i THEN P[1] ELSE P[j]]
                    s == Sol(Q)
                IN s.ok => [c \in 1..N |-> R(s.a[c], s.d)] = CentreRat

Obs == [n |-> N, P |-> P, centre |-> CentreRat, r2 |-> R(Dist2Num(1), sol.d * sol.d)]
EmitObs == Full => PrintT("OBS " \o ToJson(Obs))
=============================================================================
