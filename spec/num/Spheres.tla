------------------------------ MODULE Spheres ------------------------------
(***************************************************************************)
(* Property C18, part 3: the sphere through N+1 points of R^N in general   *)
(* position.  A behaviour picks points one at a time; a point is accepted  *)
(* only if the points picked so far stay affinely independent (general     *)
(* position is this exact predicate).  Two universes:                      *)
(*   Shell = FALSE : arbitrary points of the box [-Rng, Rng]^N; the centre *)
(*                   is the rational solution of the linear system         *)
(*                   2 (P_j - P_1).x = |P_j|^2 - |P_1|^2                   *)
(*   Shell = TRUE  : points ctr + d with |d|^2 = R2 (3^2+4^2 = 5^2+0^2,    *)
(*                   1+4+4 = 9+0+0, ...), so centre and radius are known   *)
(*                   by construction                                       *)
(* TLC checks that the solved centre is equidistant from all the points    *)
(* (exact integers, common denominator) and, in the shell universe, that   *)
(* it is the centre the points were built around with squared radius R2.   *)
(***************************************************************************)
EXTENDS FormOps, Json

CONSTANTS N,        \* dimension of the ambient space (N+1 points)
          Rng,      \* box of points (Shell = FALSE) or of the centre (Shell = TRUE)
          Shell,    \* BOOLEAN
          R2,       \* squared radius of the shell
          ShellBox  \* shell vectors have entries in -ShellBox..ShellBox

VARIABLES P, ctr,
          sol       \* solved centre of the N+1 points: [a, d] meaning a / d (<<>> before that)

ShellVecs == {d \in Box(N, ShellBox) : Dot(d, d) = R2}
Cands == IF Shell THEN {VAdd(ctr, d) : d \in ShellVecs} ELSE Box(N, Rng)

Init == /\ P = <<>> /\ sol = <<>>
        /\ ctr \in (IF Shell THEN Box(N, Rng) ELSE {ZeroVec(N)})

\* centre = a / d with one common denominator: Gauss-Jordan on the augmented system
Sys(Q) == Elim(TLCEval([j \in 1..(Len(Q) - 1) |-> Append(SphereA(Q)[j], SphereB(Q)[j])]))
Sol(Q) == LET e == Sys(Q) IN [a |-> TLCEval([i \in 1..N |-> e.A[i][N + 1]]), d |-> e.piv, ok |-> e.ok /\ e.rank = N]
SmallSol(Q, s) == /\ s.ok /\ Abs(s.d) <= 20000
                  /\ \A j \in 1..Len(Q) : \A c \in 1..N : Abs(s.a[c] - s.d * Q[j][c]) <= 20000

AddPoint(p) ==
  /\ Len(P) <= N
  /\ LET Q == Append(P, p) IN
       /\ AffIndep(Q)
       /\ P' = Q
       /\ IF Len(Q) = N + 1
          THEN LET s == Sol(Q) IN SmallSol(Q, s) /\ sol' = s      \* size guard: no 32-bit overflow below
          ELSE sol' = <<>>
  /\ UNCHANGED ctr
Next == \E p \in Cands : AddPoint(p)

Full == Len(P) = N + 1
\* d^2 |x - P_j|^2 for the solved centre x = a / d
Dist2Num(j) == ISum([c \in 1..N |-> (sol.a[c] - sol.d * P[j][c]) * (sol.a[c] - sol.d * P[j][c])])
CentreRat == [i \in 1..N |-> R(sol.a[i], sol.d)]

GeneralPosition == AffIndep(P)
SystemRegular == Full => sol.ok
Equidistant == Full => \A j \in 2..(N + 1) : Dist2Num(j) = Dist2Num(1)
ShellCentre == (Full /\ Shell) => /\ CentreRat = RVec(ctr)
                                  /\ Dist2Num(1) \div (sol.d * sol.d) = R2
                                  /\ Dist2Num(1) % (sol.d * sol.d) = 0
\* the solution agrees with the generic solver of FormOps
SolveAgrees == Full => Centre(P) = CentreRat
\* the centre does not depend on the order of the points
OrderFree == Full => \A i \in 2..(N + 1) :
                LET Q == [j \in 1..(N + 1) |-> IF j = 1 THEN P[i] ELSE IF j = i THEN P[1] ELSE P[j]]
                    s == Sol(Q)
                IN s.ok => [c \in 1..N |-> R(s.a[c], s.d)] = CentreRat

\* Similarity: the sphere through c (P + t) has centre c (centre + t) and squared radius c^2 r^2.
\* Checked exactly for c in {2, 3, -1} and the shift named in the record (size guarded).
Shift == [c \in 1..N |-> ((FoWeight(P) + 3 * c) % 7) - 3]
SimPts(c, t) == [j \in 1..(N + 1) |-> VScale(c, VAdd(P[j], t))]
Similar == Full => \A c \in {2, 3, Neg1} :
             LET Q == TLCEval(SimPts(c, Shift))
                 s == Sol(Q)
                 num == ISum([i \in 1..N |-> (s.a[i] - s.d * Q[1][i]) * (s.a[i] - s.d * Q[1][i])])
             IN SmallSol(Q, s) =>
                  /\ [i \in 1..N |-> R(s.a[i], s.d)]
                       = [i \in 1..N |-> RMul(RInt(c), RAdd(CentreRat[i], RInt(Shift[i])))]
                  /\ Dist2Num(1) <= 100000000 =>
                       R(num, s.d * s.d) = RMul(RInt(c * c), R(Dist2Num(1), sol.d * sol.d))

\* scales / si / shift: the harness replays sphere_through(c (P + shift)) for every c of `scales`
\* (whole batch) and with c = scales[si] per record (mixed batch: tiny and large spheres side by side)
Obs == [n |-> N, P |-> P, centre |-> CentreRat, r2 |-> R(Dist2Num(1), sol.d * sol.d),
        scales |-> ScaleTable, si |-> (FoWeight(P) % Len(ScaleTable)) + 1, shift |-> Shift]
EmitObs == Full => PrintT("OBS " \o ToJson(Obs))
=============================================================================
