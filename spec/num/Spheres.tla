------------------------------ MODULE Spheres ------------------------------
(***************************************************************************)
(* Property C18, part 3: the sphere through N+1 points of R^N in general   *)
(* position.  A behaviour picks points one at a time; a point is accepted  *)
(* only if the points picked so far stay affinely independent (general     *)
(* position is this exact predicate).  Two universes:                      *)
(*   Shell = FALSE : arbitrary points of the box [-Rng, Rng]^N; the centre *)
(*                   is the rational solution of the linear system         *)
(*                   2 (P_j - P_1).x = |P_j|^2 - |P_1|^2                   *)
(*   Shell = TRUE  : points ctr + d with |d|^2 = R2 (3^2+4^2 = 5^2+0^2,    *)
(*                   1+4+4 = 9+0+0, ...), so centre and radius are known   *)
(*                   by construction                                       *)
(* TLC checks that the solved centre is equidistant from all the points    *)
(* (exact integers, common denominator) and, in the shell universe, that   *)
(* it is the centre the points were built around with squared radius R2.   *)
(***************************************************************************)
EXTENDS FormOps, Json

CONSTANTS N,        \* dimension of the ambient space (N+1 points)
          Rng,      \* box of points (Shell = FALSE) or of the centre (Shell = TRUE)
          Shell,    \* BOOLEAN
          R2,       \* squared radius of the shell
          ShellBox  \* shell vectors have entries in -ShellBox..ShellBox

VARIABLES P, ctr

ShellVecs == {d \in Box(N, ShellBox) : Dot(d, d) = R2}
Cands == IF Shell THEN {VAdd(ctr, d) : d \in ShellVecs} ELSE Box(N, Rng)

Init == /\ P = <<>>
        /\ ctr \in (IF Shell THEN Box(N, Rng) ELSE {ZeroVec(N)})

\* centre = num / den with one common denominator
Sys(Q) == Elim(TLCEval([j \in 1..(Len(Q) - 1) |-> Append(SphereA(Q)[j], SphereB(Q)[j])]))
CNum(Q) == LET e == Sys(Q) IN [i \in 1..N |-> e.A[i][N + 1]]
CDen(Q) == Sys(Q).piv
SmallC(Q) == LET a == CNum(Q)
                 d == CDen(Q)
             IN \A j \in 1..Len(Q) : \A c \in 1..N : Abs(a[c] - d * Q[j][c]) <= 20000

AddPoint(p) ==
  /\ Len(P) <= N
  /\ LET Q == Append(P, p) IN
       /\ AffIndep(Q)
       /\ (Len(Q) = N + 1 => Sys(Q).ok /\ Abs(CDen(Q)) <= 20000 /\ SmallC(Q))
       /\ P' = Q
  /\ UNCHANGED ctr
Next == \E p \in Cands : AddPoint(p)

Full == Len(P) = N + 1
\* d^2 |x - P_j|^2 for the solved centre x = a / d
Dist2Num(j) == LET a == CNum(P)
                   d == CDen(P)
               IN ISum([c \in 1..N |-> (a[c] - d * P[j][c]) * (a[c] - d * P[j][c])])

GeneralPosition == AffIndep(P)
SystemRegular == Full => Sys(P).rank = N /\ Sys(P).ok
Equidistant == Full => \A j \in 2..(N + 1) : Dist2Num(j) = Dist2Num(1)
ShellCentre == (Full /\ Shell) => /\ Centre(P) = RVec(ctr)
                                  /\ Dist2Num(1) = R2 * CDen(P) * CDen(P)
\* the centre does not depend on the order of the points
OrderFree == Full => \A i \in 2..(N + 1) :
                LET Q == [j \in 1..(N + 1) |-> IF j = 1 THEN P[i] ELSE IF j = i THEN P[1] ELSE P[j]]
                IN Sys(Q).ok => Centre(Q) = Centre(P)

Obs == [n |-> N, P |-> P, centre |-> Centre(P), r2 |-> R(Dist2Num(1), CDen(P) * CDen(P))]
EmitObs == Full => PrintT("OBS " \o ToJson(Obs))
=============================================================================
