-------------------------------- MODULE Arcs --------------------------------
(***************************************************************************)
(* Property C18, part 4: the arc-ordering helpers.  Angles are integer     *)
(* multiples of pi / Half (Half = 12: multiples of 15 degrees), a point of *)
(* the circle is a residue modulo Full = 2 Half, and the counter-clockwise *)
(* arc from x to y has length (y - x) mod Full.                            *)
(*                                                                         *)
(*  ShortArc(a, b)      the order of {a, b} whose ccw arc is shorter than  *)
(*                      half a turn                    (short_arc)         *)
(*  RightToLeft(a, b)   the order whose second angle has the smaller       *)
(*                      cosine                         (right_to_left)     *)
(*  ArcInclude(a, b, r) the order whose ccw arc contains r  (arc_include)  *)
(*                                                                         *)
(* Each rule is written twice: declaratively (above) and as the arithmetic *)
(* the library performs on representatives (the Lib operators); TLC       *)
(* checks that they agree on the whole domain, plus the laws relating the  *)
(* rules.  One OBS record per state is replayed through the library. Ties  *)
(* on the boundary                                                         *)
(* of a rule (arc exactly half a turn, equal cosines, reference on an end  *)
(* point, coinciding end points) are outside the domain (DShort, DR2L,     *)
(* DInc).                                                                  *)
(***************************************************************************)
EXTENDS Integers, Sequences, FiniteSets, TLC, Json

CONSTANTS Half       \* half a turn, in units of the grid

VARIABLES a, b, ref

Full == 2 * Half
Mod(x) == x % Full
Arc(x, y) == Mod(y - x)                  \* length of the ccw arc from x to y
\* distance to the nearest multiple of a full turn: cos is strictly decreasing in Fold
Fold(x) == IF Mod(x) <= Half THEN Mod(x) ELSE Full - Mod(x)
CosLess(x, y) == Fold(x) > Fold(y)       \* cos x < cos y

\* 1000 cos(k pi / 12), k = 0..12, rounded: the exact order table for Half = 12
Cos12 == <<1000, 966, 866, 707, 500, 259, 0, 0 - 259, 0 - 500, 0 - 707, 0 - 866, 0 - 966, 0 - 1000>>
CosOrderTable == Half = 12 =>
                   \A x, y \in (0 - Full)..Full : CosLess(x, y) <=> Cos12[Fold(x) + 1] < Cos12[Fold(y) + 1]

ShortRange == (1 - Full)..(Full - 1)     \* (-2pi, 2pi)
HalfRange == (0 - Half)..Half            \* [-pi, pi]

Init == /\ a \in ShortRange /\ b \in ShortRange /\ ref \in HalfRange
        /\ (ref = 0 \/ (a \in HalfRange /\ b \in HalfRange))
Next == UNCHANGED <<a, b, ref>>

(***************************************************************************)
(* Declarative rules: results are pairs of residues                        *)
(***************************************************************************)
DShort == Arc(a, b) # 0 /\ Arc(a, b) # Half /\ ref = 0
DR2L == a \in HalfRange /\ b \in HalfRange /\ Fold(a) # Fold(b)
DInc == a \in HalfRange /\ b \in HalfRange /\ Arc(a, b) # 0 /\ Arc(a, ref) # 0 /\ Arc(b, ref) # 0

ShortArc(x, y) == IF Arc(x, y) < Half THEN <<Mod(x), Mod(y)>> ELSE <<Mod(y), Mod(x)>>
RightToLeft(x, y) == IF CosLess(y, x) THEN <<Mod(x), Mod(y)>> ELSE <<Mod(y), Mod(x)>>
ArcInclude(x, y, r) == IF Arc(x, r) < Arc(x, y) THEN <<Mod(x), Mod(y)>> ELSE <<Mod(y), Mod(x)>>

(***************************************************************************)
(* The arithmetic of the library, on representatives                       *)
(***************************************************************************)
Shift(x) == IF x < 0 THEN x + Full ELSE x
LibShort(x, y) == LET lo == IF Shift(x) <= Shift(y) THEN Shift(x) ELSE Shift(y)
                      hi == IF Shift(x) <= Shift(y) THEN Shift(y) ELSE Shift(x)
                  IN IF hi - lo > Half THEN <<hi, lo>> ELSE <<lo, hi>>
LibInclude(x, y, r) == IF Shift(y - x) < Shift(r - x) THEN <<y, x>> ELSE <<x, y>>
Res(p) == <<Mod(p[1]), Mod(p[2])>>

ShortIsLib == DShort => Res(LibShort(a, b)) = ShortArc(a, b)
IncludeIsLib == DInc => Res(LibInclude(a, b, ref)) = ArcInclude(a, b, ref)

(***************************************************************************)
(* Laws                                                                    *)
(***************************************************************************)
IsPerm(p, x, y) == p = <<Mod(x), Mod(y)>> \/ p = <<Mod(y), Mod(x)>>
ArePermutations == /\ IsPerm(ShortArc(a, b), a, b) /\ IsPerm(RightToLeft(a, b), a, b)
                /\ IsPerm(ArcInclude(a, b, ref), a, b)
SwapFree == /\ (DShort => ShortArc(a, b) = ShortArc(b, a))
            /\ (DR2L => RightToLeft(a, b) = RightToLeft(b, a))
            /\ (DInc => ArcInclude(a, b, ref) = ArcInclude(b, a, ref))
ShortIsShort == DShort => LET p == ShortArc(a, b) IN Arc(p[1], p[2]) < Half /\ Arc(p[2], p[1]) > Half
R2LDescends == DR2L => LET p == RightToLeft(a, b) IN CosLess(p[2], p[1])
IncludeContains == DInc => LET p == ArcInclude(a, b, ref) IN
                             /\ Arc(p[1], ref) < Arc(p[1], p[2])        \* ref on the chosen arc
                             /\ Arc(p[2], ref) > Arc(p[2], p[1])        \* and not on the other one
\* a reference on the short arc selects the short arc
IncludeVsShort == (DInc /\ Arc(a, b) # Half) =>
                    LET s == ShortArc(a, b) IN
                    (Arc(s[1], ref) < Arc(s[1], s[2])) <=> (ArcInclude(a, b, ref) = s)
\* rotating everything rotates the answer (the rules live on the circle)
Rot(p, t) == <<Mod(p[1] + t), Mod(p[2] + t)>>
Equivariant == \A t \in 0..(Full - 1) :
                 /\ ShortArc(a + t, b + t) = Rot(ShortArc(a, b), t)
                 /\ ArcInclude(a + t, b + t, ref + t) = Rot(ArcInclude(a, b, ref), t)
\* reflecting in the x-axis keeps cosines: right-to-left commutes with x -> -x
R2LReflect == DR2L => RightToLeft(0 - a, 0 - b) = <<Mod(0 - RightToLeft(a, b)[1]), Mod(0 - RightToLeft(a, b)[2])>>

Obs == [half |-> Half, a |-> a, b |-> b, ref |-> ref,
        dshort |-> DShort, dr2l |-> DR2L, dinc |-> DInc,
        short |-> ShortArc(a, b), r2l |-> RightToLeft(a, b), inc |-> ArcInclude(a, b, ref)]
EmitObs == PrintT("OBS " \o ToJson(Obs))
=============================================================================
