------------------------------- MODULE Frames -------------------------------
(***************************************************************************)
(* Property C18, frame conditions.  The helpers of C18 are QUERIES on the  *)
(* arrays the caller hands over: "the sphere through k+2 points contains   *)
(* all of them", "rows that span the same flag as the input", "a kernel    *)
(* basis is annihilated by the matrix" are statements about the arrays the *)
(* caller holds -- before AND after the call.  So a call must leave every  *)
(* argument buffer as it was given, whatever its memory layout, and asking *)
(* the same question again (or another helper's question in between) must  *)
(* give the same answer.                                                   *)
(*                                                                         *)
(* State machine: the caller owns one buffer per argument of a family of   *)
(* helpers (rows + form, a form, a matrix, points, angles + reference),    *)
(* laid out in memory in one of several ways, and performs a history of    *)
(* calls on it.  Every call is a step with buf' = buf; the answer of a     *)
(* call is a function of (helper, buffer content) only.  TLC checks Frame  *)
(* and Repeatable on every history and emits the histories; the harness   *)
(* replays each on real arrays built from the exact cases of Forms /       *)
(* Kernels / Spheres / Arcs in that layout, compares every argument buffer *)
(* (and the memory around a view) bit for bit with a snapshot after every  *)
(* call, compares repeated answers, and checks the first and the last      *)
(* answer of the history against the exact expected values.                *)
(***************************************************************************)
EXTENDS Naturals, Sequences, FiniteSets, TLC, Json

CONSTANTS MaxCalls

VARIABLES fam,       \* family of helpers = kind of buffers the caller holds
          layout,    \* memory layout of the caller's buffers
          hist,      \* helpers called so far
          buf,       \* content of the caller's buffers (abstract: "as given" or "overwritten")
          answers    \* answer of each call: <<helper, content it was computed from>>

Families == {"rows", "form", "matrix", "points", "angles"}
HelpersOf(f) ==
  CASE f = "rows"   -> {"indefinite_orthogonalize", "find_isometry", "find_isometry_oriented", "orthogonal_complement"}
    [] f = "form"   -> {"diagonalize_signed", "diagonalize_minkowski_reversed"}
    [] f = "matrix" -> {"kernel"}
    [] f = "points" -> {"sphere_through", "circle_through"}
    [] f = "angles" -> {"short_arc", "right_to_left", "arc_include"}
\* contiguous: a fresh C-ordered array;  strided: every second entry of a larger array along the last axis;
\* transposed: a view with the last two axes of the underlying memory exchanged;
\* batch_slice: the middle part of a larger batch (the neighbours belong to the caller too);
\* readonly: a contiguous array with the WRITEABLE flag cleared
Layouts == {"contiguous", "strided", "transposed", "batch_slice", "readonly"}

Init == /\ fam \in Families /\ layout \in Layouts
        /\ hist = <<>> /\ buf = "as given" /\ answers = <<>>

\* a helper is a query: it answers from the buffer and leaves it alone
Call(h) == /\ Len(hist) < MaxCalls
           /\ hist' = Append(hist, h)
           /\ answers' = Append(answers, <<h, buf>>)
           /\ buf' = buf
           /\ UNCHANGED <<fam, layout>>
Next == \E h \in HelpersOf(fam) : Call(h)

Frame == buf = "as given"
Repeatable == \A i, j \in 1..Len(answers) : answers[i][1] = answers[j][1] => answers[i] = answers[j]
FromOriginal == \A i \in 1..Len(answers) : answers[i][2] = "as given"

Obs == [fam |-> fam, layout |-> layout, hist |-> hist]
EmitObs == hist # <<>> => PrintT("OBS " \o ToJson(Obs))
=============================================================================
