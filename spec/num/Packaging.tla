------------------------------ MODULE Packaging ------------------------------
(***************************************************************************)
(* Property C12, first sentence, as a finite case analysis: every           *)
(* documented entry point that takes real parameters x every packaging of   *)
(* the same numeric value.  The specification is the rule itself:           *)
(*   - the call is in the domain iff the packaging can carry the value      *)
(*     (integer packagings only for integral values, sequence packagings    *)
(*     only for array parameters);                                          *)
(*   - real numeric input yields floating-point data (complex input complex *)
(*     data), never generic-object data;                                    *)
(*   - the value equals the one obtained with the canonical packaging;      *)
(*   - the library's own inverse / eigenvalue / trigonometric routines      *)
(*     succeed on the result.                                               *)
(* One TLC state per case; TLC checks the rule is total and never allows    *)
(* an object result, and emits the cases for the harness to execute.        *)
(***************************************************************************)
EXTENDS Naturals, Sequences, FiniteSets, TLC, Json

VARIABLES entry, pack, val

ScalarEntries == {"rotation_matrix", "standard_rotation2", "standard_rotation3", "standard_loxodromic",
                  "ideal_from_angle", "regular_polygon_angle", "regular_polygon_radius", "number_like", "zeros_like",
                  "identity_like", "array_like_scalar", "regular_polygon_radius_fn", "polygon_interior_angle_fn"}
ArrayEntries == {"elliptic_block", "sl2_iso", "point_klein", "point_projective", "transformation", "array_like_matrix",
                 "isometry_matrix", "tangent_vector", "segment", "polygon",
                 \* composite objects built from a LIST of unit objects: the packaging is that of the FIRST part, the
                 \* second part always carries non-integral floating-point data
                 "point_from_parts", "transformation_from_parts", "polygon_from_parts",
                 \* array-valued angles: the point at [i][j] is the ideal point of angle theta[i][j]
                 "ideal_from_angle_grid", "ideal_from_angle_vector",
                 \* a point given by its coordinates in each of the other models (unit and array of points)
                 "point_poincare", "point_halfspace", "point_hyperboloid", "points_halfspace", "points_poincare"}
IntEntries == {"coxeter_matrix", "triangle_group", "coxeter_diagram"}          \* Coxeter labels

ScalarPacks == {"py_float", "py_int", "np_float64", "np_float32", "np_int64", "zero_d_float", "zero_d_int"}
ArrayPacks == {"nested_list_float", "nested_list_int", "ndarray_float64", "ndarray_float32", "ndarray_int64", "tuple_float"}
IntPacks == {"py_int", "np_int64", "np_int32", "ndarray_int64", "nested_list_int", "ndarray_float64", "nested_list_float"}

\* values: "frac" = a non-integral real, "int" = an integral real, "zero"
Vals == {"frac", "int", "zero"}
IntegerPack(p) == p \in {"py_int", "np_int64", "np_int32", "zero_d_int", "nested_list_int", "ndarray_int64"}

InDomain(e, p, v) ==
  \/ (e \in ScalarEntries /\ p \in ScalarPacks /\ (IntegerPack(p) => v # "frac")
        \* a polygon needs a positive angle / radius, a loxodromic a non-zero parameter
        /\ (e \in {"regular_polygon_angle", "regular_polygon_radius", "standard_loxodromic", "regular_polygon_radius_fn",
                   "polygon_interior_angle_fn"} => v # "zero"))
  \/ (e \in ArrayEntries /\ p \in ArrayPacks /\ (IntegerPack(p) => v # "frac") /\ v # "zero")
  \/ (e \in IntEntries /\ p \in IntPacks /\ v = "int")

\* what the result must be
\* "numeric": floating-point (or complex, or exact integer) data that is numerically equal to the canonical result -
\* never generic-object data; integer data is accepted only because equality with the canonical (floating-point)
\* result and the follow-up routines decide: truncation of a fractional entry shows up as a value difference
ResultKind(e, p, v) == "numeric"
Canonical(e) == IF e \in ScalarEntries THEN "py_float" ELSE IF e \in ArrayEntries THEN "ndarray_float64" ELSE "py_int"
\* routines of the library that must succeed on the result
Followups(e) == IF e \in {"number_like", "ideal_from_angle", "point_klein", "point_projective", "point_poincare",
                          "point_halfspace", "point_hyperboloid", "points_halfspace", "points_poincare", "regular_polygon_radius_fn",
                          "polygon_interior_angle_fn", "tangent_vector", "segment", "polygon", "regular_polygon_angle",
                          "regular_polygon_radius"}
                THEN {"cos"} ELSE {"cos", "invert", "eig"}

Init == /\ entry \in ScalarEntries \cup ArrayEntries \cup IntEntries
        /\ pack \in ScalarPacks \cup ArrayPacks \cup IntPacks
        /\ val \in Vals
        /\ InDomain(entry, pack, val)
Next == UNCHANGED <<entry, pack, val>>

NeverObject == ResultKind(entry, pack, val) = "numeric"
CanonicalInDomain == \E v \in Vals : InDomain(entry, Canonical(entry), v)
\* every entry point is exercised with a Python scalar / nested list AND with NumPy packaging
Coverage == \A e \in ScalarEntries : InDomain(e, "py_float", "frac") /\ InDomain(e, "np_float64", "frac") /\ InDomain(e, "zero_d_float", "frac")

EmitCase == PrintT("CASE " \o ToJson([entry |-> entry, pack |-> pack, val |-> val, kind |-> ResultKind(entry, pack, val),
                                        canonical |-> Canonical(entry), followups |-> Followups(entry)]))
=============================================================================
