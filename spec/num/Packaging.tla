------------------------------ MODULE Packaging ------------------------------
(***************************************************************************)
(* Property C12, first sentence, as a finite case analysis: every           *)
(* documented entry point that takes real parameters x every packaging of   *)
(* the same numeric value.  The specification is the rule itself:           *)
(*   - the call is in the domain iff the packaging can carry the value      *)
(*     (integer packagings only for integral values, sequence packagings    *)
(*     only for array parameters);                                          *)
(*   - real numeric input yields floating-point data (complex input complex *)
(*     data), never generic-object data;                                    *)
(*   - the value equals the one obtained with the canonical packaging;      *)
(*   - the library's own inverse / eigenvalue / trigonometric routines      *)
(*     succeed on the result.                                               *)
(* One TLC state per case; TLC checks the rule is total and never allows    *)
(* an object result, and emits the cases for the harness to execute.        *)
(***************************************************************************)
EXTENDS Naturals, Sequences, FiniteSets, TLC, Json

VARIABLES entry, pack, val

ScalarEntries == {"rotation_matrix", "standard_rotation2", "standard_rotation3", "standard_loxodromic",
                  "ideal_from_angle", "regular_polygon_angle", "regular_polygon_radius", "number_like", "zeros_like",
                  "identity_like", "array_like_scalar", "regular_polygon_radius_fn", "polygon_interior_angle_fn"}
ArrayEntries == {"elliptic_block", "sl2_iso", "point_klein", "point_projective", "transformation", "array_like_matrix",
                 "isometry_matrix", "tangent_vector", "segment", "polygon",
                 \* composite objects built from a LIST of unit objects: the packaging is that of the FIRST part, the
                 \* second part always carries non-integral floating-point data
                 "point_from_parts", "transformation_from_parts", "polygon_from_parts",
                 \* array-valued angles: the point at [i][j] is the ideal point of angle theta[i][j]
                 "ideal_from_angle_grid", "ideal_from_angle_vector",
                 \* a point given by its coordinates in each of the other models (unit and array of points)
                 "point_poincare", "point_halfspace", "point_hyperboloid", "points_halfspace", "points_poincare",
                 \* a hyperplane given by a normal vector (as supplied; as supplied times 3) and a geodesic given by two
                 \* ideal points, each with the reflection across it: an isometry, an involution, the same for every
                 \* packaging of the coordinates
                 "hyperplane_reflection", "hyperplane_reflection_scaled", "geodesic_reflection"}
IntEntries == {"coxeter_matrix", "triangle_group", "coxeter_diagram"}          \* Coxeter labels

\* integer types narrower than the platform integer and unsigned ones are packagings like any other (int32 is the
\* default integer of many file formats and of NumPy 1.x on Windows)
ScalarPacks == {"py_float", "py_int", "np_float64", "np_float32", "np_int64", "zero_d_float", "zero_d_int",
                "np_int32", "np_int16", "np_uint8", "zero_d_int32", "zero_d_int16", "zero_d_uint8"}
ArrayPacks == {"nested_list_float", "nested_list_int", "ndarray_float64", "ndarray_float32", "ndarray_int64", "tuple_float",
               "ndarray_int32", "ndarray_int16", "ndarray_uint8"}
IntPacks == {"py_int", "np_int64", "np_int32", "np_int16", "ndarray_int64", "ndarray_int32", "nested_list_int", "ndarray_float64",
             "nested_list_float"}

\* values: "frac" = a non-integral real, "int" = an integral real, "zero"
Vals == {"frac", "int", "zero"}
IntegerPack(p) == p \in {"py_int", "np_int64", "np_int32", "np_int16", "np_uint8", "zero_d_int", "zero_d_int32", "zero_d_int16",
                         "zero_d_uint8", "nested_list_int", "ndarray_int64", "ndarray_int32", "ndarray_int16", "ndarray_uint8"}
UnsignedPack(p) == p \in {"np_uint8", "zero_d_uint8", "ndarray_uint8"}
\* entry points whose integral test value has a negative entry: an unsigned packaging cannot carry it
SignedValueEntries == {"elliptic_block", "polygon", "polygon_from_parts", "hyperplane_reflection_scaled", "geodesic_reflection"}

InDomain(e, p, v) ==
  \/ (e \in ScalarEntries /\ p \in ScalarPacks /\ (IntegerPack(p) => v # "frac")
        \* a polygon needs a positive angle / radius, a loxodromic a non-zero parameter
        /\ (e \in {"regular_polygon_angle", "regular_polygon_radius", "standard_loxodromic", "regular_polygon_radius_fn",
                   "polygon_interior_angle_fn"} => v # "zero"))
  \/ (e \in ArrayEntries /\ p \in ArrayPacks /\ (IntegerPack(p) => v # "frac") /\ v # "zero"
        /\ (UnsignedPack(p) => e \notin SignedValueEntries))
  \/ (e \in IntEntries /\ p \in IntPacks /\ v = "int")

\* "Numerically the same" is read up to the precision of the floating-point type NumPy associates with the number type
\* the caller chose: NumPy evaluates elementary functions of float32 and int16 numbers in float32 and of (u)int8 numbers in
\* float16 (its documented promotion), every other packaging in float64.  The harness compares values with the tolerance
\* of that precision (Tolerance); truncation of a fractional entry (errors of order 0.1 - 1) exceeds every one of them.
Precision(p) == IF p \in {"np_float32", "ndarray_float32", "np_int16", "zero_d_int16", "ndarray_int16"} THEN "float32"
                ELSE IF p \in {"np_uint8", "zero_d_uint8", "ndarray_uint8"} THEN "float16"
                ELSE "float64"
\* tolerance as <<mantissa, negative decimal exponent>>: m * 10^-k
Tolerance(p) == CASE Precision(p) = "float64" -> <<1, 9>>
                  [] Precision(p) = "float32" -> <<2, 6>>
                  [] Precision(p) = "float16" -> <<2, 3>>

\* what the result must be
\* "numeric": floating-point (or complex, or exact integer) data that is numerically equal to the canonical result -
\* never generic-object data; integer data is accepted only because equality with the canonical (floating-point)
\* result and the follow-up routines decide: truncation of a fractional entry shows up as a value difference
ResultKind(e, p, v) == "numeric"
Canonical(e) == IF e \in ScalarEntries THEN "py_float" ELSE IF e \in ArrayEntries THEN "ndarray_float64" ELSE "py_int"
\* routines of the library that must succeed on the result
Followups(e) == IF e \in {"number_like", "ideal_from_angle", "point_klein", "point_projective", "point_poincare",
                          "point_halfspace", "point_hyperboloid", "points_halfspace", "points_poincare", "regular_polygon_radius_fn",
                          "polygon_interior_angle_fn", "tangent_vector", "segment", "polygon", "regular_polygon_angle",
                          "regular_polygon_radius"}
                THEN {"cos"} ELSE {"cos", "invert", "eig"}

Init == /\ entry \in ScalarEntries \cup ArrayEntries \cup IntEntries
        /\ pack \in ScalarPacks \cup ArrayPacks \cup IntPacks
        /\ val \in Vals
        /\ InDomain(entry, pack, val)
Next == UNCHANGED <<entry, pack, val>>

NeverObject == ResultKind(entry, pack, val) = "numeric"
\* the canonical packagings are full precision; no tolerance is looser than the coarsest floating-point type
CanonicalFullPrecision == Precision(Canonical(entry)) = "float64"
ToleranceBounded == Tolerance(pack)[2] >= 3
CanonicalInDomain == \E v \in Vals : InDomain(entry, Canonical(entry), v)
\* every entry point is exercised with a Python scalar / nested list AND with NumPy packaging
Coverage == \A e \in ScalarEntries : InDomain(e, "py_float", "frac") /\ InDomain(e, "np_float64", "frac") /\ InDomain(e, "zero_d_float", "frac")
\* every entry point taking real parameters is exercised with a narrow integer packaging of an integral value
NarrowIntCoverage == /\ \A e \in ScalarEntries : InDomain(e, "np_int32", "int") /\ InDomain(e, "zero_d_int16", "int")
                     /\ \A e \in ArrayEntries : InDomain(e, "ndarray_int32", "int") /\ InDomain(e, "ndarray_int16", "int")
                     /\ \A e \in ArrayEntries \ SignedValueEntries : InDomain(e, "ndarray_uint8", "int")

EmitCase == PrintT("CASE " \o ToJson([entry |-> entry, pack |-> pack, val |-> val, kind |-> ResultKind(entry, pack, val),
                                        canonical |-> Canonical(entry), followups |-> Followups(entry),
                                        precision |-> Precision(pack), tol |-> Tolerance(pack)]))
=============================================================================
