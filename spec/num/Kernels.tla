------------------------------ MODULE Kernels ------------------------------
(***************************************************************************)
(* Property C18, part 2: kernels.  A behaviour builds an integer matrix    *)
(* row by row (rows may repeat, be dependent or zero); in every state the  *)
(* exact rank and an integer basis of the kernel come from fraction-free   *)
(* Gauss-Jordan elimination.  TLC checks rank-nullity, M K = 0, that the   *)
(* basis is independent, that the rank grows by at most one per row, and   *)
(* that every division of the elimination was exact; one OBS record per    *)
(* state is replayed through utils.kernel (annihilated, orthonormal, of    *)
(* the exact dimension, spanning the exact kernel).                        *)
(***************************************************************************)
EXTENDS FormOps, Json

CONSTANTS N,         \* number of columns
          Rng,       \* entries in -Rng..Rng
          MaxSupp,   \* at most MaxSupp non-zero entries per row
          MaxRows    \* number of rows

VARIABLES M,         \* the matrix (sequence of rows)
          rk,        \* the rank after each row
          ker        \* integer kernel basis of M (a sequence of vectors)

Pool == {v \in Box(N, Rng) : Supp(v) <= MaxSupp}

Init == M = <<>> /\ rk = <<>> /\ ker = <<>>
AddRow(v) == /\ Len(M) < MaxRows
             /\ LET A == Append(M, v) IN
                  /\ M' = A
                  /\ rk' = Append(rk, RankOf(A))
                  /\ ker' = SetSeq(KernelBasis(A))
Next == \E v \in Pool : AddRow(v)

Rank == IF M = <<>> THEN 0 ELSE rk[Len(rk)]
Ker == {ker[i] : i \in 1..Len(ker)}
KerSeq == ker

ElimExact == M # <<>> => Elim(M).ok
RankNullity == M # <<>> => Cardinality(Ker) = N - Rank
Annihilated == \A x \in Ker : MatVec(M, x) = ZeroVec(Len(M))
Independent == Ker # {} => RankOf(KerSeq) = N - Rank
RankSteps == \A i \in 1..Len(rk) : /\ rk[i] <= i /\ rk[i] <= N
                                   /\ rk[i] - (IF i = 1 THEN 0 ELSE rk[i - 1]) \in {0, 1}
\* rank of M equals the rank of its Gram matrix M M^T for the Euclidean form (row rank = rank of Gram)
GramRank == M # <<>> => LET g == Gram(M, IdMat(N)) IN ElimOk(g) => RankOf(g) = Rank
\* transposing does not change the rank
TransposeRank == M # <<>> => RankOf(TLCEval(Transpose(M))) = Rank

\* multiplying rows by non-zero factors changes neither the rank nor the kernel
RowScaleInvariant == M # <<>> =>
                       LET S == TLCEval([i \in 1..Len(M) |-> VScale(1 + (i % 2), M[i])])
                       IN /\ ElimOk(S) => RankOf(S) = Rank
                          /\ \A x \in Ker : MatVec(S, x) = ZeroVec(Len(M))

\* rowscale: exact positive factors the harness multiplies row i by (same kernel expected)
Obs == [n |-> N, M |-> M, rank |-> Rank, dim |-> N - Rank, ker |-> KerSeq,
        rowscale |-> [i \in 1..Len(M) |-> FoPick(PosScaleTable, FoWeight(M) + i)]]
EmitObs == M # <<>> => PrintT("OBS " \o ToJson(Obs))
=============================================================================
