------------------------------- MODULE Forms -------------------------------
(***************************************************************************)
(* Property C18, part 1: non-degenerate symmetric forms, Gram-Schmidt for  *)
(* indefinite forms and frame completion, diagonalisation.                 *)
(*                                                                         *)
(* State machine.  A behaviour first walks through forms -- it starts at a *)
(* diagonal form diag(+-1) of some signature and applies elementary        *)
(* congruences F -> S^T F S, S = I + c E_ij (so the signature `sig` never  *)
(* changes: Sylvester) -- and then feeds integer rows one at a time to the *)
(* fraction-free Gram-Schmidt recurrence.  A row is accepted only when the *)
(* new leading Gram minor is non-zero ("general position" is this exact    *)
(* predicate) and the orthonormalised row has entries at most CondK (the   *)
(* "bounded condition number" of the property).  A second initial          *)
(* predicate, InitSym, starts instead from every symmetric integer matrix  *)
(* with bounded entries and non-zero leading minors, with the signature    *)
(* given by Jacobi's rule; the Inertia theorem then ties Jacobi's count to *)
(* the signs Gram-Schmidt finds.                                           *)
(*                                                                         *)
(*   state (F, sig, rows, U, D):  w_i = U[i] / D[i-1] is the i-th          *)
(*   orthogonalised row, <w_i, w_i> = D[i] / D[i-1], and the contract of   *)
(*   indefinite_orthogonalize is  r_i = w_i / sqrt|<w_i, w_i>|             *)
(*                                = sgn(D[i-1]) U[i] / sqrt|D[i] D[i-1]|.  *)
(*                                                                         *)
(* TLC checks on every reachable state the theorems below (the oracle is   *)
(* validated against independent computations: Bareiss determinants of the *)
(* Gram matrices, ranks for the flag, Sylvester's inertia, Jacobi's rule,  *)
(* the rational transcription of the library's recursion) and prints one   *)
(* OBS record per state, which the harness replays through                 *)
(* indefinite_orthogonalize / find_isometry / orthogonal_complement /      *)
(* diagonalize_form.                                                       *)
(***************************************************************************)
EXTENDS FormOps, Json

CONSTANTS N,         \* dimension
          Rng,       \* rows have entries in -Rng..Rng
          MaxSupp,   \* ... and at most MaxSupp non-zero entries
          MaxRows,   \* number of rows fed to Gram-Schmidt
          MinCong,   \* rows are fed only after MinCong congruence steps ...
          MaxCong,   \* ... and there are at most MaxCong of them
          FormRng,   \* forms keep entries in -FormRng..FormRng
          CondK      \* conditioning bound: entries of the orthonormal rows are at most CondK

VARIABLES F, sig, ncong, rows, U, D

\* no 32-bit overflow in <v, u>_F u[c] and <u, u'>_F for |v| <= Rng, |F| <= FormRng, |u| <= Bnd
ASSUME N \in 1..6 /\ N * N * Rng * FormRng <= 250 /\ MinCong <= MaxCong

vars == <<F, sig, ncong, rows, U, D>>

Pool == {v \in Box(N, Rng) : Supp(v) >= 1 /\ Supp(v) <= MaxSupp}
SignVecs == [1..N -> {Neg1, 1}]

Init == /\ \E e \in SignVecs :
             /\ F = DiagMat(e)
             /\ sig = <<Cardinality({i \in 1..N : e[i] = 1}), Cardinality({i \in 1..N : e[i] = Neg1})>>
        /\ ncong = 0 /\ rows = <<>> /\ U = <<>> /\ D = <<>>

\* second universe of forms: every symmetric integer matrix with entries in -FormRng..FormRng whose
\* leading principal minors are all non-zero; the signature is then given by Jacobi's rule
UpperPairs == {pr \in (1..N) \X (1..N) : pr[1] <= pr[2]}
SymOf(f) == [i \in 1..N |-> [j \in 1..N |-> IF i <= j THEN f[<<i, j>>] ELSE f[<<j, i>>]]]
InitSym == /\ \E f \in [UpperPairs -> (0 - FormRng)..FormRng] :
                LET G == SymOf(f)
                    ms == LeadMinors(G)
                IN /\ JacobiDefined(ms)
                   /\ F = G
                   /\ sig = <<N - JacobiNeg(ms), JacobiNeg(ms)>>
           /\ ncong = 0 /\ rows = <<>> /\ U = <<>> /\ D = <<>>

\* S = I + c E_ij ; F' = S^T F S
ElemMat(i, j, c) == [a \in 1..N |-> [b \in 1..N |-> IF a = b THEN 1 ELSE IF a = i /\ b = j THEN c ELSE 0]]
Cong(i, j, c) ==
  /\ rows = <<>> /\ ncong < MaxCong
  /\ LET S == ElemMat(i, j, c)
         G == TLCEval(MatMul(Transpose(S), MatMul(F, S)))
     IN /\ \A a, b \in 1..N : Abs(G[a][b]) <= FormRng
        /\ F' = G
  /\ ncong' = ncong + 1
  /\ UNCHANGED <<sig, rows, U, D>>

\* bounded condition number: every entry of r_i = u / sqrt|d dprev| is at most CondK
WellCond(u, d, dprev) == \A c \in 1..Len(u) :
                          (u[c] * u[c] + CondK * CondK - 1) \div (CondK * CondK) <= Abs(d * dprev)

AddRow(v) ==
  /\ Len(rows) < MaxRows /\ ncong >= MinCong
  /\ LET u == NewU(F, v, U, D) IN
       /\ u # <<>> /\ ~Big(u)
       /\ LET d == FDot(v, u, F) IN
            /\ d # 0 /\ Abs(d) <= Bnd                     \* general position (and size guard)
            /\ WellCond(u, d, Dm(D, Len(D)))
            /\ rows' = Append(rows, v) /\ U' = Append(U, u) /\ D' = Append(D, d)
  /\ UNCHANGED <<F, sig, ncong>>

Next == \/ \E i, j \in 1..N : \E c \in {Neg1, 1} : i # j /\ Cong(i, j, c)
        \/ \E v \in Pool : AddRow(v)

View == <<F, sig, rows, U, D>>

(***************************************************************************)
(* Theorems                                                                *)
(***************************************************************************)
K == Len(rows)

TypeOK == /\ Len(F) = N /\ IsSym(F) /\ sig[1] + sig[2] = N
          /\ Len(U) = K /\ Len(D) = K /\ K <= MaxRows
          /\ \A i \in 1..K : D[i] # 0

\* the orthogonalised rows are mutually orthogonal
Orth == \A i, j \in 1..K : i < j => FDot(U[i], U[j], F) = 0

\* <w_i, w_i> = D_i / D_{i-1}
NormRatio == \A i \in 1..K : FDot(U[i], U[i], F) = D[i] * Dm(D, i - 1)

\* D_i is the i-th leading minor of the Gram matrix (independent computation: Bareiss)
GramMinor == \A i \in 1..K :
               LET g == Gram(Prefix(rows, i), F) IN ElimOk(g) => DetOf(g) = D[i]

\* same flag: w_i - v_i lies in the span of v_1..v_{i-1}, and w_i # 0
FlagSpan == \A i \in 2..K :
              LET A == TLCEval(Append(Prefix(rows, i - 1), VSub(U[i], VScale(D[i - 1], rows[i]))))
              IN ElimOk(A) => RankOf(A) = i - 1

\* Sylvester: the signs of the norms are those of the form
Inertia == LET neg == Cardinality({i \in 1..K : Eps(D, i) < 0})
               pos == K - neg
           IN /\ neg <= sig[2] /\ pos <= sig[1]
              /\ (K = N => neg = sig[2])

\* the congruence walk keeps the form non-degenerate with the same signature; where Jacobi's
\* rule applies it gives the same count
SigInvariant == rows = <<>> =>
                  LET ms == LeadMinors(F) IN
                  /\ ms[N] # 0
                  /\ Sgn(ms[N]) = (IF sig[2] % 2 = 0 THEN 1 ELSE Neg1)
                  /\ (JacobiDefined(ms) => JacobiNeg(ms) = sig[2])

\* Gram-Schmidt on the standard basis computes the leading minors of the form itself
StdBasisIsJacobi == (rows = IdMat(K) /\ K >= 1) => \A i \in 1..K : D[i] = LeadMinor(F, i)

\* the library's recursion, in rationals, computes w_i = u_i / D_{i-1}  (small universes only)
RatSafe == FormRng <= 1 /\ ((N = 2 /\ Rng <= 3) \/ (N = 3 /\ Rng <= 1))
RatAgrees == (RatSafe /\ K >= 1) =>
               LET W == RGS(F, rows, K) IN
               \A i \in 1..K : W[i] = [c \in 1..N |-> R(U[i][c], Dm(D, i - 1))]

\* multiplying the rows by positive factors c_i changes neither the signs nor the normalised rows:
\* u'_i = c_i (c_1 .. c_{i-1})^2 u_i  and  D'_i = (c_1 .. c_i)^2 D_i   (checked for c_i = 1 + (i mod 2), small states)
RowFactor(i) == 1 + (i % 2)
RECURSIVE SqProd(_)
SqProd(i) == IF i = 0 THEN 1 ELSE RowFactor(i) * RowFactor(i) * SqProd(i - 1)
RowScaleInvariant ==
  K >= 1 =>
    LET S == TLCEval([i \in 1..K |-> VScale(RowFactor(i), rows[i])])
        g == GSAll(F, S, K)
    IN g.ok => \A i \in 1..K : /\ g.D[i] = SqProd(i) * D[i]
                                /\ g.U[i] = VScale(RowFactor(i) * SqProd(i - 1), U[i])
\* a positive multiple of the form has leading minors of the same signs, hence the same signature
FormScaleInvariant ==
  rows = <<>> => \A c \in {2, 3} : \A k \in 1..N :
    LET sub == TLCEval([i \in 1..k |-> [j \in 1..k |-> c * F[i][j]]])
    IN ElimOk(sub) => Sgn(DetOf(sub)) = Sgn(LeadMinor(F, k))

(***************************************************************************)
(* Observation: one record per state                                       *)
(***************************************************************************)
\* w_i = wn[i] / wd[i]  (wd[i] > 0),  <w_i, w_i> = nn[i] / wd[i],  r_i = w_i / sqrt|<w_i, w_i>|
Obs == [n |-> N, F |-> F, pos |-> sig[1], neg |-> sig[2], rows |-> rows,
        wn |-> [i \in 1..K |-> VScale(Sgn(Dm(D, i - 1)), U[i])],
        wd |-> [i \in 1..K |-> Abs(Dm(D, i - 1))],
        nn |-> [i \in 1..K |-> Sgn(Dm(D, i - 1)) * D[i]],
        eps |-> [i \in 1..K |-> Eps(D, i)],
        signed |-> SignedOrder(sig[1], sig[2]),
        minkowski |-> MinkowskiOrders(sig[1], sig[2]),
        condk |-> CondK,
        \* exact positive factors the harness multiplies row i / the form by (same expected values)
        rowscale |-> [i \in 1..K |-> FoPick(PosScaleTable, FoWeight(rows) + i)],
        fscale |-> FoPick(PosScaleTable, FoWeight(F))]
EmitObs == PrintT("OBS " \o ToJson(Obs))
=============================================================================
