------------------------------- MODULE LieAlg -------------------------------
(***************************************************************************)
(* Extension check X05, Lie-algebra part (geometry_tools/lie/core.py,       *)
(* lie/hom.py).  CONTRACT specified here (docstrings where they exist,      *)
(* otherwise what every caller in the library relies on - said so below):   *)
(*                                                                         *)
(*  gln_lie_algebra_coords / coords_to_gln_lie_algebra   (no docstring;     *)
(*      callers: linear_matrix_action, coords_to_sln_lie_algebra)           *)
(*      mutually inverse linear isomorphisms gl_n <-> R^(n^2): the          *)
(*      row-major flattening.  The packaging of batch axes by coords_to_*   *)
(*      is documented nowhere (the library flattens them into one axis);    *)
(*      only the sequence of matrices is specified.                         *)
(*  sln_lie_algebra_coords (docstring) / coords_to_sln_lie_algebra          *)
(*      the same for traceless matrices and R^(n^2-1): drop / restore the   *)
(*      last diagonal entry.  In these coordinates the matrix of            *)
(*      X -> g X g^-1 is what gln_adjoint / sln_adjoint return (AdGL below; *)
(*      LieHom.tla specifies those two maps themselves).                    *)
(*  bilinear_form_differential(B)   (no docstring; callers: form_adjoint,   *)
(*      form_alg_killing_form, tests)  the matrix, in gl_n coordinates, of  *)
(*      X -> X^T B + B X; its kernel is the Lie algebra so(B).              *)
(*  form_alg_killing_form(B, basis) / so_killing_form(p, q, basis)          *)
(*      (docstring) the matrix tr(ad_Xi ad_Xj) of the Killing form of       *)
(*      so(B) in the given basis (columns = flattened matrices).  The       *)
(*      basis=None default is documented as not working without exact       *)
(*      arithmetic (Sage): out of scope.                                    *)
(*  subspace_action(A, W)   (no docstring; callers as above, tests)         *)
(*      the matrix M, in the basis given by the columns of W, of the        *)
(*      restriction of A to the A-invariant subspace span W:  A W = W M     *)
(*      (SubAction.tla specifies it on general invariant subspaces).        *)
(*  lie.hom.form_adjoint(B) / so_adjoint / form_adjoint_action  (no         *)
(*      docstring)  g -> subspace_action(gln_adjoint(g), basis of so(B)):   *)
(*      the adjoint representation of O(B) on so(B): a homomorphism         *)
(*      preserving the Killing form.                                        *)
(*  herm2_bilinear_form()  (docstring) the bilinear form given by the       *)
(*      determinant on Hermitian 2x2 matrices in the basis E11, E22,        *)
(*      [[0,1],[1,0]], [[0,i],[-i,0]]; X -> g X g* scales it by |det g|^2.  *)
(*                                                                         *)
(* EXACT MODEL.  B is a symmetric invertible integer matrix; so(B) =        *)
(* {B^-1 S : S antisymmetric}; its integer basis is X_pq = adj(B)(E_pq -    *)
(* E_qp), p < q.  The state is an element g of O(B)(Z) reached by a walk in *)
(* integer reflections (g^-1 is kept alongside).  On so(B), g X g^-1 =      *)
(* B^-1 (g^-T S g^-1): FormAd(g) is the matrix of S -> g^-T S g^-1 in the   *)
(* basis E_pq - E_qp.  TLC checks, in every state: g^T B g = B; FormAd is   *)
(* the restriction of the gl_n adjoint AdGL(g) = g (x) g^-T to so(B)        *)
(* (N FormAd = AdGL N: the subspace_action contract); FormAd(g r) =         *)
(* FormAd(g) FormAd(r); FormAd preserves the Killing form; and as constant  *)
(* theorems: the differential annihilates the basis and has the right       *)
(* rank, Killing = tr(ad ad) computed from the structure constants equals   *)
(* (n - 2) tr(X Y), is symmetric and ad-invariant; the coordinate maps are  *)
(* inverse, linear and intertwine X -> g X g^-1 with AdGL / AdSL; the       *)
(* determinant form on Hermitian matrices.                                  *)
(***************************************************************************)
EXTENDS IntMat, FiniteSets, Json

CONSTANTS Form,      \* "j12", "j21", "e3", "b3", "j13", "j11"
          MaxLen

VARIABLES g, ginv, len, last

Neg(k) == 0 - k
Diag(e) == LET n == Len(e) f(i, j) == IF i = j THEN e[i] ELSE 0 IN Mk(n, n, f)
B == CASE Form = "j12" -> Diag(<<Neg(1), 1, 1>>)
       [] Form = "j21" -> Diag(<<Neg(1), Neg(1), 1>>)
       [] Form = "e3" -> Diag(<<1, 1, 1>>)
       [] Form = "b3" -> <<<<0, 1, 0>>, <<1, 0, 0>>, <<0, 0, 2>>>>
       [] Form = "j13" -> Diag(<<Neg(1), 1, 1, 1>>)
       [] Form = "j11" -> Diag(<<Neg(1), 1>>)
N == NRows(B)
\* signature (number of -1, number of +1) for the diagonal forms, <<0, 0>> otherwise
Signature == CASE Form = "j12" -> <<1, 2>> [] Form = "j21" -> <<2, 1>> [] Form = "e3" -> <<0, 3>>
               [] Form = "j13" -> <<1, 3>> [] Form = "j11" -> <<1, 1>> [] OTHER -> <<0, 0>>
AdjB == Adj(B)
DetB == Det(B)
ASSUME B = Tr(B) /\ DetB # 0

RECURSIVE TraceTo(_, _)
TraceTo(X, k) == IF k = 0 THEN 0 ELSE X[k][k] + TraceTo(X, k - 1)
Trace(X) == TraceTo(X, NRows(X))
RowOf(q, n) == ((q - 1) \div n) + 1
ColOf(q, n) == ((q - 1) % n) + 1

(***************************************************************************)
(* Coordinates of gl_n and sl_n                                            *)
(***************************************************************************)
ToGl(X) == LET n == NRows(X) IN TLCEval([q \in 1..(n * n) |-> X[RowOf(q, n)][ColOf(q, n)]])
FromGl(v, n) == LET f(i, j) == v[(i - 1) * n + j] IN Mk(n, n, f)
ToSl(X) == LET n == NRows(X) IN TLCEval([q \in 1..(n * n - 1) |-> X[RowOf(q, n)][ColOf(q, n)]])
RECURSIVE DiagSum(_, _, _)
DiagSum(v, n, k) == IF k = 0 THEN 0 ELSE v[(k - 1) * n + k] + DiagSum(v, n, k - 1)
FromSl(v, n) == LET f(i, j) == IF i = n /\ j = n THEN Neg(DiagSum(v, n, n - 1)) ELSE v[(i - 1) * n + j] IN Mk(n, n, f)
VAdd(u, v) == TLCEval([q \in 1..Len(u) |-> u[q] + v[q]])
\* test matrices: a small pool of integer matrices and their traceless parts
Pool == LET e1(i, j) == i * j - 3
            e2(i, j) == IF i = j THEN i ELSE IF j = i + 1 THEN 2 ELSE IF i = N /\ j = 1 THEN Neg(1) ELSE 0
            e3(i, j) == ((2 * i + 3 * j) % 5) - 2
        IN <<Mk(N, N, e1), Mk(N, N, e2), Mk(N, N, e3)>>
Traceless(X) == LET f(i, j) == IF i = N /\ j = N THEN X[i][j] - Trace(X) ELSE X[i][j] IN Mk(N, N, f)
ASSUME \A a \in 1..Len(Pool) :
         /\ FromGl(ToGl(Pool[a]), N) = Pool[a]
         /\ Trace(Traceless(Pool[a])) = 0 /\ FromSl(ToSl(Traceless(Pool[a])), N) = Traceless(Pool[a])
         /\ \A b \in 1..Len(Pool) : ToGl(MAdd(Pool[a], Pool[b])) = VAdd(ToGl(Pool[a]), ToGl(Pool[b]))

(***************************************************************************)
(* so(B): differential, basis, structure constants, Killing form            *)
(***************************************************************************)
Differential(X) == MAdd(MMul(Tr(X), B), MMul(B, X))
DiffM == LET img == TLCEval([q \in 1..(N * N) |-> ToGl(Differential(UnitM(N, RowOf(q, N), ColOf(q, N))))])
             f(p, q) == img[q][p]
         IN Mk(N * N, N * N, f)
RECURSIVE BuildPairs(_, _)
BuildPairs(p, q) == IF p >= N THEN <<>> ELSE IF q > N THEN BuildPairs(p + 1, p + 2) ELSE <<<<p, q>>>> \o BuildPairs(p, q + 1)
Pairs == BuildPairs(1, 2)
D == Len(Pairs)
Skew(a) == MSub(UnitM(N, Pairs[a][1], Pairs[a][2]), UnitM(N, Pairs[a][2], Pairs[a][1]))
X(a) == MMul(AdjB, Skew(a))
Basis == TLCEval([a \in 1..D |-> X(a)])
\* n^2 x D matrix whose columns are the flattened basis matrices
NMat == LET f(p, a) == ToGl(Basis[a])[p] IN Mk(N * N, D, f)
\* coordinates of Z in so(B) in the basis: Z = adj(B) S with S = B Z / det B antisymmetric
SkewPart(Z) == MDiv(MMul(B, Z), IF DetB > 0 THEN DetB ELSE Neg(DetB))
Coord(Z) == LET S == SkewPart(Z) IN TLCEval([a \in 1..D |-> (IF DetB > 0 THEN 1 ELSE Neg(1)) * S[Pairs[a][1]][Pairs[a][2]]])
Bracket(P, Q) == MSub(MMul(P, Q), MMul(Q, P))
AdM(a) == LET img == TLCEval([b \in 1..D |-> Coord(Bracket(Basis[a], Basis[b]))])
              f(c, b) == img[b][c]
          IN Mk(D, D, f)
Ads == TLCEval([a \in 1..D |-> AdM(a)])
Killing == LET f(a, b) == Trace(MMul(Ads[a], Ads[b])) IN Mk(D, D, f)
RECURSIVE ComboTo(_, _)
ComboTo(c, a) == IF a = 0 THEN ZeroM(N, N) ELSE MAdd(MScale(c[a], Basis[a]), ComboTo(c, a - 1))
Combo(c) == ComboTo(c, D)
ASSUME /\ D = (N * (N - 1)) \div 2
       /\ \A a \in 1..D : Differential(Basis[a]) = ZeroM(N, N) /\ MatVec(DiffM, ToGl(Basis[a])) = [q \in 1..(N * N) |-> 0]
       /\ \A a \in 1..Len(Pool) : MatVec(DiffM, ToGl(Pool[a])) = ToGl(Differential(Pool[a]))
       \* the brackets stay in so(B) and the coordinates reproduce them
       /\ \A a, b \in 1..D : AllDivisible(MMul(B, Bracket(Basis[a], Basis[b])), IF DetB > 0 THEN DetB ELSE Neg(DetB))
                             /\ Combo(Coord(Bracket(Basis[a], Basis[b]))) = Bracket(Basis[a], Basis[b])
       \* Killing form = (n - 2) tr(XY), symmetric, ad-invariant
       /\ \A a, b \in 1..D : Killing[a][b] = (N - 2) * Trace(MMul(Basis[a], Basis[b])) /\ Killing[a][b] = Killing[b][a]
       /\ \A c \in 1..D : MAdd(MMul(Tr(Ads[c]), Killing), MMul(Killing, Ads[c])) = ZeroM(D, D)

(***************************************************************************)
(* The group O(B)(Z): walk by integer reflections                           *)
(***************************************************************************)
Col(v) == LET f(i, j) == v[i] IN Mk(N, 1, f)
QF(v) == MMul(Tr(Col(v)), MMul(B, Col(v)))[1][1]
\* reflection in v (B-norm q in {1, -1, 2, -2}):  I - 2 v (B v)^T / q
Refl(v) == LET q == QF(v)
               outer == MMul(Col(v), Tr(MMul(B, Col(v))))
               f(i, j) == (IF i = j THEN 1 ELSE 0) - (IF q > 0 THEN 1 ELSE Neg(1)) * ((2 * outer[i][j]) \div (IF q > 0 THEN q ELSE Neg(q)))
           IN Mk(N, N, f)
Pad(v) == [i \in 1..N |-> IF i <= Len(v) THEN v[i] ELSE 0]
Vecs == CASE Form = "j12" -> {Pad(<<0, 1, 0>>), Pad(<<0, 0, 1>>), Pad(<<0, 1, 1>>), Pad(<<1, 1, 1>>), Pad(<<1, 0, 0>>), Pad(<<1, 1, Neg(1)>>)}
          [] Form = "j21" -> {Pad(<<1, 0, 0>>), Pad(<<0, 0, 1>>), Pad(<<1, 1, 0>>), Pad(<<1, 1, 1>>), Pad(<<0, 1, 0>>)}
          [] Form = "e3" -> {Pad(<<1, 0, 0>>), Pad(<<0, 1, 0>>), Pad(<<1, 1, 0>>), Pad(<<0, 1, Neg(1)>>), Pad(<<1, 0, 1>>)}
          [] Form = "b3" -> {Pad(<<0, 0, 1>>), Pad(<<1, 1, 0>>), Pad(<<1, Neg(1), 0>>), Pad(<<1, 0, 1>>), Pad(<<0, 1, 1>>)}
          [] Form = "j13" -> {Pad(<<0, 1, 0, 0>>), Pad(<<0, 0, 1, 1>>), Pad(<<1, 1, 1, 0>>), Pad(<<1, 0, 0, 0>>), Pad(<<0, 1, 0, Neg(1)>>),
                              Pad(<<1, 1, 0, 1>>)}
          [] Form = "j11" -> {Pad(<<1, 0>>), Pad(<<0, 1>>)}
ASSUME \A v \in Vecs : QF(v) \in {1, Neg(1), 2, Neg(2)} /\ MMul(Refl(v), Refl(v)) = IdM(N)
                       /\ MMul(Tr(Refl(v)), MMul(B, Refl(v))) = B /\ MatVec(Refl(v), v) = [i \in 1..N |-> Neg(v[i])]

\* adjoint of gl_n in row-major coordinates, and of so(B) in the basis X_pq
AdGL(a, ai) == Kron(a, Tr(ai))
FormAd(ai) == LET img == TLCEval([b \in 1..D |-> MMul(MMul(Tr(ai), Skew(b)), ai)])
                  f(c, b) == img[b][Pairs[c][1]][Pairs[c][2]]
              IN Mk(D, D, f)
ASSUME \A a \in 1..Len(Pool), v \in Vecs :
         LET r == Refl(v) IN
         /\ MatVec(AdGL(r, r), ToGl(Pool[a])) = ToGl(MMul(MMul(r, Pool[a]), r))
         /\ ToSl(MMul(MMul(r, Traceless(Pool[a])), r)) = SubSeq(MatVec(AdGL(r, r), ToGl(Traceless(Pool[a]))), 1, N * N - 1)

Init == g = IdM(N) /\ ginv = IdM(N) /\ len = 0 /\ last = <<>>
Step(v) == /\ len < MaxLen
           /\ g' = MMul(g, Refl(v)) /\ ginv' = MMul(Refl(v), ginv) /\ len' = len + 1 /\ last' = v
Next == \E v \in Vecs : Step(v)

InGroup == MMul(Tr(g), MMul(B, g)) = B /\ MMul(g, ginv) = IdM(N)
\* the subspace_action contract: FormAd is the restriction of AdGL to so(B), in the basis NMat
Restriction == MMul(NMat, FormAd(ginv)) = MMul(AdGL(g, ginv), NMat)
Homomorphism == \A v \in Vecs : FormAd(MMul(Refl(v), ginv)) = MMul(FormAd(ginv), FormAd(Refl(v)))
KillingPreserved == LET F == FormAd(ginv) IN MMul(Tr(F), MMul(Killing, F)) = Killing

(***************************************************************************)
(* Hermitian 2x2 matrices (form-independent constant table)                 *)
(***************************************************************************)
M2(a, b, c, d) == <<<<a, b>>, <<c, d>>>>
Z2 == ZeroM(2, 2)
HermBasis == <<CM(M2(1, 0, 0, 0), Z2), CM(M2(0, 0, 0, 1), Z2), CM(M2(0, 1, 1, 0), Z2), CM(Z2, M2(0, 1, Neg(1), 0))>>
HermDet(H) == H.re[1][1] * H.re[2][2] - (H.re[1][2] * H.re[1][2] + H.im[1][2] * H.im[1][2])
RECURSIVE HermComboTo(_, _)
HermComboTo(x, k) == IF k = 0 THEN CM(Z2, Z2) ELSE CAdd(CScale(x[k], 0, HermBasis[k]), HermComboTo(x, k - 1))
HermCombo(x) == HermComboTo(x, 4)
\* twice the polarisation of det:  2 F(x, y) = det(x + y) - det x - det y
HermForm2 == LET f(i, j) == HermDet(CAdd(HermBasis[i], HermBasis[j])) - HermDet(HermBasis[i]) - HermDet(HermBasis[j])
             IN Mk(4, 4, f)
HermVecs == {<<1, 0, 0, 0>>, <<1, 1, 0, 0>>, <<2, Neg(1), 1, 3>>, <<0, 0, 1, 1>>, <<1, 2, Neg(2), 1>>, <<3, 1, 0, Neg(1)>>}
CStar(a) == CM(Tr(a.re), MNeg(Tr(a.im)))
HermCoords(H) == <<H.re[1][1], H.re[2][2], H.re[1][2], H.im[1][2]>>
HermM(a) == LET img == TLCEval([k \in 1..4 |-> HermCoords(CMul(CMul(a, HermBasis[k]), CStar(a)))])
                f(i, k) == img[k][i]
            IN Mk(4, 4, f)
HermGroup == <<CM(M2(1, 1, 0, 1), Z2), CM(M2(1, 0, 0, 1), M2(0, 1, 0, 0)), CM(M2(0, 0, 0, 0), M2(1, 0, 0, Neg(1))),
               CM(M2(2, 1, 1, 1), M2(0, 1, 0, 0)), CM(M2(1, 1, 0, 2), M2(1, 0, 0, 0))>>
ASSUME /\ \A x \in HermVecs : MMul(MMul(<<x>>, HermForm2), Tr(<<x>>))[1][1] = 2 * HermDet(HermCombo(x))
       /\ \A k \in 1..Len(HermGroup) :
            LET a == HermGroup[k]
                d == CDet2(a)
            IN MMul(Tr(HermM(a)), MMul(HermForm2, HermM(a))) = MScale(d[1] * d[1] + d[2] * d[2], HermForm2)

(***************************************************************************)
(* Emission                                                                *)
(***************************************************************************)
Obs == [g |-> g, ginv |-> ginv, len |-> len, formad |-> FormAd(ginv), adgl |-> AdGL(g, ginv)]
EmitObs == PrintT("OBS " \o ToJson(Obs))
Emit == PrintT("EMIT " \o ToJson([from |-> g, v |-> last', refl |-> Refl(last'), to |-> g']))
View == <<g, len>>
ASSUME PrintT("TAB " \o ToJson([form |-> Form, n |-> N, B |-> B, signature |-> Signature, detB |-> DetB, dim |-> D,
                                basis |-> Basis, nmat |-> NMat, diff |-> DiffM, killing |-> Killing,
                                killing_factor |-> N - 2, ads |-> Ads,
                                pool |-> [a \in 1..Len(Pool) |-> [X |-> Pool[a], gl |-> ToGl(Pool[a]),
                                                                   T |-> Traceless(Pool[a]), sl |-> ToSl(Traceless(Pool[a]))]],
                                herm2 |-> HermForm2,
                                hermgroup |-> [k \in 1..Len(HermGroup) |-> [g |-> HermGroup[k], det |-> CDet2(HermGroup[k])]]]))
=============================================================================
