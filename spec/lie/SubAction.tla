------------------------------ MODULE SubAction ------------------------------
(***************************************************************************)
(* Extension check X05: lie.subspace_action(A, W) on general invariant      *)
(* subspaces.  CONTRACT (the function has no docstring; this is what its    *)
(* callers form_alg_killing_form, form_adjoint and the repository tests     *)
(* rely on): for a square matrix A and an n x k matrix W whose columns are  *)
(* independent and span an A-invariant subspace, the result is the k x k    *)
(* matrix M of the restriction in that basis,  A W = W M; arrays of         *)
(* matrices and of subspaces are treated elementwise; a subspace that is    *)
(* not invariant, a non-square matrix and a subspace of the wrong ambient   *)
(* dimension are refused with ValueError (the three raise statements of the *)
(* function).  A single vector (1-d array) as W is accepted by an explicit  *)
(* branch of the code and means a 1-dimensional subspace.                   *)
(*                                                                         *)
(* EXACT MODEL.  A = F U F^-1 with U block upper triangular (blocks K and    *)
(* M - K) and F unimodular, walking through SL(M,Z) by shears: the first K   *)
(* columns of F span an invariant subspace on which A acts by U11; a        *)
(* unimodular change Mix of the basis gives M = Mix^-1 U11 Mix.  The last    *)
(* M - K columns span a subspace that is NOT invariant (U12 # 0).  TLC       *)
(* checks A W = W M and F F^-1 = 1 in every state.                           *)
(***************************************************************************)
EXTENDS IntMat, FiniteSets, Json

CONSTANTS M, K, MaxLen
VARIABLES F, Finv, len

Neg(k) == 0 - k
U == LET e(i, j) == IF i > K /\ j <= K THEN 0 ELSE ((i * 3 + j * j + i * j) % 7) - 3 IN Mk(M, M, e)
U11 == LET e(i, j) == U[i][j] IN Mk(K, K, e)
ASSUME K >= 1 /\ K < M /\ \E i \in 1..K, j \in (K + 1)..M : U[i][j] # 0

Elem(n, i, j, s) == LET e(r, c) == IF r = c THEN 1 ELSE IF r = i /\ c = j THEN s ELSE 0 IN Mk(n, n, e)
\* changes of basis of the subspace, with their inverses
Mixes == IF K = 1 THEN <<<<IdM(1), IdM(1)>>, <<MScale(Neg(1), IdM(1)), MScale(Neg(1), IdM(1))>>>>
         ELSE <<<<IdM(K), IdM(K)>>, <<Elem(K, 1, 2, 2), Elem(K, 1, 2, Neg(2))>>,
                <<MMul(Elem(K, 2, 1, 1), Elem(K, 1, 2, Neg(1))), MMul(Elem(K, 1, 2, 1), Elem(K, 2, 1, Neg(1)))>>>>
ASSUME \A m \in 1..Len(Mixes) : MMul(Mixes[m][1], Mixes[m][2]) = IdM(K)

A == MMul(MMul(F, U), Finv)
FirstCols == LET e(i, j) == F[i][j] IN Mk(M, K, e)
LastCols == LET e(i, j) == F[i][K + j] IN Mk(M, M - K, e)
W(m) == MMul(FirstCols, Mixes[m][1])
Act(m) == MMul(MMul(Mixes[m][2], U11), Mixes[m][1])

Ops == {<<i, (i % M) + 1, 1>> : i \in 1..M} \cup {<<(i % M) + 1, i, Neg(1)>> : i \in 1..M}
Init == F = IdM(M) /\ Finv = IdM(M) /\ len = 0
Shear(o) == /\ len < MaxLen
            /\ F' = MMul(F, Elem(M, o[1], o[2], o[3])) /\ Finv' = MMul(Elem(M, o[1], o[2], Neg(o[3])), Finv)
            /\ len' = len + 1
Next == \E o \in Ops : Shear(o)

InverseKept == MMul(F, Finv) = IdM(M)
Invariant == \A m \in 1..Len(Mixes) : MMul(A, W(m)) = MMul(W(m), Act(m))
\* coordinates of A LastCols in the frame F have a non-zero entry among the first K rows: not invariant
NotInvariant == LET C == MMul(Finv, MMul(A, LastCols)) IN \E i \in 1..K, j \in 1..(M - K) : C[i][j] # 0

Obs == [m |-> M, k |-> K, len |-> len, A |-> A,
        cases |-> [c \in 1..Len(Mixes) |-> [W |-> W(c), action |-> Act(c)]], not_invariant |-> LastCols]
EmitObs == PrintT("OBS " \o ToJson(Obs))
View == <<F, len>>
=============================================================================
