------------------------------- MODULE LieHom -------------------------------
(***************************************************************************)
(* Property C17: the Lie-group maps of geometry_tools.lie are homomorphisms *)
(* onto the groups they name.                                              *)
(*                                                                         *)
(* State: a group element g reached by a walk in generators, as an exact   *)
(* Gaussian-integer matrix [re |-> X, im |-> Y] (IntMat's C-layer; real    *)
(* groups have Y = 0):                                                     *)
(*     "sl2z"   SL(2,Z)        "gl2z"   GL(2,Z)  (determinant +-1)          *)
(*     "gl3z"   GL(3,Z)        "sl2zi"  SL(2,Z[i])                          *)
(*     "m2z", "m3z"   invertible NON-unimodular integer matrices (a monoid   *)
(*                    walk): there the adjoint images are rational and are   *)
(*                    carried as numerators g E_ij adj(g), resp. the same on *)
(*                    the traceless basis, over the denominator det g; the   *)
(*                    numerators are multiplicative, N(g) N(s) = N(g s)      *)
(*     "m2zi"         invertible non-unimodular Gaussian-integer 2x2 matrices *)
(* Sym^(n-1), the actions on quadratic forms and on Hermitian matrices,     *)
(* realification and block inclusion are integral and multiplicative on ALL  *)
(* matrices; outside the named groups the forms are not preserved but scaled *)
(* (discriminant by det^2, -det of a Hermitian matrix by |det g|^2).         *)
(* Every map is defined by its MEANING, not by the library's formula:       *)
(*   irrep n   Sym^(n-1): the action on binary forms of degree n-1 obtained *)
(*             by substituting e1 -> a e1 + c e2, e2 -> b e1 + d e2 and     *)
(*             multiplying out coefficient lists; basis e2^r, e1 e2^(r-1),  *)
(*             .., e1^r (the documented order)                              *)
(*   so21      the action on binary quadratic forms x e1^2 + y e1 e2 +      *)
(*             z e2^2 in the coordinates (x + z, x - z, y), in which the    *)
(*             discriminant y^2 - 4xz is the form diag(-1, 1, 1)            *)
(*   adgl      X -> g X g^-1 on the elementary matrices E_ij (row-major)    *)
(*   adsl      the same on the traceless matrices, basis E_ij (i # j) and   *)
(*             E_ii - E_nn, with the trace form tr(XY) = Killing / 2n       *)
(*   real      X + iY -> [[X, -Y], [Y, X]]                                  *)
(*   herm      H -> g H g* on Hermitian 2x2 matrices in the documented      *)
(*             basis E11, E22, [[0,1],[1,0]], [[0,i],[-i,0]]                *)
(*   so31      the same in the basis 1, diag(-1,1), [[0,1],[1,0]],          *)
(*             [[0,i],[-i,0]], in which -det is the form diag(-1,1,1,1)     *)
(*   blk m     block inclusion into the upper-left corner of the identity   *)
(* so21 and so31 have half-integer entries: the spec carries TWICE the      *)
(* matrix (scale 2), every other map has scale 1.  TLC checks in every      *)
(* state, for every map phi of the group and every generator s:             *)
(*   phi(g) phi(s) = scale * phi(g s),  phi(g) phi(g^-1) = scale * phi(1),  *)
(*   phi(1) = scale * 1,  the determinant of the irreducible images,        *)
(*   the preserved forms, the Killing form, and the laws that tie each      *)
(*   definition to its meaning (discriminant, determinant of Hermitian      *)
(*   matrices, trace of the adjoint, multiplication by i).                  *)
(***************************************************************************)
EXTENDS IntMat, Gauss, FiniteSets, Json

CONSTANTS Grp,        \* "sl2z", "gl2z", "gl3z", "sl2zi", "m2z", "m3z", "m2zi"
          MaxLen,     \* length of the walks
          MaxIrrep,   \* irreducible representations of dimension 2..MaxIrrep
          MaxDet      \* determinants of the irreducible images up to this dimension

VARIABLES g, len, last

Neg(k) == 0 - k
M2(a, b, c, d) == <<<<a, b>>, <<c, d>>>>
Dim == IF Grp \in {"gl3z", "m3z"} THEN 3 ELSE 2
Rational == Grp \in {"m2z", "m3z"}
NonUni == Rational \/ Grp = "m2zi"
Id == CId(Dim)
IsReal == Grp \notin {"sl2zi", "m2zi"}

E3(i, j, s) == LET e(r, c) == IF r = c THEN 1 ELSE IF r = i /\ c = j THEN s ELSE 0 IN Mk(3, 3, e)
Gens ==
  CASE Grp = "sl2z" -> [T |-> CReal(M2(1, 1, 0, 1)), Ti |-> CReal(M2(1, Neg(1), 0, 1)),
                        U |-> CReal(M2(1, 0, 1, 1)), Ui |-> CReal(M2(1, 0, Neg(1), 1)),
                        S |-> CReal(M2(0, Neg(1), 1, 0)), Si |-> CReal(M2(0, 1, Neg(1), 0))]
    [] Grp = "gl2z" -> [T |-> CReal(M2(1, 1, 0, 1)), Ui |-> CReal(M2(1, 0, Neg(1), 1)),
                        R |-> CReal(M2(1, 0, 0, Neg(1))), P |-> CReal(M2(0, 1, 1, 0)),
                        V |-> CReal(M2(2, 1, 1, 1))]
    [] Grp = "gl3z" -> [A |-> CReal(E3(1, 2, 1)), Ai |-> CReal(E3(1, 2, Neg(1))), B |-> CReal(E3(2, 3, 1)),
                        C |-> CReal(E3(3, 1, Neg(1))), Ci |-> CReal(E3(3, 1, 1)),
                        Q |-> CReal(<<<<0, 1, 0>>, <<0, 0, 1>>, <<1, 0, 0>>>>),
                        R |-> CReal(<<<<1, 0, 0>>, <<0, 1, 0>>, <<0, 0, Neg(1)>>>>)]
    [] Grp = "m2z" -> [A |-> CReal(M2(2, 1, 0, 1)), B |-> CReal(M2(1, 0, 1, 3)), T |-> CReal(M2(1, 1, 0, 1)),
                       R |-> CReal(M2(1, 0, 0, Neg(1))), C |-> CReal(M2(1, 2, Neg(1), 1))]
    [] Grp = "m3z" -> [A |-> CReal(<<<<2, 3, 1>>, <<1, 2, 1>>, <<1, 1, 2>>>>), B |-> CReal(<<<<1, 0, 0>>, <<0, 3, 1>>, <<0, 1, 1>>>>),
                       E |-> CReal(E3(1, 2, 1)), R |-> CReal(<<<<1, 0, 0>>, <<0, 1, 0>>, <<0, 0, Neg(1)>>>>),
                       Q |-> CReal(<<<<0, 1, 0>>, <<0, 0, 1>>, <<1, 0, 0>>>>)]
    [] Grp = "m2zi" -> [T |-> CReal(M2(1, 1, 0, 1)), S |-> CReal(M2(0, Neg(1), 1, 0)),
                        A |-> CM(M2(1, 1, 0, 1), M2(1, 0, 0, 0)), B |-> CM(M2(1, 0, 0, 2), M2(0, 0, 1, 0)),
                        U |-> CM(M2(0, 0, 0, 1), M2(1, 0, 0, 0)), R |-> CReal(M2(2, 1, 0, Neg(1)))]
    [] Grp = "sl2zi" -> [T |-> CReal(M2(1, 1, 0, 1)), S |-> CReal(M2(0, Neg(1), 1, 0)),
                         J |-> CM(M2(1, 0, 0, 1), M2(0, 1, 0, 0)), Ji |-> CM(M2(1, 0, 0, 1), M2(0, Neg(1), 0, 0)),
                         L |-> CM(M2(1, 0, 0, 1), M2(0, 0, 1, 0)),
                         D |-> CM(M2(0, 0, 0, 0), M2(1, 0, 0, Neg(1)))]
GenNames == DOMAIN Gens

Mul(a, b) == CMul(a, b)
Inv(a) == IF Dim = 2 THEN CInv2(a) ELSE CReal(InvM(a.re))
En(a, i, j) == <<a.re[i][j], a.im[i][j]>>
DetOf(a) == IF Dim = 2 THEN CDet2(a) ELSE <<Det(a.re), 0>>
\* the right-hand conjugator of the adjoint: g^-1, or for the non-unimodular groups the adjugate (= det g * g^-1)
ConjRight(a) == IF Rational THEN Adj(a.re) ELSE Inv(a).re
Den(a) == IF Rational THEN DetOf(a)[1] ELSE 1

(***************************************************************************)
(* Sym^(n-1) by multiplication of coefficient lists                        *)
(* a polynomial is the list of its coefficients of e1^0 e2^r .. e1^r e2^0   *)
(***************************************************************************)
RECURSIVE ConvSum(_, _, _, _, _)
ConvSum(p, q, k, i, hi) == IF i > hi THEN GZero ELSE GAdd(GMul(p[i], q[k + 1 - i]), ConvSum(p, q, k, i + 1, hi))
PolyMul(p, q) ==
  TLCEval([k \in 1..(Len(p) + Len(q) - 1) |->
             ConvSum(p, q, k, IF k + 1 - Len(q) > 1 THEN k + 1 - Len(q) ELSE 1, IF k < Len(p) THEN k ELSE Len(p))])
RECURSIVE PolyPow(_, _)
PolyPow(p, e) == IF e = 0 THEN <<GOne>> ELSE PolyMul(PolyPow(p, e - 1), p)
\* image of the monomial e1^k e2^(r-k) under e1 -> a e1 + c e2, e2 -> b e1 + d e2
SymCol(a, r, k) == PolyMul(PolyPow(<<En(a, 2, 1), En(a, 1, 1)>>, k), PolyPow(<<En(a, 2, 2), En(a, 1, 2)>>, r - k))
Sym(a, n) ==
  LET cols == TLCEval([k \in 1..n |-> SymCol(a, n - 1, k - 1)])
      re(j, k) == cols[k][j][1]
      im(j, k) == cols[k][j][2]
  IN CM(Mk(n, n, re), Mk(n, n, im))

(***************************************************************************)
(* SL(2,R) -> SO(2,1) through binary quadratic forms                        *)
(***************************************************************************)
\* coefficient vector (z, y, x) of x e1^2 + y e1 e2 + z e2^2  ->  (x + z, x - z, y)
Cq == <<<<1, 0, 1>>, <<Neg(1), 0, 1>>, <<0, 1, 0>>>>
ASSUME MMul(Cq, Adj(Cq)) = MScale(Neg(2), IdM(3))
So21x2(a) == MNeg(MMul(MMul(Cq, Sym(a, 3).re), Adj(Cq)))           \* twice the matrix
J3 == <<<<Neg(1), 0, 0>>, <<0, 1, 0>>, <<0, 0, 1>>>>
Disc(q) == q[2] * q[2] - 4 * q[1] * q[3]
TestForms == {<<1, 0, 1>>, <<1, 1, 0 - 1>>, <<2, 0 - 1, 3>>, <<0, 1, 0>>, <<1, 2, 1>>, <<0 - 1, 3, 2>>}

(***************************************************************************)
(* Other forms of signature (2,1): B = C^T J C for an invertible integer C   *)
(* (congruent to J, hence of the same signature).  The group preserving B   *)
(* is C^-1 O(J) C; the element corresponding to g is C^-1 X C, carried as    *)
(* the numerator adj(C) (2X) C over 2 det C.  o_to_pgl(., bilinear_form=B)   *)
(* is documented as the representation of THAT group, so it must again be    *)
(* multiplicative up to sign, of the determinant of g and of its |trace|    *)
(* (it is determined up to conjugacy only: the frame diagonalising B is     *)
(* not unique); for scalar C (B a multiple of J) it must return +-g.         *)
(***************************************************************************)
D3(a, b, c) == <<<<a, 0, 0>>, <<0, b, 0>>, <<0, 0, c>>>>
FormPool == <<D3(2, 2, 2), D3(3, 1, 2), <<<<1, 1, 0>>, <<0, 1, 0>>, <<0, 0, 1>>>>,
              <<<<2, 1, 0>>, <<1, 1, 1>>, <<0, 1, 3>>>>, <<<<1, 0, 1>>, <<0, 2, 0>>, <<0, 0, Neg(1)>>>>>>
FormOf(C) == MMul(Tr(C), MMul(J3, C))
ConjNum(C, a) == MMul(MMul(Adj(C), So21x2(a)), C)
IsScalar(C) == C = MScale(C[1][1], IdM(3))
ASSUME \A i \in 1..Len(FormPool) : Det(FormPool[i]) # 0 /\ FormOf(FormPool[i]) = Tr(FormOf(FormPool[i]))

(***************************************************************************)
(* Adjoint representations                                                 *)
(***************************************************************************)
RowOf(q, n) == ((q - 1) \div n) + 1
ColOf(q, n) == ((q - 1) % n) + 1
Flat(X, p, n) == X[RowOf(p, n)][ColOf(p, n)]
SlBasis(q, n) == IF RowOf(q, n) = ColOf(q, n) THEN MSub(UnitM(n, RowOf(q, n), ColOf(q, n)), UnitM(n, n, n))
                 ELSE UnitM(n, RowOf(q, n), ColOf(q, n))
AdGL(a) == LET n == NRows(a.re)
               ai == ConjRight(a)
               img == TLCEval([q \in 1..(n * n) |-> MMul(MMul(a.re, UnitM(n, RowOf(q, n), ColOf(q, n))), ai)])
               e(p, q) == Flat(img[q], p, n)
           IN Mk(n * n, n * n, e)
AdSL(a) == LET n == NRows(a.re)
               ai == ConjRight(a)
               img == TLCEval([q \in 1..(n * n - 1) |-> MMul(MMul(a.re, SlBasis(q, n)), ai)])
               e(p, q) == Flat(img[q], p, n)
           IN Mk(n * n - 1, n * n - 1, e)
RECURSIVE TraceTo(_, _)
TraceTo(X, k) == IF k = 0 THEN 0 ELSE X[k][k] + TraceTo(X, k - 1)
Trace(X) == TraceTo(X, NRows(X))
\* trace forms (the Killing form of sl_n is 2n times TraceFormSL)
TraceFormSL(n) == LET e(p, q) == Trace(MMul(SlBasis(p, n), SlBasis(q, n))) IN Mk(n * n - 1, n * n - 1, e)
TraceFormGL(n) == LET e(p, q) == IF RowOf(p, n) = ColOf(q, n) /\ ColOf(p, n) = RowOf(q, n) THEN 1 ELSE 0
                  IN Mk(n * n, n * n, e)
\* ad_X = (Y -> XY - YX) on gl_n in the row-major basis;  Killing(X, Y) = tr(ad_X ad_Y)
AdAlg(X) == LET n == NRows(X) IN MSub(Kron(X, IdM(n)), Kron(IdM(n), Tr(X)))
ASSUME \A p, q \in 1..(Dim * Dim - 1) :
         Trace(MMul(AdAlg(SlBasis(p, Dim)), AdAlg(SlBasis(q, Dim)))) = 2 * Dim * TraceFormSL(Dim)[p][q]

(***************************************************************************)
(* Hermitian matrices: SL(2,C) -> SO(3,1)                                   *)
(***************************************************************************)
CStar(a) == CM(Tr(a.re), MNeg(Tr(a.im)))                         \* conjugate transpose
Z2 == ZeroM(2, 2)
HermBasis == <<CM(M2(1, 0, 0, 0), Z2), CM(M2(0, 0, 0, 1), Z2), CM(M2(0, 1, 1, 0), Z2), CM(Z2, M2(0, 1, Neg(1), 0))>>
Pauli == <<CM(M2(1, 0, 0, 1), Z2), CM(M2(Neg(1), 0, 0, 1), Z2), CM(M2(0, 1, 1, 0), Z2), CM(Z2, M2(0, 1, Neg(1), 0))>>
HermAct(a, H) == CMul(CMul(a, H), CStar(a))
IsHerm(H) == H.re = Tr(H.re) /\ H.im = MNeg(Tr(H.im))
\* coordinates of the Hermitian matrix [[p, q], [conj q, r]]
HermCoords(H) == <<H.re[1][1], H.re[2][2], H.re[1][2], H.im[1][2]>>                       \* in HermBasis
PauliCoords2(H) == <<H.re[1][1] + H.re[2][2], H.re[2][2] - H.re[1][1], 2 * H.re[1][2], 2 * H.im[1][2]>>  \* twice, in Pauli
HermM(a) == LET img == TLCEval([k \in 1..4 |-> HermCoords(HermAct(a, HermBasis[k]))])
                e(i, k) == img[k][i]
            IN Mk(4, 4, e)
So31x2(a) == LET img == TLCEval([k \in 1..4 |-> PauliCoords2(HermAct(a, Pauli[k]))])
                 e(i, k) == img[k][i]
             IN Mk(4, 4, e)
J4 == LET e(i, j) == IF i # j THEN 0 ELSE IF i = 1 THEN Neg(1) ELSE 1 IN Mk(4, 4, e)
HermDet(H) == H.re[1][1] * H.re[2][2] - (H.re[1][2] * H.re[1][2] + H.im[1][2] * H.im[1][2])
\* the basis change between the two bases (columns: Pauli vectors in HermBasis coordinates)
PauliInHerm == <<<<1, Neg(1), 0, 0>>, <<1, 1, 0, 0>>, <<0, 0, 1, 0>>, <<0, 0, 0, 1>>>>

(***************************************************************************)
(* Realification and block inclusion                                       *)
(***************************************************************************)
PadZero(A, m) == LET n == NRows(A)
                     e(i, j) == IF i <= n /\ j <= n THEN A[i][j] ELSE 0
                 IN Mk(m, m, e)
Blk(a, m) == CM(BlockInclude(a.re, m), PadZero(a.im, m))

(***************************************************************************)
(* The maps of each group: name -> <<kind, parameter>>, scale               *)
(***************************************************************************)
AllMaps == [irrep2 |-> <<"irrep", 2>>, irrep3 |-> <<"irrep", 3>>, irrep4 |-> <<"irrep", 4>>,
            irrep5 |-> <<"irrep", 5>>, irrep6 |-> <<"irrep", 6>>, so21 |-> <<"so21", 0>>,
            adgl |-> <<"adgl", 0>>, adsl |-> <<"adsl", 0>>, real |-> <<"real", 0>>, herm |-> <<"herm", 0>>,
            so31 |-> <<"so31", 0>>, blk3 |-> <<"blk", 3>>, blk4 |-> <<"blk", 4>>, blk5 |-> <<"blk", 5>>]
Irreps == {nm \in {"irrep2", "irrep3", "irrep4", "irrep5", "irrep6"} : AllMaps[nm][2] <= MaxIrrep}
MapNames ==
  CASE Grp = "sl2z" -> Irreps \cup {"so21", "adgl", "adsl", "real", "herm", "so31", "blk3", "blk4"}
    [] Grp = "gl2z" -> Irreps \cup {"so21", "adgl", "adsl", "blk4"}
    [] Grp = "gl3z" -> {"adgl", "adsl", "real", "blk5"}
    [] Grp = "sl2zi" -> Irreps \cup {"real", "herm", "so31", "blk3"}
    [] Grp = "m2z" -> Irreps \cup {"so21", "adgl", "adsl", "real", "herm", "so31", "blk4"}
    [] Grp = "m2zi" -> Irreps \cup {"real", "herm", "so31", "blk3"}
    [] Grp = "m3z" -> {"adgl", "adsl", "real", "blk5"}
Scale(nm) == IF nm \in {"so21", "so31"} THEN 2 ELSE 1
Phi(nm, a) ==
  LET mp == AllMaps[nm] IN
  CASE mp[1] = "irrep" -> Sym(a, mp[2])
    [] mp[1] = "so21" -> CReal(So21x2(a))
    [] mp[1] = "adgl" -> CReal(AdGL(a))
    [] mp[1] = "adsl" -> CReal(AdSL(a))
    [] mp[1] = "real" -> CReal(CToReal(a))
    [] mp[1] = "herm" -> CReal(HermM(a))
    [] mp[1] = "so31" -> CReal(So31x2(a))
    [] mp[1] = "blk" -> Blk(a, mp[2])
Times(k, X) == CScale(k, 0, X)

(***************************************************************************)
(* The walk                                                                *)
(***************************************************************************)
Init == g = Id /\ len = 0 /\ last = "init"
Right(nm) == /\ len < MaxLen
             /\ g' = Mul(g, Gens[nm]) /\ len' = len + 1 /\ last' = nm
Next == \E nm \in GenNames : Right(nm)

(***************************************************************************)
(* What TLC checks                                                         *)
(***************************************************************************)
Img == TLCEval([nm \in MapNames |-> Phi(nm, g)])
GenImg == TLCEval([nm \in MapNames |-> TLCEval([s \in GenNames |-> Phi(nm, Gens[s])])])     \* constant table
\* (right multiplication by every generator, in every state of the ball: by induction on the length
\* of the walk this is phi(v w) = phi(v) phi(w) for all words whose product stays in the ball)
HomLaw == LET I == Img IN
          \A nm \in MapNames, s \in GenNames :
            Mul(I[nm], GenImg[nm][s]) = Times(Scale(nm), Phi(nm, Mul(g, Gens[s])))
\* (32-bit integers: evaluated where the entries of both factors are below 10^4, so that no sum of products overflows)
CSmall(X) == MaxAbs(X.re) <= 10000 /\ MaxAbs(X.im) <= 10000
InverseLaw == ~NonUni => \A nm \in MapNames :
                LET X == Phi(nm, g)
                    Y == Phi(nm, Inv(g))
                IN (CSmall(X) /\ CSmall(Y)) => Mul(X, Y) = Times(Scale(nm), Phi(nm, Id))
GroupElement == /\ Rational => DetOf(g)[1] # 0 /\ DetOf(g)[2] = 0 /\ MMul(g.re, Adj(g.re)) = MScale(DetOf(g)[1], IdM(Dim))
                /\ Grp = "m2zi" => DetOf(g) # <<0, 0>>
                /\ ~NonUni => DetOf(g) \in (IF Grp \in {"sl2z", "sl2zi"} THEN {<<1, 0>>} ELSE {<<1, 0>>, <<Neg(1), 0>>})
                /\ ~NonUni => Mul(g, Inv(g)) = Id
                /\ IsReal => g.im = ZeroM(Dim, Dim)
RECURSIVE IPow(_, _)
IPow(b, e) == IF e = 0 THEN 1 ELSE b * IPow(b, e - 1)
\* det Sym^(n-1)(g) = det(g)^(n(n-1)/2).  TLC integers are 32 bit: the cofactor expansion is evaluated on the
\* states whose image has entries so small that no minor can overflow (n! B^n < 2^31); for every state
\* InverseLaw already gives det = +-1
DetBound(n) == CASE n = 2 -> 30000 [] n = 3 -> 700 [] n = 4 -> 90 [] n = 5 -> 27 [] n = 6 -> 11
IrrepDet == IsReal => \A nm \in Irreps \cap MapNames : AllMaps[nm][2] <= MaxDet =>
              LET n == AllMaps[nm][2]
                  X == Phi(nm, g).re
              IN MaxAbs(X) <= DetBound(n) => Det(X) = IPow(DetOf(g)[1], (n * (n - 1)) \div 2)
So21Laws == "so21" \in MapNames =>
              LET X == So21x2(g)
                  S3 == Sym(g, 3).re
                  d == DetOf(g)[1]          \* the discriminant is scaled by det^2 (preserved in GL(2,Z))
              IN /\ MMul(Tr(X), MMul(J3, X)) = MScale(4 * d * d, J3)
                 /\ MaxAbs(X) <= DetBound(3) => Det(X) = 8 * d * d * d      \* (guard: 32-bit cofactor expansion)
                 /\ \A q \in TestForms : Disc(MatVec(S3, q)) = d * d * Disc(q)
\* C^-1 X C preserves B = C^T J C (up to the factor det g ^2 outside GL(2,Z)); 32-bit guard on the numerators
FormPoolLaws == "so21" \in MapNames =>
                  \A i \in 1..Len(FormPool) :
                    LET C == FormPool[i]
                        N == ConjNum(C, g)
                        d == 2 * Det(C) * DetOf(g)[1]
                    IN MaxAbs(N) <= 2000 => MMul(Tr(N), MMul(FormOf(C), N)) = MScale(d * d, FormOf(C))
So31Laws == "so31" \in MapNames =>
              LET X == So31x2(g)
                  n2 == GNorm(DetOf(g))     \* -det of a Hermitian matrix is scaled by |det g|^2 (preserved in SL(2,C))
              IN
              /\ MMul(Tr(X), MMul(J4, X)) = MScale(4 * n2, J4)
              /\ MaxAbs(X) <= DetBound(4) => Det(X) = 16 * n2 * n2
              /\ \A k \in 1..4 : IsHerm(HermAct(g, Pauli[k])) /\ IsHerm(HermAct(g, HermBasis[k]))
              /\ \A k \in 1..4 : HermDet(HermAct(g, Pauli[k])) = n2 * HermDet(Pauli[k])
              /\ MMul(PauliInHerm, X) = MScale(2, MMul(HermM(g), PauliInHerm))
AdjointLaws == "adgl" \in MapNames =>
                 LET n == Dim
                     A == AdGL(g)
                     B == AdSL(g)
                     d == Den(g)            \* A, B are numerators over d: (A/d)^T K (A/d) = K
                 IN /\ MMul(Tr(B), MMul(TraceFormSL(n), B)) = MScale(d * d, TraceFormSL(n))
                    /\ MMul(Tr(A), MMul(TraceFormGL(n), A)) = MScale(d * d, TraceFormGL(n))
                    /\ Trace(A) = Trace(g.re) * Trace(ConjRight(g))
                    /\ Trace(B) = Trace(A) - d
RealLaws == "real" \in MapNames =>
              /\ CToReal(Times(1, g)) = CToReal(g)
              /\ CToReal(CScale(0, 1, g)) = MMul(CToReal(CScale(0, 1, Id)), CToReal(g))
ASSUME \A nm \in MapNames : Phi(nm, Id) = Times(Scale(nm), CId(NRows(Phi(nm, Id).re)))

(***************************************************************************)
(* Emission                                                                *)
(***************************************************************************)
Obs == [g |-> g, len |-> len, det |-> DetOf(g), den |-> Den(g), img |-> Img]
EmitObs == PrintT("OBS " \o ToJson(Obs))
Emit == PrintT("EMIT " \o ToJson([from |-> g, act |-> last', to |-> g']))
View == <<g, len>>
ASSUME PrintT("TAB " \o ToJson([gens |-> Gens, scale |-> [nm \in MapNames |-> Scale(nm)],
                                killing |-> 2 * Dim, traceform |-> TraceFormSL(Dim),
                                forms |-> [i \in 1..Len(FormPool) |-> [C |-> FormPool[i], B |-> FormOf(FormPool[i]),
                                                                        scalar |-> IsScalar(FormPool[i])]]]))
=============================================================================
