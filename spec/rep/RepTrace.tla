------------------------------ MODULE RepTrace ------------------------------
(***************************************************************************)
(* Property C05, trace validation (code -> spec).  A trace file (JSON)      *)
(* holds histories recorded from a live Representation: every public call  *)
(* (assignment by either case, evaluation of a word, elements, derived     *)
(* representation, assignment to / evaluation on the derived one, the      *)
(* differential) with its arguments, its result as exact integers, and the *)
(* full generator dictionaries after the call.  A history is accepted iff  *)
(* every event is a step of the specification: the logged result is the    *)
(* specified value and the logged dictionaries equal the post-state.       *)
(* All histories of a file are validated in one TLC run (variable tid).    *)
(***************************************************************************)
EXTENDS Fox, Json, IOUtils

VARIABLES gens, der, tid, l

Traces == JsonDeserialize(IOEnv.TRACE_FILE)
Verbose == "TRACE_VERBOSE" \in DOMAIN IOEnv /\ IOEnv.TRACE_VERBOSE = "1"

Empty == [x \in {} |-> <<>>]
Dim == Traces[tid].n

Assign(D, name, M) ==
  [x \in DOMAIN D \cup {name, Inv(name)} |->
     IF x = name THEN M ELSE IF x = Inv(name) THEN InvM(M) ELSE D[x]]

\* a logged dictionary (JSON object, or [] when empty) equals the dictionary D
SameDict(logged, D) ==
  IF DOMAIN D = {} THEN logged = <<>> \/ DOMAIN logged = {}
  ELSE /\ DOMAIN logged = DOMAIN D
       /\ \A x \in DOMAIN D : logged[x] = D[x]

TraceInit == gens = Empty /\ der = Empty /\ tid \in 1..Len(Traces) /\ l = 0

Step(ev) ==
  \/ /\ ev.op = "set"
     /\ gens' = Assign(gens, ev.name, ev.M) /\ UNCHANGED der
  \/ /\ ev.op = "eval"
     /\ ev.res = Val(gens, Dim, ev.w) /\ UNCHANGED <<gens, der>>
  \/ /\ ev.op = "elements"
     /\ Len(ev.res) = Len(ev.ws)
     /\ \A i \in 1..Len(ev.ws) : ev.res[i] = Val(gens, Dim, ev.ws[i])
     /\ UNCHANGED <<gens, der>>
  \/ /\ ev.op = "derive"
     /\ DOMAIN gens # {}
     /\ der' = Derived(ev.kind, gens) /\ UNCHANGED gens
  \/ /\ ev.op = "setder"
     /\ der' = Assign(der, ev.name, ev.M) /\ UNCHANGED gens
  \/ /\ ev.op = "deval"
     /\ ev.res = Val(der, Dim, ev.w) /\ UNCHANGED <<gens, der>>
  \/ /\ ev.op = "diff"
     /\ DOMAIN ev.res = LowerOf(gens)
     /\ \A g \in LowerOf(gens) : ev.res[g] = DMat(gens, Dim, g, ev.w)
     /\ UNCHANGED <<gens, der>>

Post(ev) == SameDict(ev.post, gens') /\ SameDict(ev.dpost, der')

TraceNext ==
  /\ l < Len(Traces[tid].events)
  /\ l' = l + 1 /\ UNCHANGED tid
  /\ LET ev == Traces[tid].events[l + 1] IN Step(ev) /\ Post(ev)

\* model-level sanity on every visited state
Coherent == InverseCoherent(gens, Dim) /\ InverseCoherent(der, Dim)

Accepted ==
  /\ (l = Len(Traces[tid].events)) => PrintT("ACCEPT " \o ToString(tid))
  /\ Verbose => PrintT("AT " \o ToString(tid) \o " " \o ToString(l))

TraceView == <<gens, der, tid, l>>
=============================================================================
