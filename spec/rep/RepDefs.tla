------------------------------ MODULE RepDefs ------------------------------
(***************************************************************************)
(* Property C05, reference semantics (pure operators).                     *)
(*                                                                         *)
(* A representation is its generator dictionary G: a function from letters *)
(* (lower case = generator, upper case = its formal inverse) to exact      *)
(* unimodular integer matrices.  Val(G, n, w) is the image of a word: the   *)
(* left-to-right product, identity for the empty word.  Every derived      *)
(* representation is defined generator-free, as a function F of a matrix   *)
(* (dual = inverse transpose, Kronecker product, symmetric square through  *)
(* the documented projection / inclusion, adjoint = matrix of X -> AXA^-1  *)
(* in the documented basis, ...); the theorems that these F commute with   *)
(* word evaluation are stated here and checked by TLC in Rep.tla.          *)
(***************************************************************************)
EXTENDS Naturals, Integers, Sequences, FiniteSets, TLC, IntMat

Wd == INSTANCE Words WITH Gens <- {"a", "b", "c", "d"}, MaxLen <- 0, x <- 0

Lower == {"a", "b", "c", "d"}
Inv(l) == Wd!Inv(l)
Reduce(w) == Wd!Reduce(w)
IsReduced(w) == Wd!IsReduced(w)
FormalInverse(w) == Wd!FormalInverse(w)
WordsOver(A, k) == Wd!WordsOver(A, k)
WordsUpTo(A, k) == Wd!WordsUpTo(A, k)

(***************************************************************************)
(* Generator dictionaries and word evaluation                              *)
(***************************************************************************)
\* the dictionary obtained by assigning lo[g] to every lower-case g of DOMAIN lo
Full(lo) == [l \in DOMAIN lo \cup {Inv(g) : g \in DOMAIN lo} |->
               IF l \in DOMAIN lo THEN lo[l] ELSE InvM(lo[Inv(l)])]

RECURSIVE ValAcc(_, _, _)
ValAcc(G, acc, w) == IF w = <<>> THEN acc ELSE ValAcc(G, MMul(acc, G[Head(w)]), Tail(w))
Val(G, n, w) == ValAcc(G, IdM(n), w)

Letters(G) == DOMAIN G
InverseCoherent(G, n) == \A l \in DOMAIN G : Inv(l) \in DOMAIN G /\ MMul(G[l], G[Inv(l)]) = IdM(n)

\* the laws of the property on one dictionary, for all words up to length L
HomLaw(G, n, L) ==
  \A u \in WordsUpTo(DOMAIN G, L) : \A v \in WordsUpTo(DOMAIN G, L - Len(u)) :
     Val(G, n, u \o v) = MMul(Val(G, n, u), Val(G, n, v))
ReduceLaw(G, n, L) == \A w \in WordsUpTo(DOMAIN G, L) : Val(G, n, Reduce(w)) = Val(G, n, w)
InverseLaw(G, n, L) == \A w \in WordsUpTo(DOMAIN G, L) : Val(G, n, FormalInverse(w)) = InvM(Val(G, n, w))

(***************************************************************************)
(* Symmetric square: documented bases                                      *)
(***************************************************************************)
SymDim(n) == (n * (n + 1)) \div 2
\* sym_index(i, j, n) of the documentation, 1-based in and out
SymIdx(i, j, n) == LET p == IF i <= j THEN i ELSE j
                       q == IF i <= j THEN j ELSE i
                       i0 == p - 1
                   IN (((n - i0) * (n - i0 - 1)) \div 2) + (q - p) + 1
\* tensor_index(i, j, n), 1-based
TenIdx(i, j, n) == (i - 1) * n + j
\* symmetric_projection: e_u (x) e_v -> e_u e_v
SymProj(n) == LET e(s, t) == IF s = SymIdx(((t - 1) \div n) + 1, ((t - 1) % n) + 1, n) THEN 1 ELSE 0
              IN Mk(SymDim(n), n * n, e)
\* twice symmetric_inclusion: e_i e_j -> e_i (x) e_j + e_j (x) e_i
SymIncl2(n) == LET e(t, s) == LET i == ((t - 1) \div n) + 1  j == ((t - 1) % n) + 1
                              IN IF s = SymIdx(i, j, n) THEN (IF i = j THEN 2 ELSE 1) ELSE 0
               IN Mk(n * n, SymDim(n), e)
Sym2Twice(A) == MMul(MMul(SymProj(NRows(A)), Kron(A, A)), SymIncl2(NRows(A)))
Sym2(A) == MDiv(Sym2Twice(A), 2)
\* swap of the two tensor factors
SwapM(n) == LET e(s, t) == IF s = TenIdx(((t - 1) % n) + 1, ((t - 1) \div n) + 1, n) THEN 1 ELSE 0
            IN Mk(n * n, n * n, e)
\* the induced action on monomials written out: (A e_i)(A e_j) = sum_{k<=l} c e_k e_l
Sym2Direct(A) ==
  LET n == NRows(A)
      pairs == {<<i, j>> \in (1..n) \X (1..n) : i <= j}
      pr(s) == CHOOSE p \in pairs : SymIdx(p[1], p[2], n) = s
      e(s, t) == LET k == pr(s)[1]  l == pr(s)[2]  i == pr(t)[1]  j == pr(t)[2]
                 IN IF k = l THEN A[k][i] * A[k][j] ELSE A[k][i] * A[l][j] + A[l][i] * A[k][j]
  IN Mk(SymDim(n), SymDim(n), e)

SymBasesSound(n) ==
  /\ {SymIdx(i, j, n) : i \in 1..n, j \in 1..n} = 1..SymDim(n)
  /\ \A i \in 1..n, j \in 1..n : SymIdx(i, j, n) = SymIdx(j, i, n)
  /\ MMul(SymProj(n), SymIncl2(n)) = MScale(2, IdM(SymDim(n)))
  /\ MMul(SymIncl2(n), SymProj(n)) = MAdd(IdM(n * n), SwapM(n))

(***************************************************************************)
(* Adjoint representations: documented bases                               *)
(***************************************************************************)
\* matrix of X -> A X A^-1 on gl_n in the basis E_11, E_12, ..., E_nn (row-major)
GlnAd(A) ==
  LET n == NRows(A)
      Ai == InvM(A)
      img == TLCEval([c \in 1..(n * n) |-> MMul(MMul(A, UnitM(n, ((c - 1) \div n) + 1, ((c - 1) % n) + 1)), Ai)])
      e(r, c) == img[c][((r - 1) \div n) + 1][((r - 1) % n) + 1]
  IN Mk(n * n, n * n, e)
\* on sl_n in the basis E_ij (i # j), E_ii - E_nn (row-major, last omitted); coordinates = entries but the last
SlnAd(A) ==
  LET n == NRows(A)
      Ai == InvM(A)
      bas(c) == LET i == ((c - 1) \div n) + 1  j == ((c - 1) % n) + 1
                IN IF i = j THEN MSub(UnitM(n, i, i), UnitM(n, n, n)) ELSE UnitM(n, i, j)
      img == TLCEval([c \in 1..(n * n - 1) |-> MMul(MMul(A, bas(c)), Ai)])
      e(r, c) == img[c][((r - 1) \div n) + 1][((r - 1) % n) + 1]
  IN Mk(n * n - 1, n * n - 1, e)
RECURSIVE DiagSum(_, _)
DiagSum(A, k) == IF k = 0 THEN 0 ELSE A[k][k] + DiagSum(A, k - 1)
MTrace(A) == DiagSum(A, NRows(A))

(***************************************************************************)
(* Derived representations, generator-free                                 *)
(***************************************************************************)
\* k is a record with field kind (and parameters C, m where needed)
F(k, A) ==
  CASE k.kind = "copy" -> A
    [] k.kind = "astype" -> A
    [] k.kind = "compose_id" -> A
    [] k.kind = "conjugate" -> MMul(MMul(InvM(k.C), A), k.C)
    [] k.kind = "dual" -> Tr(InvM(A))
    [] k.kind = "compose_invT" -> Tr(InvM(A))
    [] k.kind = "compose_kron2" -> Kron(A, A)
    [] k.kind = "compose_block" -> BlockInclude(A, k.m)
    [] k.kind = "symmetric_square" -> Sym2(A)
    [] k.kind = "gln_adjoint" -> GlnAd(A)
    [] k.kind = "sln_adjoint" -> SlnAd(A)

DimF(k, n) ==
  CASE k.kind \in {"copy", "astype", "compose_id", "conjugate", "dual", "compose_invT"} -> n
    [] k.kind = "compose_kron2" -> n * n
    [] k.kind = "compose_block" -> k.m
    [] k.kind = "symmetric_square" -> SymDim(n)
    [] k.kind = "gln_adjoint" -> n * n
    [] k.kind = "sln_adjoint" -> n * n - 1

Derived(k, G) == [l \in DOMAIN G |-> F(k, G[l])]

\* F is a homomorphism on the image, so the derived dictionary evaluates to F of the image
DerivedCommutes(k, G, n, L) ==
  LET GD == Derived(k, G) IN
  /\ InverseCoherent(GD, DimF(k, n))
  /\ \A w \in WordsUpTo(DOMAIN G, L) : F(k, Val(G, n, w)) = Val(GD, DimF(k, n), w)

TensorGens(G, H) == [l \in DOMAIN G |-> Kron(G[l], H[l])]
TensorCommutes(G, n, H, m, L) ==
  LET GD == TensorGens(G, H) IN
  /\ DOMAIN G = DOMAIN H
  /\ InverseCoherent(GD, n * m)
  /\ \A w \in WordsUpTo(DOMAIN G, L) : Kron(Val(G, n, w), Val(H, m, w)) = Val(GD, n * m, w)

\* subgroup: sub maps new lower-case letters to words of G
RECURSIVE Subst(_, _)
Subst(sub, w) == IF w = <<>> THEN <<>>
                 ELSE (IF Head(w) \in DOMAIN sub THEN sub[Head(w)] ELSE FormalInverse(sub[Inv(Head(w))]))
                      \o Subst(sub, Tail(w))
SubLower(G, n, sub) == [g \in DOMAIN sub |-> Val(G, n, sub[g])]
SubGens(G, n, sub) == Full(SubLower(G, n, sub))
\* the dictionary when the inverses are evaluated from the formally inverted words
SubGensFormal(G, n, sub) ==
  [l \in DOMAIN sub \cup {Inv(g) : g \in DOMAIN sub} |->
     IF l \in DOMAIN sub THEN Val(G, n, sub[l]) ELSE Val(G, n, FormalInverse(sub[Inv(l)]))]
SubgroupCommutes(G, n, sub, L) ==
  LET GS == SubGens(G, n, sub) IN
  /\ GS = SubGensFormal(G, n, sub)
  /\ \A w \in WordsUpTo(DOMAIN GS, L) : Val(GS, n, w) = Val(G, n, Subst(sub, w))

(***************************************************************************)
(* Gaussian-integer 2 x 2 representations                                  *)
(***************************************************************************)
CFull(lo) == [l \in DOMAIN lo \cup {Inv(g) : g \in DOMAIN lo} |->
                IF l \in DOMAIN lo THEN lo[l] ELSE CInv2(lo[Inv(l)])]
RECURSIVE CValAcc(_, _, _)
CValAcc(G, acc, w) == IF w = <<>> THEN acc ELSE CValAcc(G, CMul(acc, G[Head(w)]), Tail(w))
CVal(G, w) == CValAcc(G, CId(2), w)
CValN(G, n, w) == CValAcc(G, CId(n), w)

CGlnAd(A) == CKron(A, CTr(CInv2(A)))
\* complex derived kinds whose result is again complex
CF(k, A) ==
  CASE k.kind = "copy" -> A
    [] k.kind = "astype" -> A
    [] k.kind = "conjugate" -> CMul(CMul(CInv2(k.C), A), k.C)
    [] k.kind = "dual" -> CTr(CInv2(A))
    [] k.kind = "gln_adjoint" -> CGlnAd(A)
    [] k.kind = "compose_kron2" -> CKron(A, A)
CDimF(k) == IF k.kind \in {"gln_adjoint", "compose_kron2"} THEN 4 ELSE 2
CDerived(k, G) == [l \in DOMAIN G |-> CF(k, G[l])]
CInverseCoherent(G, n) == \A l \in DOMAIN G : Inv(l) \in DOMAIN G /\ CMul(G[l], G[Inv(l)]) = CId(n)
CHomLaw(G, L) ==
  \A u \in WordsUpTo(DOMAIN G, L) : \A v \in WordsUpTo(DOMAIN G, L - Len(u)) :
     CVal(G, u \o v) = CMul(CVal(G, u), CVal(G, v))
CReduceLaw(G, L) == \A w \in WordsUpTo(DOMAIN G, L) : CVal(G, Reduce(w)) = CVal(G, w)
CDerivedCommutes(k, G, L) ==
  LET GD == CDerived(k, G) IN
  /\ CInverseCoherent(GD, CDimF(k))
  /\ \A w \in WordsUpTo(DOMAIN G, L) : CF(k, CVal(G, w)) = CValN(GD, CDimF(k), w)
\* realification X + iY -> [[X, -Y], [Y, X]] is a homomorphism to integer 4 x 4 matrices
RealifyCommutes(G, L) ==
  LET GD == [l \in DOMAIN G |-> CToReal(G[l])] IN
  /\ InverseCoherent(GD, 4)
  /\ \A w \in WordsUpTo(DOMAIN G, L) : CToReal(CVal(G, w)) = Val(GD, 4, w)
=============================================================================
