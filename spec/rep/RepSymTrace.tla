---------------------------- MODULE RepSymTrace ----------------------------
(***************************************************************************)
(* Property C05, trace validation (code -> spec) of the histories that the *)
(* repository's OWN test-suite exercises on Representation objects.  The   *)
(* tests use float / complex matrices outside the integer universe of      *)
(* RepTrace.tla, so this module is RepTrace with the generator images as   *)
(* FREE SYMBOLS: a matrix is a natural number (its interning id: first      *)
(* occurrence in the pytest process, equality up to 1e-9), a letter is a    *)
(* pair <<case, k>> (case 0 = lower, 1 = upper; k = the k-th generator      *)
(* name up to case).  The recording plug-in supplies three tables of        *)
(* numerically verified facts restricted to what was observed:             *)
(*   invs   pairs <<s, t>> with  mat(s) mat(t) = I,                         *)
(*   prods  pairs <<sequence of symbols, symbol of their float product>>,  *)
(*   one    (per history) the symbol of the identity matrix,                *)
(*   F      (per derive event) pairs <<s, symbol of hom(mat(s))>>.          *)
(* TLC validates the dictionary / history semantics on top of them: which  *)
(* letters exist, that an assignment by either case stores the inverse     *)
(* symbol under the case-swapped letter and leaves every other letter      *)
(* alone, that copies are snapshots of the source dictionary, that an      *)
(* evaluation returns the product of the CURRENT letter images (no stale   *)
(* or foreign image), that a derived dictionary is the letter-wise image   *)
(* of the current one, and that every dictionary is inverse-coherent.      *)
(* One history per Representation instance; all histories in one TLC run.  *)
(***************************************************************************)
EXTENDS Naturals, Sequences, FiniteSets, TLC, Json, IOUtils

VARIABLES gens, tid, l

File == JsonDeserialize(IOEnv.TRACE_FILE)
Traces == File.histories
Verbose == "TRACE_VERBOSE" \in DOMAIN IOEnv /\ IOEnv.TRACE_VERBOSE = "1"

SetOf(s) == {s[i] : i \in 1..Len(s)}
InvPairs == {<<p[1], p[2]>> : p \in SetOf(File.invs)}
Prods == {<<p[1], p[2]>> : p \in SetOf(File.prods)}

Inv(x) == <<1 - x[1], x[2]>>
Empty == [x \in {} |-> 0]

\* a logged dictionary is a sequence of triples <<case, k, symbol>>, one per stored name
Letters(logged) == {<<t[1], t[2]>> : t \in SetOf(logged)}
WellFormed(logged) == Cardinality(Letters(logged)) = Len(logged)
DictOf(logged) == [x \in Letters(logged) |-> (CHOOSE t \in SetOf(logged) : <<t[1], t[2]>> = x)[3]]
SameDict(logged, D) == WellFormed(logged) /\ DictOf(logged) = D

Coherent(D) == \A x \in DOMAIN D : Inv(x) \in DOMAIN D /\ <<D[x], D[Inv(x)]>> \in InvPairs

\* rep[x] = m, where mi is the symbol of the numerical inverse of m
Assign(D, x, m, mi) ==
  [y \in DOMAIN D \cup {x, Inv(x)} |-> IF y = x THEN m ELSE IF y = Inv(x) THEN mi ELSE D[y]]

\* image of a word: the product of the current letter images, looked up in the table of observed products
Image(D, w) == [i \in 1..Len(w) |-> D[<<w[i][1], w[i][2]>>]]
\* the empty word maps to the identity of the instance's dimension (symbol `one` of the history)
Defined(D, w) == /\ \A i \in 1..Len(w) : <<w[i][1], w[i][2]>> \in DOMAIN D
                 /\ Len(w) = 0 \/ \E p \in Prods : p[1] = Image(D, w)
ValOf(D, w) == IF Len(w) = 0 THEN Traces[tid].one ELSE (CHOOSE p \in Prods : p[1] = Image(D, w))[2]

FTab(ev) == {<<p[1], p[2]>> : p \in SetOf(ev.F)}
FDefined(ev, s) == \E p \in FTab(ev) : p[1] = s
FOf(ev, s) == (CHOOSE p \in FTab(ev) : p[1] = s)[2]

TraceInit == gens = Empty /\ tid \in 1..Len(Traces) /\ l = 0

Step(ev) ==
  \/ /\ ev.op = "new" /\ l = 0
     /\ gens' = Empty
  \/ \* first sight of an object the library built internally (result of a derived construction)
     /\ ev.op = "adopt" /\ l = 0
     /\ WellFormed(ev.dict) /\ gens' = DictOf(ev.dict) /\ Coherent(gens')
  \/ \* Representation(src, generator_names = names): a snapshot of the source dictionary
     /\ ev.op = "copy" /\ l = 0
     /\ WellFormed(ev.src)
     /\ LET S == DictOf(ev.src)
            N == {<<x[1], x[2]>> : x \in SetOf(ev.names)}
        IN /\ N \subseteq DOMAIN S
           /\ gens' = [x \in N |-> S[x]]
     /\ Coherent(gens')
  \/ /\ ev.op = "set"
     /\ <<ev.m, ev.mi>> \in InvPairs
     /\ gens' = Assign(gens, <<ev.x[1], ev.x[2]>>, ev.m, ev.mi)
  \/ /\ ev.op = "eval"
     /\ Defined(gens, ev.w) /\ ev.res = ValOf(gens, ev.w)
     /\ UNCHANGED gens
  \/ /\ ev.op = "elements"
     /\ Len(ev.res) = Len(ev.ws)
     /\ \A i \in 1..Len(ev.ws) : Defined(gens, ev.ws[i]) /\ ev.res[i] = ValOf(gens, ev.ws[i])
     /\ UNCHANGED gens
  \/ \* a derived representation: letter-wise image of the current dictionary, itself inverse-coherent
     /\ ev.op = "derive"
     /\ DOMAIN gens # {}
     /\ \A x \in DOMAIN gens : FDefined(ev, gens[x])
     /\ SameDict(ev.ddict, [x \in DOMAIN gens |-> FOf(ev, gens[x])])
     /\ Coherent(DictOf(ev.ddict))
     /\ UNCHANGED gens

Post(ev) == SameDict(ev.post, gens')

TraceNext ==
  /\ l < Len(Traces[tid].events)
  /\ l' = l + 1 /\ UNCHANGED tid
  /\ LET ev == Traces[tid].events[l + 1] IN Step(ev) /\ Post(ev)

\* holds by construction of the specification's own steps (model-level sanity)
AlwaysCoherent == Coherent(gens)

Accepted ==
  /\ (l = Len(Traces[tid].events)) => PrintT("ACCEPT " \o ToString(tid))
  /\ Verbose => PrintT("AT " \o ToString(tid) \o " " \o ToString(l))

TraceView == <<gens, tid, l>>
=============================================================================
