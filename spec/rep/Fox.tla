-------------------------------- MODULE Fox --------------------------------
(***************************************************************************)
(* Property C05, Fox calculus.  An element of the integer group ring Z[F]  *)
(* of the free group is a finite set of pairs <<reduced word, non-zero     *)
(* coefficient>> with pairwise distinct words.  Fox(g, w) is the Fox        *)
(* derivative d w / d g, defined by                                        *)
(*    D(1) = 0,  D(g) = 1,  D(g^-1) = -g^-1,  D(h) = 0 (h another letter), *)
(*    D(l w) = D(l) + l D(w).                                              *)
(* Theorems (checked by TLC in Rep.tla): the value depends only on the     *)
(* group element, the product rule, the fundamental formula                *)
(*    w - 1 = sum_g D_g(w) (g - 1)   in Z[F],                               *)
(* its image under a representation, and that the matrix-level recursion   *)
(* DMat is the image of Fox.                                                *)
(***************************************************************************)
EXTENDS RepDefs

Coef(p, w) == IF \E e \in p : e[1] = w THEN (CHOOSE e \in p : e[1] = w)[2] ELSE 0
Supp(p) == {e[1] : e \in p}
ZNorm(S, c(_)) == {<<w, c(w)>> : w \in {v \in S : c(v) # 0}}
ZAdd(p, q) == LET c(w) == Coef(p, w) + Coef(q, w) IN ZNorm(Supp(p) \cup Supp(q), c)
ZNeg(p) == {<<e[1], 0 - e[2]>> : e \in p}
ZSub(p, q) == ZAdd(p, ZNeg(q))
\* multiplication by a letter on the left / right (injective on reduced words)
ZLeft(l, p) == {<<Reduce(<<l>> \o e[1]), e[2]>> : e \in p}
ZRight(p, l) == {<<Reduce(Append(e[1], l)), e[2]>> : e \in p}
RECURSIVE ZLeftWord(_, _)
ZLeftWord(u, p) == IF u = <<>> THEN p ELSE ZLeft(Head(u), ZLeftWord(Tail(u), p))
ZWord(w) == {<<Reduce(w), 1>>}
ZOne == {<<<<>>, 1>>}
ZZero == {}
WellFormed(p) == /\ \A e \in p : e[2] # 0 /\ IsReduced(e[1])
                 /\ Cardinality(Supp(p)) = Cardinality(p)

FoxLetter(g, l) == IF l = g THEN ZOne ELSE IF l = Inv(g) THEN {<<<<l>>, 0 - 1>>} ELSE ZZero
RECURSIVE Fox(_, _)
Fox(g, w) == IF w = <<>> THEN ZZero ELSE ZAdd(FoxLetter(g, Head(w)), ZLeft(Head(w), Fox(g, Tail(w))))

\* sum of f[s] over s \in S, f a function whose values are group-ring elements
RECURSIVE ZSum(_, _)
ZSum(S, f) == IF S = {} THEN ZZero ELSE LET s == CHOOSE s \in S : TRUE IN ZAdd(f[s], ZSum(S \ {s}, f))

\* gs: the (lower-case) generators; all words over gs and their inverses up to length L
FoxLaws(gs, L) ==
  LET A == gs \cup {Inv(g) : g \in gs} IN
  \A w \in WordsUpTo(A, L) :
    /\ \A g \in gs : WellFormed(Fox(g, w)) /\ Fox(g, w) = Fox(g, Reduce(w))
    \* fundamental formula in Z[F]
    /\ LET term(g) == ZSub(ZRight(Fox(g, w), g), Fox(g, w))
       IN ZSub(ZWord(w), ZOne) = ZSum(gs, [g \in gs |-> term(g)])
FoxProductRule(gs, L) ==
  LET A == gs \cup {Inv(g) : g \in gs} IN
  \A u \in WordsUpTo(A, L) : \A v \in WordsUpTo(A, L - Len(u)) : \A g \in gs :
     Fox(g, u \o v) = ZAdd(Fox(g, u), ZLeftWord(u, Fox(g, v)))

(***************************************************************************)
(* Image under a representation                                            *)
(***************************************************************************)
RECURSIVE MatOf(_, _, _)
MatOf(G, n, p) == IF p = {} THEN ZeroM(n, n)
                  ELSE LET e == CHOOSE e \in p : TRUE
                       IN MAdd(MScale(e[2], Val(G, n, e[1])), MatOf(G, n, p \ {e}))

DLetter(G, n, g, l) == IF l = g THEN IdM(n) ELSE IF l = Inv(g) THEN MNeg(G[l]) ELSE ZeroM(n, n)
RECURSIVE DMat(_, _, _, _)
DMat(G, n, g, w) == IF w = <<>> THEN ZeroM(n, n)
                    ELSE MAdd(DLetter(G, n, g, Head(w)), MMul(G[Head(w)], DMat(G, n, g, Tail(w))))

\* sum of the matrices f[s] over s \in S, f a function
RECURSIVE MSumSet(_, _, _)
MSumSet(S, f, zero) == IF S = {} THEN zero
                       ELSE LET s == CHOOSE s \in S : TRUE IN MAdd(f[s], MSumSet(S \ {s}, f, zero))

LowerOf(G) == {l \in DOMAIN G : l \in Lower}

\* rho(w) - I = sum_g rho(D_g w) (rho(g) - I), and DMat is the image of Fox
FundamentalFormula(G, n, L) ==
  \A w \in WordsUpTo(DOMAIN G, L) :
    /\ \A g \in LowerOf(G) : MatOf(G, n, Fox(g, w)) = DMat(G, n, g, w)
    /\ LET term(g) == MMul(DMat(G, n, g, w), MSub(G[g], IdM(n)))
       IN MSub(Val(G, n, w), IdM(n)) = MSumSet(LowerOf(G), [g \in LowerOf(G) |-> term(g)], ZeroM(n, n))

\* for a relator the cocycle row annihilates the coboundary column
CocycleKillsCoboundary(G, n, rels) ==
  \A r \in rels :
    /\ Val(G, n, r) = IdM(n)
    /\ LET term(g) == MMul(DMat(G, n, g, r), MSub(IdM(n), G[g]))
       IN MSumSet(LowerOf(G), [g \in LowerOf(G) |-> term(g)], ZeroM(n, n)) = ZeroM(n, n)
=============================================================================
