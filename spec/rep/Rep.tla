-------------------------------- MODULE Rep --------------------------------
(***************************************************************************)
(* Property C05: representations are word homomorphisms; derived ones      *)
(* commute with evaluation; the Fox differential satisfies the fundamental *)
(* formula.                                                                *)
(*                                                                         *)
(* One TLC state per (case, part).  A case is a generator assignment of    *)
(* exact unimodular integer (or Gaussian-integer) matrices together with   *)
(* the parameters of the derived representations.  On every state TLC      *)
(* checks the theorems of RepDefs / Fox for that part (invariant Theorems) *)
(* and prints the table of specified values (invariant EmitObs) which the  *)
(* conformance harness compares the library against entry by entry.        *)
(* The constant Cases / CCases may be replaced by the harness (random      *)
(* unimodular matrices, long words) through a generated wrapper module.    *)
(***************************************************************************)
EXTENDS Fox, Json

CONSTANTS Cases,    \* sequence of integer cases (records, see BaseCases)
          CCases    \* sequence of Gaussian-integer 2 x 2 cases

VARIABLES ci, part

(***************************************************************************)
(* Matrix universe                                                         *)
(***************************************************************************)
P1 == <<<<1>>>>
N1 == <<<<-1>>>>
S2 == <<<<0, -1>>, <<1, 0>>>>
T2 == <<<<1, 1>>, <<0, 1>>>>
U2 == <<<<1, 0>>, <<1, 1>>>>
X2 == <<<<2, 1>>, <<1, 1>>>>
D2 == <<<<1, 0>>, <<0, -1>>>>
NI2 == <<<<-1, 0>>, <<0, -1>>>>
A2 == <<<<1, 2>>, <<0, 1>>>>
B2 == <<<<1, 0>>, <<2, 1>>>>
E12x3 == <<<<1, 1, 0>>, <<0, 1, 0>>, <<0, 0, 1>>>>
E23x3 == <<<<1, 0, 0>>, <<0, 1, -1>>, <<0, 0, 1>>>>
E31x3 == <<<<1, 0, 0>>, <<0, 1, 0>>, <<2, 0, 1>>>>
P3 == <<<<0, 1, 0>>, <<0, 0, 1>>, <<1, 0, 0>>>>
D3 == <<<<-1, 0, 0>>, <<0, 1, 0>>, <<0, 0, 1>>>>
C3 == <<<<1, 1, 0>>, <<1, 2, 1>>, <<0, 1, 2>>>>
\* integer Lorentz matrices for the form diag(-1, 1, 1)
R3 == <<<<3, -2, -2>>, <<2, -1, -2>>, <<2, -2, -1>>>>
W3 == <<<<1, 0, 0>>, <<0, 0, 1>>, <<0, 1, 0>>>>
M3 == <<<<1, 0, 0>>, <<0, -1, 0>>, <<0, 0, 1>>>>
J3 == <<<<-1, 0, 0>>, <<0, 1, 0>>, <<0, 0, 1>>>>
E12x4 == <<<<1, 1, 0, 0>>, <<0, 1, 0, 0>>, <<0, 0, 1, 0>>, <<0, 0, 0, 1>>>>
P4 == <<<<0, 1, 0, 0>>, <<0, 0, 1, 0>>, <<0, 0, 0, 1>>, <<-1, 0, 0, 0>>>>
E43x4 == <<<<1, 0, 0, 0>>, <<0, 1, 0, 0>>, <<0, 0, 1, 0>>, <<0, 0, -1, 1>>>>
C4 == <<<<1, 0, 0, 1>>, <<0, 1, 0, 0>>, <<0, 1, 1, 0>>, <<0, 0, 0, 1>>>>
E12x5 == <<<<1, 1, 0, 0, 0>>, <<0, 1, 0, 0, 0>>, <<0, 0, 1, 0, 0>>, <<0, 0, 0, 1, 0>>, <<0, 0, 0, 0, 1>>>>
P5 == <<<<0, 1, 0, 0, 0>>, <<0, 0, 1, 0, 0>>, <<0, 0, 0, 1, 0>>, <<0, 0, 0, 0, 1>>, <<1, 0, 0, 0, 0>>>>
E54x5 == <<<<1, 0, 0, 0, 0>>, <<0, 1, 0, 0, 0>>, <<0, 0, 1, 0, 0>>, <<0, 0, 0, 1, 0>>, <<0, 0, 0, -1, 1>>>>
C5 == <<<<1, 0, 0, 0, 0>>, <<1, 1, 0, 0, 0>>, <<0, 0, 1, 0, 1>>, <<0, 0, 0, 1, 0>>, <<0, 0, 0, 0, 1>>>>

K(kind) == [kind |-> kind, C |-> <<>>, m |-> 0]
KConj(C) == [kind |-> "conjugate", C |-> C, m |-> 0]
KBlock(m) == [kind |-> "compose_block", C |-> <<>>, m |-> m]

AllKinds(C, m) == <<K("copy"), K("astype"), K("compose_id"), KConj(C), K("dual"), K("compose_invT"),
                    K("compose_kron2"), KBlock(m), K("symmetric_square"), K("gln_adjoint"), K("sln_adjoint")>>
SmallKinds(C, m) == <<K("copy"), KConj(C), K("dual"), KBlock(m), K("symmetric_square"), K("gln_adjoint"), K("sln_adjoint")>>

NoSub == [g \in {} |-> <<>>]
NoLo == [g \in {} |-> <<>>]

\* id: name; n: dimension; lo: lower-case assignment; H: a second assignment on the same letters
\* (tensor product; empty = none); sub: new letter -> word (subgroup; empty = none); rels: relators that
\* hold; L / LD / LF: word lengths for the base laws / derived kinds / Fox calculus; kinds: derived
\* kinds; vecs: integer column vectors for the wrapped action; hyp: the generators preserve diag(-1,1,..,1);
\* xw / xd: extra (long) words to tabulate for the base laws / the derived kinds
BaseCases == <<
  [id |-> "n1", n |-> 1, lo |-> [a |-> N1, b |-> P1], H |-> [a |-> N1, b |-> N1], sub |-> [a |-> <<"a", "b">>],
   rels |-> {<<"a", "a">>, <<"b">>}, L |-> 4, LD |-> 3, LF |-> 4,
   kinds |-> <<K("copy"), KConj(N1), K("dual"), K("compose_kron2"), KBlock(2), K("symmetric_square"), K("gln_adjoint")>>,
   vecs |-> {<<1>>}, hyp |-> FALSE, xw |-> {}, xd |-> {}],
  [id |-> "sl2z", n |-> 2, lo |-> [a |-> S2, b |-> T2], H |-> [a |-> X2, b |-> D2],
   sub |-> [a |-> <<"a", "b">>, b |-> <<"b", "A">>, c |-> <<"B", "B", "a">>],
   rels |-> {<<"a", "a", "a", "a">>, <<"a", "b", "a", "b", "a", "b", "a", "b", "a", "b", "a", "b">>, <<"a", "a", "b", "A", "A", "B">>},
   L |-> 4, LD |-> 3, LF |-> 4, kinds |-> AllKinds(X2, 3),
   vecs |-> {<<1, 0>>, <<1, 2>>, <<-3, 1>>}, hyp |-> FALSE, xw |-> {}, xd |-> {}],
  [id |-> "gl2z", n |-> 2, lo |-> [a |-> D2, b |-> X2], H |-> [a |-> T2, b |-> U2],
   sub |-> [a |-> <<"b", "a">>, b |-> <<"a", "B", "a">>],
   rels |-> {<<"a", "a">>}, L |-> 4, LD |-> 3, LF |-> 4, kinds |-> SmallKinds(U2, 4),
   vecs |-> {<<2, 1>>}, hyp |-> FALSE, xw |-> {}, xd |-> {}],
  [id |-> "sanov3", n |-> 2, lo |-> [a |-> A2, b |-> B2, c |-> NI2], H |-> [a |-> S2, b |-> T2, c |-> U2],
   sub |-> [a |-> <<"c", "a">>, b |-> <<"b", "b">>],
   rels |-> {<<"c", "c">>, <<"a", "c", "A", "C">>, <<"b", "c", "B", "c">>}, L |-> 3, LD |-> 3, LF |-> 3,
   kinds |-> <<K("copy"), KConj(T2), K("dual"), K("gln_adjoint")>>,
   vecs |-> {<<1, 1>>}, hyp |-> FALSE, xw |-> {}, xd |-> {}],
  [id |-> "four", n |-> 2, lo |-> [a |-> S2, b |-> T2, c |-> U2, d |-> D2], H |-> NoLo, sub |-> NoSub,
   rels |-> {<<"d", "d">>, <<"a", "a", "a", "a">>}, L |-> 2, LD |-> 2, LF |-> 3,
   kinds |-> <<K("copy"), K("dual"), K("symmetric_square"), K("sln_adjoint")>>,
   vecs |-> {}, hyp |-> FALSE, xw |-> {<<"a", "b", "c", "d", "A", "B", "C", "D">>, <<"d", "c", "b", "a", "a", "b">>}, xd |-> {<<"a", "b", "c", "d", "A", "B", "C", "D">>, <<"d", "c", "b", "a", "a", "b">>}],
  [id |-> "sl3z", n |-> 3, lo |-> [a |-> E12x3, b |-> P3], H |-> [a |-> D3, b |-> E31x3],
   sub |-> [a |-> <<"a", "b">>, b |-> <<"B", "a", "a">>],
   rels |-> {<<"b", "b", "b">>}, L |-> 4, LD |-> 2, LF |-> 3, kinds |-> AllKinds(C3, 4),
   vecs |-> {<<1, 0, 2>>, <<0, -1, 1>>}, hyp |-> FALSE, xw |-> {}, xd |-> {}],
  [id |-> "gl3z", n |-> 3, lo |-> [a |-> E23x3, b |-> D3, c |-> E31x3], H |-> NoLo, sub |-> NoSub,
   rels |-> {<<"b", "b">>, <<"a", "b", "A", "b">>}, L |-> 3, LD |-> 2, LF |-> 3,
   kinds |-> <<KConj(P3), K("dual"), K("symmetric_square"), K("gln_adjoint"), K("sln_adjoint")>>,
   vecs |-> {}, hyp |-> FALSE, xw |-> {}, xd |-> {}],
  [id |-> "o21", n |-> 3, lo |-> [a |-> R3, b |-> W3, c |-> M3], H |-> NoLo, sub |-> NoSub,
   rels |-> {<<"a", "a">>, <<"b", "b">>, <<"c", "c">>}, L |-> 3, LD |-> 2, LF |-> 2,
   kinds |-> <<K("copy"), K("dual"), K("gln_adjoint"), K("sln_adjoint")>>,
   vecs |-> {<<1, 0, 0>>, <<2, 1, 1>>, <<3, -1, 2>>}, hyp |-> TRUE, xw |-> {<<"a", "b", "a", "c", "a", "b">>}, xd |-> {<<"a", "b", "a", "c", "a", "b">>}],
  [id |-> "n4", n |-> 4, lo |-> [a |-> E12x4, b |-> P4], H |-> [a |-> E43x4, b |-> E12x4],
   sub |-> [a |-> <<"b", "b", "a">>],
   rels |-> {<<"b", "b", "b", "b", "b", "b", "b", "b">>}, L |-> 3, LD |-> 2, LF |-> 3,
   kinds |-> <<KConj(C4), K("dual"), KBlock(5), K("symmetric_square"), K("gln_adjoint"), K("sln_adjoint")>>,
   vecs |-> {<<1, 2, 0, -1>>}, hyp |-> FALSE, xw |-> {<<"a", "b", "a", "b", "A", "B">>}, xd |-> {<<"a", "b", "a", "b", "A", "B">>}],
  [id |-> "n5", n |-> 5, lo |-> [a |-> E12x5, b |-> P5, c |-> E54x5], H |-> NoLo, sub |-> [a |-> <<"b", "a">>, b |-> <<"c", "B">>],
   rels |-> {<<"b", "b", "b", "b", "b">>}, L |-> 3, LD |-> 1, LF |-> 2,
   kinds |-> <<KConj(C5), K("dual"), K("symmetric_square"), K("gln_adjoint"), K("sln_adjoint")>>,
   vecs |-> {<<1, 0, -1, 2, 0>>}, hyp |-> FALSE, xw |-> {<<"a", "b", "c", "A", "B", "C">>}, xd |-> {<<"a", "b", "c", "A", "B", "C">>}]
>>

\* thorough tier: the same cases with every word-length bound raised by one
Deepen(cs) == [cs EXCEPT !.L = @ + 1, !.LD = @ + 1, !.LF = @ + 1]
DeepCases == [i \in 1..Len(BaseCases) |-> Deepen(BaseCases[i])]

\* Gaussian-integer cases
Z2 == <<<<0, 0>>, <<0, 0>>>>
GI == CM(<<<<0, 0>>, <<0, 0>>>>, <<<<1, 0>>, <<0, -1>>>>)       \* diag(i, -i)
GT == CM(<<<<1, 0>>, <<0, 1>>>>, <<<<0, 1>>, <<0, 0>>>>)        \* [[1, i], [0, 1]]
GU == CM(<<<<1, 0>>, <<1, 1>>>>, <<<<0, 0>>, <<-1, 0>>>>)       \* [[1, 0], [1 - i, 1]]
GP == CM(<<<<0, 0>>, <<0, 0>>>>, <<<<0, 1>>, <<1, 0>>>>)        \* [[0, i], [i, 0]], det 1
GDi == CM(<<<<1, 0>>, <<0, 0>>>>, <<<<0, 0>>, <<0, 1>>>>)        \* diag(1, i), det i
BaseCCases == <<
  [id |-> "gauss", lo |-> [a |-> GI, b |-> GT], H |-> [a |-> GU, b |-> GP], L |-> 4, LD |-> 3,
   kinds |-> <<K("copy"), KConj(GU), K("dual"), K("gln_adjoint"), K("compose_kron2")>>],
  [id |-> "gauss_units", lo |-> [a |-> GDi, b |-> GU, c |-> CReal(S2)], H |-> [a |-> GT, b |-> GDi, c |-> GP], L |-> 3, LD |-> 2,
   kinds |-> <<KConj(GDi), K("dual"), K("gln_adjoint")>>]
>>

(***************************************************************************)
(* Exploration: init -> (case) -> (case, part)                             *)
(***************************************************************************)
Pt(p, i) == [p |-> p, i |-> i]
IntParts(cs) == {Pt("base", 0), Pt("fox", 0), Pt("wrap", 0)}
                \cup {Pt("kind", i) : i \in 1..Len(cs.kinds)}
                \cup (IF DOMAIN cs.H = {} THEN {} ELSE {Pt("tensor", 0)})
                \cup (IF DOMAIN cs.sub = {} THEN {} ELSE {Pt("subgroup", 0)})
CParts(cs) == {Pt("cbase", 0), Pt("crealify", 0), Pt("ctensor", 0)} \cup {Pt("ckind", i) : i \in 1..Len(cs.kinds)}

NC == Len(Cases)
Init == ci = 0 /\ part = Pt("init", 0)
Next == \/ /\ part.p = "init"
           /\ ci' \in 1..(NC + Len(CCases)) /\ part' = Pt("case", 0)
        \/ /\ part.p = "case"
           /\ ci' = ci
           /\ part' \in (IF ci <= NC THEN IntParts(Cases[ci]) ELSE CParts(CCases[ci - NC]))

CS == Cases[ci]
CC == CCases[ci - NC]
G == Full(CS.lo)
CG == CFull(CC.lo)

Gram(A, J) == MMul(MMul(Tr(A), J), A)
Mink(n) == LET e(i, j) == IF i # j THEN 0 ELSE IF i = 1 THEN 0 - 1 ELSE 1 IN Mk(n, n, e)

BaseTheorems ==
  /\ \A g \in DOMAIN CS.lo : g \in Lower /\ IsMat(CS.lo[g], CS.n, CS.n) /\ Unimodular(CS.lo[g])
  /\ InverseCoherent(G, CS.n)
  /\ Val(G, CS.n, <<>>) = IdM(CS.n)
  /\ HomLaw(G, CS.n, CS.L)
  /\ ReduceLaw(G, CS.n, CS.L)
  /\ InverseLaw(G, CS.n, CS.L)
  /\ \A r \in CS.rels : Val(G, CS.n, r) = IdM(CS.n)
  \* the two directions of the vectorised (automaton-driven) evaluation: prepend a letter / append a letter
  /\ \A wd \in WordsUpTo(DOMAIN G, CS.L) : Len(wd) >= 1 =>
        /\ Val(G, CS.n, wd) = MMul(G[Head(wd)], Val(G, CS.n, Tail(wd)))
        /\ Val(G, CS.n, wd) = MMul(Val(G, CS.n, SubSeq(wd, 1, Len(wd) - 1)), G[wd[Len(wd)]])
  /\ CS.hyp => \A l \in DOMAIN G : Gram(G[l], Mink(CS.n)) = Mink(CS.n)

FoxTheorems ==
  /\ FoxLaws(DOMAIN CS.lo, CS.LF)
  /\ FoxProductRule(DOMAIN CS.lo, CS.LF)
  /\ FundamentalFormula(G, CS.n, CS.LF)
  /\ CocycleKillsCoboundary(G, CS.n, CS.rels)

WrapTheorems ==
  \A u \in WordsUpTo(DOMAIN G, 2) : \A v \in WordsUpTo(DOMAIN G, 1) : \A x \in CS.vecs :
     MatVec(Val(G, CS.n, u \o v), x) = MatVec(Val(G, CS.n, u), MatVec(Val(G, CS.n, v), x))

KindTheorems ==
  LET k == CS.kinds[part.i] IN
  /\ DerivedCommutes(k, G, CS.n, CS.LD)
  /\ k.kind = "conjugate" => Unimodular(k.C)
  /\ k.kind = "symmetric_square" =>
       /\ SymBasesSound(CS.n)
       /\ \A wd \in WordsUpTo(DOMAIN G, CS.LD) :
            /\ AllDivisible(Sym2Twice(Val(G, CS.n, wd)), 2)
            /\ Sym2(Val(G, CS.n, wd)) = Sym2Direct(Val(G, CS.n, wd))
  /\ k.kind = "gln_adjoint" =>
       \A l \in DOMAIN G : GlnAd(G[l]) = Kron(G[l], Tr(InvM(G[l])))
  /\ k.kind = "sln_adjoint" =>
       \* the image of a traceless matrix is traceless, so dropping the last coordinate loses nothing
       \A l \in DOMAIN G : \A cc \in 1..(CS.n * CS.n - 1) :
          LET i == ((cc - 1) \div CS.n) + 1  j == ((cc - 1) % CS.n) + 1
              B == IF i = j THEN MSub(UnitM(CS.n, i, i), UnitM(CS.n, CS.n, CS.n)) ELSE UnitM(CS.n, i, j)
          IN MTrace(MMul(MMul(G[l], B), InvM(G[l]))) = 0

TensorTheorems == TensorCommutes(G, CS.n, Full(CS.H), CS.n, CS.LD)
SubgroupTheorems == SubgroupCommutes(G, CS.n, CS.sub, IF CS.n <= 3 THEN 3 ELSE 2)

CBaseTheorems ==
  /\ \A g \in DOMAIN CC.lo : CUnimodular2(CC.lo[g])
  /\ CInverseCoherent(CG, 2)
  /\ CVal(CG, <<>>) = CId(2)
  /\ CHomLaw(CG, CC.L)
  /\ CReduceLaw(CG, CC.L)
CKindTheorems == CDerivedCommutes(CC.kinds[part.i], CG, CC.LD)
CTensorTheorems ==
  LET H == CFull(CC.H)
      GD == [l \in DOMAIN CG |-> CKron(CG[l], H[l])]
  IN /\ CInverseCoherent(GD, 4)
     /\ \A wd \in WordsUpTo(DOMAIN CG, CC.LD) : CKron(CVal(CG, wd), CVal(H, wd)) = CValN(GD, 4, wd)

Theorems ==
  CASE part.p = "base" -> BaseTheorems
    [] part.p = "fox" -> FoxTheorems
    [] part.p = "wrap" -> WrapTheorems
    [] part.p = "kind" -> KindTheorems
    [] part.p = "tensor" -> TensorTheorems
    [] part.p = "subgroup" -> SubgroupTheorems
    [] part.p = "cbase" -> CBaseTheorems
    [] part.p = "ckind" -> CKindTheorems
    [] part.p = "ctensor" -> CTensorTheorems
    [] part.p = "crealify" -> RealifyCommutes(CG, CC.LD)
    [] OTHER -> TRUE

(***************************************************************************)
(* Tables of specified values                                              *)
(***************************************************************************)
BaseWords == WordsUpTo(DOMAIN G, CS.L) \cup CS.xw
AutoLen == IF CS.L < 3 THEN CS.L ELSE 3
DWords == WordsUpTo(DOMAIN G, CS.LD) \cup CS.xd
FoxWords == WordsUpTo(DOMAIN G, CS.LF) \ {<<>>}
SubL == IF CS.n <= 3 THEN 3 ELSE 2

Obs ==
  CASE part.p = "base" ->
         [id |-> CS.id, part |-> "base", n |-> CS.n, gens |-> G,
          vals |-> {<<wd, Val(G, CS.n, wd)>> : wd \in BaseWords},
          reduce |-> {<<wd, Reduce(wd), FormalInverse(wd)>> : wd \in WordsUpTo(DOMAIN G, CS.L)},
          \* the words returned by freely_reduced_elements(AutoLen): the vectorised evaluation must pair each with vals
          autolen |-> AutoLen, reduced |-> {wd \in WordsUpTo(DOMAIN G, AutoLen) : IsReduced(wd)},
          rels |-> CS.rels]
    [] part.p = "fox" ->
         [id |-> CS.id, part |-> "fox", n |-> CS.n, gens |-> G, lower |-> DOMAIN CS.lo,
          fox |-> {<<wd, [g \in DOMAIN CS.lo |-> Fox(g, wd)]>> : wd \in FoxWords},
          dmat |-> {<<wd, [g \in DOMAIN CS.lo |-> DMat(G, CS.n, g, wd)], Val(G, CS.n, wd)>> : wd \in FoxWords \cup CS.rels},
          rels |-> CS.rels]
    [] part.p = "wrap" ->
         [id |-> CS.id, part |-> "wrap", n |-> CS.n, gens |-> G, hyp |-> CS.hyp,
          vals |-> {<<wd, Val(G, CS.n, wd)>> : wd \in WordsUpTo(DOMAIN G, 2) \cup CS.xw},
          act |-> {<<wd, x, MatVec(Val(G, CS.n, wd), x)>> : wd \in WordsUpTo(DOMAIN G, 2) \cup CS.xw, x \in CS.vecs}]
    [] part.p = "kind" ->
         LET k == CS.kinds[part.i] IN
         [id |-> CS.id, part |-> "kind", n |-> CS.n, gens |-> G, kind |-> k, dim |-> DimF(k, CS.n),
          dgens |-> Derived(k, G),
          vals |-> {<<wd, F(k, Val(G, CS.n, wd))>> : wd \in DWords}]
    [] part.p = "tensor" ->
         [id |-> CS.id, part |-> "tensor", n |-> CS.n, gens |-> G, other |-> Full(CS.H),
          dgens |-> TensorGens(G, Full(CS.H)),
          vals |-> {<<wd, Kron(Val(G, CS.n, wd), Val(Full(CS.H), CS.n, wd))>> : wd \in DWords}]
    [] part.p = "subgroup" ->
         [id |-> CS.id, part |-> "subgroup", n |-> CS.n, gens |-> G, sub |-> CS.sub,
          dgens |-> SubGens(G, CS.n, CS.sub),
          vals |-> {<<wd, Val(G, CS.n, Subst(CS.sub, wd))>> : wd \in WordsUpTo(DOMAIN SubGens(G, CS.n, CS.sub), SubL)}]
    [] part.p = "cbase" ->
         [id |-> CC.id, part |-> "cbase", n |-> 2, gens |-> CG,
          vals |-> {<<wd, CVal(CG, wd)>> : wd \in WordsUpTo(DOMAIN CG, CC.L)}]
    [] part.p = "ckind" ->
         LET k == CC.kinds[part.i] IN
         [id |-> CC.id, part |-> "ckind", n |-> 2, gens |-> CG, kind |-> k, dim |-> CDimF(k),
          dgens |-> CDerived(k, CG),
          vals |-> {<<wd, CF(k, CVal(CG, wd))>> : wd \in WordsUpTo(DOMAIN CG, CC.LD)}]
    [] part.p = "ctensor" ->
         [id |-> CC.id, part |-> "ctensor", n |-> 2, gens |-> CG, other |-> CFull(CC.H),
          dgens |-> [l \in DOMAIN CG |-> CKron(CG[l], CFull(CC.H)[l])],
          vals |-> {<<wd, CKron(CVal(CG, wd), CVal(CFull(CC.H), wd))>> : wd \in WordsUpTo(DOMAIN CG, CC.LD)}]
    [] part.p = "crealify" ->
         [id |-> CC.id, part |-> "crealify", n |-> 2, gens |-> CG,
          dgens |-> [l \in DOMAIN CG |-> CToReal(CG[l])],
          vals |-> {<<wd, CToReal(CVal(CG, wd))>> : wd \in WordsUpTo(DOMAIN CG, CC.LD)}]

EmitObs == part.p \in {"init", "case"} \/ PrintT("CASE " \o ToJson(Obs))
=============================================================================
