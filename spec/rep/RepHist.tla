------------------------------ MODULE RepHist ------------------------------
(***************************************************************************)
(* Property C05, histories: the generator dictionary of a Representation   *)
(* as a state machine.  One action per public mutating call:                *)
(*   SetGen(name, M)   rep[name] = M, by the lower- or the upper-case name, *)
(*                     in any order, re-assignment allowed; the inverse is  *)
(*                     stored under the case-swapped name;                 *)
(*   Derive(kind)      a derived representation is built from the current  *)
(*                     dictionary and kept in a second slot (a snapshot:   *)
(*                     later assignments to either do not touch the other);*)
(*   SetDer(name, M)   assignment to the derived representation;           *)
(*   Enumerate         vectorised evaluation driven by the free automaton    *)
(*                     (both directions): a stuttering step;                 *)
(*   Eval              evaluation of the word battery on both objects: a     *)
(*                     stuttering step, enabled everywhere, whose result is  *)
(*                     the table of the current state.                       *)
(* TLC checks on every reachable state that both dictionaries are          *)
(* inverse-coherent and satisfy the homomorphism / free-reduction laws,    *)
(* prints per state the table of specified word images (EmitObs) and per   *)
(* transition the labelled step (Emit) for replay on the real object.      *)
(***************************************************************************)
EXTENDS Fox, Json

CONSTANTS MaxSteps,   \* histories of at most this many calls
          WordLen,    \* words tabulated per state
          Big         \* FALSE: small matrices; TRUE: large-entry matrices that are RELATIVELY close to each other

VARIABLES gens, der, steps, last

S2 == <<<<0, -1>>, <<1, 0>>>>
T2 == <<<<1, 1>>, <<0, 1>>>>
D2 == <<<<1, 0>>, <<0, -1>>>>
X2 == <<<<2, 1>>, <<1, 1>>>>
\* T^n for n = 200000, 200001 and the inverse of the latter: re-assigning one over the other changes every
\* entry by at most 1 part in 200000 (an assignment may not depend on how close the new value is to the
\* stored one).  All are upper unipotent, so products of up to WordLen = 2 letters (also with S2) stay
\* far inside TLC's 32-bit integers; kinds that leave the upper unipotent matrices are not used with them.
BN == 200000
TN == <<<<1, BN>>, <<0, 1>>>>
TN1 == <<<<1, BN + 1>>, <<0, 1>>>>
TN1m == <<<<1, 0 - (BN + 1)>>, <<0, 1>>>>
Universe == IF Big THEN {TN, TN1, TN1m, S2} ELSE {S2, T2, D2}
DerUniverse == IF Big THEN {TN, TN1} ELSE {X2, D2}
Names == {"a", "A", "b", "B"}
DerNames == {"a", "A"}
N == 2

K(kind) == [kind |-> kind, C |-> <<>>, m |-> 0]
Kinds == IF Big THEN {K("copy"), K("compose_id")}
         ELSE {K("copy"), K("dual"), [kind |-> "conjugate", C |-> X2, m |-> 0], K("compose_id")}

Empty == [l \in {} |-> <<>>]
NoDer == [kind |-> K("none"), gens |-> Empty]

\* rep[name] = M
Assign(D, name, M) ==
  [l \in DOMAIN D \cup {name, Inv(name)} |->
     IF l = name THEN M ELSE IF l = Inv(name) THEN InvM(M) ELSE D[l]]

Init == gens = Empty /\ der = NoDer /\ steps = 0 /\ last = [a |-> "init"]

SetGen(name, M) ==
  /\ gens' = Assign(gens, name, M)
  /\ UNCHANGED der
  /\ last' = [a |-> "set", name |-> name, M |-> M]

Derive(k) ==
  /\ DOMAIN gens # {}
  /\ der' = [kind |-> k, gens |-> Derived(k, gens)]
  /\ UNCHANGED gens
  /\ last' = [a |-> "derive", kind |-> k]

SetDer(name, M) ==
  /\ der.kind.kind # "none"
  /\ der' = [der EXCEPT !.gens = Assign(der.gens, name, M)]
  /\ UNCHANGED gens
  /\ last' = [a |-> "setder", name |-> name, M |-> M]

\* rep[w] / rep.elements(ws) / derived[w] for the whole word battery of the current state (all words up
\* to WordLen over every stored letter, inverse letters included): a query.  It leaves both
\* dictionaries unchanged and returns Table(gens), Table(der.gens) *of the state it is issued in* --
\* whatever was evaluated or assigned before.  It is enabled in every state with a generator and is
\* interleaved everywhere: between any two assignments, after Derive, before and after SetDer.
Eval ==
  /\ DOMAIN gens # {}
  /\ UNCHANGED <<gens, der, steps>>
  /\ last' = [a |-> "eval"]

\* rep.freely_reduced_elements(WordLen, with_words=True) and rep.automaton_accepted(free automaton, WordLen,
\* with_words=True, start_state= / end_state= any vertex): the vectorised evaluation of many words at once.
\* A query: both dictionaries unchanged; every returned pair (matrix, word) has matrix = Val(gens, word), whether
\* the word was built by prepending letters (start direction) or appending them (end direction), and the
\* default route returns exactly the freely reduced words (RedWords), each once.
Enumerate ==
  /\ DOMAIN gens # {}
  /\ UNCHANGED <<gens, der, steps>>
  /\ last' = [a |-> "enumerate"]

Next == \/ /\ steps < MaxSteps
           /\ steps' = steps + 1
           /\ \/ \E name \in Names, M \in Universe : SetGen(name, M)
              \/ \E k \in Kinds : Derive(k)
              \/ \E name \in DerNames, M \in DerUniverse : SetDer(name, M)
        \/ Eval
        \/ Enumerate

(***************************************************************************)
(* Invariants                                                              *)
(***************************************************************************)
\* (with the large matrices a product of three letters can leave the 32-bit integers)
LawLen == IF Big THEN WordLen ELSE WordLen + 1
DictOK(D) ==
  /\ DOMAIN D \subseteq Names
  /\ InverseCoherent(D, N)
  /\ \A l \in DOMAIN D : IsMat(D[l], N, N) /\ Unimodular(D[l])
  /\ HomLaw(D, N, LawLen)
  /\ ReduceLaw(D, N, LawLen)
  /\ Val(D, N, <<>>) = IdM(N)

Coherent == /\ DictOK(gens) /\ DictOK(der.gens)
            /\ FundamentalFormula(gens, N, WordLen)

\* the state is a function of the last assignment to each generator pair only
\* (no other trace of the history): every stored pair is (M, M^-1) or (M^-1, M) for a universe matrix
LastWins ==
  \A l \in DOMAIN gens : gens[l] \in Universe \/ gens[Inv(l)] \in Universe

\* evaluation by prepending letters and by appending letters agree with Val (the two directions of the
\* vectorised recursion)
RedWords(D) == {wd \in WordsUpTo(DOMAIN D, WordLen) : IsReduced(wd)}
BothDirections ==
  \A wd \in RedWords(gens) : Len(wd) >= 1 =>
     /\ Val(gens, N, wd) = MMul(gens[Head(wd)], Val(gens, N, Tail(wd)))
     /\ Val(gens, N, wd) = MMul(Val(gens, N, SubSeq(wd, 1, Len(wd) - 1)), gens[wd[Len(wd)]])

(***************************************************************************)
(* Emission                                                                *)
(***************************************************************************)
Key(g, d) == [gens |-> g, dkind |-> d.kind.kind, dgens |-> d.gens]
Table(D) == {<<wd, Val(D, N, wd)>> : wd \in WordsUpTo(DOMAIN D, WordLen)}
FoxTable(D) == {<<wd, [g \in LowerOf(D) |-> DMat(D, N, g, wd)]>> : wd \in WordsUpTo(DOMAIN D, WordLen) \ {<<>>}}
EmitObs == PrintT("OBS " \o ToJson([key |-> Key(gens, der), vals |-> Table(gens), dvals |-> Table(der.gens),
                                     fox |-> FoxTable(gens), red |-> RedWords(gens)]))
Emit == PrintT("EMIT " \o ToJson([from |-> Key(gens, der), act |-> last', to |-> Key(gens', der')]))
View == <<gens, der, steps>>
=============================================================================
