--------------------------- MODULE CompositeTrace ---------------------------
(***************************************************************************)
(* Trace validation (code -> spec) for composite objects (C04 / C11).      *)
(* A trace file (JSON) holds a sequence of histories; each history is a    *)
(* sequence of events recorded from a real geometry_tools object: the      *)
(* public call, its arguments (integers only), and the projection of the   *)
(* object after the call: its shape, the unit ids decoded from proj_data   *)
(* (pc) and the unit ids decoded independently from aux_data (dc).  A unit *)
(* id is logged as one integer: base unit k, or k + 100 a after            *)
(* transformation a has been applied (histories apply at most one          *)
(* transformation per unit: theorem ShortIdsInjective of CompUnits.tla     *)
(* makes that decoding unique).                                            *)
(* A history is accepted iff every event is a step of the operator of      *)
(* Composite.tla for that call, applied to pc and to dc, and the logged    *)
(* projection equals the specification's post-state.  All histories of a   *)
(* file are validated in one TLC run (variable tid).                       *)
(***************************************************************************)
EXTENDS Naturals, Integers, Sequences, FiniteSets, TLC, Json, IOUtils

VARIABLES tid, l, shape, pc, dc

C == INSTANCE Composite WITH MaxRank <- 0, DimVals <- {1}, sx <- shape, st <- <<>>

Traces == JsonDeserialize(IOEnv.TRACE_FILE)
Verbose == "TRACE_VERBOSE" \in DOMAIN IOEnv /\ IOEnv.TRACE_VERBOSE = "1"

P == C!Obj(shape, pc)
D == C!Obj(shape, dc)

Ext(c) == [p \in 1..Len(c) |-> c[p][1] + 100 * c[p][2]]
ObjsOf(s) == [i \in 1..Len(s) |-> C!Obj(s[i].shape, s[i].cell)]

Set(R1, R2) == shape' = R1.shape /\ pc' = R1.cell /\ dc' = R2.cell
Same == UNCHANGED <<shape, pc, dc>>

Step(ev) ==
  \/ /\ ev.op = "construct" /\ l = 0
     /\ Len(ev.cell) = C!Size(ev.shape)
     /\ shape' = ev.shape /\ pc' = ev.cell /\ dc' = ev.cell
  \/ /\ ev.op \in {"copy", "astype", "query"} /\ l > 0 /\ Same
  \/ /\ ev.op = "apply" /\ l > 0
     /\ C!Defined(shape, ev.tshape, ev.mode)
     /\ \A p \in 1..Len(pc) : pc[p] < 100 /\ dc[p] < 100
     /\ LET TT == C!Obj(ev.tshape, ev.tcell)
            R1 == C!Apply(P, TT, ev.mode) R2 == C!Apply(D, TT, ev.mode)
        IN shape' = R1.shape /\ pc' = Ext(R1.cell) /\ dc' = Ext(R2.cell)
  \/ /\ ev.op = "reshape" /\ l > 0 /\ C!CanReshape(P, ev.shape)
     /\ Set(C!Reshape(P, ev.shape), C!Reshape(D, ev.shape))
  \/ /\ ev.op = "flatten" /\ l > 0 /\ Set(C!Flatten(P), C!Flatten(D))
  \/ /\ ev.op = "index" /\ l > 0 /\ Len(ev.ix) <= Len(shape)
     /\ \A i \in 1..Len(ev.ix) : ev.ix[i] \in 0..(shape[i] - 1)
     /\ Set(C!IndexTuple(P, ev.ix), C!IndexTuple(D, ev.ix))
  \/ /\ ev.op = "slice" /\ l > 0 /\ shape # <<>> /\ ev.lo < ev.hi /\ ev.hi <= Head(shape) /\ ev.lo >= 0
     /\ Set(C!Slice(P, ev.lo, ev.hi), C!Slice(D, ev.lo, ev.hi))
  \/ /\ ev.op = "setitem" /\ l > 0
     /\ LET Y == C!Obj(ev.yshape, ev.ycell)
        IN /\ C!CanSetItem(P, ev.i, Y)
           /\ Set(C!SetItem(P, ev.i, Y), C!SetItem(D, ev.i, Y))
  \* obj[key] = value with an index list / integer array / boolean mask / slice with a step / negative index:
  \* the recorder logs the rows the key selects
  \/ /\ ev.op = "setrows" /\ l > 0
     /\ LET Y == C!Obj(ev.yshape, ev.ycell)
        IN /\ C!CanSetRows(P, ev.rows, Y)
           /\ Set(C!SetRows(P, ev.rows, Y), C!SetRows(D, ev.rows, Y))
  \/ /\ ev.op = "settuple" /\ l > 0
     /\ LET Y == C!Obj(ev.yshape, ev.ycell)
        IN /\ C!CanSetTuple(P, ev.ix, Y)
           /\ Set(C!SetTuple(P, ev.ix, Y), C!SetTuple(D, ev.ix, Y))
  \/ /\ ev.op = "swap" /\ l > 0 /\ shape # <<>> /\ ev.i \in 0..(Head(shape) - 1) /\ ev.j \in 0..(Head(shape) - 1)
     /\ Set(C!Swap(P, ev.i, ev.j), C!Swap(D, ev.i, ev.j))
  \* obj[rows] (index list / integer array / boolean mask / slice with a step): a new object
  \/ /\ ev.op = "getrows" /\ l > 0 /\ shape # <<>> /\ C!DistinctRows(ev.rows, Head(shape))
     /\ Set(C!GetRows(P, ev.rows), C!GetRows(D, ev.rows))
  \* obj.set(data) (also through the coordinate setters): the object now holds the given units
  \/ /\ ev.op = "set" /\ l > 0
     /\ Len(ev.cell) = C!Size(ev.shape)
     /\ shape' = ev.shape /\ pc' = ev.cell /\ dc' = ev.cell
  \* a call the specification does not model (or a call that raised): only the logged projection is known;
  \* it must be coherent (Post compares the logged derived ids with the primary ids)
  \/ /\ ev.op = "observe"
     /\ Len(ev.post.pc) = C!Size(ev.post.shape)
     /\ shape' = ev.post.shape /\ pc' = ev.post.pc /\ dc' = ev.post.pc
  \/ /\ ev.op = "stack" /\ l > 0
     /\ LET Os == ObjsOf(ev.others)
        IN /\ C!CanStack(<<P>> \o Os)
           /\ Set(C!Stack(<<P>> \o Os), C!Stack(<<D>> \o Os))
  \/ /\ ev.op = "combine" /\ l > 0
     /\ LET Os == ObjsOf(ev.others)
        IN Set(C!Combine(<<P>> \o Os), C!Combine(<<D>> \o Os))

Post(ev) == /\ ev.post.shape = shape'
            /\ ev.post.pc = pc'
            /\ ev.post.dc = dc'

TraceInit == /\ tid \in 1..Len(Traces) /\ l = 0
             /\ shape = <<>> /\ pc = <<0>> /\ dc = <<0>>

TraceNext ==
  /\ l < Len(Traces[tid])
  /\ l' = l + 1 /\ UNCHANGED tid
  /\ LET ev == Traces[tid][l + 1] IN Step(ev) /\ Post(ev)

\* the coherence invariant of C11 on every state the recorded histories drive the model through
Coherent == dc = pc

\* printed once per accepted history; with TRACE_VERBOSE=1 the progress of every history
Accepted ==
  /\ (l = Len(Traces[tid])) => PrintT("ACCEPT " \o ToString(tid))
  /\ Verbose => PrintT("AT " \o ToString(tid) \o " " \o ToString(l))

TraceView == <<tid, l, shape, pc, dc>>
=============================================================================
