------------------------------ MODULE CompUnits ------------------------------
(***************************************************************************)
(* Unit objects with exact integer payloads (properties C04 and C11).      *)
(*                                                                         *)
(* A unit id is a pair <<k, w>>: base unit k of a class and the word w of  *)
(* transformation indices applied to it so far (first letter first).  The  *)
(* payload of an id is an exact integer array:                             *)
(*     Prim(cls, k, w)  the primary data (rows of proj_data)               *)
(*     Der(cls, k, w)   the derived data (rows of aux_data) for the        *)
(*                      classes that carry derived data                    *)
(* Transformations are exact integer matrices acting on ROW vectors on the *)
(* right (the library's convention: new_data = data @ matrix): products of *)
(* reflections of the Minkowski form diag(-1,1,..,1) in integer vectors of *)
(* norm 1 or 2, plus one unimodular shear used by the projective classes.  *)
(*                                                                         *)
(* One TLC state per id (the ids are explored by applying one more         *)
(* transformation).  TLC checks on every id: the payload is inside the     *)
(* domain of its class, the matrices preserve the form, the derived data   *)
(* is equivariant (derive(x.M) = derive(x).M), and the ids that matter are *)
(* projectively distinct - separately for primary and for derived data -   *)
(* so that the harness can decode ids from proj_data and, independently,   *)
(* from aux_data.  Each state prints its payload record.                   *)
(***************************************************************************)
EXTENDS Naturals, Integers, Sequences, FiniteSets, TLC, Json

CONSTANTS Dim,        \* 2 or 3: hyperbolic / projective space of this dimension
          K,          \* number of base units per class
          MaxWord,    \* maximal number of transformations applied to a unit
          ClassSel    \* the classes to explore (a subset of Classes)

VARIABLES cls, k, w

N == Dim + 1
Neg(x) == 0 - x
Abs(x) == IF x < 0 THEN 0 - x ELSE x

RECURSIVE SumTo(_, _)
SumTo(f, m) == IF m = 0 THEN 0 ELSE f[m] + SumTo(f, m - 1)

Sig(i) == IF i = 1 THEN -1 ELSE 1
Mink(x, y) == SumTo([i \in 1..N |-> Sig(i) * x[i] * y[i]], N)
VecMat(x, M) == [j \in 1..N |-> SumTo([i \in 1..N |-> x[i] * M[i][j]], N)]
MatMul(A, B) == [i \in 1..Len(A) |-> VecMat(A[i], B)]
Ident == [i \in 1..N |-> [j \in 1..N |-> IF i = j THEN 1 ELSE 0]]
Transpose(M) == [i \in 1..N |-> [j \in 1..N |-> M[j][i]]]
Scale(c, x) == [i \in 1..N |-> c * x[i]]
Add(x, y) == [i \in 1..N |-> x[i] + y[i]]
Sub(x, y) == [i \in 1..N |-> x[i] - y[i]]
IsZero(x) == \A i \in 1..N : x[i] = 0
Parallel(x, y) == \A i, j \in 1..N : x[i] * y[j] = x[j] * y[i]
\* same projective point: parallel and both non-zero
SameProj(x, y) == ~IsZero(x) /\ ~IsZero(y) /\ Parallel(x, y)

\* reflection of the Minkowski form in v (<v,v> in {1,2}), as a matrix acting on row vectors:
\* x |-> x - 2 <x,v>/<v,v> v
Refl(v) == LET q == Mink(v, v)
           IN [i \in 1..N |-> [j \in 1..N |-> (IF i = j THEN 1 ELSE 0) - ((2 * Sig(i) * v[i] * v[j]) \div q)]]

(***************************************************************************)
(* Base data                                                               *)
(***************************************************************************)
\* time-like integer vectors (points of hyperbolic space)
P2 == << <<2, 1, 0>>, <<3, 0, 1>>, <<3, 1, 1>>, <<4, -1, 2>>, <<3, 1, -2>>, <<4, 2, -1>>, <<5, -2, 3>> >>
P3 == << <<2, 1, 0, 0>>, <<3, 0, 1, 1>>, <<3, 1, 1, -1>>, <<4, -1, 2, 1>>, <<3, 1, -2, 1>>, <<4, 2, 1, -1>>, <<5, -2, 3, 1>> >>
\* light-like integer vectors (ideal points)
U2 == << <<5, 3, 4>>, <<1, 0, 1>>, <<13, -5, 12>>, <<5, -4, -3>>, <<1, -1, 0>>, <<17, 8, -15>>, <<5, 4, -3>> >>
U3 == << <<3, 1, 2, 2>>, <<1, 0, 1, 0>>, <<3, -2, 1, 2>>, <<7, -2, -3, 6>>, <<1, -1, 0, 0>>, <<3, 2, -2, -1>>, <<9, 4, 4, -7>> >>
\* directions of tangent vectors (projected to the tangent space by the library)
W2 == << <<0, 1, 0>>, <<1, 0, 2>>, <<0, 1, 1>>, <<1, 2, 0>>, <<0, -1, 2>>, <<2, 1, 1>>, <<1, 1, -1>> >>
W3 == << <<0, 1, 0, 0>>, <<1, 0, 2, 0>>, <<0, 1, 1, 1>>, <<1, 2, 0, -1>>, <<0, -1, 2, 1>>, <<2, 1, 1, 0>>, <<1, 1, -1, 2>> >>

P == IF Dim = 2 THEN P2 ELSE P3
U == IF Dim = 2 THEN U2 ELSE U3
W == IF Dim = 2 THEN W2 ELSE W3
NBase == 7
Cyc(i) == ((i - 1) % NBase) + 1

\* reflection vectors (Minkowski norm 1 or 2)
RV == IF Dim = 2
      THEN << <<0, 1, -1>>, <<1, -1, 1>>, <<0, 1, 1>>, <<1, 1, 1>>, <<0, 0, 1>>, <<1, 1, -1>>, <<0, 1, 0>> >>
      ELSE << <<0, 1, -1, 0>>, <<1, -1, 1, 0>>, <<0, 0, 1, 1>>, <<1, 0, 1, 1>>, <<0, 0, 1, -1>>, <<1, 1, -1, -1>>, <<0, 0, 0, 1>> >>
R(i) == Refl(RV[i])
Shear == [i \in 1..N |-> [j \in 1..N |-> IF i = j THEN 1 ELSE IF (i = 1 /\ j = 2) \/ (i = N /\ j = 2) THEN 1 ELSE 0]]

\* the transformations a composite transformation object is made of
NIso == 4
NTrans == 5
T == IF Dim = 2
     THEN << MatMul(R(1), R(2)),                    \* hyperbolic
             MatMul(R(3), R(4)),                    \* hyperbolic, another axis
             MatMul(R(5), R(1)),                    \* elliptic (rotation by a right angle)
             MatMul(MatMul(R(5), R(3)), R(6)),      \* orientation reversing, not an involution
             Shear >>                               \* not an isometry: projective classes only
     ELSE << MatMul(R(1), R(2)),
             MatMul(R(3), R(4)),
             MatMul(R(5), R(1)),
             MatMul(MatMul(R(7), R(5)), R(6)),
             Shear >>
RECURSIVE WordMat(_)
WordMat(u) == IF u = <<>> THEN Ident ELSE MatMul(T[Head(u)], WordMat(Tail(u)))
\* x.T[u1].T[u2]... : first letter applied first
RECURSIVE ApplyWord(_, _)
ApplyWord(rows, u) == IF u = <<>> THEN rows ELSE ApplyWord(MatMul(rows, T[Head(u)]), Tail(u))

(***************************************************************************)
(* Classes                                                                 *)
(***************************************************************************)
ProjClasses == {"Point", "PointPair", "Polygon", "Transformation"}
HypClasses == {"HPoint", "Geodesic", "Segment", "Tangent", "HPolygon", "Isometry", "Horosphere", "HoroArc", "Subspace"}
Classes == ProjClasses \cup HypClasses
HasDerived(c) == c \in {"Polygon", "HPolygon", "Segment", "Tangent"}
\* whole-array projective scale (matrices) or one scale per row (tuples of points)
WholeScale(c) == c \in {"Transformation", "Isometry"}
Letters(c) == IF c \in ProjClasses THEN 1..NTrans ELSE 1..NIso

NV == IF Dim = 2 THEN 4 ELSE 3        \* vertices of a polygon: different from N and from 2

\* horospheres and horospherical arcs: ideal centres HU, a mirror HV through the centre (a reflection in HV fixes
\* HU, so it maps every horosphere based at HU to itself): the arc runs from a point to its mirror image.
\* Different units lie on horospheres based at different ideal points.
HU == IF Dim = 2 THEN << <<1, 1, 0>>, <<1, 0, 1>>, <<1, -1, 0>>, <<1, 0, -1>>, <<5, 3, 4>>, <<1, 1, 0>>, <<1, 0, 1>> >>
      ELSE << <<1, 1, 0, 0>>, <<1, 0, 1, 0>>, <<1, 0, 0, 1>>, <<1, -1, 0, 0>>, <<3, 1, 2, 2>>, <<1, 1, 0, 0>>, <<1, 0, 1, 0>> >>
HV == IF Dim = 2 THEN << <<0, 0, 1>>, <<0, 1, 0>>, <<0, 0, 1>>, <<0, 1, 0>>, <<2, 2, 1>>, <<0, 0, 1>>, <<0, 1, 0>> >>
      ELSE << <<0, 0, 1, 0>>, <<0, 1, 0, 0>>, <<0, 1, 0, 0>>, <<0, 0, 0, 1>>, <<0, 0, 1, -1>>, <<0, 0, 1, 0>>, <<0, 1, 0, 0>> >>
HoroP1(i) == P[Cyc(i + 1)]
HoroP2(i) == VecMat(HoroP1(i), Refl(HV[i]))

\* base matrices of the transformation-valued unit classes
NegMat(M) == [i \in 1..Len(M) |-> [j \in 1..Len(M[i]) |-> Neg(M[i][j])]]
BaseMat(c, i) ==
  LET ms == << MatMul(R(1), R(6)), MatMul(MatMul(R(1), R(4)), R(7)), MatMul(R(6), R(2)), MatMul(MatMul(R(4), R(5)), R(2)),
               MatMul(MatMul(R(7), R(1)), R(4)), MatMul(MatMul(MatMul(R(3), R(4)), R(5)), R(6)), MatMul(MatMul(R(4), R(7)), MatMul(R(2), R(3))) >>
      \* isometry-valued units: a hyperbolic element, the NEGATIVE of a hyperbolic element (the same isometry,
      \* negative eigenvalues on the light cone), an elliptic element (rotation by a right angle: non-real
      \* eigenvalues), an orientation reversing element, the negative of a glide
      is == << MatMul(R(1), R(6)), NegMat(MatMul(R(6), R(2))), MatMul(R(7), R(1)), MatMul(MatMul(R(4), R(5)), R(2)),
               NegMat(MatMul(MatMul(R(7), R(1)), R(4))), ms[6], ms[7] >>
  IN IF c = "Isometry" THEN is[i] ELSE IF i % 2 = 0 THEN MatMul(Shear, ms[i]) ELSE ms[i]

Base(c, i) ==
  CASE c \in {"Point", "HPoint"} -> <<P[i]>>
    [] c = "PointPair" -> <<P[i], U[i]>>
    [] c = "Geodesic" -> <<U[i], U[Cyc(i + 1)]>>
    [] c = "Segment" -> <<Add(Scale(2, U[i]), U[Cyc(i + 1)]), Add(U[i], Scale(3, U[Cyc(i + 1)]))>>
    [] c = "Tangent" -> <<P[i], W[i]>>
    \* a geodesic subspace given by ideal points: a geodesic of the plane, a plane of 3-space (a hyperplane)
    [] c = "Subspace" -> [j \in 1..Dim |-> U[Cyc(i + j - 1)]]
    [] c = "Horosphere" -> <<HU[i], HoroP1(i)>>            \* ideal centre, a point of the horosphere
    [] c = "HoroArc" -> <<HU[i], HoroP1(i), HoroP2(i)>>    \* ideal centre, the two end points of the arc
    [] c \in {"Polygon", "HPolygon"} -> [j \in 1..NV |-> P[Cyc(i + j - 1)]]
    [] c \in {"Transformation", "Isometry"} -> BaseMat(c, i)

Prim(c, i, u) == ApplyWord(Base(c, i), u)

\* derived data computed from primary rows
Edges(rows) == [j \in 1..Len(rows) |-> <<rows[j], rows[(j % Len(rows)) + 1]>>]
\* a positive multiple of the projection of the vector to the tangent space at the point
TanDer(rows) == LET p == rows[1] v == rows[2]
                IN <<p, Add(Scale(Neg(Mink(p, p)), v), Scale(Mink(v, p), p))>>
\* ideal endpoints of a segment: known by construction (the end points lie on the chord U[i]U[i+1])
IdealBase(i) == <<U[i], U[Cyc(i + 1)]>>

Der(c, i, u) ==
  CASE c \in {"Polygon", "HPolygon"} -> Edges(Prim(c, i, u))
    [] c = "Tangent" -> TanDer(Prim(c, i, u))
    [] c = "Segment" -> ApplyWord(IdealBase(i), u)
    [] OTHER -> <<>>

(***************************************************************************)
(* Theorems checked on every id                                            *)
(***************************************************************************)
TimeLike(x) == Mink(x, x) < 0
LightLike(x) == Mink(x, x) = 0 /\ ~IsZero(x)
\* the library computes ideal endpoints of the segment (p, q) by solving a quadratic whose
\* leading coefficient <p-q, p-q> must not vanish
SegOK(p, q) == TimeLike(p) /\ TimeLike(q) /\ ~Parallel(p, q) /\ Mink(Sub(p, q), Sub(p, q)) # 0
\* x lies in the span of y and z (all 3x3 minors of the matrix with rows x, y, z vanish)
Det3(a, b, c, i, j, l) == a[i] * (b[j] * c[l] - b[l] * c[j]) - a[j] * (b[i] * c[l] - b[l] * c[i]) + a[l] * (b[i] * c[j] - b[j] * c[i])
InSpan(x, y, z) == \A i, j, l \in 1..N : (i < j /\ j < l) => Det3(x, y, z, i, j, l) = 0

InDomain ==
  LET rows == Prim(cls, k, w) IN
  CASE cls = "HPoint" -> TimeLike(rows[1])
    [] cls = "Point" -> ~IsZero(rows[1])
    [] cls = "PointPair" -> ~Parallel(rows[1], rows[2])
    [] cls = "Geodesic" -> LightLike(rows[1]) /\ LightLike(rows[2]) /\ ~Parallel(rows[1], rows[2])
    [] cls = "Segment" -> SegOK(rows[1], rows[2])
    [] cls = "Tangent" -> TimeLike(rows[1]) /\ ~IsZero(TanDer(rows)[2])
    \* the centre is ideal, the points are in hyperbolic space, distinct, and lie on ONE horosphere based at the
    \* centre: <x, u>^2 / <x, x> is the same for both
    \* independent ideal points (for three of them: some 3x3 minor does not vanish)
    [] cls = "Subspace" -> /\ \A j \in 1..Dim : LightLike(rows[j])
                           /\ \A j1, j2 \in 1..Dim : j1 # j2 => ~Parallel(rows[j1], rows[j2])
                           /\ Dim = 3 => \E a, b, c \in 1..N : a < b /\ b < c /\ Det3(rows[1], rows[2], rows[3], a, b, c) # 0
    [] cls = "Horosphere" -> LightLike(rows[1]) /\ TimeLike(rows[2])
    [] cls = "HoroArc" -> /\ LightLike(rows[1]) /\ TimeLike(rows[2]) /\ TimeLike(rows[3]) /\ ~Parallel(rows[2], rows[3])
                          /\ Mink(rows[2], rows[1]) * Mink(rows[2], rows[1]) * Mink(rows[3], rows[3])
                               = Mink(rows[3], rows[1]) * Mink(rows[3], rows[1]) * Mink(rows[2], rows[2])
    [] cls = "Polygon" -> \A j \in 1..NV : ~IsZero(rows[j]) /\ ~Parallel(rows[j], rows[(j % NV) + 1])
    [] cls = "HPolygon" -> \A j \in 1..NV : SegOK(rows[j], rows[(j % NV) + 1])
    [] OTHER -> TRUE

IsFormPreserving(M) == \A i, j \in 1..N : Mink(M[i], M[j]) = (IF i = j THEN Sig(i) ELSE 0)
\* unimodular: checked through an explicit integer inverse for isometries (J M^T J), and for the
\* shear by its explicit inverse
FormPreserved ==
  /\ \A i \in 1..NIso : IsFormPreserving(T[i]) /\ T[i][1][1] > 0
  /\ IsFormPreserving(WordMat(w)) \/ (\E i \in 1..Len(w) : w[i] > NIso)
  /\ cls = "Isometry" => IsFormPreserving(Prim(cls, k, w))

\* derive(x.M) = derive(x).M
Equivariant ==
  CASE cls \in {"Polygon", "HPolygon"} ->
         Der(cls, k, w) = [j \in 1..NV |-> ApplyWord(Edges(Base(cls, k))[j], w)]
    [] cls = "Tangent" -> Der(cls, k, w) = ApplyWord(TanDer(Base(cls, k)), w)
    [] cls = "Segment" ->
         LET rows == Prim(cls, k, w) d == Der(cls, k, w)
         IN /\ LightLike(d[1]) /\ LightLike(d[2]) /\ ~Parallel(d[1], d[2])
            /\ InSpan(d[1], rows[1], rows[2]) /\ InSpan(d[2], rows[1], rows[2])
            \* the order: d[1] is the ideal point beyond end point 1 (end point 1 lies between d[1] and end point 2).
            \* In terms of Minkowski products, which the isometries preserve (FormPreserved), so it is checked on the
            \* base units where the numbers are small
            /\ w = <<>> => Mink(rows[1], d[2]) * Mink(rows[2], d[1]) > Mink(rows[2], d[2]) * Mink(rows[1], d[1])
    [] OTHER -> TRUE

RowsSame(c, r1, r2) ==
  IF WholeScale(c)
  THEN \A i, j, a, b \in 1..N : r1[i][j] * r2[a][b] = r1[a][b] * r2[i][j]
  ELSE \A j \in 1..Len(r1) : SameProj(r1[j], r2[j])
\* derived data, row by row (a segment's ideal endpoints are ordered: first the one beyond end point 1)
DerSame(c, d1, d2) ==
  CASE c \in {"Segment", "Tangent"} -> SameProj(d1[1], d2[1]) /\ SameProj(d1[2], d2[2])
    [] OTHER -> \A j \in 1..Len(d1) : SameProj(d1[j][1], d2[j][1]) /\ SameProj(d1[j][2], d2[j][2])

\* two ids denote the same unit: same primary data (and then, by Equivariant, the same derived data)
SameUnit(c, i1, u1, i2, u2) == RowsSame(c, Prim(c, i1, u1), Prim(c, i2, u2))
Differ(c, i1, u1, i2, u2) ==
  /\ ~RowsSame(c, Prim(c, i1, u1), Prim(c, i2, u2))
  /\ HasDerived(c) => ~DerSame(c, Der(c, i1, u1), Der(c, i2, u2))

\* What makes faults visible (ids are compared through their payloads, so two words that denote the
\* same group element are the same unit; that is sound but blind, hence these theorems):
\* different base units differ; every transformation moves every base unit; different
\* transformations move it differently; the order of two transformations is visible -
\* in primary data and, independently, in derived data.
Distinguishable ==
  w = <<>> =>
    /\ \A i \in 1..K : i # k => Differ(cls, k, <<>>, i, <<>>)
    /\ \A a \in Letters(cls) : Differ(cls, k, <<a>>, k, <<>>)
    /\ \A a, b \in Letters(cls) : a # b => Differ(cls, k, <<a>>, k, <<b>>)
    /\ MaxWord >= 2 => \A a, b \in Letters(cls) : a # b => Differ(cls, k, <<a, b>>, k, <<b, a>>)

\* ids with at most one transformation applied are pairwise distinct units: the trace validation
\* (CompositeTrace.tla) decodes such ids uniquely from proj_data and from aux_data
ShortIds == (1..K) \X UNION {[1..m -> Letters(cls)] : m \in 0..1}
ShortIdsInjective ==
  (Len(w) <= 1 /\ ~WholeScale(cls)) => \A id \in ShortIds : id # <<k, w>> => Differ(cls, k, w, id[1], id[2])

(***************************************************************************)
(* One state per id                                                        *)
(***************************************************************************)
\* the ids are explored as a state machine: a base unit, then one more transformation applied
Init == cls \in (ClassSel \cap Classes) /\ k \in 1..K /\ w = <<>>
Next == /\ Len(w) < MaxWord
        /\ \E a \in Letters(cls) : w' = Append(w, a)
        /\ UNCHANGED <<cls, k>>

\* isometries of the hyperbolic plane with two real fixed ideal points (hyperbolic elements of SO+(2,1)):
\* determinant 1, preserving the time orientation, trace > 3.  For these the harness checks the law
\* FixedBy on the fixed points the library returns.
Loxodromic ==
  /\ cls = "Isometry" /\ Dim = 2
  /\ LET M0 == Prim(cls, k, w)
         M == IF M0[1][1] < 0 THEN NegMat(M0) ELSE M0       \* M and -M are the same isometry
     IN /\ Det3(M[1], M[2], M[3], 1, 2, 3) = 1 /\ M[1][1] > 0
        /\ M[1][1] + M[2][2] + M[3][3] > 3

Obs == [dim |-> Dim, cls |-> cls, k |-> k, w |-> w, prim |-> Prim(cls, k, w), der |-> Der(cls, k, w),
        whole |-> WholeScale(cls), lox |-> Loxodromic,
        \* every row lies in the standard affine chart x_0 # 0 (domain of the chart-0 coordinate queries)
        chart0 |-> \A j \in 1..Len(Prim(cls, k, w)) : Prim(cls, k, w)[j][1] # 0]
EmitObs == PrintT("UNIT " \o ToJson(Obs))

(***************************************************************************)
(* Constant tables                                                         *)
(***************************************************************************)
\* exact Minkowski products of the base points: cosh d(P[i], P[j]) = |g[1]| / sqrt(g[2] g[3])
Gram == [i \in 1..K |-> [j \in 1..K |-> <<Mink(P[i], P[j]), Mink(P[i], P[i]), Mink(P[j], P[j])>>]]
\* which transformations have two real fixed ideal points (trace > N: hyperbolic elements), det
Trans == [i \in 1..NTrans |-> [m |-> T[i], iso |-> i <= NIso]]
\* projective transformations with a REPEATED eigenvalue: M = I + w^T f with f.w = Mu - 1 has the eigenvalue 1 on the
\* hyperplane ker f (multiplicity N - 1) and the simple eigenvalue Mu on w (acting on row vectors: x M = x + (x.w^T) f)
EigW == IF Dim = 2 THEN << <<1, 2, 0>>, <<1, 0, 0>>, <<0, 1, 1>>, <<2, 1, -1>>, <<1, -1, 1>> >>
        ELSE << <<1, 2, 0, 0>>, <<1, 0, 0, 1>>, <<0, 1, 1, 0>>, <<2, 1, -1, 0>>, <<1, -1, 1, 1>> >>
EigF == IF Dim = 2 THEN << <<1, 0, 1>>, <<1, 3, -2>>, <<2, 1, 0>>, <<1, 0, 1>>, <<0, 1, 2>> >>
        ELSE << <<1, 0, 1, 2>>, <<1, 3, -2, 0>>, <<2, 1, 0, -1>>, <<1, 0, 1, 3>>, <<0, 1, 2, 0>> >>
EigMu == 2
EigMat(i) == [a \in 1..N |-> [b \in 1..N |-> (IF a = b THEN 1 ELSE 0) + EigW[i][a] * EigF[i][b]]]
ASSUME \A i \in 1..Len(EigW) :
         LET M == EigMat(i) D1 == [a \in 1..N |-> [b \in 1..N |-> M[a][b] - (IF a = b THEN 1 ELSE 0)]]
             D2 == [a \in 1..N |-> [b \in 1..N |-> M[a][b] - (IF a = b THEN EigMu ELSE 0)]]
         IN /\ SumTo([a \in 1..N |-> EigW[i][a] * EigF[i][a]], N) = EigMu - 1
            \* rank(M - I) = 1: all 2x2 minors vanish and it is not zero; (M - I)(M - Mu I) = 0: diagonalisable
            /\ \A a, b, c, d \in 1..N : D1[a][b] * D1[c][d] = D1[a][d] * D1[c][b]
            /\ \E a, b \in 1..N : D1[a][b] # 0
            /\ MatMul(D1, D2) = [a \in 1..N |-> [b \in 1..N |-> 0]]
ASSUME PrintT("EIG " \o ToJson([dim |-> Dim, lam |-> 1, mu |-> EigMu, mats |-> [i \in 1..Len(EigW) |-> EigMat(i)]]))

\* elements of SL(2,Z) for the vectorised SL(2) maps
SL2 == << <<<<1, 1>>, <<0, 1>>>>, <<<<2, 1>>, <<1, 1>>>>, <<<<1, 0>>, <<2, 1>>>>, <<<<3, 2>>, <<4, 3>>>>,
          <<<<0, -1>>, <<1, 0>>>>, <<<<2, -1>>, <<-3, 2>>>>, <<<<5, 2>>, <<2, 1>>>> >>
ASSUME \A i \in 1..Len(SL2) : SL2[i][1][1] * SL2[i][2][2] - SL2[i][1][2] * SL2[i][2][1] = 1
ASSUME \A i, j \in 1..Len(SL2) : i # j => SL2[i] # SL2[j]
ASSUME PrintT("SL2 " \o ToJson(SL2))
\* elements of SL(2, Z[i]) for the vectorised complex SL(2) maps: entries <<re, im>>
SL2C == << <<<<<<1, 0>>, <<0, 1>>>>, <<<<0, 0>>, <<1, 0>>>>>>,
           <<<<<<1, 1>>, <<1, 0>>>>, <<<<0, 1>>, <<1, 0>>>>>>,
           <<<<<<0, 1>>, <<0, 0>>>>, <<<<0, 0>>, <<0, -1>>>>>>,
           <<<<<<2, 1>>, <<1, 1>>>>, <<<<1, 0>>, <<1, 0>>>>>>,
           <<<<<<1, 0>>, <<0, 0>>>>, <<<<2, -1>>, <<1, 0>>>>>>,
           <<<<<<0, 0>>, <<0, 1>>>>, <<<<0, 1>>, <<1, 2>>>>>> >>
CMul(x, y) == <<x[1] * y[1] - x[2] * y[2], x[1] * y[2] + x[2] * y[1]>>
ASSUME \A i \in 1..Len(SL2C) :
         LET M == SL2C[i] ad == CMul(M[1][1], M[2][2]) bc == CMul(M[1][2], M[2][1])
         IN <<ad[1] - bc[1], ad[2] - bc[2]>> = <<1, 0>>
ASSUME \A i, j \in 1..Len(SL2C) : i # j => SL2C[i] # SL2C[j]
ASSUME PrintT("SL2C " \o ToJson(SL2C))
\* conversions between classes: C2(object of C1) keeps the primary data of the object and nothing else - it is
\* what C2 builds from that data (no derived data for a class that has none)
Converts == {<<"Segment", "Geodesic">>, <<"Segment", "Subspace">>, <<"Geodesic", "Subspace">>, <<"Geodesic", "Segment">>,
             <<"HPolygon", "HPoint">>, <<"Polygon", "Point">>, <<"Polygon", "PointPair">>, <<"Tangent", "Geodesic">>,
             <<"HoroArc", "Horosphere">>, <<"Segment", "HPoint">>, <<"PointPair", "Polygon">>, <<"HPoint", "HPoint">>}
ASSUME \A cv \in Converts : cv[1] \in Classes /\ cv[2] \in Classes
ASSUME PrintT("CONVERTS " \o ToJson(Converts))
ASSUME PrintT("GRAM " \o ToJson([dim |-> Dim, gram |-> Gram]))
ASSUME PrintT("TRANS " \o ToJson([dim |-> Dim, trans |-> Trans]))
ASSUME \A x \in 1..Len(RV) : LET v == RV[x] IN Mink(v, v) \in {1, 2} /\ \A i, j \in 1..N : (2 * Sig(i) * v[i] * v[j]) % Mink(v, v) = 0
=============================================================================
