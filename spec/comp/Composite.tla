------------------------------ MODULE Composite ------------------------------
(***************************************************************************)
(* Property C04: a composite object behaves exactly like an array of its   *)
(* unit objects.  This module is the index algebra: a composite object is  *)
(*       [shape |-> tuple of dimensions, cell |-> row-major sequence]      *)
(* and every operation of the library on composite objects is an operator  *)
(* that says, for each index of the result, WHICH unit(s) of the operands  *)
(* it is made of:                                                          *)
(*   Bcast, Elementwise, Pairwise, PairwiseReversed   (applying a          *)
(*       composite transformation to a composite object)                   *)
(*   Flatten, Reshape, Index, IndexTuple, Slice, Iterate, Stack, Combine,  *)
(*   SetItem, SetRows, SetTuple (item assignment with general keys),       *)
(*   GetRows, BroadcastTo                                                  *)
(* The model has one state per pair of shapes (sx, st) (object shape,      *)
(* transformation shape).  TLC checks the theorems relating the operators  *)
(* on every state and prints, per state, the table of specified results    *)
(* that the conformance harness replays into the library for every class   *)
(* of objects.  Derived.tla reuses the operators on arrays of unit ids.    *)
(***************************************************************************)
EXTENDS Naturals, Integers, Sequences, FiniteSets, TLC, Json

CONSTANTS MaxRank,    \* ranks 0..MaxRank
          DimVals     \* values of one dimension, e.g. {1, 2, 3}

VARIABLES sx, st

(***************************************************************************)
(* Shapes and indices                                                      *)
(***************************************************************************)
RECURSIVE Size(_)
Size(s) == IF s = <<>> THEN 1 ELSE Head(s) * Size(Tail(s))

RECURSIVE ShapesOfRank(_)
ShapesOfRank(r) == IF r = 0 THEN {<<>>} ELSE {<<d>> \o s : d \in DimVals, s \in ShapesOfRank(r - 1)}
Shapes == UNION {ShapesOfRank(r) : r \in 0..MaxRank}

\* multi-indices are 0-based tuples, flat positions are 0-based, cells are 1-based sequences
RECURSIVE Unravel(_, _)
Unravel(p, s) == IF s = <<>> THEN <<>>
                 ELSE LET r == Size(Tail(s)) IN <<p \div r>> \o Unravel(p % r, Tail(s))
RECURSIVE Ravel(_, _)
Ravel(ix, s) == IF s = <<>> THEN 0 ELSE Head(ix) * Size(Tail(s)) + Ravel(Tail(ix), Tail(s))
Indices(s) == {Unravel(p, s) : p \in 0..(Size(s) - 1)}

Max(a, b) == IF a >= b THEN a ELSE b
Pad(s, n) == [i \in 1..(n - Len(s)) |-> 1] \o s

\* NumPy broadcasting: right-aligned, a dimension 1 stretches
BcastOK(s1, s2) == LET n == Max(Len(s1), Len(s2)) a == Pad(s1, n) b == Pad(s2, n)
                   IN \A i \in 1..n : a[i] = b[i] \/ a[i] = 1 \/ b[i] = 1
Bcast(s1, s2) == LET n == Max(Len(s1), Len(s2)) a == Pad(s1, n) b == Pad(s2, n)
                 IN [i \in 1..n |-> IF a[i] = 1 THEN b[i] ELSE a[i]]
CanBroadcastTo(s, B) == /\ Len(s) <= Len(B)
                        /\ \A i \in 1..Len(s) : s[i] = B[Len(B) - Len(s) + i] \/ s[i] = 1
\* index into an operand of shape s that the index ix of the broadcast result reads
Src(ix, s) == LET off == Len(ix) - Len(s) IN [i \in 1..Len(s) |-> IF s[i] = 1 THEN 0 ELSE ix[off + i]]

(***************************************************************************)
(* Index algebra of applying T (shape t) to X (shape x): for each position *)
(* of the result the pair <<position in X, position in T>> (1-based)       *)
(***************************************************************************)
Elementwise(x, t) ==
  LET B == Bcast(x, t)
  IN [shape |-> B,
      cell |-> [p \in 1..Size(B) |-> LET ix == Unravel(p - 1, B)
                                     IN <<Ravel(Src(ix, x), x) + 1, Ravel(Src(ix, t), t) + 1>>]]
\* leading axes are the object's, following axes the transformation's
Pairwise(x, t) ==
  LET B == x \o t
  IN [shape |-> B,
      cell |-> [p \in 1..Size(B) |-> LET ix == Unravel(p - 1, B)
                                     IN <<Ravel(SubSeq(ix, 1, Len(x)), x) + 1,
                                          Ravel(SubSeq(ix, Len(x) + 1, Len(B)), t) + 1>>]]
PairwiseReversed(x, t) ==
  LET B == t \o x
  IN [shape |-> B,
      cell |-> [p \in 1..Size(B) |-> LET ix == Unravel(p - 1, B)
                                     IN <<Ravel(SubSeq(ix, Len(t) + 1, Len(B)), x) + 1,
                                          Ravel(SubSeq(ix, 1, Len(t)), t) + 1>>]]
Modes == {"elementwise", "pairwise", "pairwise_reversed"}
Defined(x, t, mode) == mode # "elementwise" \/ BcastOK(x, t)
IdxAlg(x, t, mode) == CASE mode = "elementwise" -> Elementwise(x, t)
                        [] mode = "pairwise" -> Pairwise(x, t)
                        [] mode = "pairwise_reversed" -> PairwiseReversed(x, t)

(***************************************************************************)
(* Composite objects                                                       *)
(***************************************************************************)
Obj(s, c) == [shape |-> s, cell |-> c]
IdObj(s) == Obj(s, [p \in 1..Size(s) |-> p])
At(X, ix) == X.cell[Ravel(ix, X.shape) + 1]

Apply(X, TT, mode) ==
  LET ia == IdxAlg(X.shape, TT.shape, mode)
  IN Obj(ia.shape, [p \in 1..Size(ia.shape) |-> <<X.cell[ia.cell[p][1]], TT.cell[ia.cell[p][2]]>>])

Flatten(X) == Obj(<<Size(X.shape)>>, X.cell)
CanReshape(X, s) == Size(s) = Size(X.shape)
Reshape(X, s) == Obj(s, X.cell)
\* X[i], rank >= 1, 0 <= i < first dimension
Index(X, i) == LET t == Tail(X.shape) m == Size(t) IN Obj(t, SubSeq(X.cell, i * m + 1, (i + 1) * m))
RECURSIVE IndexTuple(_, _)
IndexTuple(X, ix) == IF ix = <<>> THEN X ELSE IndexTuple(Index(X, Head(ix)), Tail(ix))
\* X[a:b]
Slice(X, a, b) == LET t == Tail(X.shape) m == Size(t) IN Obj(<<b - a>> \o t, SubSeq(X.cell, a * m + 1, b * m))
Iterate(X) == [i \in 1..Head(X.shape) |-> Index(X, i - 1)]
RECURSIVE ConcatCells(_)
ConcatCells(Xs) == IF Xs = <<>> THEN <<>> ELSE Head(Xs).cell \o ConcatCells(Tail(Xs))
RECURSIVE SumSizes(_)
SumSizes(Xs) == IF Xs = <<>> THEN 0 ELSE Size(Head(Xs).shape) + SumSizes(Tail(Xs))
\* a new object from a list of objects of one shape
CanStack(Xs) == Xs # <<>> /\ \A i \in 1..Len(Xs) : Xs[i].shape = Xs[1].shape
Stack(Xs) == Obj(<<Len(Xs)>> \o Xs[1].shape, ConcatCells(Xs))
\* flatten everything and concatenate
Combine(Xs) == Obj(<<SumSizes(Xs)>>, ConcatCells(Xs))
BroadcastTo(X, s) == Obj(s, [p \in 1..Size(s) |-> At(X, Src(Unravel(p - 1, s), X.shape))])
\* X[i] = Y
CanSetItem(X, i, Y) == X.shape # <<>> /\ i \in 0..(Head(X.shape) - 1) /\ CanBroadcastTo(Y.shape, Tail(X.shape))
SetItem(X, i, Y) ==
  LET t == Tail(X.shape) m == Size(t) B == BroadcastTo(Y, t)
  IN Obj(X.shape, [p \in 1..Size(X.shape) |-> IF p > i * m /\ p <= (i + 1) * m THEN B.cell[p - i * m] ELSE X.cell[p]])

\* ---- item assignment / indexing with general NumPy keys -------------------------------
\* Every key on the first axis resolves to a sequence of DISTINCT first-axis indices (0-based):
NormIndex(i, n) == IF i < 0 THEN i + n ELSE i                         \* negative index
RECURSIVE StepRows(_, _, _)
StepRows(lo, hi, step) == IF step > 0 THEN (IF lo >= hi THEN <<>> ELSE <<lo>> \o StepRows(lo + step, hi, step))
                          ELSE (IF lo <= hi THEN <<>> ELSE <<lo>> \o StepRows(lo + step, hi, step))
AllRows(n) == [r \in 1..n |-> r - 1]
RECURSIVE MaskRowsFrom(_, _)
MaskRowsFrom(mask, i) == IF i > Len(mask) THEN <<>>
                         ELSE (IF mask[i] THEN <<i - 1>> ELSE <<>>) \o MaskRowsFrom(mask, i + 1)
MaskRows(mask) == MaskRowsFrom(mask, 1)                               \* boolean mask over the first axis
DistinctRows(rows, n) == /\ \A r \in 1..Len(rows) : rows[r] \in 0..(n - 1)
                         /\ \A r1, r2 \in 1..Len(rows) : r1 # r2 => rows[r1] # rows[r2]
\* X[rows] (index list / integer array / mask / slice with a step): a new object
GetRows(X, rows) == LET t == Tail(X.shape) m == Size(t)
                    IN Obj(<<Len(rows)>> \o t, [q \in 1..(Len(rows) * m) |-> X.cell[rows[((q - 1) \div m) + 1] * m + ((q - 1) % m) + 1]])
\* X[rows] = Y: Y broadcasts to the selected sub-array, row r of it lands at first-axis index rows[r]
CanSetRows(X, rows, Y) == /\ X.shape # <<>> /\ DistinctRows(rows, Head(X.shape))
                          /\ CanBroadcastTo(Y.shape, <<Len(rows)>> \o Tail(X.shape))
SetRows(X, rows, Y) ==
  LET t == Tail(X.shape) m == Size(t) BB == BroadcastTo(Y, <<Len(rows)>> \o t)
  IN Obj(X.shape, [p \in 1..Size(X.shape) |->
                     LET i == (p - 1) \div m
                     IN IF \E r \in 1..Len(rows) : rows[r] = i
                        THEN BB.cell[((CHOOSE r \in 1..Len(rows) : rows[r] = i) - 1) * m + ((p - 1) % m) + 1]
                        ELSE X.cell[p]])
\* X[i1, .., ik] = Y (tuple of integers, k <= rank): Y broadcasts to the remaining axes
CanSetTuple(X, ix, Y) == /\ Len(ix) <= Len(X.shape) /\ \A a \in 1..Len(ix) : ix[a] \in 0..(X.shape[a] - 1)
                         /\ CanBroadcastTo(Y.shape, SubSeq(X.shape, Len(ix) + 1, Len(X.shape)))
SetTuple(X, ix, Y) ==
  LET sub == SubSeq(X.shape, Len(ix) + 1, Len(X.shape)) m == Size(sub)
      off == Ravel(ix \o [a \in 1..Len(sub) |-> 0], X.shape)
      BB == BroadcastTo(Y, sub)
  IN Obj(X.shape, [p \in 1..Size(X.shape) |-> IF p > off /\ p <= off + m THEN BB.cell[p - off] ELSE X.cell[p]])
\* tmp = X[i]; X[i] = X[j]; X[j] = tmp
Swap(X, i, j) == LET t == Tail(X.shape) m == Size(t)
                 IN Obj(X.shape, [p \in 1..Size(X.shape) |->
                                    LET a == (p - 1) \div m
                                    IN IF a = i THEN X.cell[j * m + ((p - 1) % m) + 1]
                                       ELSE IF a = j THEN X.cell[i * m + ((p - 1) % m) + 1] ELSE X.cell[p]])

(***************************************************************************)
(* One state per pair of shapes                                            *)
(***************************************************************************)
\* every pair of shapes is reached by appending one more axis to either shape
Init == sx = <<>> /\ st = <<>>
Next == \/ /\ Len(sx) < MaxRank /\ \E d \in DimVals : sx' = Append(sx, d) /\ UNCHANGED st
        \/ /\ Len(st) < MaxRank /\ \E d \in DimVals : st' = Append(st, d) /\ UNCHANGED sx

X0 == IdObj(sx)
T0 == IdObj(st)

(***************************************************************************)
(* Theorems                                                                *)
(***************************************************************************)
RavelInverse == /\ \A p \in 0..(Size(sx) - 1) : Ravel(Unravel(p, sx), sx) = p
                /\ \A ix \in Indices(sx) : Len(ix) = Len(sx) /\ \A i \in 1..Len(sx) : ix[i] \in 0..(sx[i] - 1)
                /\ Cardinality(Indices(sx)) = Size(sx)

\* entry [i][j] of the pairwise product is transformation j applied to unit i, every pair once;
\* pairwise_reversed is its transpose
PairwiseIsOuterProduct ==
  LET pw == Apply(X0, T0, "pairwise") pr == Apply(X0, T0, "pairwise_reversed")
  IN /\ pw.shape = sx \o st /\ pr.shape = st \o sx
     /\ \A i \in Indices(sx) : \A j \in Indices(st) :
          /\ At(pw, i \o j) = <<At(X0, i), At(T0, j)>>
          /\ At(pr, j \o i) = At(pw, i \o j)
     /\ Len(pw.cell) = Size(sx) * Size(st) /\ Len(pr.cell) = Len(pw.cell)
     /\ {pw.cell[p] : p \in 1..Len(pw.cell)} = (1..Size(sx)) \X (1..Size(st))

\* elementwise application is defined iff the shapes have a common broadcast shape, the result has
\* the least such shape, and each entry is the diagonal of the outer product
ElementwiseIsBroadcast ==
  /\ BcastOK(sx, st) <=> (\E B \in Shapes : CanBroadcastTo(sx, B) /\ CanBroadcastTo(st, B))
  /\ BcastOK(sx, st) =>
       LET B == Bcast(sx, st) ew == Apply(X0, T0, "elementwise") pw == Apply(X0, T0, "pairwise")
       IN /\ CanBroadcastTo(sx, B) /\ CanBroadcastTo(st, B)
          /\ \A C \in Shapes : (CanBroadcastTo(sx, C) /\ CanBroadcastTo(st, C)) => CanBroadcastTo(B, C)
          /\ ew.shape = B /\ Bcast(st, sx) = B
          /\ \A ix \in Indices(B) : At(ew, ix) = At(pw, Src(ix, sx) \o Src(ix, st))
          /\ ew.cell = [p \in 1..Size(B) |-> <<BroadcastTo(X0, B).cell[p], BroadcastTo(T0, B).cell[p]>>]
          /\ LET we == Apply(T0, X0, "elementwise")
             IN \A p \in 1..Size(B) : we.cell[p] = <<ew.cell[p][2], ew.cell[p][1]>>

SpecialShapes ==
  /\ st = <<>> => /\ Apply(X0, T0, "elementwise") = Apply(X0, T0, "pairwise")
                  /\ Apply(X0, T0, "pairwise") = Apply(X0, T0, "pairwise_reversed")
                  /\ Apply(X0, T0, "pairwise") = Obj(sx, [p \in 1..Size(sx) |-> <<p, 1>>])
  /\ sx = st => Apply(X0, T0, "elementwise") = Obj(sx, [p \in 1..Size(sx) |-> <<p, p>>])

\* indexing / flattening / reshaping commute with application (naturality)
Naturality ==
  /\ sx # <<>> => \A i \in 0..(Head(sx) - 1) :
                    Index(Apply(X0, T0, "pairwise"), i) = Apply(Index(X0, i), T0, "pairwise")
  /\ st # <<>> => \A j \in 0..(Head(st) - 1) :
                    Index(Apply(X0, T0, "pairwise_reversed"), j) = Apply(X0, Index(T0, j), "pairwise_reversed")
  /\ Flatten(Apply(X0, T0, "pairwise")) = Flatten(Apply(Flatten(X0), Flatten(T0), "pairwise"))
  /\ st = <<>> => Flatten(Apply(X0, T0, "elementwise")) = Apply(Flatten(X0), T0, "elementwise")

\* flattening, reshaping, indexing, iterating and stacking preserve the units and their order
ShapeOpsPreserveUnits ==
  /\ \A s \in Shapes : CanReshape(X0, s) =>
        /\ Flatten(Reshape(X0, s)) = Flatten(X0)
        /\ Reshape(Reshape(X0, s), sx) = X0
        /\ \A ix \in Indices(s) : At(Reshape(X0, s), ix) = Ravel(ix, s) + 1
  /\ \A ix \in Indices(sx) : /\ IndexTuple(X0, ix) = Obj(<<>>, <<At(X0, ix)>>)
                             /\ Flatten(X0).cell[Ravel(ix, sx) + 1] = At(X0, ix)
  /\ sx # <<>> =>
        /\ Stack(Iterate(X0)) = X0
        /\ Combine(Iterate(X0)) = Flatten(X0)
        /\ \A a \in 0..Head(sx) : \A b \in a..Head(sx) :
              /\ b > a => Iterate(Slice(X0, a, b)) = SubSeq(Iterate(X0), a + 1, b)
              /\ Size(Slice(X0, a, b).shape) = Len(Slice(X0, a, b).cell)
  /\ Combine(<<X0, T0>>) = Obj(<<Size(sx) + Size(st)>>, X0.cell \o [p \in 1..Size(st) |-> p])
  /\ Combine(<<X0>>) = Flatten(X0)
  /\ Combine(<<X0, T0, X0>>) = Combine(<<Combine(<<X0, T0>>), X0>>)
  /\ Stack(<<X0, X0>>).shape = <<2>> \o sx /\ Index(Stack(<<X0, X0>>), 1) = X0

\* X[i] = Y puts (the broadcast of) Y at i and leaves every other item alone; here Y = T0 with ids
\* shifted out of the range of X0
SetItemLaw ==
  LET Y == Obj(st, [p \in 1..Size(st) |-> 1000 + p])
  IN \A i \in 0..((IF sx = <<>> THEN 0 ELSE Head(sx)) - 1) :
       CanSetItem(X0, i, Y) =>
         LET Z == SetItem(X0, i, Y)
         IN /\ Z.shape = sx
            /\ Index(Z, i) = BroadcastTo(Y, Tail(sx))
            /\ \A j \in 0..(Head(sx) - 1) : j # i => Index(Z, j) = Index(X0, j)

\* item assignment with general keys: a key that selects the rows `rows` is the sequence of single
\* assignments X[rows[r]] = (r-th item of the broadcast value); reading the rows back returns the
\* broadcast value; the other rows stay; int / negative / tuple keys agree with X[i] = Y; the swap
\* through a temporary is two single assignments of the ORIGINAL items
RECURSIVE SetSeq(_, _, _, _)
SetSeq(X, rows, BB, r) == IF r > Len(rows) THEN X ELSE SetSeq(SetItem(X, rows[r], Index(BB, r - 1)), rows, BB, r + 1)
KeyLaws ==
  sx # <<>> =>
    LET n == Head(sx)
        keys == {AllRows(n), StepRows(0, n, 2), StepRows(n - 1, -1, -1), <<n - 1>>, <<n - 1, 0>>,
                 MaskRows([i \in 1..n |-> i % 2 = 1]), MaskRows([i \in 1..n |-> i = n])}
    IN \A rows \in keys : (rows # <<>> /\ DistinctRows(rows, n)) =>
         LET Y == Obj(st, [p \in 1..Size(st) |-> 1000 + p])
         IN /\ GetRows(X0, AllRows(n)) = X0
            /\ Iterate(GetRows(X0, rows)) = [r \in 1..Len(rows) |-> Index(X0, rows[r])]
            /\ CanSetRows(X0, rows, Y) =>
                 LET Z == SetRows(X0, rows, Y) BB == BroadcastTo(Y, <<Len(rows)>> \o Tail(sx))
                 IN /\ Z = SetSeq(X0, rows, BB, 1)
                    /\ GetRows(Z, rows) = BB
                    /\ \A j \in 0..(n - 1) : (\A r \in 1..Len(rows) : rows[r] # j) => Index(Z, j) = Index(X0, j)
            /\ CanSetItem(X0, n - 1, Y) =>
                 /\ SetItem(X0, NormIndex(-1, n), Y) = SetItem(X0, n - 1, Y)
                 /\ SetTuple(X0, <<n - 1>>, Y) = SetItem(X0, n - 1, Y)
                 /\ SetRows(X0, <<n - 1>>, Obj(<<1>> \o Tail(sx), BroadcastTo(Y, Tail(sx)).cell)) = SetItem(X0, n - 1, Y)
            /\ \A ix \in Indices(sx) : SetTuple(X0, ix, Obj(<<>>, <<7>>)).cell = [p \in 1..Size(sx) |-> IF p = Ravel(ix, sx) + 1 THEN 7 ELSE p]
            /\ \A i, j \in 0..(n - 1) :
                 /\ Swap(X0, i, j) = SetItem(SetItem(X0, i, Index(X0, j)), j, Index(X0, i))
                 /\ Swap(Swap(X0, i, j), i, j) = X0

(***************************************************************************)
(* Table of specified results, one line per state                          *)
(***************************************************************************)
ObsApply == [sx |-> sx, st |-> st,
             ok |-> BcastOK(sx, st),
             ew |-> IF BcastOK(sx, st) THEN Elementwise(sx, st) ELSE [shape |-> <<>>, cell |-> <<>>],
             pw |-> Pairwise(sx, st),
             pr |-> PairwiseReversed(sx, st)]
EmitApply == PrintT("APPLY " \o ToJson(ObsApply))

\* unary operations on X0 (printed on the states with st = <<>>), and X0[i] = T0-shaped value
ObsUnary ==
  [sx |-> sx,
   flat |-> Flatten(X0),
   reshapes |-> {s \in Shapes : CanReshape(X0, s)},
   items |-> IF sx = <<>> THEN <<>> ELSE Iterate(X0),
   stack2 |-> Stack(<<X0, Obj(sx, [p \in 1..Size(sx) |-> Size(sx) + p])>>),
   \* type(X).combine([X0, Y]) for Y of the same and of other shapes (cells of Y: Size(sx) + p)
   combines |-> {<<s, Combine(<<X0, Obj(s, [p \in 1..Size(s) |-> Size(sx) + p])>>)>> : s \in {sx, <<>>, <<2>>, <<1, 3>>}},
   \* lists of one and of three operands: combine([X0]) is the flattened X0; combine([X0, Y(2,), Z()])
   combine1 |-> Combine(<<X0>>),
   combine3 |-> Combine(<<X0, Obj(<<2>>, <<Size(sx) + 1, Size(sx) + 2>>), Obj(<<>>, <<Size(sx) + 3>>)>>),
   tuples |-> {<<ix, IndexTuple(X0, ix).cell>> : ix \in Indices(sx)},
   slices |-> IF sx = <<>> THEN {} ELSE {<<ab[1], ab[2], Slice(X0, ab[1], ab[2])>> : ab \in {c \in (0..(Head(sx) - 1)) \X (1..Head(sx)) : c[1] < c[2]}} ]
EmitUnary == st # <<>> \/ PrintT("UNARY " \o ToJson(ObsUnary))

\* X0[i] = Y, Y of shape st with cells 1000 + p
ObsSet == [sx |-> sx, st |-> st,
           set |-> IF sx = <<>> THEN <<>>
                   ELSE [i \in 1..Head(sx) |->
                           LET Y == Obj(st, [p \in 1..Size(st) |-> 1000 + p])
                           IN IF CanSetItem(X0, i - 1, Y) THEN SetItem(X0, i - 1, Y) ELSE Obj(<<>>, <<>>)]]
EmitSet == (sx = <<>> \/ ~CanBroadcastTo(st, Tail(sx))) \/ PrintT("SETITEM " \o ToJson(ObsSet))
=============================================================================
