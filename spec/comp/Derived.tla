------------------------------- MODULE Derived -------------------------------
(***************************************************************************)
(* Property C11: derived data stays coherent with primary data; queries do *)
(* not move objects.                                                       *)
(*                                                                         *)
(* The abstract state of an object that carries derived data (a polygon's  *)
(* edges, a segment's ideal endpoints, a tangent vector's projected        *)
(* vector) is                                                              *)
(*      cls, shape, pc, dc                                                 *)
(* where pc is the row-major array of unit ids read from the primary data  *)
(* and dc the array of unit ids read - independently - from the derived    *)
(* data.  A unit id is <<k, w>> (base unit k, word w of transformation     *)
(* indices applied so far); its exact integer payloads are CompUnits.tla.  *)
(* A second object (an indexed sub-object the caller keeps) is part of the *)
(* state.  One action per public method, with the arguments as parameters; *)
(* read-only queries are stuttering actions.  The shape/index behaviour of *)
(* every action is the operator of Composite.tla, applied to pc and to dc. *)
(*                                                                         *)
(* TLC checks Coherent (dc = pc in every reachable state) and TypeOK and   *)
(* emits the labelled transition system; the harness executes every        *)
(* history of bounded depth on the real object and, after every step,      *)
(* decodes pc from proj_data and dc from aux_data.                         *)
(***************************************************************************)
EXTENDS Naturals, Integers, Sequences, FiniteSets, TLC, Json

CONSTANTS Classes,     \* subset of {"Polygon", "HPolygon", "Segment", "Tangent", "HPoint"}
          K,           \* base units 1..K
          MaxWord,     \* at most this many transformations applied to one unit
          MaxOps,      \* state-changing calls after the constructor
          MaxSize,     \* bound on the number of units of an object
          WithQueries, \* FALSE: leave the (stuttering) query actions out of the emitted transition system
          Lean         \* TRUE (quick tier): one representative per family of argument combinations of item assignment

VARIABLES cls, built, shape, pc, dc, nops, last,
          held, hshape, hpc, hdc      \* a second object the caller keeps: tmp = obj[i] / sub = obj[a:b]

C == INSTANCE Composite WITH MaxRank <- 2, DimVals <- 1..MaxSize, sx <- shape, st <- <<>>

NIso == 4
NTrans == 5
Letters(c) == IF c = "Polygon" THEN 1..NTrans ELSE 1..NIso
HasDerived(c) == c # "HPoint"

B(i) == <<i, <<>>>>                      \* base unit id
P == C!Obj(shape, pc)
D == C!Obj(shape, dc)

\* objects the constructor is called with
InitObjs == { C!Obj(<<>>, <<B(1)>>),
              C!Obj(<<2>>, <<B(1), B(2)>>),
              C!Obj(<<3>>, <<B(2), B(3), B(1)>>),
              C!Obj(<<2, 2>>, <<B(1), B(2), B(3), B(4)>>),
              C!Obj(<<1, 2>>, <<B(3), B(1)>>),
              C!Obj(<<2, 1>>, <<B(2), B(4)>>) }
\* "negarray": the caller's array holds the representative -x for the units at odd flat positions;
\* "intdata": the caller's array has an integer dtype; "fortran": it is Fortran-contiguous (the idiom
\* np.array([t, x, y]).T); "strided": it is a non-contiguous view with a negative stride.  The packaging of
\* the numbers does not change the object that is built.
\* "negrow": ONE row (one end point of a segment, one vertex of a polygon) of the units at odd flat positions is
\* handed over as -x: each row is a projective point of its own - except for tangent vectors, where (x, v) and
\* (-x, v) are different objects.
\* "iterator": a one-shot iterator over the item objects instead of a list
Routes == {"array", "list", "iterator", "object", "negarray", "negrow", "intdata", "fortran", "strided"}
HP == C!Obj(hshape, hpc)
HD == C!Obj(hshape, hdc)
KeepHeld == UNCHANGED <<held, hshape, hpc, hdc>>

\* composite transformations applied to the object: cells are transformation indices
TObjs(c) == LET z == IF c = "Polygon" THEN NTrans ELSE NIso
            IN { C!Obj(<<>>, <<1>>), C!Obj(<<>>, <<z>>), C!Obj(<<2>>, <<2, 3>>), C!Obj(<<1, 2>>, <<3, 1>>) }

ReshapeTargets(n) == {s \in C!Shapes : C!Size(s) = n}

Rev(c) == [i \in 1..Len(c) |-> c[Len(c) + 1 - i]]

Init == /\ cls \in Classes /\ built = FALSE /\ shape = <<>> /\ pc = <<>> /\ dc = <<>> /\ nops = 0
        /\ held = FALSE /\ hshape = <<>> /\ hpc = <<>> /\ hdc = <<>>
        /\ last = [a |-> "none"]

Construct(route, X) ==
  /\ ~built /\ built' = TRUE
  /\ route = "negrow" => cls # "Tangent"
  /\ shape' = X.shape /\ pc' = X.cell /\ dc' = X.cell
  /\ UNCHANGED <<cls, nops>> /\ KeepHeld
  /\ last' = [a |-> "construct", route |-> route, shape |-> X.shape, cell |-> X.cell,
              neg |-> IF route \in {"negarray", "negrow"} THEN {p \in 1..Len(X.cell) : p % 2 = 1} ELSE {}]

StepH == built /\ nops < MaxOps /\ nops' = nops + 1 /\ UNCHANGED <<cls, built>>
\* a call on the object never changes the object the caller holds
Step == StepH /\ KeepHeld

\* copy.copy(obj), copy.deepcopy(obj), type(obj)(obj)
Copy(kind) ==
  /\ Step /\ UNCHANGED <<shape, pc, dc>>
  /\ last' = [a |-> "copy", kind |-> kind]

\* T.apply(obj, broadcast=mode): every unit gets the transformation of its index appended
Apply(TT, mode) ==
  LET RP == C!Apply(P, TT, mode) RD == C!Apply(D, TT, mode)
      ext(c) == [p \in 1..Len(c) |-> <<c[p][1][1], Append(c[p][1][2], c[p][2])>>]
  IN /\ Step
     /\ C!Defined(shape, TT.shape, mode)
     /\ \A p \in 1..Len(pc) : Len(pc[p][2]) < MaxWord
     /\ C!Size(RP.shape) <= MaxSize /\ Len(RP.shape) <= 3
     /\ shape' = RP.shape /\ pc' = ext(RP.cell) /\ dc' = ext(RD.cell)
     /\ last' = [a |-> "apply", tshape |-> TT.shape, tcell |-> TT.cell, mode |-> mode]

Reshape(s) ==
  /\ Step /\ s # shape
  /\ shape' = s /\ pc' = C!Reshape(P, s).cell /\ dc' = C!Reshape(D, s).cell
  /\ last' = [a |-> "reshape", shape |-> s]

Flatten ==
  /\ Step
  /\ shape' = C!Flatten(P).shape /\ pc' = C!Flatten(P).cell /\ dc' = C!Flatten(D).cell
  /\ last' = [a |-> "flatten"]

Index(i) ==
  /\ Step /\ shape # <<>> /\ i \in 0..(Head(shape) - 1)
  /\ shape' = Tail(shape) /\ pc' = C!Index(P, i).cell /\ dc' = C!Index(D, i).cell
  /\ last' = [a |-> "index", i |-> i]

Slice(a, b) ==
  /\ Step /\ shape # <<>> /\ a < b /\ b <= Head(shape)
  /\ shape' = C!Slice(P, a, b).shape /\ pc' = C!Slice(P, a, b).cell /\ dc' = C!Slice(D, a, b).cell
  /\ last' = [a |-> "slice", lo |-> a, hi |-> b]

\* obj[i] = value; the value is a unit object / an array of its payload / another item of obj itself
SetItem(i, src, as) ==
  LET Y == IF src = "item" THEN C!Index(P, (i + 1) % Head(shape))
           ELSE IF src = "row" THEN C!Obj(Tail(shape), [p \in 1..C!Size(Tail(shape)) |-> B(((p + 1) % K) + 1)])
           ELSE C!Obj(<<>>, <<B(K)>>)
  IN /\ Step /\ shape # <<>> /\ i \in 0..(Head(shape) - 1)
     /\ src = "item" => Head(shape) > 1
     /\ src = "row" => Tail(shape) # <<>>
     /\ C!CanSetItem(P, i, Y)
     /\ shape' = shape /\ pc' = C!SetItem(P, i, Y).cell /\ dc' = C!SetItem(D, i, Y).cell
     /\ last' = [a |-> "setitem", i |-> i, src |-> src, as |-> as, yshape |-> Y.shape, ycell |-> Y.cell]

\* obj[key] = value with the other kinds of NumPy keys.  A key on the first axis resolves to the rows it
\* selects (operators of Composite.tla); the value is one unit (broadcast) or one unit per selected cell.
KeyRows(kind, n) ==
  CASE kind = "neg" -> <<n - 1>>                                       \* obj[-1]
    [] kind \in {"list", "intarray"} -> IF n > 1 THEN <<n - 1, 0>> ELSE <<0>>   \* obj[[n-1, 0]], obj[np.array([n-1, 0])]
    [] kind = "mask" -> C!MaskRows([i \in 1..n |-> i % 2 = 1])          \* boolean mask: rows 0, 2, ..
    [] kind = "step2" -> C!StepRows(0, n, 2)                            \* obj[::2]
    [] kind = "reversed" -> C!StepRows(n - 1, -1, -1)                   \* obj[::-1]
KeyKinds == {"neg", "list", "intarray", "mask", "step2", "reversed"}
SetItemKey(kind, src) ==
  LET n == Head(shape)
      rows == KeyRows(kind, n)
      ys == IF kind = "neg" THEN Tail(shape) ELSE <<Len(rows)>> \o Tail(shape)
      Y == IF src = "unit" THEN C!Obj(<<>>, <<B(K)>>)
           ELSE C!Obj(ys, [p \in 1..C!Size(ys) |-> B(((p + 2) % K) + 1)])
      \* an integer key drops the axis: the value broadcasts to the item; other keys keep it
      YY == IF kind = "neg" THEN C!Obj(<<1>> \o Tail(shape), C!BroadcastTo(Y, Tail(shape)).cell) ELSE Y
  IN /\ Step /\ shape # <<>>
     /\ src = "cells" => C!Size(ys) > 1
     /\ C!CanSetRows(P, rows, YY)
     /\ shape' = shape /\ pc' = C!SetRows(P, rows, YY).cell /\ dc' = C!SetRows(D, rows, YY).cell
     /\ last' = [a |-> "setkey", kind |-> kind, rows |-> rows, src |-> src, yshape |-> Y.shape, ycell |-> Y.cell]

\* obj[i, j] = unit (tuple of integers: partial when the rank is larger)
SetItemTuple(ix) ==
  LET Y == C!Obj(<<>>, <<B(K)>>)
  IN /\ Step /\ Len(ix) = 2 /\ Len(shape) >= 2
     /\ C!CanSetTuple(P, ix, Y)
     /\ shape' = shape /\ pc' = C!SetTuple(P, ix, Y).cell /\ dc' = C!SetTuple(D, ix, Y).cell
     /\ last' = [a |-> "settuple", ix |-> ix, yshape |-> Y.shape, ycell |-> Y.cell]

\* tmp = obj[i]; obj[i] = obj[j]; obj[j] = tmp
Swap(i, j) ==
  /\ Step /\ shape # <<>> /\ i < j /\ j <= Head(shape) - 1
  /\ shape' = shape /\ pc' = C!Swap(P, i, j).cell /\ dc' = C!Swap(D, i, j).cell
  /\ last' = [a |-> "swap", i |-> i, j |-> j]

\* tmp = obj[i] / sub = obj[a:b]: the caller keeps an indexed sub-object; it is an object of its own
Hold(kind, a, b) ==
  LET HPn == IF kind = "index" THEN C!Index(P, a) ELSE C!Slice(P, a, b)
      HDn == IF kind = "index" THEN C!Index(D, a) ELSE C!Slice(D, a, b)
  IN /\ StepH /\ ~held /\ shape # <<>> /\ a < b /\ b <= Head(shape)
     /\ kind = "index" => b = a + 1
     /\ held' = TRUE /\ hshape' = HPn.shape /\ hpc' = HPn.cell /\ hdc' = HDn.cell
     /\ UNCHANGED <<shape, pc, dc>>
     /\ last' = [a |-> "hold", kind |-> kind, lo |-> a, hi |-> b]
\* obj[i] = tmp
PutHeld(i) ==
  /\ Step /\ held /\ C!CanSetItem(P, i, HP)
  /\ shape' = shape /\ pc' = C!SetItem(P, i, HP).cell /\ dc' = C!SetItem(D, i, HD).cell
  /\ last' = [a |-> "putheld", i |-> i]
\* sub[0] = unit: the object it was taken from does not change
SetHeld ==
  LET Y == C!Obj(<<>>, <<B(K)>>)
  IN /\ StepH /\ held /\ C!CanSetItem(HP, 0, Y)
     /\ hpc' = C!SetItem(HP, 0, Y).cell /\ hdc' = C!SetItem(HD, 0, Y).cell
     /\ UNCHANGED <<held, hshape, shape, pc, dc>>
     /\ last' = [a |-> "setheld", ycell |-> Y.cell]

\* type(obj)([obj, other]) with other = obj reversed
Stack ==
  LET OP == C!Obj(shape, Rev(pc)) OD == C!Obj(shape, Rev(dc))
  IN /\ Step /\ 2 * Len(pc) <= MaxSize /\ Len(shape) <= 2
     /\ shape' = C!Stack(<<P, OP>>).shape /\ pc' = C!Stack(<<P, OP>>).cell /\ dc' = C!Stack(<<D, OD>>).cell
     /\ last' = [a |-> "stack"]

\* type(obj).combine([obj, other]) / type(obj).combine([other, obj]); the other object holds float data scaled by a
\* non-integer factor (the same units)
Combine(which, order) ==
  LET O == IF which = "rev" THEN C!Obj(shape, Rev(pc))
           ELSE IF which = "unit" THEN C!Obj(<<>>, <<B(K)>>)
           ELSE C!Obj(<<2>>, <<B(K), B(1)>>)
      \* the list handed to combine: the object alone, with one other object (either order), or with two others
      Os == IF which = "alone" THEN <<>>
            ELSE IF which = "three" THEN <<C!Obj(<<2>>, <<B(K), B(1)>>), C!Obj(<<>>, <<B(2)>>)>>
            ELSE <<O>>
      LP == IF order = "first" THEN <<P>> \o Os ELSE Os \o <<P>>
      LD == IF order = "first" THEN <<D>> \o Os ELSE Os \o <<D>>
      RP == C!Combine(LP)
      RD == C!Combine(LD)
  IN /\ Step /\ Len(RP.cell) <= MaxSize
     /\ which \in {"alone", "three"} => order = "first"
     /\ shape' = RP.shape /\ pc' = RP.cell /\ dc' = RD.cell
     /\ last' = [a |-> "combine", others |-> Os, order |-> order]

AsType(dt) ==
  /\ Step /\ UNCHANGED <<shape, pc, dc>>
  /\ last' = [a |-> "astype", dtype |-> dt]

\* read-only queries: the state does not change
Queries(c) ==
  CASE c = "Polygon" -> {"projective_coords", "affine_coords", "get_edges", "get_vertices", "in_standard_chart"}
    [] c = "HPolygon" -> {"projective_coords", "kleinian_coords", "get_edges", "get_vertices", "vertex_coords_all_models",
                          "edges_circle_parameters", "edges_ideal_endpoints"}
    [] c = "Segment" -> {"projective_coords", "kleinian_coords", "endpoint_coords_all_models", "ideal_endpoint_coords",
                         "circle_parameters", "sphere_parameters", "geodesic", "get_end_pair", "endpoint_distance"}
    [] c = "Tangent" -> {"projective_coords", "origin_to", "isometry_to", "normalized", "angle",
                         "point_along", "base_point_coords_all_models"}
    [] c = "HPoint" -> {"projective_coords", "coords_all_models", "distance", "origin_to", "unit_tangent_towards"}
Query(q) ==
  /\ built /\ UNCHANGED <<cls, built, shape, pc, dc, nops>> /\ KeepHeld
  /\ last' = [a |-> "query", q |-> q]

Next ==
  \/ \E r \in Routes : \E X \in InitObjs : Construct(r, X)
  \/ \E kind \in {"copy", "deepcopy", "ctor"} : Copy(kind)
  \* for a single transformation the three modes coincide (theorem SpecialShapes of Composite.tla; C04 replays
  \* all of them): one mode each here
  \/ \E TT \in TObjs(cls) : \E m \in C!Modes :
        /\ (TT.shape = <<>> => m = (IF TT.cell[1] = 1 THEN "elementwise" ELSE "pairwise"))
        /\ Apply(TT, m)
  \/ \E s \in ReshapeTargets(Len(pc)) : Reshape(s)
  \/ Flatten
  \/ \E i \in 0..(MaxSize - 1) : Index(i)
  \/ \E a \in 0..1 : \E b \in 1..MaxSize : Slice(a, b)
  \/ \E i \in 0..(MaxSize - 1) : \E src \in {"unit", "item", "row"} : \E as \in {"object", "array", "points"} :
        \* "points": the value is handed over as a composite Point holding the unit's primary data (an accepted object of
        \* ANOTHER class, carrying no derived data of its own): the derived data of the target must still follow
        /\ Lean => as = (IF (i + (IF src = "unit" THEN 0 ELSE 1)) % 2 = 1 THEN "array" ELSE IF src = "row" THEN "points" ELSE "object")
        /\ ~Lean => (as = "points" => src # "item")
        /\ SetItem(i, src, as)
  \/ \E kind \in KeyKinds : \E src \in {"unit", "cells"} :
        /\ Lean => (src = "cells") = (kind \in {"list", "mask", "reversed"})
        /\ SetItemKey(kind, src)
  \/ \E i, j \in 0..(MaxSize - 1) :
        /\ Lean => (i = 0 /\ j = (IF Len(shape) >= 2 THEN shape[2] - 1 ELSE 0))
        /\ SetItemTuple(<<i, j>>)
  \/ \E i, j \in 0..(MaxSize - 1) :
        /\ Lean => (i = 0 /\ shape # <<>> /\ j = Head(shape) - 1)
        /\ Swap(i, j)
  \/ \E a \in 0..(MaxSize - 1) : Hold("index", a, a + 1)
  \/ \E a \in 0..1 : \E b \in 2..MaxSize : Hold("slice", a, b)
  \/ \E i \in 0..(MaxSize - 1) : PutHeld(i)
  \/ SetHeld
  \/ Stack
  \/ \E which \in {"rev", "unit", "pair", "alone", "three"} : \E order \in {"first", "last"} :
        /\ Lean => (order = "last") = (which = "rev")
        /\ Combine(which, order)
  \/ \E dt \in {"complex128", "float32", "float64"} : AsType(dt)
  \/ WithQueries /\ \E q \in Queries(cls) : Query(q)

(***************************************************************************)
(* Invariants                                                              *)
(***************************************************************************)
IsId(x) == /\ x[1] \in 1..K /\ Len(x[2]) <= MaxWord /\ \A i \in 1..Len(x[2]) : x[2][i] \in Letters(cls)
TypeOK == built => /\ Len(pc) = C!Size(shape) /\ Len(dc) = Len(pc) /\ Len(pc) <= MaxSize
                   /\ \A p \in 1..Len(pc) : IsId(pc[p]) /\ IsId(dc[p])
                   /\ held => /\ Len(hpc) = C!Size(hshape) /\ Len(hdc) = Len(hpc)
                               /\ \A p \in 1..Len(hpc) : IsId(hpc[p]) /\ IsId(hdc[p])
\* the units read from the derived data are the units read from the primary data - of the object and of
\* the object the caller holds
Coherent == dc = pc /\ hdc = hpc

View == <<cls, built, shape, pc, dc, nops, held, hshape, hpc, hdc>>
St == [cls |-> cls, built |-> built, shape |-> shape, pc |-> pc, n |-> nops, held |-> held, hshape |-> hshape, hpc |-> hpc]
Emit == PrintT("EMIT " \o ToJson([from |-> St, act |-> last',
                                   to |-> [cls |-> cls', built |-> built', shape |-> shape', pc |-> pc', n |-> nops',
                                           held |-> held', hshape |-> hshape', hpc |-> hpc']]))
=============================================================================
