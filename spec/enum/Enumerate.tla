------------------------------ MODULE Enumerate ------------------------------
(***************************************************************************)
(* Property C06: Representation.automaton_accepted returns exactly the     *)
(* accepted words and, entry by entry, their images.                       *)
(*                                                                         *)
(*  - Ref   : declarative meaning of a call (set of label sequences)       *)
(*  - Rec   : the recursion the library performs (per direction, with the  *)
(*            "maxlen" prefix rule), transcribed; TLC checks Rec = Ref on  *)
(*            every automaton of the universe                              *)
(*  - Eval  : exact integer image of a word (Sanov generators of a free    *)
(*            subgroup of SL(2,Z), so distinct reduced words have distinct *)
(*            images)                                                      *)
(*  - Call  : one call sharing the caller's memo dictionary; the state     *)
(*            machine explores every order of calls over a small automaton *)
(*            and emits the labelled transitions for replay                *)
(***************************************************************************)
EXTENDS Naturals, Integers, Sequences, FiniteSets, TLC, Json

CONSTANTS Verts, Labels, Start, MaxLen, MaxCalls

VARIABLES vs, E,       \* the automaton
          mk,          \* keys <<length, state>> the caller's memo dictionary may hold
          mode,        \* options the memo was filled under ("none" while empty)
          ver,         \* which matrices the generators currently hold (re-assignment of a generator flips it)
          ncalls, last

Ops == INSTANCE FSAOps WITH MaxMult <- 1, Foreign <- "z"

(***************************************************************************)
(* Exact images                                                            *)
(***************************************************************************)
Neg(x) == 0 - x
\* version 0: Sanov generators; version 1: generator "b" re-assigned to [[1,0],[3,1]].  The automaton labels
\* contain the INVERSE letter "B", whose stored matrix must follow the re-assignment of "b"
GenMatV(v, g) == CASE g = "a" -> <<<<1, 2>>, <<0, 1>>>>
                   [] g = "A" -> <<<<1, Neg(2)>>, <<0, 1>>>>
                   [] g = "b" -> IF v = 0 THEN <<<<1, 0>>, <<2, 1>>>> ELSE <<<<1, 0>>, <<3, 1>>>>
                   [] g = "B" -> IF v = 0 THEN <<<<1, 0>>, <<Neg(2), 1>>>> ELSE <<<<1, 0>>, <<Neg(3), 1>>>>
GenMat(g) == GenMatV(ver, g)
Id2 == <<<<1, 0>>, <<0, 1>>>>
Mul(X, Y) == [i \in 1..2 |-> [j \in 1..2 |-> X[i][1] * Y[1][j] + X[i][2] * Y[2][j]]]
RECURSIVE EvalV(_, _)
EvalV(v, w) == IF w = <<>> THEN Id2 ELSE Mul(GenMatV(v, Head(w)), EvalV(v, Tail(w)))   \* left-to-right product
Eval(w) == EvalV(ver, w)

(***************************************************************************)
(* Meaning of a call                                                       *)
(***************************************************************************)
WordsFrom(s, k) == {p[1] : p \in Ops!Paths(E, s, k)}
WordsTo(t, k) == {p[1] : p \in {q \in Ops!Paths(E, Start, k) : q[2] = t}}
Lens(L, maxlen) == IF maxlen THEN 0..L ELSE {L}

Ref(dir, st, L, maxlen) ==
  IF dir = "end" THEN UNION {WordsTo(st, k) : k \in Lens(L, maxlen)}
  ELSE UNION {WordsFrom(st, k) : k \in Lens(L, maxlen)}

\* the library's recursion
RECURSIVE Rec(_, _, _, _)
Rec(dir, st, L, maxlen) ==
  IF L = 0 THEN (IF dir # "end" \/ st = Start THEN {<<>>} ELSE {})
  ELSE LET adj  == IF dir = "end" THEN {e \in E : e[3] = st} ELSE {e \in E : e[1] = st}
           body == UNION {IF dir = "end" THEN {Append(w, e[2]) : w \in Rec(dir, e[1], L - 1, maxlen)}
                          ELSE {<<e[2]>> \o w : w \in Rec(dir, e[3], L - 1, maxlen)} : e \in adj}
       IN IF maxlen THEN Rec(dir, st, 0, maxlen) \cup body ELSE body

Dirs == {"start", "end"}

RecIsRef == \A dir \in Dirs : \A st \in vs : \A L \in 0..MaxLen : \A mx \in BOOLEAN :
               Rec(dir, st, L, mx) = Ref(dir, st, L, mx)

\* one word per accepting path (the automaton is deterministic and has one start vertex)
OncePerPath == \A s \in vs : \A k \in 0..MaxLen :
                  Cardinality(WordsFrom(s, k)) = Cardinality(Ops!Paths(E, s, k))

\* the call without start or end state is the call from the start vertex, and agrees with the
\* automaton's own enumeration
DefaultIsStart == Start \in vs => \A L \in 0..MaxLen :
                    Ref("start", Start, L, FALSE) = {p[1] : p \in Ops!Paths(E, Start, L)}

\* images of distinct words accepted from a state are distinct (faithfulness of the generators):
\* makes "entry by entry" comparisons meaningful
Faithful == \A s \in vs : \A w1, w2 \in Ref("start", s, MaxLen, TRUE) : Eval(w1) = Eval(w2) => w1 = w2

(***************************************************************************)
(* Calls sharing a memo dictionary                                         *)
(***************************************************************************)
RECURSIVE Visit(_, _, _, _)
Visit(dir, st, L, have) ==
  IF L = 0 \/ <<L, st>> \in have THEN {}
  ELSE LET nb == IF dir = "end" THEN {e[1] : e \in {f \in E : f[3] = st}}
                               ELSE {e[3] : e \in {f \in E : f[1] = st}}
       IN {<<L, st>>} \cup UNION {Visit(dir, u, L - 1, have) : u \in nb}

Init == /\ vs \in SUBSET Verts /\ Start \in vs
        /\ E \in {S \in SUBSET (vs \X Labels \X vs) : Ops!Det(S)}
        /\ mk = {} /\ mode = <<"none", FALSE, FALSE>> /\ ver = 0 /\ ncalls = 0 /\ last = [a |-> "none"]

ModeOf(dir, mx, ww) == <<dir, mx, ww>>

\* dir = "none" means neither start_state nor end_state is given
Call(dir, st, L, mx, ww) ==
  LET d == IF dir = "none" THEN "start" ELSE dir
      s == IF dir = "none" THEN Start ELSE st
  IN /\ ncalls < MaxCalls
     /\ mode[1] = "none" \/ mode = ModeOf(d, mx, ww)
     /\ mode' = ModeOf(d, mx, ww)
     /\ mk' = mk \cup Visit(d, s, L, IF dir = "none" THEN mk \ {<<L, s>>} ELSE mk)
     /\ ncalls' = ncalls + 1
     /\ UNCHANGED <<vs, E, ver>>
     /\ last' = [a |-> "call", dir |-> dir, st |-> s, L |-> L, maxlen |-> mx, with_words |-> ww,
                 words |-> Ref(d, s, L, mx)]

\* rep["b"] = M: the generator AND its stored inverse change; memo dictionaries filled before are the caller's
\* to discard, so the machine continues with an empty one
Reassign ==
  /\ ncalls < MaxCalls /\ ncalls > 0 /\ ver = 0          \* once per history, between two calls
  /\ ver' = 1 /\ mk' = {} /\ mode' = <<"none", FALSE, FALSE>>
  /\ UNCHANGED <<vs, E, ncalls>>
  /\ last' = [a |-> "reassign", ver |-> 1 - ver]

Next == \/ \E dir \in {"none", "start", "end"} : \E st \in vs : \E L \in 0..MaxLen : \E mx, ww \in BOOLEAN :
             /\ (dir = "none" => st = Start)
             /\ Call(dir, st, L, mx, ww)
        \/ Reassign

\* every key the memo may hold denotes the reference value for that key under the memo's mode
MemoSound == \A k \in mk : k[1] \in 1..MaxLen /\ k[2] \in vs

StateRec == [vs |-> vs, E |-> E, mk |-> mk, mode |-> mode]
Emit == PrintT("EMIT " \o ToJson([from |-> [vs |-> vs, E |-> E, mk |-> mk, mode |-> mode, n |-> ncalls, ver |-> ver],
                                    act |-> last',
                                    to |-> [vs |-> vs', E |-> E', mk |-> mk', mode |-> mode', n |-> ncalls', ver |-> ver']]))
View == <<vs, E, mk, mode, ncalls, ver>>

\* exact images of every word over the labels, printed once
EvalTable == {<<v, w, EvalV(v, w)>> : v \in {0, 1}, w \in Ops!WordsUpTo(Labels, MaxLen)}
ASSUME PrintT("EVAL " \o ToJson(EvalTable))
=============================================================================
