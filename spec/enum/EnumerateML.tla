----------------------------- MODULE EnumerateML -----------------------------
(***************************************************************************)
(* Property C06 on automata whose edge labels are WORDS of several letters *)
(* (what automaton_multiple produces, and what edge_words = True is for).  *)
(*                                                                         *)
(* A label is a non-empty sequence of letters.  An accepting path is a     *)
(* sequence of labels; what the library returns for it is the STRING it    *)
(* spells (the concatenation of its labels) and the image of that string.  *)
(* With several letters per label two different paths can spell the same   *)
(* string (0 -a-> 1 -ab-> 3 and 0 -aa-> 2 -b-> 3; or the loops a, aa at    *)
(* one state: a.aa = aa.a), so "the returned words are exactly the words   *)
(* the automaton accepts ..., each once per accepting path" is a statement *)
(* about a BAG of strings: the string s is returned as many times as there *)
(* are accepting paths spelling s.  The automaton's own enumeration        *)
(* (enumerate_fixed_length_paths, enumerate_words) lists paths as well,    *)
(* and automaton_accepted "agrees with the automaton's own word            *)
(* enumeration": the same bag.                                             *)
(*                                                                         *)
(* One state per automaton of the universe; TLC checks the theorems below  *)
(* and emits, per automaton, the bag of every call.                        *)
(***************************************************************************)
EXTENDS Naturals, Integers, Sequences, FiniteSets, TLC, Json

CONSTANTS Verts, Labels,   \* Labels: a set of non-empty sequences of letters from {"a", "A", "b", "B"}
          Start, MaxLen, MaxEdges

VARIABLES vs, E

Ops == INSTANCE FSAOps WITH MaxMult <- 1, Foreign <- <<"z">>
\* exact images (Sanov generators) come from Enumerate.tla; only its pure operator EvalV is used
En == INSTANCE Enumerate WITH MaxCalls <- 0, mk <- {}, mode <- <<>>, ver <- 0, ncalls <- 0, last <- 0

Spell(p) == Ops!Flat(p)                 \* the string a sequence of labels spells
Image(s) == En!EvalV(0, s)              \* exact integer image of a string of letters

(***************************************************************************)
(* Meaning of a call: the set of accepting paths (as in Enumerate.tla)     *)
(***************************************************************************)
PathsFrom(s, k) == {p[1] : p \in Ops!Paths(E, s, k)}
PathsTo(t, k) == {p[1] : p \in {q \in Ops!Paths(E, Start, k) : q[2] = t}}
Lens(L, maxlen) == IF maxlen THEN 0..L ELSE {L}
RefPaths(dir, st, L, maxlen) ==
  IF dir = "end" THEN UNION {PathsTo(st, k) : k \in Lens(L, maxlen)}
  ELSE UNION {PathsFrom(st, k) : k \in Lens(L, maxlen)}

\* the bag of returned strings: <<string, number of accepting paths spelling it>>
Mult(P, s) == Cardinality({p \in P : Spell(p) = s})
Bag(P) == {<<s, Mult(P, s)>> : s \in {Spell(p) : p \in P}}

\* the automaton's own enumeration with end states: <<string, end state, number of paths>>
OwnBag(s, k) ==
  LET P == Ops!Paths(E, s, k) IN
  {<<Spell(p[1]), p[2], Cardinality({q \in P : Spell(q[1]) = Spell(p[1]) /\ q[2] = p[2]})>> : p \in P}

Dirs == {"start", "end"}

(***************************************************************************)
(* Theorems, checked on every automaton                                    *)
(***************************************************************************)
RECURSIVE SumMult(_)
SumMult(B) == IF B = {} THEN 0 ELSE LET b == CHOOSE x \in B : TRUE IN b[2] + SumMult(B \ {b})

\* the bag has one entry per accepting path in total
BagCountsPaths ==
  \A dir \in Dirs : \A st \in vs : \A L \in 0..MaxLen : \A mx \in BOOLEAN :
    SumMult(Bag(RefPaths(dir, st, L, mx))) = Cardinality(RefPaths(dir, st, L, mx))

\* accepting paths are pairwise different as label sequences (the automaton is deterministic) ...
OncePerPath == \A s \in vs : \A k \in 0..MaxLen : Cardinality(PathsFrom(s, k)) = Cardinality(Ops!Paths(E, s, k))

\* ... and, when every label is a single letter, also as strings: then the bag is a set (the case of Enumerate.tla)
SingleLettersSpellUniquely ==
  (\A e \in E : Len(e[2]) = 1) =>
     \A dir \in Dirs : \A st \in vs : \A mx \in BOOLEAN : \A b \in Bag(RefPaths(dir, st, MaxLen, mx)) : b[2] = 1

\* the image of the spelled string is the product of the images of the labels along the path, in path order:
\* what the recursion multiplies edge by edge is the image of the word it returns
RECURSIVE PathProduct(_)
PathProduct(p) == IF p = <<>> THEN En!Id2 ELSE En!Mul(Image(Head(p)), PathProduct(Tail(p)))
ImageIsEdgeProduct ==
  \A st \in vs : \A p \in RefPaths("start", st, MaxLen, TRUE) : Image(Spell(p)) = PathProduct(p)

(***************************************************************************)
(* One state per automaton; table of specified results                     *)
(***************************************************************************)
Init == /\ vs \in SUBSET Verts /\ Start \in vs
        /\ E \in {S \in SUBSET (vs \X Labels \X vs) : Cardinality(S) <= MaxEdges /\ Ops!Det(S)}
Next == UNCHANGED <<vs, E>>

Ambiguous == \E st \in vs : \E mx \in BOOLEAN : \E b \in Bag(RefPaths("start", st, MaxLen, mx)) : b[2] > 1

ObsML ==
  [ vs |-> vs, E |-> E, ambiguous |-> Ambiguous,
    calls |-> {[dir |-> dir, st |-> st, L |-> L, maxlen |-> mx, bag |-> Bag(RefPaths(dir, st, L, mx))] :
                 dir \in Dirs, st \in vs, L \in 0..MaxLen, mx \in BOOLEAN},
    own |-> {[st |-> st, k |-> k, bag |-> OwnBag(st, k)] : st \in vs, k \in 0..MaxLen} ]
EmitML == PrintT("ML " \o ToJson(ObsML))

\* exact images of every string the paths of the universe can spell, printed once
LabelLen == CHOOSE n \in 1..8 : (\A l \in Labels : Len(l) <= n) /\ (\E l \in Labels : Len(l) = n)
Letters == UNION {{l[i] : i \in 1..Len(l)} : l \in Labels}
ASSUME PrintT("IMG " \o ToJson({<<w, Image(w)>> : w \in Ops!WordsUpTo(Letters, LabelLen * MaxLen)}))
=============================================================================
