------------------------------ MODULE IntLinAlg ------------------------------
(***************************************************************************)
(* Integer vectors and matrices (sequences of integers / of rows), the     *)
(* Minkowski form with the time coordinate FIRST (index 1), and primitive  *)
(* representatives of projective points.                                   *)
(***************************************************************************)
EXTENDS Rat

RECURSIVE ISum(_)
ISum(v) == IF v = <<>> THEN 0 ELSE Head(v) + ISum(Tail(v))
Dot(u, v) == ISum([i \in 1..Len(u) |-> u[i] * v[i]])
\* Minkowski form of signature (n,1): -x1 y1 + x2 y2 + ...
MDot(u, v) == Dot(u, v) - 2 * u[1] * v[1]
MNorm(u) == MDot(u, u)

RECURSIVE VGcd(_)
VGcd(v) == IF v = <<>> THEN 0 ELSE Gcd(Head(v), VGcd(Tail(v)))

FirstNonZero(v) == IF \E i \in 1..Len(v) : v[i] # 0
                   THEN v[CHOOSE i \in 1..Len(v) : v[i] # 0 /\ \A j \in 1..(i - 1) : v[j] = 0] ELSE 0
\* canonical representative of the projective class of a non-zero integer vector
Prim(v) == LET g == VGcd(v) * Sgn(FirstNonZero(v)) IN [i \in 1..Len(v) |-> v[i] \div g]
IsPrim(v) == VGcd(v) = 1 /\ FirstNonZero(v) > 0

VScale(c, v) == [i \in 1..Len(v) |-> c * v[i]]
VAdd(u, v) == [i \in 1..Len(u) |-> u[i] + v[i]]
VSub(u, v) == [i \in 1..Len(u) |-> u[i] - v[i]]

\* matrices: sequences of rows
MatVec(M, v) == [i \in 1..Len(M) |-> Dot(M[i], v)]                  \* M v (v as a column)
VecMat(v, M) == [j \in 1..Len(M[1]) |-> ISum([i \in 1..Len(v) |-> v[i] * M[i][j]])]   \* v M (v as a row)
MatMul(A, B) == [i \in 1..Len(A) |-> [j \in 1..Len(B[1]) |-> ISum([k \in 1..Len(B) |-> A[i][k] * B[k][j]])]]
Transpose(A) == [j \in 1..Len(A[1]) |-> [i \in 1..Len(A) |-> A[i][j]]]
IdMat(n) == [i \in 1..n |-> [j \in 1..n |-> IF i = j THEN 1 ELSE 0]]
MatScale(c, A) == [i \in 1..Len(A) |-> VScale(c, A[i])]
\* J = diag(-1, 1, ..., 1)
MinkJ(n) == [i \in 1..n |-> [j \in 1..n |-> IF i # j THEN 0 ELSE IF i = 1 THEN 0 - 1 ELSE 1]]

RECURSIVE LcmSeq(_)
Lcm(a, b) == (a \div Gcd(a, b)) * b
LcmSeq(v) == IF v = <<>> THEN 1 ELSE Lcm(Head(v), LcmSeq(Tail(v)))
\* clear denominators of a rational vector: the primitive integer vector proportional to it
ClearDen(rv) == LET D == LcmSeq([i \in 1..Len(rv) |-> rv[i][2]])
                IN Prim([i \in 1..Len(rv) |-> rv[i][1] * (D \div rv[i][2])])

\* all integer vectors of length n with entries in -B..B
RECURSIVE Box(_, _)
Box(n, B) == IF n = 0 THEN {<<>>} ELSE {Append(v, a) : v \in Box(n - 1, B), a \in (0 - B)..B}
=============================================================================
