-------------------------------- MODULE Words --------------------------------
(***************************************************************************)
(* Words in group generators and their formal inverses (lower / upper      *)
(* case), free reduction, and the set of freely reduced words.  Oracle for *)
(* Representation.freely_reduced_elements / free_words_* and for the       *)
(* built-in free-group automata (C06), and for "freely reducing a word     *)
(* does not change its image" (C05).                                       *)
(***************************************************************************)
EXTENDS Naturals, Sequences, FiniteSets, TLC, Json

CONSTANTS Gens, MaxLen
VARIABLE x

Inv(g) == CASE g = "a" -> "A" [] g = "A" -> "a" [] g = "b" -> "B" [] g = "B" -> "b"
            [] g = "c" -> "C" [] g = "C" -> "c" [] g = "d" -> "D" [] g = "D" -> "d"

Alphabet == Gens \cup {Inv(g) : g \in Gens}

RECURSIVE WordsOver(_, _)
WordsOver(A, k) == IF k = 0 THEN {<<>>} ELSE {Append(w, a) : w \in WordsOver(A, k - 1), a \in A}
WordsUpTo(A, k) == UNION {WordsOver(A, j) : j \in 0..k}

IsReduced(w) == \A i \in 1..(Len(w) - 1) : w[i + 1] # Inv(w[i])

\* free reduction with a stack, left to right
RECURSIVE Red(_, _)
Red(stack, w) ==
  IF w = <<>> THEN stack
  ELSE IF stack # <<>> /\ Head(w) = Inv(stack[Len(stack)])
       THEN Red(SubSeq(stack, 1, Len(stack) - 1), Tail(w))
       ELSE Red(Append(stack, Head(w)), Tail(w))
Reduce(w) == Red(<<>>, w)

FormalInverse(w) == [i \in 1..Len(w) |-> Inv(w[Len(w) + 1 - i])]

ReducedWords(L) == {w \in WordsUpTo(Alphabet, L) : IsReduced(w)}

RECURSIVE Pow(_, _)
Pow(b, e) == IF e = 0 THEN 1 ELSE b * Pow(b, e - 1)

Init == x = 0
Next == UNCHANGED x

\* 2n (2n-1)^(k-1) reduced words of length k >= 1
ReducedCount ==
  LET n2 == Cardinality(Alphabet) IN
  \A k \in 1..MaxLen : Cardinality({w \in WordsOver(Alphabet, k) : IsReduced(w)}) = n2 * Pow(n2 - 1, k - 1)
ReduceIdempotent == \A w \in WordsUpTo(Alphabet, MaxLen) : IsReduced(Reduce(w)) /\ Reduce(Reduce(w)) = Reduce(w)
ReduceSound == \A w \in WordsUpTo(Alphabet, MaxLen) :
                 /\ (Reduce(w) = w) <=> IsReduced(w)
                 /\ Reduce(w \o FormalInverse(w)) = <<>>

ASSUME PrintT("REDUCED " \o ToJson(ReducedWords(MaxLen)))
=============================================================================
