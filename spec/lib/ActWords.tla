------------------------------ MODULE ActWords ------------------------------
(***************************************************************************)
(* Words in two generators a, b and their inverses A, B (a word is a        *)
(* sequence of letters; the library writes it as the string of its          *)
(* letters), the pools of words and of LISTS of words used by the           *)
(* representation clause of property C03.  Pure operators.                  *)
(***************************************************************************)
EXTENDS Naturals, Sequences, FiniteSets

Letters == {"a", "b", "A", "B"}
InvL(l) == CASE l = "a" -> "A" [] l = "A" -> "a" [] l = "b" -> "B" [] l = "B" -> "b"
RECURSIVE InvW(_)
InvW(w) == IF w = <<>> THEN <<>> ELSE Append(InvW(Tail(w)), InvL(Head(w)))          \* reversed, letters inverted
RECURSIVE Rev(_)
Rev(w) == IF w = <<>> THEN <<>> ELSE Append(Rev(Tail(w)), Head(w))
RECURSIVE Str(_)
Str(w) == IF w = <<>> THEN "" ELSE Head(w) \o Str(Tail(w))

RECURSIVE WordsOfLen(_)
WordsOfLen(n) == IF n = 0 THEN {<<>>} ELSE {<<l>> \o w : l \in Letters, w \in WordsOfLen(n - 1)}
\* every word of length <= 3, freely reduced or not
Pool == WordsOfLen(0) \cup WordsOfLen(1) \cup WordsOfLen(2) \cup WordsOfLen(3)

\* the words that word LISTS are made of, and every list of length 1..3 over them: lists with an immediately
\* repeated word, with a word repeated later, with the empty word, ...
ListWords == << <<>>, <<"a">>, <<"a", "b">>, <<"b", "A">>, <<"a", "B", "a">> >>
RECURSIVE ListsOfLen(_)
ListsOfLen(n) == IF n = 0 THEN {<<>>} ELSE {<<i>> \o l : i \in 1..Len(ListWords), l \in ListsOfLen(n - 1)}
Lists == ListsOfLen(1) \cup ListsOfLen(2) \cup ListsOfLen(3)
HasRepeat(l) == \E i, j \in 1..Len(l) : i < j /\ l[i] = l[j]
=============================================================================
