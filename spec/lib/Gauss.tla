-------------------------------- MODULE Gauss --------------------------------
(***************************************************************************)
(* Gaussian integers as pairs <<re, im>> of integers, 2-vectors and 2x2    *)
(* matrices over them.  Pure operators (no constants, no variables), to be *)
(* EXTENDed by the specifications that need exact complex arithmetic       *)
(* (C16, C17, C20).  Gaussian rationals are represented by the callers as  *)
(* a Gaussian-integer numerator over a positive integer denominator, or    *)
(* projectively as homogeneous pairs.                                      *)
(*                                                                         *)
(* Conventions: a vector is a ROW <<z0, z1>>; a matrix is a tuple of rows  *)
(* <<<<a, b>>, <<c, d>>>> and acts on the right, v |-> v M (the library's  *)
(* convention for projective.Transformation).                              *)
(***************************************************************************)
EXTENDS Integers

GZero == <<0, 0>>
GOne  == <<1, 0>>
GI    == <<0, 1>>
GInt(k) == <<k, 0>>
GRe(z) == z[1]
GIm(z) == z[2]
GAdd(z, w) == <<z[1] + w[1], z[2] + w[2]>>
GSub(z, w) == <<z[1] - w[1], z[2] - w[2]>>
GNeg(z) == <<-z[1], -z[2]>>
GConj(z) == <<z[1], -z[2]>>
GMul(z, w) == <<z[1] * w[1] - z[2] * w[2], z[1] * w[2] + z[2] * w[1]>>
GScale(k, z) == <<k * z[1], k * z[2]>>
GNorm(z) == z[1] * z[1] + z[2] * z[2]                  \* |z|^2
GBox(n) == (-n..n) \X (-n..n)

IAbs(x) == IF x < 0 THEN -x ELSE x
ISgn(x) == IF x < 0 THEN -1 ELSE IF x = 0 THEN 0 ELSE 1
RECURSIVE IGcd(_, _)
IGcd(a, b) == IF b = 0 THEN IAbs(a) ELSE IGcd(b, IAbs(a) % IAbs(b))
GContent(z) == IGcd(z[1], z[2])                        \* gcd of the two integer parts

(***************************************************************************)
(* Row vectors and 2x2 matrices                                            *)
(***************************************************************************)
GVecMat(v, M) == <<GAdd(GMul(v[1], M[1][1]), GMul(v[2], M[2][1])),
                   GAdd(GMul(v[1], M[1][2]), GMul(v[2], M[2][2]))>>
GMatMul(M, N) == <<GVecMat(M[1], N), GVecMat(M[2], N)>>
GDet(M) == GSub(GMul(M[1][1], M[2][2]), GMul(M[1][2], M[2][1]))
GAdj(M) == <<<<M[2][2], GNeg(M[1][2])>>, <<GNeg(M[2][1]), M[1][1]>>>>
GConjT(M) == <<<<GConj(M[1][1]), GConj(M[2][1])>>, <<GConj(M[1][2]), GConj(M[2][2])>>>>
GId2 == <<<<GOne, GZero>>, <<GZero, GOne>>>>

\* projective equality of two non-zero vectors
GProjEq(v, w) == GMul(v[1], w[2]) = GMul(v[2], w[1])
=============================================================================
