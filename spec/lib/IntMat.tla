------------------------------- MODULE IntMat -------------------------------
(***************************************************************************)
(* Exact integer matrices as sequences of rows (tuples of tuples of Int),   *)
(* any rectangular shape.  Products, transpose, Kronecker product,          *)
(* determinant / adjugate by cofactors (n <= 5 in practice), the inverse of *)
(* a unimodular matrix, block embeddings.  A second layer represents        *)
(* Gaussian-integer matrices as a pair [re, im] of integer matrices.        *)
(*                                                                         *)
(* Every constructor is wrapped in TLCEval: TLC otherwise keeps            *)
(* [i \in S |-> e] lazy and re-evaluates e on every application, which is   *)
(* exponential in the length of a chain of products.                       *)
(* Pure operators only (no constants, no variables).                       *)
(***************************************************************************)
EXTENDS Naturals, Integers, Sequences, TLC

NRows(A) == Len(A)
NCols(A) == IF Len(A) = 0 THEN 0 ELSE Len(A[1])

Mk(r, c, Entry(_, _)) == TLCEval([i \in 1..r |-> TLCEval([j \in 1..c |-> Entry(i, j)])])

IdM(n) == LET e(i, j) == IF i = j THEN 1 ELSE 0 IN Mk(n, n, e)
ZeroM(r, c) == LET e(i, j) == 0 IN Mk(r, c, e)
\* elementary matrix unit E_pq of size n (1-based)
UnitM(n, p, q) == LET e(i, j) == IF i = p /\ j = q THEN 1 ELSE 0 IN Mk(n, n, e)

IsSquare(A) == NRows(A) = NCols(A)
IsMat(A, r, c) == NRows(A) = r /\ \A i \in 1..r : Len(A[i]) = c

RECURSIVE DotK(_, _, _, _, _)
DotK(A, B, i, j, k) == IF k = 0 THEN 0 ELSE A[i][k] * B[k][j] + DotK(A, B, i, j, k - 1)

MMul(A, B) == LET e(i, j) == DotK(A, B, i, j, NRows(B)) IN Mk(NRows(A), NCols(B), e)
MAdd(A, B) == LET e(i, j) == A[i][j] + B[i][j] IN Mk(NRows(A), NCols(A), e)
MSub(A, B) == LET e(i, j) == A[i][j] - B[i][j] IN Mk(NRows(A), NCols(A), e)
MScale(k, A) == LET e(i, j) == k * A[i][j] IN Mk(NRows(A), NCols(A), e)
MNeg(A) == MScale(0 - 1, A)
Tr(A) == LET e(i, j) == A[j][i] IN Mk(NCols(A), NRows(A), e)
\* exact division of every entry by k > 0 (callers check divisibility with AllDivisible)
MDiv(A, k) == LET e(i, j) == IF A[i][j] >= 0 THEN A[i][j] \div k ELSE 0 - ((0 - A[i][j]) \div k)
              IN Mk(NRows(A), NCols(A), e)
AllDivisible(A, k) == \A i \in 1..NRows(A) : \A j \in 1..NCols(A) :
                        (IF A[i][j] >= 0 THEN A[i][j] ELSE 0 - A[i][j]) % k = 0

\* Kronecker product: row (i-1)*rB + k, column (j-1)*cB + l holds A[i][j]*B[k][l]
Kron(A, B) ==
  LET rB == NRows(B)  cB == NCols(B)
      e(p, q) == A[((p - 1) \div rB) + 1][((q - 1) \div cB) + 1] * B[((p - 1) % rB) + 1][((q - 1) % cB) + 1]
  IN Mk(NRows(A) * rB, NCols(A) * cB, e)

\* A (n x n) in the upper-left corner of the m x m identity
BlockInclude(A, m) ==
  LET n == NRows(A)
      e(i, j) == IF i <= n /\ j <= n THEN A[i][j] ELSE IF i = j THEN 1 ELSE 0
  IN Mk(m, m, e)

\* 2 x 2 blocks  [[P, Q], [R, S]]  of equal square size
Block2(P, Q, R, S) ==
  LET n == NRows(P)
      e(i, j) == IF i <= n THEN (IF j <= n THEN P[i][j] ELSE Q[i][j - n])
                 ELSE (IF j <= n THEN R[i - n][j] ELSE S[i - n][j - n])
  IN Mk(2 * n, 2 * n, e)

\* delete row p and column q
Minor(A, p, q) ==
  LET e(i, j) == A[IF i < p THEN i ELSE i + 1][IF j < q THEN j ELSE j + 1]
  IN Mk(NRows(A) - 1, NCols(A) - 1, e)

Sgn(k) == IF k % 2 = 0 THEN 1 ELSE 0 - 1

RECURSIVE Det(_)
RECURSIVE DetRow1(_, _)
DetRow1(A, j) == IF j = 0 THEN 0
                 ELSE (IF A[1][j] = 0 THEN 0 ELSE Sgn(1 + j) * A[1][j] * Det(Minor(A, 1, j))) + DetRow1(A, j - 1)
Det(A) == IF NRows(A) = 0 THEN 1 ELSE IF NRows(A) = 1 THEN A[1][1] ELSE DetRow1(A, NCols(A))

\* adjugate: Adj(A)[i][j] = cofactor (j, i)
Adj(A) == LET e(i, j) == Sgn(i + j) * Det(Minor(A, j, i)) IN Mk(NRows(A), NRows(A), e)

Unimodular(A) == IsSquare(A) /\ Det(A) \in {1, 0 - 1}
\* inverse of a unimodular matrix (integer)
InvM(A) == MScale(Det(A), Adj(A))

MaxAbs(A) == LET abs(k) == IF k >= 0 THEN k ELSE 0 - k
                 S == {abs(A[i][j]) : i \in 1..NRows(A), j \in 1..NCols(A)}
             IN IF S = {} THEN 0 ELSE CHOOSE m \in S : \A k \in S : k <= m

MatVec(A, v) == TLCEval([i \in 1..NRows(A) |-> DotK(A, [k \in 1..Len(v) |-> <<v[k]>>], i, 1, Len(v))])

(***************************************************************************)
(* Gaussian-integer matrices: [re |-> X, im |-> Y] stands for X + iY        *)
(***************************************************************************)
CM(X, Y) == [re |-> X, im |-> Y]
CReal(X) == CM(X, ZeroM(NRows(X), NCols(X)))
CId(n) == CReal(IdM(n))
CMul(A, B) == CM(MSub(MMul(A.re, B.re), MMul(A.im, B.im)), MAdd(MMul(A.re, B.im), MMul(A.im, B.re)))
CAdd(A, B) == CM(MAdd(A.re, B.re), MAdd(A.im, B.im))
CSub(A, B) == CM(MSub(A.re, B.re), MSub(A.im, B.im))
CTr(A) == CM(Tr(A.re), Tr(A.im))          \* plain transpose, no conjugation
CKron(A, B) == CM(MSub(Kron(A.re, B.re), Kron(A.im, B.im)), MAdd(Kron(A.re, B.im), Kron(A.im, B.re)))
\* multiplication by the Gaussian integer p + iq
CScale(p, q, A) == CM(MSub(MScale(p, A.re), MScale(q, A.im)), MAdd(MScale(p, A.im), MScale(q, A.re)))
\* 2 x 2 only: determinant as a pair <<re, im>>, adjugate (linear for 2 x 2)
CDet2(A) == LET m(x, y) == <<x[1] * y[1] - x[2] * y[2], x[1] * y[2] + x[2] * y[1]>>
                en(i, j) == <<A.re[i][j], A.im[i][j]>>
                p == m(en(1, 1), en(2, 2))  q == m(en(1, 2), en(2, 1))
            IN <<p[1] - q[1], p[2] - q[2]>>
Adj2(X) == <<<<X[2][2], 0 - X[1][2]>>, <<0 - X[2][1], X[1][1]>>>>
CUnimodular2(A) == CDet2(A) \in {<<1, 0>>, <<0 - 1, 0>>, <<0, 1>>, <<0, 0 - 1>>}
\* inverse = adjugate times the inverse of the unit determinant (= its conjugate)
CInv2(A) == LET d == CDet2(A) IN CScale(d[1], 0 - d[2], CM(Adj2(A.re), Adj2(A.im)))
\* the real 2n x 2n matrix [[X, -Y], [Y, X]] of X + iY
CToReal(A) == Block2(A.re, MNeg(A.im), A.im, A.re)
=============================================================================
