--------------------------------- MODULE Rat ---------------------------------
(***************************************************************************)
(* Exact rational arithmetic for the geometric specifications.  A rational *)
(* is a pair <<num, den>> with den > 0 and gcd(|num|, den) = 1 (always     *)
(* normalised, so equality of rationals is equality of tuples).  TLC       *)
(* integers are 32-bit: universes are sized so that no product overflows   *)
(* (TLC aborts loudly if one does).                                        *)
(***************************************************************************)
EXTENDS Integers, Sequences

Abs(x) == IF x < 0 THEN 0 - x ELSE x
Sgn(x) == IF x < 0 THEN 0 - 1 ELSE IF x = 0 THEN 0 ELSE 1

RECURSIVE Gcd(_, _)
Gcd(a, b) == IF b = 0 THEN Abs(a) ELSE Gcd(b, Abs(a) % Abs(b))

\* n/d for any integers n, d with d # 0
R(n, d) == LET g == Gcd(n, d)
               s == Sgn(d)
           IN <<(s * n) \div g, (s * d) \div g>>
RInt(n) == <<n, 1>>
RZero == <<0, 1>>
ROne == <<1, 1>>

RAdd(p, q) == R(p[1] * q[2] + q[1] * p[2], p[2] * q[2])
RSub(p, q) == R(p[1] * q[2] - q[1] * p[2], p[2] * q[2])
RMul(p, q) == R(p[1] * q[1], p[2] * q[2])
RDiv(p, q) == R(p[1] * q[2], p[2] * q[1])          \* q # 0
RNeg(p) == <<0 - p[1], p[2]>>
RLess(p, q) == p[1] * q[2] < q[1] * p[2]
RLeq(p, q) == p[1] * q[2] <= q[1] * p[2]
RSgn(p) == Sgn(p[1])
RIsZero(p) == p[1] = 0
RAbs(p) == <<Abs(p[1]), p[2]>>
RSq(p) == RMul(p, p)

\* vectors (sequences) of rationals
RECURSIVE RSum(_)
RSum(v) == IF v = <<>> THEN RZero ELSE RAdd(Head(v), RSum(Tail(v)))
RDot(u, v) == RSum([i \in 1..Len(u) |-> RMul(u[i], v[i])])
RNormSq(v) == RDot(v, v)
RScale(c, v) == [i \in 1..Len(v) |-> RMul(c, v[i])]
RVAdd(u, v) == [i \in 1..Len(u) |-> RAdd(u[i], v[i])]
RVSub(u, v) == [i \in 1..Len(u) |-> RSub(u[i], v[i])]
RVec(v) == [i \in 1..Len(v) |-> RInt(v[i])]          \* integer vector -> rational vector

\* integer square root test (small arguments)
IsSquare(n) == n >= 0 /\ \E s \in 0..n : s * s = n
Sqrt(n) == CHOOSE s \in 0..n : s * s = n
=============================================================================
