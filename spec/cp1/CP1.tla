--------------------------------- MODULE CP1 ---------------------------------
(***************************************************************************)
(* Property C20: points, disks and Moebius maps of CP^1 (the Riemann       *)
(* sphere), as exact integer mathematics.                                  *)
(*                                                                         *)
(*  - a point is a non-zero ROW <<z0, z1>> of Gaussian integers up to      *)
(*    scale; its affine coordinate is w = z1/z0, infinity is [0 : 1];      *)
(*  - a point of S^2 is an integer quadruple <<x, y, h, n>> with           *)
(*    x^2+y^2+h^2 = n^2, meaning (x, y, h)/n; the north pole (0,0,1) is    *)
(*    infinity, the south pole is w = 0 (stereographic projection from the *)
(*    north pole onto the equatorial plane);                               *)
(*  - an (open) disk is a Hermitian integer matrix H = [[A, B],[B*, C]] of *)
(*    negative determinant, D_H = { z : z H z* < 0 }, written <<A, B, C>>. *)
(*    C > 0: bounded disk of centre -B/C and radius sqrt(-det)/C;          *)
(*    C < 0: disk containing infinity; C = 0: half plane;                  *)
(*  - a Moebius map is a Gaussian-integer matrix M of non-zero determinant *)
(*    acting on rows, z |-> z M, hence on disks by H |-> adj(M) H adj(M)*; *)
(*  - the complement of D_H is D_{-H}.                                     *)
(*                                                                         *)
(* Three explorations share the module (the cfg picks INIT/NEXT):          *)
(*   points : one state per point; theorems relating the two coordinate    *)
(*            systems; table of exact conversions                          *)
(*   disks  : the state machine Build / Apply(g) / Complement on one disk, *)
(*            explored to depth MaxDepth; theorems on every state; the     *)
(*            labelled transition system is emitted for replay             *)
(*   pairs  : one state per ordered pair of disks in general position;     *)
(*            containment / intersection defined through the position of   *)
(*            the two circles and one boundary point of each, validated    *)
(*            against membership of probe points, duality under            *)
(*            complement, Moebius invariance and the Euclidean criterion   *)
(***************************************************************************)
EXTENDS Integers, Sequences, FiniteSets, TLC, Json, SequencesExt, Gauss

CONSTANTS
  SphN,        \* norms n of the rational points (x, y, h)/n of S^2
  PBox,        \* homogeneous points: Gaussian-integer parts in -PBox..PBox
  CBox,        \* affine centres of built disks: parts in -CBox..CBox
  RadiiHalf,   \* affine radii k/2, k a positive integer
  CosNums, CosDen, \* Fubini-Study radius rho with cos(2 rho) = +-k/CosDen, 0 <= k < CosDen
  Gens,        \* names of the Moebius generators used as actions
  Bound,       \* entries of a disk's matrix stay within -Bound..Bound
  MaxDepth,    \* length of the histories of the disk state machine
  GridN, GridDen,            \* probe points (x+iy)/GridDen with |x|,|y| <= GridN, and infinity
  PairRe, PairIm, PairRadiiHalf, \* universe of the pair exploration
  PairGens                   \* generators whose images of small disks join the pair universe

VARIABLES st, last

\* a radius is <<s, t>> meaning s/t; a cosine is <<ka, kb>> meaning ka/kb (cfg files only hold integers)
Radii == {<<k, 2>> : k \in RadiiHalf}
PairRadii == {<<k, 2>> : k \in PairRadiiHalf}
Cosines == {<<k, CosDen>> : k \in CosNums}
ASSUME \A k \in CosNums : k < CosDen

(***************************************************************************)
(* Points and the sphere                                                   *)
(***************************************************************************)
SphOfNorm(n) == {u \in {<<x, y, h, n>> : x \in -n..n, y \in -n..n, h \in -n..n} :
                   /\ u[1] * u[1] + u[2] * u[2] + u[3] * u[3] = n * n
                   /\ IGcd(IGcd(u[1], u[2]), u[3]) = 1}
Sph == UNION {SphOfNorm(n) : n \in SphN}

Inf == <<GZero, GOne>>
\* stereographic projection from the north pole: w = (x + iy)/(n - h)
PointOf(u) == IF u[3] = u[4] THEN Inf ELSE <<GInt(u[4] - u[3]), <<u[1], u[2]>>>>
\* the same point in the chart around infinity, valid away from the south pole
PointOf2(u) == <<<<u[1], -u[2]>>, GInt(u[4] + u[3])>>
\* inverse: numerators and common denominator of the point of S^2
SphOf(z) == LET m == GMul(GConj(z[1]), z[2])
            IN <<2 * m[1], 2 * m[2], GNorm(z[2]) - GNorm(z[1]), GNorm(z[1]) + GNorm(z[2])>>
SphEq(a, b) == \A i \in 1..3 : a[i] * b[4] = b[i] * a[4]
OnSphere(u) == u[1] * u[1] + u[2] * u[2] + u[3] * u[3] = u[4] * u[4] /\ u[4] > 0
Antipode(z) == <<GConj(z[2]), GNeg(GConj(z[1]))>>

HomPts == {z \in GBox(PBox) \X GBox(PBox) : z # <<GZero, GZero>>}
Units == {GOne, GI, <<1, 1>>, <<2, 0>>, <<-1, 2>>}

\* --- theorems, sphere-point states
SphRoundTrip == SphEq(SphOf(PointOf(st)), st)
SphTwoCharts == st[3] # -st[4] => GProjEq(PointOf2(st), PointOf(st))
SphStereo    == st[3] # st[4] =>             \* north pole, the point and (w, 0) are collinear
                  LET w == PointOf(st) IN    \* w = w[2] / w[1], w[1] real positive
                  /\ st[1] * w[1][1] = w[2][1] * (st[4] - st[3])
                  /\ st[2] * w[1][1] = w[2][2] * (st[4] - st[3])
\* --- theorems, homogeneous-point states
HomOnSphere  == OnSphere(SphOf(st))
HomRoundTrip == GProjEq(PointOf(SphOf(st)), st)
HomScale     == \A l \in Units : SphEq(SphOf(<<GMul(l, st[1]), GMul(l, st[2])>>), SphOf(st))
HomStereo    == st[1] # GZero =>
                  LET s == SphOf(st)
                      m == GMul(st[2], GConj(st[1]))      \* w = m / |z0|^2
                      a == <<s[1], s[2], s[3] - s[4]>>    \* s - N (times s[4])
                      b == <<m[1], m[2], -GNorm(st[1])>>  \* (w, 0) - N (times |z0|^2)
                  IN /\ a[1] * b[2] = a[2] * b[1]
                     /\ a[1] * b[3] = a[3] * b[1]
                     /\ a[2] * b[3] = a[3] * b[2]
HomAntipode  == LET s == SphOf(st) t == SphOf(Antipode(st))
                IN \A i \in 1..3 : t[i] * s[4] = -s[i] * t[4]

InitSph == st \in Sph /\ last = "none"
InitHom == st \in HomPts /\ last = "none"
Stutter == UNCHANGED <<st, last>>

ObsSph == PrintT("OBS " \o ToJson([u |-> st, pt |-> PointOf(st)]))
\* aff: the affine coordinate w = z1/z0 as <<re, im, den>>, den = 0 at infinity
AffOf(z) == LET m == GMul(z[2], GConj(z[1])) IN <<m[1], m[2], GNorm(z[1])>>
ObsHom == PrintT("OBS " \o ToJson([z |-> st, sph |-> SphOf(st), aff |-> AffOf(st)]))

(***************************************************************************)
(* Disks                                                                   *)
(***************************************************************************)
HDet(H) == H[1] * H[3] - GNorm(H[2])
Q(H, z) == H[1] * GNorm(z[1]) + 2 * GRe(GMul(H[2], GMul(z[1], GConj(z[2])))) + H[3] * GNorm(z[2])
In(H, z) == Q(H, z) < 0
HMat(H) == <<<<GInt(H[1]), H[2]>>, <<GConj(H[2]), GInt(H[3])>>>>
HNeg(H) == <<-H[1], GNeg(H[2]), -H[3]>>
HNorm(H) == LET g == IGcd(IGcd(H[1], H[2][1]), IGcd(H[2][2], H[3]))
            IN <<H[1] \div g, <<H[2][1] \div g, H[2][2] \div g>>, H[3] \div g>>
Act(M, H) == LET N == GAdj(M)
                 P == GMatMul(GMatMul(N, HMat(H)), GConjT(N))
             IN <<P[1][1][1], P[1][2], P[2][2][1]>>
Small(H, b) == \A x \in {H[1], H[2][1], H[2][2], H[3]} : IAbs(x) <= b

GenMat(g) ==
  CASE g = "tr1"  -> <<<<GOne, GOne>>, <<GZero, GOne>>>>          \* w + 1
    [] g = "tri"  -> <<<<GOne, GI>>, <<GZero, GOne>>>>            \* w + i
    [] g = "inv"  -> <<<<GZero, <<-1, 0>>>>, <<GOne, GZero>>>>    \* -1/w
    [] g = "rotq" -> <<<<GI, GZero>>, <<GZero, GOne>>>>           \* w/i
    [] g = "dil"  -> <<<<GOne, GZero>>, <<GZero, <<2, 0>>>>>>     \* 2w
    [] g = "gen"  -> <<<<GOne, GI>>, <<GOne, <<2, 1>>>>>>         \* (i + (2+i)w)/(1 + w), det 2
    [] g = "gen2" -> <<<<<<2, 0>>, GOne>>, <<GI, <<1, -1>>>>>>    \* (1 + (1-i)w)/(2 + iw), det 2-3i
AllGens == {"tr1", "tri", "inv", "rotq", "dil", "gen", "gen2"}
ASSUME Gens \subseteq AllGens /\ PairGens \subseteq AllGens
ASSUME \A g \in AllGens : GDet(GenMat(g)) # GZero

\* constructions: p is a 4-tuple, <<re, im, 0, 0>> (affine centre) or a point of S^2
BuildAffH(c, r) == <<r[2] * r[2] * GNorm(c) - r[1] * r[1], GScale(-(r[2] * r[2]), c), r[2] * r[2]>>
BuildFSH(u, k)  == <<k[1] * u[4] + k[2] * u[3], GScale(-k[2], <<u[1], u[2]>>), k[1] * u[4] - k[2] * u[3]>>
CosSet == Cosines \cup {<<-k[1], k[2]>> : k \in Cosines}
Cases == {[kind |-> "aff", p |-> <<c[1], c[2], 0, 0>>, r |-> r] : c \in GBox(CBox), r \in Radii}
           \cup {[kind |-> "fs", p |-> u, r |-> k] : u \in Sph, k \in CosSet}
BuildH(cs) == IF cs.kind = "aff" THEN BuildAffH(<<cs.p[1], cs.p[2]>>, cs.r) ELSE BuildFSH(cs.p, cs.r)

\* what a disk reports
Centre(H) == <<-H[2][1], -H[2][2], H[3]>>                     \* (re + i im)/den, den # 0
Rad2(H)   == <<-HDet(H), H[3] * H[3]>>                        \* radius^2 = num/den
FSDir(H)  == <<-2 * H[2][1], -2 * H[2][2], H[1] - H[3]>>      \* direction of the Fubini-Study centre in R^3
Dot3(a, u) == a[1] * u[1] + a[2] * u[2] + a[3] * u[3]
\* cos(FS diameter) = cos(angular radius on S^2) = CosNum / sqrt(CosDen2)
CosNum(H)  == H[1] + H[3]
CosDen2(H) == (H[1] + H[3]) * (H[1] + H[3]) - 4 * HDet(H)

Grid == {<<GInt(GridDen), <<x, y>>>> : x \in -GridN..GridN, y \in -GridN..GridN} \cup {Inf}

DiskObs(H) == [H |-> H, affine |-> H[3] # 0, bounded |-> H[3] > 0,
               centre |-> Centre(H), r2 |-> Rad2(H),
               fsdir |-> FSDir(H), cosnum |-> CosNum(H), cosden2 |-> CosDen2(H)]

\* --- the state machine
InitDisk == \E cs \in Cases : st = [H |-> HNorm(BuildH(cs)), d |-> 0] /\ last = [a |-> "build", g |-> "-"]
ApplyG(g) == \E H2 \in {HNorm(Act(GenMat(g), st.H))} :
               /\ st.d < MaxDepth /\ Small(H2, Bound)
               /\ st' = [H |-> H2, d |-> st.d + 1]
               /\ last' = [a |-> "apply", g |-> g]
Compl == /\ st.d < MaxDepth
         /\ st' = [H |-> HNeg(st.H), d |-> st.d + 1]
         /\ last' = [a |-> "complement", g |-> "-"]
NextDisk == Compl \/ \E g \in Gens : ApplyG(g)
ViewDisk == st

EmitDisk == PrintT("EMIT " \o ToJson([from |-> <<st.H, st.d>>, act |-> last', to |-> <<st'.H, st'.d>>]))
ObsDisk == PrintT("OBS " \o ToJson(DiskObs(st.H)))

\* --- theorems on every reachable disk
WellFormed == HDet(st.H) < 0 /\ HNorm(st.H) = st.H
\* what was built is what was asked for (a theorem about the constants, checked once)
BuildReports ==
  \A cs \in Cases :
    \A H \in {HNorm(BuildH(cs))} :
      IF cs.kind = "aff"
      THEN /\ H[3] > 0
           /\ Centre(H)[1] = cs.p[1] * H[3] /\ Centre(H)[2] = cs.p[2] * H[3]
           /\ Rad2(H)[1] * cs.r[2] * cs.r[2] = cs.r[1] * cs.r[1] * Rad2(H)[2]
      ELSE /\ \E l \in 1..(2 * cs.r[2]) : FSDir(H) = <<l * cs.p[1], l * cs.p[2], l * cs.p[3]>>
           /\ ISgn(CosNum(H)) = ISgn(cs.r[1])
           /\ CosNum(H) * CosNum(H) * cs.r[2] * cs.r[2] = cs.r[1] * cs.r[1] * CosDen2(H)
\* complement: involution, and it exchanges the two sides pointwise
CompInvolution == /\ HNeg(HNeg(st.H)) = st.H
                  /\ \A p \in Grid : ISgn(Q(HNeg(st.H), p)) = -ISgn(Q(st.H, p))
\* the action on matrices is the pointwise image: T(D_H) = D_{T.H}, circle onto circle, side onto side
ActionPointwise == \A g \in Gens : \A H2 \in {Act(GenMat(g), st.H)} :
                     /\ HDet(H2) < 0
                     /\ \A p \in Grid : ISgn(Q(H2, GVecMat(p, GenMat(g)))) = ISgn(Q(st.H, p))
\* left action: applying h then g is applying the row-matrix product M_h M_g
ActionCompose == st.d = 0 => \A g, h \in Gens :
                   HNorm(Act(GenMat(g), Act(GenMat(h), st.H))) = HNorm(Act(GMatMul(GenMat(h), GenMat(g)), st.H))
\* bounded iff infinity is outside iff (for C # 0) the Euclidean centre is inside
Sides == /\ In(st.H, Inf) <=> st.H[3] < 0
         /\ (st.H[3] # 0 /\ Small(st.H, 400)) =>
               (In(st.H, <<GInt(st.H[3]), GNeg(st.H[2])>>) <=> st.H[3] > 0)
\* the disk is the spherical cap { p : p . FSDir > (A + C) |p| ... } around FSDir
FSCap == \A u \in Sph : In(st.H, PointOf(u)) <=> Dot3(FSDir(st.H), u) > CosNum(st.H) * u[4]

(***************************************************************************)
(* Pairs of disks                                                          *)
(***************************************************************************)
AffPts(c, r) == LET tc == GScale(r[2], c)
                IN <<<<GInt(r[2]), GAdd(tc, GInt(r[1]))>>,
                     <<GInt(r[2]), GSub(tc, GInt(r[1]))>>,
                     <<GInt(r[2]), GAdd(tc, <<0, r[1]>>)>>>>
\* a disk given by data: three boundary points and one interior point (what CP1Disk stores)
Bd(c, r)    == [H |-> BuildAffH(c, r), b |-> AffPts(c, r), p |-> <<GOne, c>>,
                tag |-> "bounded", c |-> c, r |-> r, pre |-> "bounded", g |-> "-"]
UbInf(c, r) == [H |-> HNeg(BuildAffH(c, r)), b |-> AffPts(c, r), p |-> Inf,
                tag |-> "unbounded_inf", c |-> c, r |-> r, pre |-> "unbounded_inf", g |-> "-"]
UbFin(c, r) == [H |-> HNeg(BuildAffH(c, r)), b |-> AffPts(c, r),
                p |-> <<GInt(r[2]), GAdd(GScale(r[2], c), GInt(2 * r[1]))>>,
                tag |-> "unbounded_fin", c |-> c, r |-> r, pre |-> "unbounded_fin", g |-> "-"]
Img(D, g) == [H |-> HNorm(Act(GenMat(g), D.H)),
              b |-> [i \in 1..3 |-> GVecMat(D.b[i], GenMat(g))],
              p |-> GVecMat(D.p, GenMat(g)),
              tag |-> "image", c |-> D.c, r |-> D.r, pre |-> D.tag, g |-> g]
PairCentres == (-PairRe..PairRe) \X (-PairIm..PairIm)
PairBase == UNION {{Bd(c, r), UbInf(c, r), UbFin(c, r)} : c \in PairCentres, r \in PairRadii}
\* images of the disks around 0 and 1+i
PairImages == {D \in {Img(D0, g) : D0 \in {E \in PairBase : E.c \in {<<0, 0>>, <<1, 1>>}}, g \in PairGens} : D.H[3] # 0}
PairU == SetToSeq(PairBase \cup PairImages)
NPair == Len(PairU)

Inv2(H1, H2) == H1[1] * H2[3] + H2[1] * H1[3] - 2 * GRe(GMul(H1[2], GConj(H2[2])))
Tangent(H1, H2)  == Inv2(H1, H2) * Inv2(H1, H2) = 4 * HDet(H1) * HDet(H2)
Crossing(H1, H2) == Inv2(H1, H2) * Inv2(H1, H2) < 4 * HDet(H1) * HDet(H2)
\* when the circles are disjoint, the circle of D2 lies on one side of the circle of D1
CircleInside(E1, E2) == In(E1.H, E2.b[1])
ContainsD(E1, E2)   == ~Crossing(E1.H, E2.H) /\ CircleInside(E1, E2) /\ ~CircleInside(E2, E1)
IntersectsD(E1, E2) == Crossing(E1.H, E2.H) \/ CircleInside(E1, E2) \/ CircleInside(E2, E1)
CompD(D) == [D EXCEPT !.H = HNeg(D.H)]

D1 == PairU[st[1]]
D2 == PairU[st[2]]
\* <<0, 0>> -> <<i, 0>> -> <<i, j>>: two levels, so that TLC's workers share the pairs
InitPair == st = <<0, 0>> /\ last = "none"
NextPair == /\ UNCHANGED last
            /\ \/ st = <<0, 0>> /\ \E i \in 1..NPair : st' = <<i, 0>>
               \/ st[1] # 0 /\ st[2] = 0 /\ \E j \in 1..NPair :
                     ~Tangent(PairU[st[1]].H, PairU[j].H) /\ st' = <<st[1], j>>
IsPair == st[1] # 0 /\ st[2] # 0

PGrid == {<<GInt(2), <<x, y>>>> : x \in -(2 * GridN)..(2 * GridN), y \in -(2 * GridN)..(2 * GridN)} \cup {Inf}

\* --- theorems on every pair in general position
PairWellFormed ==
  IsPair => (/\ \A i \in 1..3 : Q(D1.H, D1.b[i]) = 0
             /\ In(D1.H, D1.p) /\ HDet(D1.H) < 0
             /\ \A i, j \in 1..3 : i # j => ~GProjEq(D1.b[i], D1.b[j]))
\* set-theoretic meaning, on probe points: no probe point contradicts the verdict ...
ContainsSound == (IsPair /\ ContainsD(D1, D2)) => \A p \in PGrid : In(D2.H, p) => In(D1.H, p)
DisjointSound == (IsPair /\ ~IntersectsD(D1, D2)) => \A p \in PGrid : ~(In(D1.H, p) /\ In(D2.H, p))
\* ... and a negative verdict on containment / a positive one on intersection has a witness point.
\* Every region cut out by two circles meets the line through the two centres, so witnesses are
\* sought there (rational parameters k/WitDen, the radical-axis point, infinity); for the
\* constructed disks, whose centres are Gaussian integers (images: PairInvariant carries it over).
IsBase(D) == D.tag # "image"
WitDen == 64
Wit(E1, E2) ==
  LET v  == IF E1.c = E2.c THEN GOne ELSE GSub(E2.c, E1.c)
      d2 == GNorm(v)
      \* radii are s/2: t* = (d^2 + r1^2 - r2^2)/(2 d^2) = (4 d2 + s1^2 - s2^2)/(8 d2)
      rad == <<GInt(8 * d2), GAdd(GScale(8 * d2, E1.c), GScale(4 * d2 + E1.r[1] * E1.r[1] - E2.r[1] * E2.r[1], v))>>
  IN {rad, Inf} \cup {<<GInt(WitDen), GAdd(GScale(WitDen, E1.c), GScale(k, v))>> : k \in -(4 * WitDen)..(5 * WitDen)}
BasePair == IsPair /\ IsBase(D1) /\ IsBase(D2)
ContainsComplete == (BasePair /\ ~ContainsD(D1, D2)) => \E p \in Wit(D1, D2) : In(D2.H, p) /\ Q(D1.H, p) > 0
IntersectsComplete == (BasePair /\ IntersectsD(D1, D2)) => \E p \in Wit(D1, D2) : In(D1.H, p) /\ In(D2.H, p)
\* duality under complement, symmetry
PairDuality ==
  IsPair => (/\ ContainsD(D1, D2) <=> ContainsD(CompD(D2), CompD(D1))
             /\ IntersectsD(D1, D2) <=> ~ContainsD(CompD(D1), D2)
             /\ IntersectsD(D1, D2) <=> IntersectsD(D2, D1)
             /\ ContainsD(D1, D2) => (IntersectsD(D1, D2) /\ ~ContainsD(D2, D1)))
\* the Euclidean criterion for two bounded disks
PairEuclid ==
  (IsPair /\ D1.tag = "bounded" /\ D2.tag = "bounded") =>
     LET d2 == GNorm(GSub(D1.c, D2.c))
         tt == D1.r[2] * D2.r[2]
         df == D1.r[1] * D2.r[2] - D2.r[1] * D1.r[2]
         sm == D1.r[1] * D2.r[2] + D2.r[1] * D1.r[2]
     IN /\ ContainsD(D1, D2) <=> (df > 0 /\ d2 * tt * tt < df * df)
        /\ IntersectsD(D1, D2) <=> (d2 * tt * tt < sm * sm)
\* Moebius invariance (on the constructed disks, to stay inside 32-bit arithmetic)
PairInvariant ==
  BasePair => \A g \in PairGens :
                 /\ ContainsD(Img(D1, g), Img(D2, g)) <=> ContainsD(D1, D2)
                 /\ IntersectsD(Img(D1, g), Img(D2, g)) <=> IntersectsD(D1, D2)

ObsPair == IsPair => PrintT("OBS " \o ToJson([i |-> st[1], j |-> st[2],
                                              contains |-> ContainsD(D1, D2), intersects |-> IntersectsD(D1, D2)]))

(***************************************************************************)
(* Tables printed once                                                     *)
(***************************************************************************)
ASSUME BuildReports
ASSUME PrintT("GENS " \o ToJson([g \in AllGens |-> GenMat(g)]))
ASSUME PrintT("CASES " \o ToJson({[kind |-> cs.kind, p |-> cs.p, r |-> cs.r, H |-> HNorm(BuildH(cs)),
                                     pt |-> IF cs.kind = "aff" THEN <<GOne, <<cs.p[1], cs.p[2]>>>> ELSE PointOf(cs.p)]
                                    : cs \in Cases}))
ASSUME PrintT("DISKS " \o ToJson([k \in 1..NPair |-> [H |-> PairU[k].H, b |-> PairU[k].b, p |-> PairU[k].p,
                                                       tag |-> PairU[k].tag, bounded |-> PairU[k].H[3] > 0,
                                                       c |-> PairU[k].c, r |-> PairU[k].r, pre |-> PairU[k].pre, g |-> PairU[k].g]]))
=============================================================================
