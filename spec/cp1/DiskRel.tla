------------------------------- MODULE DiskRel -------------------------------
(***************************************************************************)
(* Extension check X07, part 1: the affine disk containment helpers        *)
(*     utils.affine_disks_contain(cout, rout, cin, rin, broadcast)         *)
(*     utils.disk_containments(cout, rout, cin, rin, broadcast)            *)
(*                                                                         *)
(* CONTRACT.  Neither function has a docstring and neither has a caller in *)
(* the library (CP1Disk.contains / intersects use the sibling              *)
(* disk_interactions, whose first two results are the same relation).  The *)
(* contract below is what the three siblings consistently implement and    *)
(* what a caller can rely on; it is stated here and justified by theorems  *)
(* TLC checks against point membership:                                    *)
(*                                                                         *)
(*   Cont(O, I)  <=>  |c_O - c_I| + r_I < r_O                              *)
(*               <=>  the CLOSED disk I lies in the OPEN disk O            *)
(*                                                                         *)
(* i.e. containment without boundary contact: an internally tangent inner  *)
(* disk is NOT contained, a disk does NOT contain itself (so the relation  *)
(* is a strict partial order).  Away from tangency it is the containment   *)
(* of CP1.tla (ContainsD), which is what CP1Disk.contains reports.         *)
(*   affine_disks_contain(cout, rout, cin, rin)           = Cont(out, in)  *)
(*   disk_containments(cout, rout, cin, rin) = (Cont(out, in), Cont(in, out)) *)
(* elementwise: NumPy broadcasting of centres (..., 2) against radii (...).*)
(* pairwise (1-d families): ONE result entry per (inner i, outer j), laid   *)
(* out as result[i, j], shape (len(cin), len(cout)) -- the INNER family    *)
(* indexes the rows.  (Both functions are written this way; note that the  *)
(* sibling disk_interactions and the rest of the library put the first     *)
(* argument's family first.  With no docstring and no caller the layout    *)
(* the two functions share is taken as the contract.)                      *)
(*                                                                         *)
(* Universe: disks with Gaussian-integer centres in a box and radii k/2,   *)
(* chosen so that internal tangency occurs on and off the axes (3-4-5),    *)
(* plus equal disks and concentric disks.  Distances of tangent pairs are  *)
(* rational, so the strict / non-strict distinction is exactly observable  *)
(* in floating point.                                                      *)
(***************************************************************************)
EXTENDS CP1

CONSTANTS XReS, XImS,    \* centres XReS x XImS (sets of naturals)
          XSpan,         \* a bound on the distance of two centres
          XRadiiHalf     \* radii k/2

XCentres == XReS \X XImS
XU == SetToSeq({[c |-> c, r |-> <<k, 2>>] : c \in XCentres, k \in XRadiiHalf})
NX == Len(XU)

XH(E) == BuildAffH(E.c, E.r)            \* |w - c|^2 - r^2 as a Hermitian form (times 4)
Dist2(O, I) == GNorm(GSub(O.c, I.c))       \* squared distance of the centres
RDiff(O, I) == O.r[1] - I.r[1]             \* 2 (r_O - r_I)

\* the contract: 2d < 2(r_O - r_I)
Cont(O, I)      == RDiff(O, I) > 0 /\ 4 * Dist2(O, I) < RDiff(O, I) * RDiff(O, I)
\* internal tangency (d = r_O - r_I), which includes equal disks
TangentIn(O, I) == RDiff(O, I) >= 0 /\ 4 * Dist2(O, I) = RDiff(O, I) * RDiff(O, I)
Containments(O, I) == <<Cont(O, I), Cont(I, O)>>

(***************************************************************************)
(* Exploration: <<0,0>> -> <<i,0>> -> <<i,j>>; i is the outer disk, j the   *)
(* inner one                                                               *)
(***************************************************************************)
InitRel == st = <<0, 0>> /\ last = "none"
NextRel == /\ UNCHANGED last
           /\ \/ st = <<0, 0>> /\ \E i \in 1..NX : st' = <<i, 0>>
              \/ st[1] # 0 /\ st[2] = 0 /\ \E j \in 1..NX : st' = <<st[1], j>>
IsRel == st[1] # 0 /\ st[2] # 0
O == XU[st[1]]
I == XU[st[2]]

\* rational unit complex numbers (a + bi)/n
PythDirs == LET base == {<<1, 0, 1>>, <<3, 4, 5>>, <<4, 3, 5>>, <<5, 12, 13>>, <<12, 5, 13>>, <<8, 15, 17>>,
                          <<15, 8, 17>>, <<7, 24, 25>>, <<24, 7, 25>>, <<20, 21, 29>>, <<21, 20, 29>>}
            IN UNION {{<<t[1], t[2], t[3]>>, <<-t[2], t[1], t[3]>>, <<-t[1], -t[2], t[3]>>, <<t[2], -t[1], t[3]>>} : t \in base}
XDen == 32
\* candidate witnesses: the line through the centres, rational points of the inner circle, and
\* (when the distance of the centres is rational) the point of the inner circle farthest from c_O
XWit(E1, E2) ==
  LET v == IF E1.c = E2.c THEN GOne ELSE GSub(E2.c, E1.c)
      d2 == GNorm(v)
      line == {<<GInt(XDen), GAdd(GScale(XDen, E1.c), GScale(k, v))>> : k \in -(8 * XDen)..(8 * XDen)}
      circ == {<<GInt(2 * u[3]), GAdd(GScale(2 * u[3], E2.c), GScale(E2.r[1], <<u[1], u[2]>>))>> : u \in PythDirs}
      far  == {<<GInt(2 * m), GAdd(GScale(2 * m, E2.c), GScale(E2.r[1], v))>> : m \in {n \in 1..XSpan : n * n = d2}}
  IN line \cup circ \cup far

\* --- theorems on every ordered pair
\* meaning: no probe point of the closed inner disk is outside the open outer disk ...
RelSound == (IsRel /\ Cont(O, I)) => \A p \in PGrid : Q(XH(I), p) <= 0 => Q(XH(O), p) < 0
\* ... and when the relation fails some point of the closed inner disk is not in the open outer disk
RelComplete == (IsRel /\ ~Cont(O, I)) => \E p \in XWit(O, I) : Q(XH(I), p) <= 0 /\ Q(XH(O), p) >= 0
\* boundary cases: internally tangent (or equal) disks share a boundary point, hence are not related
RelBoundary == (IsRel /\ TangentIn(O, I)) =>
                 /\ ~Cont(O, I) /\ ~Cont(I, O)
                 /\ \E p \in XWit(O, I) : Q(XH(I), p) = 0 /\ Q(XH(O), p) = 0
\* strict partial order
RelOrder == IsRel => /\ ~Cont(O, O)
                     /\ (Cont(O, I) => ~Cont(I, O))
                     /\ (Cont(O, I) => \A k \in 1..NX : Cont(I, XU[k]) => Cont(O, XU[k]))
\* away from tangency it is the containment of CP1.tla (what CP1Disk.contains reports)
RelAgreesCP1 == (IsRel /\ ~Tangent(XH(O), XH(I))) =>
                  (Cont(O, I) <=> ContainsD(Bd(O.c, O.r), Bd(I.c, I.r)))

ObsRel == IsRel => PrintT("OBS " \o ToJson([i |-> st[1], j |-> st[2], rel |-> Containments(O, I),
                                             tangent |-> TangentIn(O, I) \/ TangentIn(I, O), equal |-> O = I]))

ASSUME PrintT("XDISKS " \o ToJson([k \in 1..NX |-> [c |-> XU[k].c, r |-> XU[k].r]]))
=============================================================================
