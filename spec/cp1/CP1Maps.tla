------------------------------- MODULE CP1Maps -------------------------------
(***************************************************************************)
(* Extension check X07, part 2: the remaining functions of                 *)
(* complex_projective.py and utils/cp1.py that property C20 does not       *)
(* state.  Exact reference values over the universe of CP1.tla.            *)
(*                                                                         *)
(* CONTRACTS (no docstrings exist; read off the code, its name and its one *)
(* caller, and stated here):                                               *)
(*                                                                         *)
(* 1. to_standard_triple(triple) / CP1Point(triple).to_standard_triple():  *)
(*    for three pairwise distinct points (p1, p2, p3) returns the Moebius  *)
(*    transformation T with T(p1) = 0 = [1:0], T(p2) = infinity = [0:1],   *)
(*    T(p3) = 1 = [1:1]  (CP1Disk.inversion conjugates w -> -w by it, which *)
(*    needs exactly this).  Such a T is unique as a projective map, so the *)
(*    returned matrix is StdMat(triple) up to a complex scalar, and every  *)
(*    further point q goes to q StdMat.  An array whose unit is not a      *)
(*    triple of points is rejected with the library's GeometryError.       *)
(*                                                                         *)
(* 2. projective_to_spherical / spherical_to_projective with               *)
(*    column_vectors=True: the coordinate axis is the second-to-last one   *)
(*    (a 2 x k, resp. 3 x k matrix for k points) and the result is laid    *)
(*    out the same way: f_cols(X) = Transpose(f_rows(Transpose(X))).       *)
(*                                                                         *)
(* 3. utils.cp1.fs_ctr_to_aff_ctr(w, rho): Euclidean centre of the circle  *)
(*    of Fubini-Study centre w (a finite complex number, 0 included) and   *)
(*    Fubini-Study radius rho, when that circle avoids infinity.           *)
(*    utils.cp1.aff_ctr_to_fs_ctr(c, r): the modulus |w| of the            *)
(*    Fubini-Study centre w of the bounded disk of Euclidean centre c and  *)
(*    radius r (w lies on the ray of c).                                   *)
(***************************************************************************)
EXTENDS CP1

(***************************************************************************)
(* 1. standard triples                                                     *)
(***************************************************************************)
TPts == {<<GOne, w>> : w \in GBox(1)} \cup {Inf, <<<<1, 2>>, <<3, 0>>>>, <<<<0, 2>>, <<1, -1>>>>}
Triples == {t \in TPts \X TPts \X TPts :
              ~GProjEq(t[1], t[2]) /\ ~GProjEq(t[1], t[3]) /\ ~GProjEq(t[2], t[3])}
\* N = adj of the matrix with rows p1, p2 sends p1, p2 to multiples of e1, e2; scale the columns
\* so that p3 goes to a multiple of (1, 1)
StdMat(t) == LET N  == GAdj(<<t[1], t[2]>>)
                 ab == GVecMat(t[3], N)
             IN <<<<GMul(N[1][1], ab[2]), GMul(N[1][2], ab[1])>>,
                  <<GMul(N[2][1], ab[2]), GMul(N[2][2], ab[1])>>>>
Zero1 == <<GOne, GZero>>
One1  == <<GOne, GOne>>

InitTriple == st \in Triples /\ last = "none"
TripleSends == LET M == StdMat(st)
               IN /\ GDet(M) # GZero
                  /\ GProjEq(GVecMat(st[1], M), Zero1)
                  /\ GProjEq(GVecMat(st[2], M), Inf)
                  /\ GProjEq(GVecMat(st[3], M), One1)
\* uniqueness in the form used by the harness: a matrix sending the triple to (0, infinity, 1) is
\* diagonal after composing with the inverse of M, with equal diagonal entries
TripleUnique == \A t2 \in {<<st[2], st[1], st[3]>>} :     \* exchanging p1 and p2 gives 1/w afterwards
                  LET M == StdMat(st) M2 == StdMat(t2)
                      P == GMatMul(GAdj(M), M2)            \* (M^-1 M2 up to scale) must be w -> 1/w
                  IN P[1][1] = GZero /\ P[2][2] = GZero /\ P[1][2] = P[2][1] /\ P[1][2] # GZero
\* the involution the library builds from it: conjugate of w -> -w; fixes p1 and p2, is an involution
TripleInversion == LET M == StdMat(st)
                       S == <<<<GOne, GZero>>, <<GZero, <<-1, 0>>>>>>
                       J == GMatMul(GMatMul(M, S), GAdj(M))
                       JJ == GMatMul(J, J)
                   IN /\ GProjEq(GVecMat(st[1], J), st[1]) /\ GProjEq(GVecMat(st[2], J), st[2])
                      /\ ~GProjEq(GVecMat(st[3], J), st[3])
                      /\ JJ[1][2] = GZero /\ JJ[2][1] = GZero /\ JJ[1][1] = JJ[2][2]
ObsTriple == PrintT("OBS " \o ToJson([t |-> st, M |-> StdMat(st),
                                       img |-> {<<q, GVecMat(q, StdMat(st))>> : q \in TPts}]))

(***************************************************************************)
(* 2. row and column layouts of the two conversions                        *)
(***************************************************************************)
Transpose(X) == [j \in 1..Len(X[1]) |-> [i \in 1..Len(X) |-> X[i][j]]]
LaySph == {<<0, 0, 1, 1>>, <<0, 0, -1, 1>>, <<2, 2, 1, 3>>, <<-1, 2, -2, 3>>, <<3, 0, 4, 5>>, <<0, -4, -3, 5>>}
LayHom == {Inf, Zero1, <<GOne, <<1, 1>>>>, <<GI, GOne>>, <<<<2, 0>>, <<1, -1>>>>, <<<<1, 1>>, <<-2, 0>>>>}
Seqs(S) == UNION {[1..k -> S] : k \in 1..3}
\* a point of S^2 as three rationals <<num, den>>
SphRat(u) == <<<<u[1], u[4]>>, <<u[2], u[4]>>, <<u[3], u[4]>>>>
\* direction "toProj": spherical -> projective; "toSph": projective -> spherical
RowsIn(cs)  == IF cs.dir = "toProj" THEN [i \in 1..Len(cs.pts) |-> SphRat(cs.pts[i])] ELSE cs.pts
RowsOut(cs) == IF cs.dir = "toProj" THEN [i \in 1..Len(cs.pts) |-> PointOf(cs.pts[i])]
               ELSE [i \in 1..Len(cs.pts) |-> SphRat(SphOf(cs.pts[i]))]
LayIn(cs)  == IF cs.cols THEN Transpose(RowsIn(cs)) ELSE RowsIn(cs)
LayOut(cs) == IF cs.cols THEN Transpose(RowsOut(cs)) ELSE RowsOut(cs)
LayCases == {[dir |-> "toProj", cols |-> b, pts |-> s] : b \in BOOLEAN, s \in Seqs(LaySph)}
              \cup {[dir |-> "toSph", cols |-> b, pts |-> s] : b \in BOOLEAN, s \in Seqs(LayHom)}
InitLayout == st \in LayCases /\ last = "none"
LayoutShapes == LET k == Len(st.pts)
                    din == IF st.dir = "toProj" THEN 3 ELSE 2
                    dout == IF st.dir = "toProj" THEN 2 ELSE 3
                IN /\ LaySph \subseteq SphOfNorm(1) \cup SphOfNorm(3) \cup SphOfNorm(5)
                   /\ Len(LayIn(st)) = (IF st.cols THEN din ELSE k)
                   /\ Len(LayIn(st)[1]) = (IF st.cols THEN k ELSE din)
                   /\ Len(LayOut(st)) = (IF st.cols THEN dout ELSE k)
                   /\ Len(LayOut(st)[1]) = (IF st.cols THEN k ELSE dout)
                   /\ Transpose(Transpose(LayIn(st))) = LayIn(st)
\* the conversions are inverse in either layout
LayoutInverse == IF st.dir = "toProj"
                 THEN \A i \in 1..Len(st.pts) : SphEq(SphOf(RowsOut(st)[i]), st.pts[i])
                 ELSE \A i \in 1..Len(st.pts) : GProjEq(PointOf(SphOf(st.pts[i])), st.pts[i])
ObsLayout == PrintT("OBS " \o ToJson([dir |-> st.dir, cols |-> st.cols, k |-> Len(st.pts),
                                       inp |-> LayIn(st), out |-> LayOut(st)]))

(***************************************************************************)
(* 3. Fubini-Study centre <-> Euclidean centre of a circle                 *)
(***************************************************************************)
Prim3(v) == LET g == IGcd(IGcd(v[1], v[2]), v[3]) IN <<v[1] \div g, v[2] \div g, v[3] \div g>>
InitCentre == st \in Cases /\ last = "none"
CH == HNorm(BuildH(st))
\* |w|^2 of the Fubini-Study centre w of the BOUNDED disk of the circle of an fs case, <<num, den>>
\* (the antipode of the given centre when the built disk contains infinity)
FSMod2 == LET pt == PointOf(st.p) IN
          IF CH[3] > 0 THEN <<GNorm(pt[2]), GNorm(pt[1])>> ELSE <<GNorm(pt[1]), GNorm(pt[2])>>
\* the law the harness uses for aff cases, whose Fubini-Study centre is irrational: t = |w| >= 0 is
\* determined by  2 t h' = sqrt(x'^2 + y'^2) (t^2 - 1)  where (x', y', h') is the direction of the
\* Fubini-Study centre of the bounded disk.  Checked here in squared form on the fs cases, where t^2
\* is rational.
CentreLaw == (st.kind = "fs" /\ CH[3] > 0) =>
               LET f == Prim3(FSDir(CH))
                   X == f[1] * f[1] + f[2] * f[2]
                   tn == FSMod2[1] td == FSMod2[2]
               IN /\ td > 0
                  /\ X * (tn - td) * (tn - td) = 4 * tn * td * f[3] * f[3]
                  /\ ISgn(tn - td) = ISgn(f[3])
                  /\ Prim3(FSDir(CH)) = Prim3(<<st.p[1], st.p[2], st.p[3]>>)
\* the circle of an fs case is the circle the conversions talk about
CentreCircle == st.kind = "fs" => (CH[3] # 0 => Rad2(CH)[1] > 0 /\ Rad2(CH)[2] > 0)
ObsCentre == PrintT("OBS " \o ToJson([kind |-> st.kind, p |-> st.p, r |-> st.r,
                                       pt |-> IF st.kind = "aff" THEN <<GOne, <<st.p[1], st.p[2]>>>> ELSE PointOf(st.p),
                                       affine |-> CH[3] # 0, bounded |-> CH[3] > 0,
                                       centre |-> Centre(CH), r2 |-> Rad2(CH),
                                       fsdir |-> Prim3(IF CH[3] > 0 THEN FSDir(CH) ELSE FSDir(HNeg(CH))),
                                       mod2 |-> IF st.kind = "fs" THEN FSMod2 ELSE <<0, 0>>]))
=============================================================================
