------------------------------ MODULE DrawScene ------------------------------
(***************************************************************************)
(* Property C19: the scenes that are drawn.  A scene is the state of a      *)
(* drawing session: the drawing's transformation (a word of exact           *)
(* isometries applied with add_transform "L" / precompose_transform "R")    *)
(* and a list of distinct points of the exact universe.  The list is read   *)
(* as a composite Point (every length), a Segment / Geodesic / Horosphere    *)
(* (length 2) and a Polygon (length >= 3).  Every transition is emitted     *)
(* with the exact geometry (module DrawGeom) the artists of the three       *)
(* drawable models must have after the transformation.                      *)
(* TLC checks on every scene the theorems of DrawGeom for every edge and    *)
(* the equivariance of the construction under the drawing's transformation. *)
(***************************************************************************)
EXTENDS DrawGeom

CONSTANTS MaxWord,      \* maximal length of the transformation word
          MaxVerts,     \* maximal number of points of a scene
          Core          \* 1: the small set of special points, 2: all special points, 3: special points, band points and
                        \* the whole box universe of HypCoords, 4: the band points (triangles only over a band pair),
                        \* 5: drawings with custom windows and points outside the default window,
                        \* 6: all words in three non-commuting atoms on two points,
                        \* 8: end points in the 10% margin just outside the default window (half-plane x = -7, 7) and inside it,
                        \* 7: small polygons: polygons on six points shrunk by Lox(1, q), q in Shrinks

VARIABLES word, verts, last,
          shrink,   \* 0, or q: the object is shrunk by the loxodromic Lox(1, q) (DrawGeom, "small polygons"); Core = 7
          win       \* the window <<xmin, xmax, ymax>> the drawing is constructed with (xlim, ylim); default <<-6, 6, 8>>

P3(a, b, c) == <<a, b, c>>
\* hand-picked points: the origin, antipodal pairs (edges through the origin), points on one vertical of the
\* half-plane, the pairs (9,4,1)-(11,-9,-2) (Poincare radius 128) and (11,-6,-7)-(11,6,-2) (half-plane radius 132)
CoreInterior == {P3(1, 0, 0), P3(3, 2, 2), P3(3, 0 - 2, 0 - 2), P3(9, 4, 0 - 8), P3(5, 0 - 3, 0), P3(5, 3, 0), P3(5, 0, 4),
                 P3(7, 2, 6), P3(9, 4, 1), P3(11, 0 - 9, 0 - 2), P3(11, 0 - 6, 0 - 7), P3(11, 6, 0 - 2)}
CoreIdeal == {P3(1, 0 - 1, 0), P3(5, 3, 4), P3(5, 0 - 4, 3), P3(1, 0, 0 - 1), P3(1, 1, 0)}
Special == CoreInterior \cup CoreIdeal
SpecialSmall == Special \ {P3(5, 0, 4), P3(7, 2, 6), P3(5, 3, 0), P3(1, 0 - 1, 0), P3(5, 0 - 4, 3), P3(1, 1, 0)}
\* points whose pairs lie on circles of radius in the bands (Threshold/2, Threshold) and (Threshold, 2 Threshold) for
\* Threshold = 80 - where a wrong comparison with the threshold (diameter for radius, squared for plain, ...) shows:
\*   Poincare    (3,-2,-1)-(9,7,4) 44.3   (5,3,4)-(7,-2,-3) 53 (one ideal end)   (9,-4,-1)-(15,10,2) 76.8
\*               (7,-2,-3)-(13,3,4) 81.8  (9,4,1)-(11,-9,-2) 128   ideal-ideal (29,-21,-20)-(29,20,21) 41
\*   half-plane  (5,4,0)-(9,-4,-1) 56.1   (5,4,0)-(9,-8,-1) 76.1   (7,-6,-2)-(13,12,0) 81.2   (11,-6,-7)-(11,6,-2) 132
BandPts == {P3(3, 0 - 2, 0 - 1), P3(9, 7, 4), P3(5, 4, 0), P3(9, 0 - 8, 0 - 1), P3(9, 0 - 4, 0 - 1), P3(15, 10, 2), P3(7, 0 - 6, 0 - 2),
            P3(13, 12, 0), P3(7, 0 - 2, 0 - 3), P3(13, 3, 4), P3(9, 4, 1), P3(11, 0 - 9, 0 - 2), P3(11, 0 - 6, 0 - 7), P3(11, 6, 0 - 2),
            P3(5, 3, 4), P3(29, 0 - 21, 0 - 20), P3(29, 20, 21)}
\* radius^2 in [Threshold^2 / 4, 4 Threshold^2), by floor division
DgInBand(m, n) == DgW(m, n) # 0 /\ LET q == MNorm(n) \div (DgW(m, n) * DgW(m, n)) IN T2 \div 4 <= q /\ q < 4 * T2
BandPair(x, y) == \E m \in {"poincare", "halfplane"} :
                    DgDefined(m, x) /\ DgDefined(m, y) /\ DgInView(m, x) /\ DgInView(m, y) /\ DgInBand(m, DgNormal(x, y))
BandThird == {P3(5, 4, 0), P3(9, 7, 4), P3(13, 3, 4)}          \* Core = 4: third vertices of the triangles over a band pair
Universe == HC!Points                      \* the box universe: quantifier domain of the theorems
\* half-plane points (10,1), (10,3) (one vertical outside the default window), (8,1), (9,2), and a few others
WinPts == {P3(51, 50, 0 - 10), P3(55, 54, 0 - 10), P3(33, 32, 0 - 8), P3(43, 42, 0 - 9)}
WinOthers == {P3(1, 0, 0), P3(5, 0 - 3, 0), P3(1, 1, 0), P3(1, 0 - 1, 0)}
DefaultWindow == <<0 - 6, 6, 8>>
Windows == IF Core = 5 THEN {<<4, 14, 8>>, <<0 - 20, 20, 12>>} ELSE {DefaultWindow}
CONSTANT Shrinks      \* the factors q of Core = 7 (>= 30)
\* (1,0,0)-(5,-3,0): on the axis of the shrink; (3,2,2)-(9,7,4): on the vertical X = -2 of the half-plane
ShrinkPts == {P3(1, 0, 0), P3(5, 0 - 3, 0), P3(3, 2, 2), P3(9, 7, 4), P3(9, 4, 0 - 8)}
\* half-plane points (-7,1), (-7,3), (7,1), (7,3): in the margin left / right of the default window x in -6..6, each pair on
\* one vertical (straight pieces); the others inside the window (arcs to the margin points)
MarginPts == {P3(51, 49, 14), P3(59, 57, 14), P3(51, 49, 0 - 14), P3(59, 57, 0 - 14)}
MarginInside == {P3(1, 0, 0), P3(3, 2, 2), P3(9, 4, 0 - 8)}
ASSUME \A v \in MarginPts : DgInMargin("halfplane", v, <<0 - 6, 6, 8>>) /\ ~DgInWindow("halfplane", v, <<0 - 6, 6, 8>>)
Pts == CASE Core = 8 -> MarginPts \cup MarginInside [] Core = 7 -> ShrinkPts [] Core = 6 -> {P3(3, 2, 2), P3(5, 3, 4)} [] Core = 5 -> WinPts \cup WinOthers [] Core = 1 -> SpecialSmall [] Core = 2 -> Special [] Core = 3 -> Universe \cup Special \cup BandPts [] Core = 4 -> BandPts

\* Core = 6: every word of length <= MaxWord in three atoms that do not commute, on two points
WordAtoms == {[k |-> "lox", p |-> 2, q |-> 1], [k |-> "rot", a |-> 3, b |-> 4, c |-> 5], [k |-> "refl", v |-> P3(1, 2, 0)]}
Atoms == IF Core = 6 THEN WordAtoms ELSE Iso!ExactAtoms
ASSUME WordAtoms \subseteq Iso!ExactAtoms

T == DgWordVal(word)
TV(vs) == [i \in 1..Len(vs) |-> DgAct(T, vs[i])]
Range(s) == {s[i] : i \in 1..Len(s)}

Init == word = <<>> /\ verts = <<>> /\ last = [a |-> "init"] /\ win \in Windows
        /\ shrink \in (IF Core = 7 THEN Shrinks ELSE {0})

AddTransform(a) ==
  /\ verts = <<>> /\ Len(word) < MaxWord /\ shrink = 0
  /\ word' = Append(word, <<"L", a>>) /\ UNCHANGED <<verts, win, shrink>> /\ last' = [a |-> "add_transform"]
Precompose(a) ==
  /\ verts = <<>> /\ Len(word) < MaxWord /\ shrink = 0
  /\ word' = Append(word, <<"R", a>>) /\ UNCHANGED <<verts, win, shrink>> /\ last' = [a |-> "precompose_transform"]
AddVertex(v) ==
  /\ Len(verts) < MaxVerts /\ v \notin Range(verts)
  /\ DgSmall(DgAct(T, v))
  /\ (Core = 4 /\ Len(verts) >= 2) => (BandPair(verts[1], verts[2]) /\ v \in BandThird)
  \* custom windows: only points inside the window (half-plane), so that every scene is drawn in the half-plane
  /\ Core = 5 => (~DgAtInf(v) => DgInWindow("halfplane", v, win))
  \* small polygons: every edge (the closing one included) in the domain of the shrink description
  /\ Core = 7 => \A i \in 1..Len(verts) : DgShrinkOK(verts[i], v, shrink)
  /\ verts' = Append(verts, v) /\ UNCHANGED <<word, win, shrink>> /\ last' = [a |-> "add_vertex"]

Next == \/ \E a \in Atoms : AddTransform(a) \/ Precompose(a)
        \/ \E v \in Pts : AddVertex(v)

(***************************************************************************)
(* The geometry of a scene                                                  *)
(***************************************************************************)
NEdges(vs) == IF Len(vs) >= 3 THEN Len(vs) ELSE IF Len(vs) = 2 THEN 1 ELSE 0
Succ(vs, i) == IF i = Len(vs) THEN 1 ELSE i + 1

InWin(m, v) == IF Core = 8 THEN DgInMargin(m, v, win) ELSE DgInWindow(m, v, win)
ModelOK(m, tv) ==
  /\ \A i \in 1..Len(tv) : DgDefined(m, tv[i]) /\ InWin(m, tv[i])
  /\ \A i \in 1..NEdges(tv) : DgKindDecided(m, DgNormal(tv[i], tv[Succ(tv, i)]))

ModelGeom(m, tv) ==
  IF ~ModelOK(m, tv) THEN [ok |-> FALSE]
  ELSE [ok |-> TRUE,
        vc |-> [i \in 1..Len(tv) |-> DgRat(DgCoord(m, tv[i]))],
        edges |-> [i \in 1..NEdges(tv) |-> DgEdge(m, tv[i], tv[Succ(tv, i)])]]

IsHoro(tv) == Len(tv) = 2 /\ DgIdeal(tv[1]) /\ ~DgIdeal(tv[2])
HoroGeom(m, tv, w) ==
  IF m = "klein" \/ ~IsHoro(tv) \/ ~(DgDefined(m, tv[2]) /\ InWin(m, tv[2])) \/ (~DgAtInf(tv[1]) /\ ~InWin(m, tv[1]))
  THEN [ok |-> FALSE]
  ELSE LET h == DgHoro(m, tv[1], tv[2])
       \* a horosphere of radius >= Threshold is replaced by a horizontal line by the drawing code: outside the domain
       \* a centre that is moved to infinity by a non-trivial transformation is at infinity only up to rounding
       IN IF (h.kind = "circle" /\ ~RLess(h.r, RInt(Threshold))) \/ (h.kind = "flat" /\ w # <<>>) THEN [ok |-> FALSE]
          ELSE [ok |-> TRUE, h |-> h]

\* a geodesic of the half-plane with one end at infinity (untransformed: the end is at infinity exactly): the vertical
\* half-line over the other end, drawn from the boundary to beyond the window
VLine(tv, w) ==
  IF Len(tv) = 2 /\ w = <<>> /\ DgIdeal(tv[1]) /\ DgIdeal(tv[2]) /\ (DgAtInf(tv[1]) # DgAtInf(tv[2]))
  THEN LET f == IF DgAtInf(tv[1]) THEN tv[2] ELSE tv[1]
       IN IF InWin("halfplane", f) THEN [ok |-> TRUE, x |-> DgRat(DgCoord("halfplane", f))[1]] ELSE [ok |-> FALSE]
  ELSE [ok |-> FALSE]

Scene(w, vs) ==
  LET tv == [i \in 1..Len(vs) |-> DgAct(DgWordVal(w), vs[i])] IN
  [word |-> w, verts |-> vs, tv |-> tv, ideal |-> [i \in 1..Len(vs) |-> DgIdeal(tv[i])],
   T |-> DgWordVal(w),
   geom |-> [m \in DrawModels |-> ModelGeom(m, tv)],
   horo |-> [m \in DrawModels |-> HoroGeom(m, tv, w)],
   vline |-> VLine(tv, w), win |-> win]

\* emitted once per scene (an INVARIANT: evaluated on every distinct state, and in simulation on the visited states)
\* a small polygon: the original vertices, the factor, the exact half-plane coordinates of the shrunk vertices and the
\* kind of piece every edge must be drawn with (in Poincare coordinates the shrunk vertices are not rational numbers
\* of 32-bit size: the replay names them through Point.coords, property C01)
SmallScene(vs, q) ==
  [small |-> TRUE, verts |-> vs, shrink |-> q, word |-> <<>>,
   hp |-> [i \in 1..Len(vs) |-> DgShrinkCoordHP(vs[i], q)],
   kinds |-> [m \in DrawModels |-> [i \in 1..NEdges(vs) |-> DgShrinkPieceKind(m, vs[i], vs[Succ(vs, i)], q)]]]
EmitScene == verts = <<>> \/ (IF shrink = 0 THEN PrintT("EMIT " \o ToJson(Scene(word, verts)))
                               ELSE Len(verts) < 3 \/ PrintT("EMIT " \o ToJson(SmallScene(verts, shrink))))
View == <<word, verts, win, shrink>>

(***************************************************************************)
(* Theorems checked on every scene                                          *)
(***************************************************************************)
TVerts == TV(verts)
TinyScene == \A i \in 1..Len(verts) : DgTiny(TVerts[i])
\* the transformed box universe, as far as its entries stay small
TU == {z \in {DgAct(T, u) : u \in Universe} : DgTiny(z)}

VerticesArePoints == \A i \in 1..Len(verts) : DgIsPoint(verts[i]) /\ DgIsPoint(TVerts[i])
CoordsAgree == \A i \in 1..Len(verts) : DgTiny(verts[i]) => DgCoordsAgree(verts[i])

EdgesAreGeodesics ==
  TinyScene =>
    LET tu == TU
        tv == TVerts
    \* the edges at the last vertex: the others were checked in the scene this one extends
    IN \A i \in {j \in 1..NEdges(verts) : j >= Len(verts) - 1} : \A m \in DrawModels :
         LET x == tv[i]
             y == tv[Succ(verts, i)]
         IN (DgDefined(m, x) /\ DgDefined(m, y)) => DgEdgeTheorem(m, x, y, tu) /\ DgDescriptorTheorem(m, x, y)

\* the description of shrunk objects agrees with the integer image where that fits into 32 bits
ShrinkLaws == Core = 7 => \A i \in 1..NEdges(verts) : \A q \in {2, 3} : DgShrinkLaws(verts[i], verts[Succ(verts, i)], q)

\* the normal of the image edge is the image of the normal: the drawing of the transformed object is the
\* transformed geodesic
Equivariant ==
  \A i \in 1..NEdges(verts) :
     DgNormal(TVerts[i], TVerts[Succ(verts, i)]) = Prim(MatVec(T[1], DgNormal(verts[i], verts[Succ(verts, i)])))

HorospheresAreCircles ==
  (TinyScene /\ IsHoro(TVerts)) => \A m \in {"poincare", "halfplane"} :
     DgDefined(m, TVerts[2]) => DgHoroTheorem(m, TVerts[1], TVerts[2], TU)

VerticalsAreGeodesics ==
  VLine(TVerts, word).ok =>
    \A z \in TU : (~DgAtInf(z) /\ MDot(DgNormal(TVerts[1], TVerts[2]), z) = 0) => DgRat(DgCoord("halfplane", z))[1] = VLine(TVerts, word).x

\* the special points produce every kind of edge in both conformal models
KindsCovered ==
  \A m \in {"poincare", "halfplane"} : \A k \in {"arc", "chord", "line"} :
     \E x, y \in SpecialSmall : x # y /\ DgDefined(m, x) /\ DgDefined(m, y) /\ DgInView(m, x) /\ DgInView(m, y)
                           /\ DgKind(m, DgNormal(x, y)) = k
ASSUME KindsCovered
ASSUME PrintT("DEFAULTS " \o ToJson([model |-> DgDefaultModel, word |-> <<>>, win |-> DefaultWindow]))
\* ... and (for the library's threshold 80) the band points put edges on both sides of the threshold, within a factor 2
BandsCovered ==
  Threshold = 80 =>
    \A m \in {"poincare", "halfplane"} : \A k \in {"arc", "chord"} :
       \E x, y \in BandPts : x # y /\ DgDefined(m, x) /\ DgDefined(m, y) /\ DgInView(m, x) /\ DgInView(m, y)
                              /\ DgInBand(m, DgNormal(x, y)) /\ DgKind(m, DgNormal(x, y)) = k
ASSUME BandsCovered
=============================================================================
