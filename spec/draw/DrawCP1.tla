------------------------------- MODULE DrawCP1 -------------------------------
(***************************************************************************)
(* Extension check X03: CP1Drawing (draw_point, draw_disk).  No docstrings; *)
(* CONTRACT (from complex_projective.CP1Disk / CP1Point and the other       *)
(* drawings): points of CP^1 = C u {oo} are drawn at their affine           *)
(* coordinate z = x1 / x0 (as the point (Re z, Im z)) after the drawing's   *)
(* Moebius transformation; a disk is drawn as its boundary circle (centre,  *)
(* radius) and                                                              *)
(*   - with facecolor "none" (default): one circle of the collection per    *)
(*     disk, whether or not the disk contains oo;                           *)
(*   - with a facecolor: disks not containing oo are circles of the         *)
(*     collection; a disk containing oo is (draw_nonaffine = True) an       *)
(*     annulus around the same circle whose hole is the circle and whose    *)
(*     outer radius exceeds the window, or (draw_nonaffine = False) absent. *)
(*                                                                         *)
(* Exact model.  A disk is [c, r, out]: the circle |z - c| = r (c a         *)
(* Gaussian rational <<re, im, den>>, r a positive rational) and the side:  *)
(* out = FALSE the bounded side, TRUE the side containing oo.  The          *)
(* drawing's transformation is a word in                                    *)
(*   shift(t): z -> z + t    scale(k): z -> k z (k integer # 0)             *)
(*   inv: z -> 1/z           (0 not on the circle)                          *)
(* with closed-form images (1/z maps the circle to centre conj(c)/(|c|^2 -  *)
(* r^2), radius r/||c|^2 - r^2|; the image contains oo iff the disk         *)
(* contains 0).  TLC checks on every state, with the 2 x 2 Gaussian matrix  *)
(* of the word acting on homogeneous rows (x0, x1) as v -> v M (library     *)
(* convention), that four points of the original circle land on the image   *)
(* circle and that an interior witness of the original disk lands on the    *)
(* side the state says.                                                     *)
(***************************************************************************)
EXTENDS Gauss, Rat, Sequences, FiniteSets, TLC, Json

CONSTANTS CB,          \* centres: Gaussian integers with parts in -CB..CB
          RMax,        \* radii 1..RMax
          MaxWordC     \* length of the transformation word

VARIABLES disk0,       \* the disk that is drawn: [c |-> <<re, im>>, r |-> int, out |-> BOOLEAN]
          cword        \* the drawing's transformation: sequence of atoms

CAtoms == {[k |-> "shift", t |-> <<1, 0>>], [k |-> "shift", t |-> <<0 - 2, 1>>], [k |-> "scale", f |-> 2], [k |-> "scale", f |-> 0 - 1],
           [k |-> "inv"]}
\* library matrices (rows; v -> v M; z = x1/x0): z+t: [[1, t],[0, 1]]; k z: [[1, 0],[0, k]]; 1/z: [[0, 1],[1, 0]]
CMat(a) == CASE a.k = "shift" -> <<<<GOne, a.t>>, <<GZero, GOne>>>>
             [] a.k = "scale" -> <<<<GOne, GZero>>, <<GZero, GInt(a.f)>>>>
             [] a.k = "inv" -> <<<<GZero, GOne>>, <<GOne, GZero>>>>
RECURSIVE CWordMat(_)
\* the word acts letter by letter, first letter first: v -> v M1 M2 ...
CWordMat(w) == IF w = <<>> THEN GId2 ELSE GMatMul(CMat(Head(w)), CWordMat(Tail(w)))

(***************************************************************************)
(* exact disks: centre <<re, im>> rationals, radius rational                *)
(***************************************************************************)
CR(c) == <<RInt(c[1]), RInt(c[2])>>
CNormSq(c) == RAdd(RSq(c[1]), RSq(c[2]))
Apply(a, d) ==
  CASE a.k = "shift" -> [c |-> <<RAdd(d.c[1], RInt(a.t[1])), RAdd(d.c[2], RInt(a.t[2]))>>, r |-> d.r, out |-> d.out]
    [] a.k = "scale" -> [c |-> <<RMul(RInt(a.f), d.c[1]), RMul(RInt(a.f), d.c[2])>>, r |-> RMul(RAbs(RInt(a.f)), d.r), out |-> d.out]
    [] a.k = "inv" ->
         LET den == RSub(CNormSq(d.c), RSq(d.r))                     \* |c|^2 - r^2 # 0
             has0 == IF d.out THEN RSgn(den) > 0 ELSE RSgn(den) < 0     \* the disk contains 0
         IN [c |-> <<RDiv(d.c[1], den), RDiv(RNeg(d.c[2]), den)>>, r |-> RDiv(d.r, RAbs(den)), out |-> has0]
Enabled(a, d) == a.k = "inv" => ~RIsZero(RSub(CNormSq(d.c), RSq(d.r)))
RECURSIVE Img(_, _)
Img(w, d) == IF w = <<>> THEN d ELSE Img(Tail(w), Apply(Head(w), d))
RECURSIVE WordOK(_, _)
WordOK(w, d) == IF w = <<>> THEN TRUE ELSE (Enabled(Head(w), d) /\ WordOK(Tail(w), Apply(Head(w), d)))

D0 == [c |-> CR(disk0.c), r |-> RInt(disk0.r), out |-> disk0.out]
Image == Img(cword, D0)

Init == /\ disk0 \in [c : GBox(CB), r : 1..RMax, out : BOOLEAN]
        /\ cword = <<>>
Extend(a) == /\ Len(cword) < MaxWordC /\ WordOK(Append(cword, a), D0)
             /\ cword' = Append(cword, a) /\ UNCHANGED disk0
Next == \E a \in CAtoms : Extend(a)

(***************************************************************************)
(* Theorems: the matrix of the word really does this                        *)
(***************************************************************************)
\* image of the affine Gaussian integer z under the matrix: the row (1, z) M = (x0, x1); z' = x1 / x0 as <<re, im>> rationals
MobiusOf(M, z) ==
  LET v == GVecMat(<<GOne, z>>, M)
      n == GMul(v[2], GConj(v[1]))
      d == GNorm(v[1])
  IN IF d = 0 THEN <<>> ELSE <<R(n[1], d), R(n[2], d)>>
\* p + q over the least common denominator (RAdd multiplies the denominators: 32-bit overflow)
CLcm(a, b) == (a \div Gcd(a, b)) * b
CRAdd(p, q) == LET l == CLcm(p[2], q[2]) IN R(p[1] * (l \div p[2]) + q[1] * (l \div q[2]), l)
DistSq(p) == CRAdd(RSq(RSub(p[1], Image.c[1])), RSq(RSub(p[2], Image.c[2])))
OnImageCircle(p) == DistSq(p) = RSq(Image.r)
InsideImageCircle(p) == RLess(DistSq(p), RSq(Image.r))
BoundaryPts == {GAdd(disk0.c, <<disk0.r, 0>>), GAdd(disk0.c, <<0 - disk0.r, 0>>), GAdd(disk0.c, <<0, disk0.r>>), GAdd(disk0.c, <<0, 0 - disk0.r>>)}
\* a point of the drawn disk: the centre (bounded side), a point at distance 2 r from the centre (side of oo)
Witness == IF disk0.out THEN GAdd(disk0.c, <<2 * disk0.r, 0>>) ELSE disk0.c

CircleMapped == LET M == CWordMat(cword) IN
                \A z \in BoundaryPts : MobiusOf(M, z) = <<>> \/ OnImageCircle(MobiusOf(M, z))
SideMapped == LET M == CWordMat(cword)
                  w == MobiusOf(M, Witness)
              IN IF w = <<>> THEN Image.out                     \* the witness goes to oo: the image contains oo
                 ELSE Image.out <=> ~InsideImageCircle(w)
PositiveRadius == RSgn(Image.r) > 0
\* complement: same circle, other side, and it commutes with the transformation
ComplementCommutes == Img(cword, [D0 EXCEPT !.out = ~D0.out]) = [Image EXCEPT !.out = ~Image.out]

IsReal == disk0.c[2] = 0 /\ \A i \in 1..Len(cword) : cword[i].k = "shift" => cword[i].t[2] = 0
EmitCP1 == PrintT("EMIT " \o ToJson([disk |-> disk0, word |-> cword, M |-> CWordMat(cword), image |-> Image, real |-> IsReal,
                                        centre |-> IF D0.out THEN <<>> ELSE MobiusOf(CWordMat(cword), disk0.c),
                                        pts |-> [z \in BoundaryPts |-> MobiusOf(CWordMat(cword), z)]]))
=============================================================================
