------------------------------ MODULE DrawProj ------------------------------
(***************************************************************************)
(* Property C19, projective drawings.  A scene is a standard affine chart   *)
(* (0-based index, as in the library), a projective transformation of the   *)
(* drawing (integer 3x3 matrix M acting on column vectors) and a list of    *)
(* integer vectors, read as a composite point, a segment (2) or a polygon   *)
(* (>= 3).  The artist must sit at the affine coordinates of M v in the     *)
(* chart:  (w_a / w_i, w_b / w_i), a < b the two indices other than i.      *)
(* TLC checks on every scene that these coordinates determine the point     *)
(* (round trip through the chart), that the charts are related by the       *)
(* transition maps, and that collinear points stay collinear.               *)
(* The table of dimensions that a 2-dimensional drawing must reject is      *)
(* printed for replay.                                                      *)
(***************************************************************************)
EXTENDS IntLinAlg, Naturals, FiniteSets, TLC, Json

CONSTANTS Preset,       \* TRUE: only the fixed polygons through the line at infinity (PresetPolys), default drawing
          OnlyDefault,  \* TRUE: only the drawing constructed without arguments (chart 0, identity)
          BP,           \* bound on the entries of the vectors
          MaxVertsP     \* maximal number of vectors of a scene

VARIABLES chart, tm, pverts,
          rep        \* the scalar by which the representatives handed to the library are multiplied (free: same points)

PRow(a, b, c) == <<a, b, c>>
PTransforms == {IdMat(3),
                <<PRow(1, 1, 0), PRow(0, 1, 0), PRow(0, 0, 1)>>,              \* a shear
                <<PRow(0, 0, 1), PRow(1, 0, 0), PRow(0, 1, 0)>>,              \* cyclic permutation of the axes
                <<PRow(2, 1, 0), PRow(0, 1, 1), PRow(1, 0, 3)>>,              \* general position, det 7
                <<PRow(1, 0, 0), PRow(0, 0 - 1, 0), PRow(1, 1, 2)>>,           \* moves the line at infinity
                <<PRow(0 - 2, 0 - 1, 0), PRow(0, 0 - 1, 0 - 1), PRow(0 - 1, 0, 0 - 3)>>}   \* the general one, negated: the same map
Reps == {1, 3, 0 - 1, 0 - 2}
PVecs == {v \in Box(3, BP) : IsPrim(v)}

PImage(M, v) == MatVec(M, v)
PInChart(w, i) == w[i + 1] # 0
POthers(i) == CASE i = 0 -> <<2, 3>> [] i = 1 -> <<1, 3>> [] i = 2 -> <<1, 2>>
PChart(w, i) == <<R(w[POthers(i)[1]], w[i + 1]), R(w[POthers(i)[2]], w[i + 1])>>
\* homogeneous vector of the affine point a of chart i
PFromChart(a, i) == ClearDen(CASE i = 0 -> <<ROne, a[1], a[2]>> [] i = 1 -> <<a[1], ROne, a[2]>> [] i = 2 -> <<a[1], a[2], ROne>>)

\* polygons through the line at infinity of chart 0 (signs of the chart coordinate ++--+, +-+, --++, +--), with long
\* and with SHORT crossing edges (chart points 1/6 .. 1/4 apart)
PresetPolys == {<<PRow(3, 1, 1), PRow(2, 3, 1), PRow(0 - 1, 1, 0 - 2), PRow(0 - 2, 0 - 1, 0 - 2), PRow(3, 2, 3)>>,
                <<PRow(2, 1, 0), PRow(0 - 3, 0 - 1, 0 - 1), PRow(1, 0 - 1, 1)>>,
                <<PRow(0 - 1, 1, 0), PRow(0 - 2, 0, 1), PRow(3, 1, 2), PRow(1, 2, 0 - 1)>>,
                <<PRow(1, 0, 0), PRow(0 - 1, 1, 1), PRow(0 - 3, 1, 0 - 2)>>}
Init == IF Preset THEN chart = 0 /\ tm = IdMat(3) /\ rep \in {1, 0 - 2} /\ pverts \in PresetPolys
        ELSE /\ chart \in 0..2 /\ tm \in PTransforms /\ pverts = <<>> /\ rep \in Reps
             /\ (OnlyDefault => (chart = 0 /\ tm = IdMat(3)))
AddVec(v) == /\ ~Preset /\ Len(pverts) < MaxVertsP /\ \A j \in 1..Len(pverts) : pverts[j] # v
             /\ PInChart(PImage(tm, v), chart)
             /\ pverts' = Append(pverts, v) /\ UNCHANGED <<chart, tm, rep>>
Next == \E v \in PVecs : AddVec(v)

Img(j) == PImage(tm, pverts[j])
PDet3(a, b, c) == a[1] * (b[2] * c[3] - b[3] * c[2]) - a[2] * (b[1] * c[3] - b[3] * c[1]) + a[3] * (b[1] * c[2] - b[2] * c[1])
PCross2(p, q, r) == RSub(RMul(RSub(q[1], p[1]), RSub(r[2], p[2])), RMul(RSub(q[2], p[2]), RSub(r[1], p[1])))

RoundTrip == \A j \in 1..Len(pverts) : PFromChart(PChart(Img(j), chart), chart) = Prim(Img(j))
Transition == \A j \in 1..Len(pverts) : \A i \in 0..2 :
                PInChart(Img(j), i) => PChart(PFromChart(PChart(Img(j), chart), chart), i) = PChart(Img(j), i)
\* (triples with the last vector: the others were checked in the scene this one extends)
Collinear == \A a, b \in 1..Len(pverts) : \A c \in {Len(pverts)} :
               (PDet3(Img(a), Img(b), Img(c)) = 0) <=> RIsZero(PCross2(PChart(Img(a), chart), PChart(Img(b), chart), PChart(Img(c), chart)))
\* the transformation is invertible and maps lines to lines
Invertible == PDet3(tm[1], tm[2], tm[3]) # 0
LinesToLines == \A a, b \in 1..Len(pverts) : \A c \in {Len(pverts)} : (PDet3(pverts[a], pverts[b], pverts[c]) = 0) <=> (PDet3(Img(a), Img(b), Img(c)) = 0)

\* homogeneous coordinates are defined up to a non-zero scalar: chart coordinates do not see it
ScaleFree == \A j \in 1..Len(pverts) : \A c \in Reps \cup {2, 0 - 3} :
               PChart(VScale(c, Img(j)), chart) = PChart(Img(j), chart) /\ PChart(PImage(MatScale(c, tm), pverts[j]), chart) = PChart(Img(j), chart)
\* the polygon lies in the affine chart (no edge through the line at infinity) iff the chart coordinate has one sign;
\* a polygon with both signs "crosses infinity" (draw_polygon(assume_affine=False) draws it as two unbounded patches)
OneSign == \/ \A j \in 1..Len(pverts) : Img(j)[chart + 1] > 0
           \/ \A j \in 1..Len(pverts) : Img(j)[chart + 1] < 0

(***************************************************************************)
(* A polygon through the line at infinity of the chart, drawn with          *)
(* assume_affine = False.  With the representatives as given, the edge      *)
(* between consecutive vectors is the set of their non-negative             *)
(* combinations; it passes through infinity iff the chart coordinates have  *)
(* opposite signs ("crossing edge").  With exactly two crossing edges the   *)
(* vertices fall into two cyclic runs of constant sign; the part of the     *)
(* polygon in the chart is two unbounded pieces, each bounded by one run,   *)
(* by the two rays that continue the crossing edges beyond the run's end    *)
(* vertices AWAY from the vertex on the other side (PRayLaw), and by        *)
(* infinity.  What the drawing shows (code: draw_nonaff_polygon) is, for    *)
(* each run, one closed polygon: the run in order, then two "dummy"         *)
(* vertices, one on each of the two rays, outside the window, the first     *)
(* after the run's last vertex on ITS ray.                                  *)
(***************************************************************************)
PN == Len(pverts)
PSucc(i) == IF i = PN THEN 1 ELSE i + 1
PPred(i) == IF i = 1 THEN PN ELSE i - 1
CSign(i) == Sgn(Img(i)[chart + 1])
Crossings == {i \in 1..PN : CSign(i) # CSign(PSucc(i))}              \* edge i -> i+1 crosses
TwoCrossings == PN >= 3 /\ Cardinality(Crossings) = 2
\* the run that starts after crossing edge i: vertices PSucc(i), ... up to the next crossing
RECURSIVE RunFrom(_)
RunFrom(i) == IF i \in Crossings THEN <<i>> ELSE <<i>> \o RunFrom(PSucc(i))
Runs == [i \in Crossings |-> [verts |-> RunFrom(PSucc(i)), before |-> i, after |-> PSucc(RunFrom(PSucc(i))[Len(RunFrom(PSucc(i)))])]]
\* a point of the crossing edge e -> f on e's side of infinity lies on the line through the chart points, beyond e away from f
PRayLaw(e, f) ==
  LET ce == Img(e)[chart + 1]
      cf == Img(f)[chart + 1]
      u == VAdd(VScale(2 * Abs(cf), Img(e)), VScale(Abs(ce), Img(f)))
      a == PChart(Img(e), chart)
      b == PChart(Img(f), chart)
      p == PChart(u, chart)
  IN /\ Sgn(u[chart + 1]) = Sgn(ce)
     /\ RIsZero(PCross2(a, b, p))
     /\ RSgn(RAdd(RMul(RSub(p[1], a[1]), RSub(a[1], b[1])), RMul(RSub(p[2], a[2]), RSub(a[2], b[2])))) > 0
CrossingLaws ==
  TwoCrossings =>
    /\ \A i \in Crossings : PRayLaw(i, PSucc(i)) /\ PRayLaw(PSucc(i), i)
    \* the two runs partition the vertices, each has constant sign, the signs differ
    /\ \A i, j \in Crossings : i # j =>
          /\ {Runs[i].verts[k] : k \in 1..Len(Runs[i].verts)} \cup {Runs[j].verts[k] : k \in 1..Len(Runs[j].verts)} = 1..PN
          /\ Len(Runs[i].verts) + Len(Runs[j].verts) = PN
          /\ CSign(Runs[i].verts[1]) # CSign(Runs[j].verts[1])
    /\ \A i \in Crossings : \A k \in 1..Len(Runs[i].verts) : CSign(Runs[i].verts[k]) = CSign(Runs[i].verts[1])
CrossInfo == IF TwoCrossings /\ chart = 0 THEN [ok |-> TRUE, runs |-> {Runs[i] : i \in Crossings}] ELSE [ok |-> FALSE]

\* ProjectiveDrawing() without arguments: chart 0, identity transformation
DefaultChart == 0
IsDefault == chart = DefaultChart /\ tm = IdMat(3)

EmitProj == pverts = <<>> \/ PrintT("EMIT " \o ToJson([chart |-> chart, M |-> tm, verts |-> pverts, rep |-> rep, onesign |-> OneSign, default |-> IsDefault, cross |-> CrossInfo,
                                                          aff |-> [j \in 1..Len(pverts) |-> PChart(Img(j), chart)]]))

(***************************************************************************)
(* Dimensions: a drawing of dimension 2 accepts exactly objects of dimension 2 *)
(***************************************************************************)
Rejected(drawingDim, objectDim) == objectDim # drawingDim
ASSUME PrintT("DIMS " \o ToJson([d \in 1..3 |-> Rejected(2, d)]))
=============================================================================
