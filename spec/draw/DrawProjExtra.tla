---------------------------- MODULE DrawProjExtra ----------------------------
(***************************************************************************)
(* Extension check X03: ProjectiveDrawing.draw_line / draw_curve and the    *)
(* 3-dimensional drawings (Drawing3D, ProjectiveDrawing3D.draw_point /      *)
(* draw_curve).  No docstrings; the CONTRACT is the one of the documented   *)
(* 2-dimensional methods (C19): the artist sits at the affine coordinates,  *)
(* in the drawing's chart (chart_index), of the vectors after the drawing's *)
(* projective transformation.                                               *)
(*   draw_curve: a polyline through the chart points IN THE GIVEN ORDER;    *)
(*   draw_point: markers at the chart points;                               *)
(*   draw_line(pair): a straight segment on the line through the two chart  *)
(*     points that contains the whole part of the line inside the window    *)
(*     (xlim x ylim, default (-5, 5)^2) - guaranteed when the two points    *)
(*     lie in the window, which is the domain here: the segment passes      *)
(*     through both points of the line on the frame of the window.          *)
(*   Drawing3D accepts (ax, fig) like the 2-dimensional Drawing.            *)
(* A scene: dimension PD (2 or 3), chart, integer matrix M acting on column *)
(* vectors, a scalar rep multiplying the representatives, a list of         *)
(* vectors.  TLC checks: chart coordinates determine the point (round       *)
(* trip), do not see scalars, and (PD = 2) the frame points are on the      *)
(* line, on the frame, and enclose the two points.                          *)
(***************************************************************************)
EXTENDS IntLinAlg, Naturals, FiniteSets, TLC, Json

CONSTANTS PD,           \* dimension: 2 or 3
          BP,           \* bound on the entries of the vectors
          MaxVecs,      \* maximal number of vectors of a scene
          WinR          \* the window is (-WinR, WinR)^2 (PD = 2)

VARIABLES chart, tm, rep, vecs

Row3(a, b, c) == <<a, b, c>>
Row4(a, b, c, d) == <<a, b, c, d>>
Transforms ==
  IF PD = 2 THEN {IdMat(3), <<Row3(2, 1, 0), Row3(0, 1, 1), Row3(1, 0, 3)>>, <<Row3(0 - 1, 0, 0), Row3(0, 1, 0), Row3(0 - 1, 1, 0 - 2)>>}
  ELSE {IdMat(4), <<Row4(1, 0, 0, 1), Row4(0, 2, 0, 0), Row4(1, 0, 0 - 1, 0), Row4(0, 1, 0, 1)>>,
        <<Row4(0, 1, 0, 0), Row4(0 - 1, 0, 0, 0), Row4(0, 0, 0, 1), Row4(0, 0, 1, 1)>>}
Reps == {1, 0 - 2}
Vecs == {v \in Box(PD + 1, BP) : IsPrim(v)}

Image(v) == MatVec(tm, v)
InChart(w, i) == w[i + 1] # 0
\* affine coordinates in chart i: the other coordinates, in order, divided by coordinate i
Others(i) == [j \in 1..PD |-> IF j <= i THEN j ELSE j + 1]
Chart(w, i) == [j \in 1..PD |-> R(w[Others(i)[j]], w[i + 1])]
FromChart(a, i) == ClearDen([r \in 1..(PD + 1) |-> IF r = i + 1 THEN ROne ELSE a[IF r <= i THEN r ELSE r - 1]])

Init == chart \in 0..PD /\ tm \in Transforms /\ rep \in Reps /\ vecs = <<>>
Aff(j) == Chart(Image(vecs[j]), chart)
RatLess(a, b) == RLess(a, b)
InsideWindow(a) == \A k \in 1..2 : RatLess(RInt(0 - WinR), a[k]) /\ RatLess(a[k], RInt(WinR))
AddVec(v) == /\ Len(vecs) < MaxVecs
             /\ InChart(Image(v), chart)
             \* distinct chart points; (PD = 2) the first two, which define the line, inside the window
             /\ \A j \in 1..Len(vecs) : Chart(Image(v), chart) # Aff(j)
             /\ (PD = 2 /\ Len(vecs) < 2) => InsideWindow(Chart(Image(v), chart))
             /\ vecs' = Append(vecs, v) /\ UNCHANGED <<chart, tm, rep>>
Next == \E v \in Vecs : AddVec(v)

(***************************************************************************)
(* The line through the first two points and the frame of the window        *)
(***************************************************************************)
\* points where the line a + t (b - a) meets the frame
FramePoints(a, b) ==
  LET u == <<RSub(b[1], a[1]), RSub(b[2], a[2])>>
      W == RInt(WinR)
      At(k, side) ==          \* the point of the line with coordinate k equal to side
        LET t == RDiv(RSub(side, a[k]), u[k])
        IN <<RAdd(a[1], RMul(t, u[1])), RAdd(a[2], RMul(t, u[2]))>>
      OnFrame(p) == \A k \in 1..2 : RLeq(RNeg(W), p[k]) /\ RLeq(p[k], W)
  IN {p \in {At(k, side) : k \in {j \in 1..2 : ~RIsZero(u[j])}, side \in {W, RNeg(W)}} : OnFrame(p)}
Cross2(p, q, r) == RSub(RMul(RSub(q[1], p[1]), RSub(r[2], p[2])), RMul(RSub(q[2], p[2]), RSub(r[1], p[1])))
Dot2(p, q, r) == RAdd(RMul(RSub(q[1], p[1]), RSub(r[1], p[1])), RMul(RSub(q[2], p[2]), RSub(r[2], p[2])))

LineLaws ==
  (PD = 2 /\ Len(vecs) >= 2) =>
    LET a == Aff(1)
        b == Aff(2)
        F == FramePoints(a, b)
    IN /\ Cardinality(F) = 2
       /\ \A p \in F : RIsZero(Cross2(a, b, p)) /\ \E k \in 1..2 : RAbs(p[k]) = RInt(WinR)
       \* a and b lie strictly between the two frame points
       /\ \A p, q \in F : p # q => RSgn(Dot2(a, p, q)) < 0 /\ RSgn(Dot2(b, p, q)) < 0
RoundTrip == \A j \in 1..Len(vecs) : FromChart(Aff(j), chart) = Prim(Image(vecs[j]))
ScaleFree == \A j \in 1..Len(vecs) : \A c \in Reps \cup {3} : Chart(VScale(c, Image(vecs[j])), chart) = Aff(j)

EmitProjX == vecs = <<>> \/ PrintT("EMIT " \o ToJson([dim |-> PD, chart |-> chart, M |-> tm, rep |-> rep, vecs |-> vecs,
                                                        aff |-> [j \in 1..Len(vecs) |-> Aff(j)],
                                                        \* chart 0 coordinates (only to NAME a defect: a drawing that ignores its chart)
                                                        aff0 |-> IF \A j \in 1..Len(vecs) : InChart(Image(vecs[j]), 0)
                                                                 THEN [j \in 1..Len(vecs) |-> Chart(Image(vecs[j]), 0)] ELSE <<>>,
                                                        frame |-> IF PD = 2 /\ Len(vecs) >= 2 THEN FramePoints(Aff(1), Aff(2)) ELSE {}]))
=============================================================================
