------------------------------ MODULE DrawExtra ------------------------------
(***************************************************************************)
(* Extension check X03: drawing of boundary arcs, horocyclic arcs and of    *)
(* the hyperbolic plane itself (HyperbolicDrawing.draw_boundary_arc,        *)
(* draw_horoarc, draw_plane).  None of the three has a docstring; the       *)
(* CONTRACT below is what the classes they draw (hyperbolic.BoundaryArc,    *)
(* HorosphereArc) and the other draw_* methods of the class (C19) let a     *)
(* caller rely on: "the artist added to drawing.ax has the geometry of the  *)
(* object in the drawing's model after the drawing's transformation".       *)
(*                                                                         *)
(* BOUNDARY ARC.  BoundaryArc(e1, e2) is the COUNTER-CLOCKWISE arc of the   *)
(* circle at infinity from e1 to e2 (BoundaryArc stores an orientation      *)
(* point so that det(e1, e2, o) > 0 and circle_parameters returns the       *)
(* angles of e1, e2 in this order, "always counter-clockwise");             *)
(* flip_orientation() replaces it by the complementary arc; an isometry T   *)
(* maps it to the arc with the end points T e1, T e2, swapped iff T         *)
(* reverses the orientation (det T < 0).  Poincare / Klein: an arc of the   *)
(* unit circle (centre 0, radius 1), counter-clockwise from the first to    *)
(* the second end.  Half-plane: the boundary is the real axis, traversed    *)
(* from left to right, the arc is the interval [X(a), X(b)] or, when it     *)
(* passes through infinity, the two rays [X(a), right edge of the window)   *)
(* and (left edge, X(b)] at height 0.                                       *)
(*                                                                         *)
(* HOROCYCLIC ARC.  HorosphereArc(xi, p1, p2), p1 and p2 on one horocycle   *)
(* centred at the ideal point xi, is the arc of the horocycle between p1    *)
(* and p2 that does NOT pass through xi (circle_parameters: arc_include     *)
(* ... then flipped).  Poincare / half-plane (Klein raises DrawingError):   *)
(* an arc of the circle of the horocycle (DrawGeom!DgHoro), from the end    *)
(* point that starts the counter-clockwise arc avoiding the point of        *)
(* tangency to the other one; xi at infinity in the half-plane: the         *)
(* horizontal segment; radius >= Threshold: the chord (as for polygons).    *)
(*                                                                         *)
(* PLANE.  draw_plane adds the model's region: the unit disc (Poincare,     *)
(* Klein), the part y >= 0 of the window (half-plane: a rectangle whose     *)
(* lower side is the real axis and which covers the window).                *)
(*                                                                         *)
(* Counter-clockwise order of three points of a convex closed curve of the  *)
(* Klein disc is the sign of the determinant of their homogeneous           *)
(* coordinates (x1 > 0); the theorems below, checked by TLC, say that the   *)
(* Poincare disc and the half-plane show the same cyclic order, that the    *)
(* rule for the end points of the image arc is equivariant, and that the    *)
(* half-plane intervals are the arc.                                        *)
(***************************************************************************)
EXTENDS DrawGeom

XDet3(a, b, c) == a[1] * (b[2] * c[3] - b[3] * c[2]) - a[2] * (b[1] * c[3] - b[3] * c[1]) + a[3] * (b[1] * c[2] - b[2] * c[1])
XMatDetSign(T) == Sgn(XDet3(T[1][1], T[1][2], T[1][3]))              \* T = <<M, d>>, d > 0

(***************************************************************************)
(* Boundary arcs                                                            *)
(***************************************************************************)
\* z (ideal) lies on the closed counter-clockwise arc from a to b (a # b ideal)
XInArc(a, b, z) == z = a \/ z = b \/ XDet3(a, z, b) > 0
\* end points <<first, second>> of the arc drawn for BoundaryArc(e1, e2) after fl calls of flip_orientation, in a
\* drawing with transformation T
XArcEnds(e1, e2, fl, T) ==
  LET a == DgAct(T, e1)
      b == DgAct(T, e2)
      odd == ((fl % 2) = 1) # (XMatDetSign(T) < 0)
  IN IF odd THEN <<b, a>> ELSE <<a, b>>
\* the abstract arc: flipping gives the complementary arc (the end points belong to both)
XInArcFlipped(e1, e2, fl, z) == IF fl % 2 = 0 THEN XInArc(e1, e2, z) ELSE XInArc(e2, e1, z)

\* half-plane: abscissa of an ideal point not at infinity
XAbscissa(v) == R(0 - v[3], v[1] - v[2])
\* the pieces of the real axis: [from, to] where an end can be "beyond the window" (left = TRUE: from the left edge,
\* right = TRUE: to the right edge; the rational of that end is then meaningless)
XPiece(l, a, r, b) == [left |-> l, from |-> a, right |-> r, to |-> b]
XAxisPieces(a, b) ==
  CASE DgAtInf(a) -> <<XPiece(TRUE, RZero, FALSE, XAbscissa(b))>>
    [] DgAtInf(b) -> <<XPiece(FALSE, XAbscissa(a), TRUE, RZero)>>
    [] RLess(XAbscissa(a), XAbscissa(b)) -> <<XPiece(FALSE, XAbscissa(a), FALSE, XAbscissa(b))>>
    [] OTHER -> <<XPiece(FALSE, XAbscissa(a), TRUE, RZero), XPiece(TRUE, RZero, FALSE, XAbscissa(b))>>
XOnPieces(ps, x) == \E i \in 1..Len(ps) :
                      /\ ps[i].left \/ RLeq(ps[i].from, x)
                      /\ ps[i].right \/ RLeq(x, ps[i].to)

\* the drawn arc is the image of the abstract arc
XArcEquivariant(e1, e2, fl, T, Ideals) ==
  LET ends == XArcEnds(e1, e2, fl, T) IN
  \A z \in Ideals : XInArcFlipped(e1, e2, fl, z) <=> XInArc(ends[1], ends[2], DgAct(T, z))
\* the half-plane pieces are the arc
XAxisTheorem(a, b, Ideals) ==
  \A z \in Ideals : ~DgAtInf(z) => (XInArc(a, b, z) <=> XOnPieces(XAxisPieces(a, b), XAbscissa(z)))

(***************************************************************************)
(* Cyclic order in the models                                               *)
(***************************************************************************)
\* orientation of three model points given homogeneously <<a, b, t>>, t > 0: sign of the 2 x 2 determinant of the
\* differences = sign of the 3 x 3 determinant of <<t, a, b>>
XOrient2(p, q, r) == Sgn(XDet3(<<p[3], p[1], p[2]>>, <<q[3], q[1], q[2]>>, <<r[3], r[1], r[2]>>))
\* the tangency point of the horocycle centred at xi, as a model point
XTangency(m, xi) == DgCoord(m, xi)
\* p1, p2 (interior), xi (ideal) on one horocycle: the models show the cyclic order of the Klein disc
XCyclicOrderTheorem(m, xi, p1, p2) ==
  (DgDefined(m, xi) /\ DgDefined(m, p1) /\ DgDefined(m, p2)) =>
     XOrient2(DgCoord(m, p1), DgCoord(m, p2), XTangency(m, xi)) = Sgn(XDet3(p1, p2, xi))
XCyclicOrder3(m, p1, p2, p3) ==
  (DgDefined(m, p1) /\ DgDefined(m, p2) /\ DgDefined(m, p3)) =>
     XOrient2(DgCoord(m, p1), DgCoord(m, p2), DgCoord(m, p3)) = Sgn(XDet3(p1, p2, p3))

(***************************************************************************)
(* Horocyclic arcs                                                          *)
(***************************************************************************)
XSameHoro(xi, x, y) == MDot(x, xi) * MDot(x, xi) * DgNN(y) = MDot(y, xi) * MDot(y, xi) * DgNN(x)
\* 1 / 2: the end point from which the counter-clockwise arc to the other end avoids xi
XFirstEnd(xi, p1, p2) == IF XDet3(p1, p2, xi) > 0 THEN 1 ELSE 2
\* z (on the horocycle) lies on the arc between p1 and p2 that avoids xi
XOnHoroArc(xi, p1, p2, z) ==
  z = p1 \/ z = p2 \/ (IF XFirstEnd(xi, p1, p2) = 1 THEN XDet3(p1, z, p2) > 0 ELSE XDet3(p2, z, p1) > 0)

\* independent description of the same arc: along a horocycle the hyperbolic distance from a point grows with the
\* horocyclic distance, so the arc between p1 and p2 consists of the points at most as far from p1, and from p2, as
\* these are from each other (cosh d(x, y) = -<x, y> / (s_x s_y), s = sqrt(-<x, x>): integers on the square universe)
XCloser(a, z, b) == (0 - MDot(a, z)) * DgS(b) <= (0 - MDot(a, b)) * DgS(z)        \* d(a, z) <= d(a, b)
XMetricBetween(p1, p2, z) == XCloser(p1, z, p2) /\ XCloser(p2, z, p1)

XHoroArc(m, xi, p1, p2) ==
  LET h == DgHoro(m, xi, p1)
      f == XFirstEnd(xi, p1, p2)
      kd == IF h.kind = "flat" THEN "line" ELSE IF RLess(h.r, RInt(Threshold)) THEN "arc" ELSE "chord"
  IN [kind |-> kd, h |-> h, first |-> f,
      p |-> <<DgRat(DgCoord(m, p1)), DgRat(DgCoord(m, p2))>>]
\* radius = Threshold exactly: outside the domain (floating-point comparison)
XHoroArcDecided(m, xi, p1) == LET h == DgHoro(m, xi, p1) IN h.kind = "flat" \/ h.r # RInt(Threshold)

\* both end points on the circle of the horocycle; the arc avoiding xi in the Klein disc avoids the tangency point in
\* the model; the image of the arc is the arc of the images
XHoroArcTheorem(m, xi, p1, p2, U) ==
  LET h == DgHoro(m, xi, p1) IN
  /\ DgHoro(m, xi, p2) = h
  /\ XCyclicOrderTheorem(m, xi, p1, p2)
  /\ \A z \in U : (~DgIdeal(z) /\ DgDefined(m, z) /\ XSameHoro(xi, p1, z) /\ z # p1 /\ z # p2) =>
        /\ XCyclicOrder3(m, p1, z, p2)
        /\ XOnHoroArc(xi, p1, p2, z) <=> XOnHoroArc(xi, p2, p1, z)                      \* an arc has no direction
        /\ XOnHoroArc(xi, p1, p2, z) <=> XMetricBetween(p1, p2, z)                      \* it is the bounded one
XHoroArcEquivariant(xi, p1, p2, T, U) ==
  \A z \in U : (~DgIdeal(z) /\ XSameHoro(xi, p1, z)) =>
     (XOnHoroArc(xi, p1, p2, z) <=> XOnHoroArc(DgAct(T, xi), DgAct(T, p1), DgAct(T, p2), DgAct(T, z)))

(***************************************************************************)
(* The plane                                                                *)
(***************************************************************************)
XRegion(m) == IF m = "halfplane" THEN [kind |-> "upper", y |-> RZero] ELSE [kind |-> "disc", c |-> <<RZero, RZero>>, r |-> ROne]
\* every point of the closed ball is in the region, the ideal ones on its boundary
XRegionTheorem(m, v) ==
  DgDefined(m, v) =>
    LET c == DgCoord(m, v) IN
    IF m = "halfplane" THEN c[2] >= 0 /\ (c[2] = 0 <=> DgIdeal(v))
    ELSE c[1] * c[1] + c[2] * c[2] <= c[3] * c[3] /\ (c[1] * c[1] + c[2] * c[2] = c[3] * c[3] <=> DgIdeal(v))
=============================================================================
