---------------------------- MODULE DrawPathTrace ----------------------------
(***************************************************************************)
(* Property C19, trace validation (code -> spec).  A trace file (JSON)      *)
(* holds one record per outline taken from a matplotlib artist the library  *)
(* added to the axes (a PathPatch, an Arc with its patch transform, a path  *)
(* of a PolyCollection / LineCollection):                                   *)
(*   model, word (the drawing's transformation: <<side, atom>> of HypIso),  *)
(*   verts (the object's vertices, integer vectors, BEFORE the              *)
(*   transformation), closed, and the events cut out of the path:           *)
(*     [op |-> "move", at |-> v]                                            *)
(*     [op |-> "edge", kind, first, last, devn, devc, inside, minor]        *)
(*   v / first / last: the vertex (1..nv) within 1e-6 of the point, else 0; *)
(*   kind: "arc" (a run of Bezier segments) or "straight" (a line);         *)
(*   devn: max | |z - c| - r | / r over the Bezier nodes, in units 1e-10;   *)
(*   devc: the same over points of the curves, in units 1e-6;               *)
(*   inside: all these points in the model's region; minor: all in the      *)
(*   disc whose diameter is the chord (c, r, chord from DrawGeom).          *)
(* A trace is accepted iff it is a complete behaviour of DrawPath in which  *)
(* every piece has the kind DrawGeom specifies for the edge it draws and    *)
(* arcs lie on the exact circle of the TRANSFORMED edge within NodeTol /    *)
(* CurveTol.  All traces of a file are validated in one TLC run.            *)
(***************************************************************************)
EXTENDS DrawPath, DrawGeom, IOUtils

CONSTANTS NodeTol,     \* units of 1e-10 radius: nodes of an arc on the exact circle
          NodeTolHP,   \* the same in the half-plane, where the code derives the circle from half-plane coordinates of
                       \* IDEAL points (a square root at the boundary: rounding 1e-16 shows as 1e-8)
          CurveTol     \* units of 1e-6 radius: Bezier approximation of a circle by matplotlib

VARIABLES tid, l

Traces == JsonDeserialize(IOEnv.TRACE_FILE)
Verbose == "TRACE_VERBOSE" \in DOMAIN IOEnv /\ IOEnv.TRACE_VERBOSE = "1"

Tr == Traces[tid]
TrT == DgWordVal(Tr.word)
TrV(i) == DgAct(TrT, Tr.verts[i])

TraceInit == /\ tid \in 1..Len(Traces)
             /\ l = 0
             /\ PathInit(Len(Traces[tid].verts), Traces[tid].closed)

\* the piece `ev` draws edge e = EdgeOf(first, last) of the transformed object
\* model "affine": an affine chart of the projective plane (DrawProj), every edge is straight
\* shrink > 0: a small polygon (DrawGeom, DgShrink...): the object is verts shrunk by Lox(1, shrink); only the kind of
\* the piece is specified (the circle of the edge is not a rational of 32-bit size)
PieceOK(ev) ==
  IF Tr.model = "affine" THEN ev.kind = "straight"
  ELSE IF Tr.shrink > 0 THEN
    LET e == EdgeOf(ev.first, ev.last)
    IN ev.kind = DgShrinkPieceKind(Tr.model, Tr.verts[e], Tr.verts[Nxt(e)], Tr.shrink)
  ELSE
  LET e == EdgeOf(ev.first, ev.last)
      x == TrV(e)
      y == TrV(Nxt(e))
  IN /\ DgDefined(Tr.model, x) /\ DgDefined(Tr.model, y)
     /\ ev.kind = DgPieceKind(Tr.model, x, y)
     /\ ev.kind = "arc" => /\ ev.devn <= (IF Tr.model = "halfplane" THEN NodeTolHP ELSE NodeTol) /\ ev.devc <= CurveTol
                           /\ ev.inside /\ ev.minor

Step(ev) ==
  \/ /\ ev.op = "move" /\ MoveTo(ev.at)
  \/ /\ ev.op = "edge" /\ EmitEdge(ev.kind, ev.first, ev.last) /\ PieceOK(ev)

TraceNext ==
  /\ l < Len(Tr.events)
  /\ l' = l + 1 /\ UNCHANGED tid
  /\ Step(Tr.events[l + 1])

\* printed once per accepted outline; with TRACE_VERBOSE=1 the progress of every outline
Accepted ==
  /\ (l = Len(Tr.events) /\ Done) => PrintT("ACCEPT " \o ToString(tid))
  /\ Verbose => PrintT("AT " \o ToString(tid) \o " " \o ToString(l))

TraceView == <<pvars, tid, l>>
=============================================================================
