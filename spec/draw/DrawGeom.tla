------------------------------ MODULE DrawGeom ------------------------------
(***************************************************************************)
(* Property C19, exact geometry of what a 2-dimensional hyperbolic drawing  *)
(* must show.  Points are primitive integer vectors x of R^(2,1) (time      *)
(* coordinate first) on the perfect-square universe of HypCoords, so their  *)
(* coordinates in the three drawable models are rational:                   *)
(*     klein      (x2, x3) / x1                                             *)
(*     poincare   (x2, x3) / (x1 + s)              s = sqrt(-<x,x>)         *)
(*     halfplane  (-x3, s) / (x1 - x2)             (x1 = x2: at infinity)   *)
(* written homogeneously as <<a, b, t>> (the point (a/t, b/t), t > 0).      *)
(* The geodesic through x and y is the set <n, .> = 0 for the Minkowski     *)
(* normal n of span(x, y); in the models it is                              *)
(*     klein      the straight line  -n1 + n2 X + n3 Y = 0                  *)
(*     poincare   the circle of centre (n2, n3)/n1, radius^2 <n,n>/n1^2     *)
(*                (n1 = 0: the diameter n2 X + n3 Y = 0)                    *)
(*     halfplane  the circle of centre (n3/(n2-n1), 0), radius^2            *)
(*                <n,n>/(n2-n1)^2   (n1 = n2: the vertical X = -n1/n3)      *)
(* and the edge between x and y is the arc of that circle inside the disc   *)
(* of diameter [x, y] (Thales: the minor arc) inside the model's region.    *)
(* A drawing code may replace an arc whose radius is >= Threshold by the    *)
(* chord.  Horospheres are circles with rational centre AND radius.         *)
(* Transformations of the drawing are the exact isometries of HypIso.       *)
(*                                                                         *)
(* The theorems at the end are checked by TLC (module DrawScene) on every   *)
(* edge of every scene: integer identities, no square roots.                *)
(***************************************************************************)
EXTENDS IntLinAlg, Naturals, FiniteSets, TLC, Json

CONSTANTS N,            \* = 2
          B,            \* bound of the box universe used for the theorems
          Threshold     \* radius from which the drawing code draws the chord instead of the arc

Iso == INSTANCE HypIso WITH MaxLen <- 0, g <- <<>>, kind <- "exact", len <- 0, last <- <<>>
HC == INSTANCE HypCoords

DrawModels == {"poincare", "halfplane", "klein"}

DgNN(v) == 0 - MNorm(v)
\* integer square root of a perfect square by bisection (Rat!Sqrt enumerates 0..n)
RECURSIVE DgSqrtIn(_, _, _)
DgSqrtIn(n, lo, hi) == IF lo >= hi THEN lo
                       ELSE LET mid == (lo + hi) \div 2
                            IN IF mid * mid >= n THEN DgSqrtIn(n, lo, mid) ELSE DgSqrtIn(n, mid + 1, hi)
DgSqrt(n) == DgSqrtIn(n, 0, IF n < 46340 THEN n ELSE 46340)
DgIsSquare(n) == n >= 0 /\ DgSqrt(n) * DgSqrt(n) = n
DgS(v) == DgSqrt(DgNN(v))
\* p + q over the least common denominator (RAdd multiplies the denominators: overflow)
DgRAdd(p, q) == LET l == Lcm(p[2], q[2]) IN R(p[1] * (l \div p[2]) + q[1] * (l \div q[2]), l)
DgIdeal(v) == DgNN(v) = 0
DgIsPoint(v) == Len(v) = 3 /\ v[1] > 0 /\ IsPrim(v) /\ DgNN(v) >= 0 /\ DgIsSquare(DgNN(v))
DgAtInf(v) == v[1] = v[2]                       \* the half-plane point at infinity

\* homogeneous model coordinates <<a, b, t>>
DgCoord(m, v) == CASE m = "klein" -> <<v[2], v[3], v[1]>>
                   [] m = "poincare" -> <<v[2], v[3], v[1] + DgS(v)>>
                   [] m = "halfplane" -> <<0 - v[3], DgS(v), v[1] - v[2]>>
DgRat(c) == <<R(c[1], c[3]), R(c[2], c[3])>>
DgDefined(m, v) == m = "halfplane" => ~DgAtInf(v)

\* the default window of a half-plane drawing (x in -6..6, y <= 8): the straight substitutes of the drawing
\* code are only approximations of the edge for objects inside the window
DgInView(m, v) == m = "halfplane" =>
                    LET c == DgCoord(m, v) IN c[3] > 0 /\ Abs(c[1]) <= 6 * c[3] /\ c[2] <= 8 * c[3]

\* the same for a drawing constructed with xlim = (win[1], win[2]), ylim = (.., win[3])
DgInWindow(m, v, win) == m = "halfplane" =>
                           LET c == DgCoord(m, v) IN c[3] > 0 /\ win[1] * c[3] <= c[1] /\ c[1] <= win[2] * c[3] /\ c[2] <= win[3] * c[3]

\* the same window widened on the left and on the right by 9% of its width: the drawing code treats an end point as
\* "the point at infinity" only beyond a margin of 10% (OFFSCREEN_FACTOR) outside the window; an end point inside the
\* margin is an ordinary point the outline passes through
DgInMargin(m, v, win) == m = "halfplane" =>
                          LET c == DgCoord(m, v)
                              w == win[2] - win[1]
                          IN /\ c[3] > 0 /\ c[2] <= win[3] * c[3]
                             /\ (100 * win[1] - 9 * w) * c[3] <= 100 * c[1] /\ 100 * c[1] <= (100 * win[2] + 9 * w) * c[3]
\* what a drawing constructed without arguments is: HyperbolicDrawing() is the Poincare disc with the identity
\* transformation (and the default window); ProjectiveDrawing() is chart 0 with the identity transformation
DgDefaultModel == "poincare"

\* Minkowski normal of span(x, y), x # y
DgNormal(x, y) == Prim(<<0 - (x[2] * y[3] - x[3] * y[2]), x[3] * y[1] - x[1] * y[3], x[1] * y[2] - x[2] * y[1]>>)

(***************************************************************************)
(* Edge descriptors                                                        *)
(***************************************************************************)
\* the quantity w with  centre = (.., ..)/w  and  radius^2 = <n,n>/w^2 ; w = 0: the edge is straight in the model
DgW(m, n) == CASE m = "poincare" -> n[1] [] m = "halfplane" -> n[2] - n[1] [] m = "klein" -> 0
DgCentre(m, n) == CASE m = "poincare" -> <<R(n[2], n[1]), R(n[3], n[1])>>
                    [] m = "halfplane" -> <<R(n[3], n[2] - n[1]), RZero>>
DgRadSq(m, n) == R(MNorm(n), DgW(m, n) * DgW(m, n))
T2 == Threshold * Threshold

\* "line": exactly straight in the model; "arc": circular arc drawn as such; "chord": circular arc of radius >=
\* Threshold, drawn as its chord
\* radius^2 < Threshold^2, written with a floor division (T2 w^2 overflows 32 bits)
DgKind(m, n) == IF DgW(m, n) = 0 THEN "line"
                ELSE IF MNorm(n) \div (DgW(m, n) * DgW(m, n)) < T2 THEN "arc" ELSE "chord"
\* the rule "radius < Threshold" is evaluated in floating point by the code: radius = Threshold exactly is
\* outside the domain
DgKindDecided(m, n) == DgW(m, n) = 0 \/ ~(MNorm(n) % (DgW(m, n) * DgW(m, n)) = 0 /\ MNorm(n) \div (DgW(m, n) * DgW(m, n)) = T2)

\* midpoint of the chord and (chord/2)^2 : the disc of diameter [p, q]
DgMid(p, q) == <<R(p[1] * q[3] + q[1] * p[3], 2 * p[3] * q[3]), R(p[2] * q[3] + q[2] * p[3], 2 * p[3] * q[3])>>
DgHalfChordSq(p, q) == R((p[1] * q[3] - q[1] * p[3]) * (p[1] * q[3] - q[1] * p[3])
                         + (p[2] * q[3] - q[2] * p[3]) * (p[2] * q[3] - q[2] * p[3]), 4 * p[3] * p[3] * q[3] * q[3])

DgEdge(m, x, y) ==
  LET n == DgNormal(x, y)
      p == DgCoord(m, x)
      q == DgCoord(m, y)
      k == DgKind(m, n)
  IN IF k = "line" THEN [kind |-> k, p |-> DgRat(p), q |-> DgRat(q)]
     ELSE [kind |-> k, p |-> DgRat(p), q |-> DgRat(q), c |-> DgCentre(m, n), r2 |-> DgRadSq(m, n),
           mid |-> DgMid(p, q), h2 |-> DgHalfChordSq(p, q)]

\* what a path piece drawn for this edge must be
DgPieceKind(m, x, y) == IF DgKind(m, DgNormal(x, y)) = "arc" THEN "arc" ELSE "straight"

(***************************************************************************)
(* Small polygons: the object shrunk by the loxodromic Lox(1, q) (axis: the *)
(* diameter from (-1,0) to (1,0) of the disc = the vertical X = 0 of the    *)
(* half-plane), which multiplies half-plane coordinates by 1/q and moves    *)
(* the object towards the boundary point (-1, 0) of the disc.  For q up to  *)
(* 10^5 the integer vectors of the image exceed 32 bits, so the image is    *)
(* described through the ORIGINAL vectors x, y and q.  The normal n of an   *)
(* edge becomes n' with  n'1 - n'2 = q (n1 - n2),  n'1 + n'2 = (n1 + n2)/q  *)
(* (up to a common factor) and <n',n'> = <n,n>, so                          *)
(*   half-plane: straight iff n1 = n2, else the radius is r / q;            *)
(*   Poincare:   2 q n'1 = q^2 (n1 - n2) + (n1 + n2):                       *)
(*               n1 = n2 = 0: a diameter (the axis);                        *)
(*               n1 = n2 # 0 (a vertical of the half-plane): the radius     *)
(*                 q |n3| / |n1| GROWS with q and crosses the threshold;    *)
(*               n1 # n2: radius below 2 sqrt<n,n> / (q - 1).               *)
(* DgShrinkLaws checks this against the integer image for small q.          *)
(***************************************************************************)
DgShrinkCoordHP(v, q) == <<R(0 - v[3], (v[1] - v[2]) * q), R(DgS(v), (v[1] - v[2]) * q)>>
\* no end point at infinity; radius = Threshold exactly excluded (floating-point comparison in the code)
DgShrinkOK(x, y, q) == LET n == DgNormal(x, y) IN
                       /\ ~DgAtInf(x) /\ ~DgAtInf(y)
                       /\ (n[1] = n[2] /\ n[1] # 0) => q * Abs(n[3]) # Threshold * Abs(n[1])
\* q at least 30 and entries of x, y at most 12: every other circular piece has radius < 2 * 1.5 * 300 / 29 < Threshold
DgShrinkPieceKind(m, x, y, q) ==
  LET n == DgNormal(x, y) IN
  CASE m = "halfplane" -> IF n[1] = n[2] THEN "straight" ELSE "arc"
    [] m = "poincare" -> IF n[1] # n[2] THEN "arc"
                         ELSE IF n[1] = 0 THEN "straight"
                         ELSE IF q * Abs(n[3]) < Threshold * Abs(n[1]) THEN "arc" ELSE "straight"
    [] m = "klein" -> "straight"
\* the same statements on the integer image (q small enough for 32 bits)
DgShrinkLaws(x, y, q) ==
  LET T == Iso!Lox(1, q)
      tx == Iso!Act(T, x)
      ty == Iso!Act(T, y)
      n == DgNormal(x, y)
      tn == DgNormal(tx, ty)
  IN /\ DgRat(DgCoord("halfplane", tx)) = DgShrinkCoordHP(x, q)
     /\ (DgW("halfplane", tn) = 0) <=> (n[1] = n[2])
     /\ (DgW("poincare", tn) = 0) <=> (n[1] = 0 /\ n[2] = 0)
     /\ (n[1] # n[2]) => DgRadSq("halfplane", tn) = RDiv(DgRadSq("halfplane", n), RInt(q * q))
     \* 2 q n'1 = +-(q^2 (n1 - n2) + (n1 + n2)) up to the common factor of Prim
     /\ LET a == q * q * (n[1] - n[2]) + (n[1] + n[2]) IN
        R(tn[1] * tn[1], MNorm(tn)) = R(a * a, 4 * q * q * MNorm(n))
     \* verticals of the half-plane: Poincare radius q |n3| / |n1|
     /\ (n[1] = n[2] /\ n[1] # 0) => DgRadSq("poincare", tn) = R(q * q * n[3] * n[3], n[1] * n[1])

(***************************************************************************)
(* Horospheres: centre xi (ideal), through x (interior).  A = -<x, xi> > 0 *)
(*   poincare   radius A / (s xi1 + A), centre (1 - radius) (xi2, xi3)/xi1 *)
(*   halfplane  radius A / (s (xi1 - xi2)), centre (-xi3/(xi1 - xi2), radius); *)
(*              xi at infinity: the horizontal line through x              *)
(***************************************************************************)
DgHoroA(xi, x) == 0 - MDot(x, xi)
DgHoro(m, xi, x) ==
  LET A == DgHoroA(xi, x)
      s == DgS(x)
  IN CASE m = "poincare" ->
            LET rad == R(A, s * xi[1] + A)
            IN [kind |-> "circle", r |-> rad,
                c |-> <<RMul(RSub(ROne, rad), R(xi[2], xi[1])), RMul(RSub(ROne, rad), R(xi[3], xi[1]))>>]
       [] m = "halfplane" ->
            IF DgAtInf(xi) THEN [kind |-> "flat", height |-> DgRat(DgCoord(m, x))[2]]
            ELSE LET rad == R(A, s * (xi[1] - xi[2]))
                 IN [kind |-> "circle", r |-> rad, c |-> <<R(0 - xi[3], xi[1] - xi[2]), rad>>]

(***************************************************************************)
(* Transformations: words in the exact atoms of HypIso                     *)
(***************************************************************************)
\* a word is a sequence of <<side, atom>>, side "L": T' = a T (add_transform), "R": T' = T a (precompose_transform)
RECURSIVE DgWordVal(_)
DgWordVal(w) == IF w = <<>> THEN Iso!Ident
                ELSE LET t == DgWordVal(SubSeq(w, 1, Len(w) - 1))
                         a == Iso!AtomVal(w[Len(w)][2])
                     IN IF w[Len(w)][1] = "L" THEN Iso!Mul(a, t) ELSE Iso!Mul(t, a)
DgAct(T, v) == Iso!Act(T, v)
DgMaxAbs(v) == CHOOSE b \in {Abs(v[i]) : i \in 1..Len(v)} : \A i \in 1..Len(v) : Abs(v[i]) <= b
\* all products formed by the descriptors stay below 2^31 for vertices with entries <= 60
DgSmall(v) == DgMaxAbs(v) <= 60

(***************************************************************************)
(* Theorems (integer identities, evaluated on entries <= 12)               *)
(***************************************************************************)
DgTiny(v) == DgMaxAbs(v) <= 12

\* z (a point of the model) lies on the curve that represents the geodesic <n, .> = 0 in model m
DgOnCurve(m, n, z) ==
  LET c == DgCoord(m, z)
      w == DgW(m, n)
  IN CASE m = "klein" -> 0 - n[1] * c[3] + n[2] * c[1] + n[3] * c[2] = 0
       [] m = "poincare" ->
            IF w = 0 THEN n[2] * c[1] + n[3] * c[2] = 0
            ELSE (c[1] * w - n[2] * c[3]) * (c[1] * w - n[2] * c[3]) + (c[2] * w - n[3] * c[3]) * (c[2] * w - n[3] * c[3])
                   = MNorm(n) * c[3] * c[3]
       [] m = "halfplane" ->
            IF w = 0 THEN c[1] * n[3] + n[1] * c[3] = 0
            ELSE (c[1] * w - n[3] * c[3]) * (c[1] * w - n[3] * c[3]) + (c[2] * w) * (c[2] * w) = MNorm(n) * c[3] * c[3]

\* z is a point of the hyperbolic segment [x, y]: on the geodesic, and between x and y on the Klein chord
DgBetween(x, y, z) ==
  /\ MDot(DgNormal(x, y), z) = 0
  /\ (z[2] * x[1] - x[2] * z[1]) * (y[2] * x[1] - x[2] * y[1]) + (z[3] * x[1] - x[3] * z[1]) * (y[3] * x[1] - x[3] * y[1]) >= 0
  /\ (z[2] * y[1] - y[2] * z[1]) * (x[2] * y[1] - y[2] * x[1]) + (z[3] * y[1] - y[3] * z[1]) * (x[3] * y[1] - y[3] * x[1]) >= 0

\* the model point of z lies in the closed disc of diameter [model point of x, model point of y]
DgInThales(m, x, y, z) ==
  LET p == DgCoord(m, x)
      q == DgCoord(m, y)
      c == DgCoord(m, z)
      d == 2 * p[3] * q[3]
      u1 == c[1] * d - (p[1] * q[3] + q[1] * p[3]) * c[3]
      u2 == c[2] * d - (p[2] * q[3] + q[2] * p[3]) * c[3]
      h1 == p[1] * q[3] - q[1] * p[3]
      h2 == p[2] * q[3] - q[2] * p[3]
  IN u1 * u1 + u2 * u2 <= (h1 * h1 + h2 * h2) * c[3] * c[3]

\* for every universe point z: z is on the geodesic iff its model point is on the model curve, and (then) z is on
\* the edge iff its model point is in the Thales disc
DgEdgeTheorem(m, x, y, U) ==
  LET n == DgNormal(x, y) IN
  \A z \in U : DgDefined(m, z) =>
    /\ (MDot(n, z) = 0) <=> DgOnCurve(m, n, z)
    /\ (MDot(n, z) = 0 /\ m # "klein" /\ DgW(m, n) # 0) => (DgBetween(x, y, z) <=> DgInThales(m, x, y, z))
\* the rational descriptor is the circle of DgOnCurve: both endpoints at distance radius from the centre, the
\* circle meets the boundary of the model at right angles
DgDescriptorTheorem(m, x, y) ==
  LET n == DgNormal(x, y)
      e == DgEdge(m, x, y)
  IN e.kind # "line" =>
       /\ DgRAdd(RSq(RSub(e.p[1], e.c[1])), RSq(RSub(e.p[2], e.c[2]))) = e.r2
       /\ DgRAdd(RSq(RSub(e.q[1], e.c[1])), RSq(RSub(e.q[2], e.c[2]))) = e.r2
       /\ m = "poincare" => DgRAdd(RSq(e.c[1]), RSq(e.c[2])) = DgRAdd(ROne, e.r2)
       /\ m = "halfplane" => RIsZero(e.c[2])
       /\ DgRAdd(RSq(RSub(e.p[1], e.mid[1])), RSq(RSub(e.p[2], e.mid[2]))) = e.h2
       /\ RLess(e.h2, e.r2) \/ (e.h2 = e.r2 /\ DgIdeal(x) /\ DgIdeal(y) /\ m = "halfplane")      \* a minor arc

\* z lies on the horosphere centred at xi through x
DgOnHoro(xi, x, z) == MDot(z, xi) * MDot(z, xi) * DgNN(x) = MDot(x, xi) * MDot(x, xi) * DgNN(z) /\ ~DgIdeal(z)
DgHoroTheorem(m, xi, x, U) ==
  LET h == DgHoro(m, xi, x) IN
  \A z \in U : (DgDefined(m, z) /\ ~DgIdeal(z)) =>
    LET c == DgRat(DgCoord(m, z)) IN
    IF h.kind = "flat" THEN DgOnHoro(xi, x, z) <=> (c[2] = h.height)
    ELSE DgOnHoro(xi, x, z) <=> (DgRAdd(RSq(RSub(c[1], h.c[1])), RSq(RSub(c[2], h.c[2]))) = RSq(h.r))

\* the model coordinates are those of HypCoords (C01)
DgCoordsAgree(v) == /\ DgRat(DgCoord("klein", v)) = HC!Klein(v)
                    /\ DgRat(DgCoord("poincare", v)) = HC!Poincare(v)
                    /\ ~DgAtInf(v) => DgRat(DgCoord("halfplane", v)) = HC!Halfspace(v)
=============================================================================
