--------------------------- MODULE DrawExtraScene ---------------------------
(***************************************************************************)
(* Extension check X03: the cases that are drawn, as a state machine.       *)
(* A state is an object (a boundary arc with its history of                 *)
(* flip_orientation() calls, a horocyclic arc, or the plane), the drawing's *)
(* transformation word (add_transform "L" / precompose_transform "R" of     *)
(* exact isometries, as in DrawScene) and the drawing's window.  Every      *)
(* state is emitted with the exact geometry of DrawExtra for the three      *)
(* models; TLC checks the theorems of DrawExtra on every state.             *)
(***************************************************************************)
EXTENDS DrawExtra

CONSTANTS MaxWord,      \* maximal length of the transformation word
          MaxFlips,     \* maximal number of flip_orientation() calls
          Kinds,        \* subset of {"barc", "horoarc", "plane"}
          NIdeal        \* number of ideal points used as ends of boundary arcs / centres of horocycles (<= 8)

VARIABLES obj, fl, word, win

P3(a, b, c) == <<a, b, c>>
IdealSeq == <<P3(1, 1, 0), P3(5, 3, 4), P3(5, 0 - 4, 3), P3(1, 0 - 1, 0), P3(1, 0, 0 - 1), P3(5, 0 - 3, 0 - 4), P3(1, 0, 1), P3(13, 5, 0 - 12)>>
IdealPts == {IdealSeq[i] : i \in 1..NIdeal}
Universe == HC!Points
Ideals == {v \in Universe : DgIdeal(v)} \cup IdealPts
Interior == {v \in Universe : ~DgIdeal(v)}
XAtoms == {[k |-> "lox", p |-> 2, q |-> 1], [k |-> "rot", a |-> 3, b |-> 4, c |-> 5], [k |-> "refl", v |-> P3(1, 2, 0)],
           [k |-> "refl", v |-> P3(0, 1, 0 - 1)], [k |-> "rot", a |-> 0, b |-> 1, c |-> 1]}
ASSUME XAtoms \subseteq Iso!ExactAtoms
DefaultWindow == <<0 - 6, 6, 8>>
Windows == {DefaultWindow, <<4, 14, 8>>, <<0 - 20, 20, 12>>}

BArcs == {[kind |-> "barc", e |-> <<a, b>>] : a \in IdealPts, b \in IdealPts} 
HoroArcs == {c \in {[kind |-> "horoarc", xi |-> xi, p |-> <<x, y>>] : xi \in IdealPts, x \in Interior, y \in Interior} :
               c.p[1] # c.p[2] /\ XSameHoro(c.xi, c.p[1], c.p[2])}

Init == /\ fl = 0 /\ word = <<>>
        /\ \/ "barc" \in Kinds /\ obj \in {c \in BArcs : c.e[1] # c.e[2]} /\ win = DefaultWindow
           \/ "horoarc" \in Kinds /\ obj \in HoroArcs /\ win = DefaultWindow
           \/ "plane" \in Kinds /\ obj = [kind |-> "plane"] /\ win \in Windows

T == DgWordVal(word)
Flip == /\ obj.kind = "barc" /\ fl < MaxFlips
        /\ fl' = fl + 1 /\ UNCHANGED <<obj, word, win>>
SmallImage(Tn) == IF obj.kind = "barc" THEN DgSmall(DgAct(Tn, obj.e[1])) /\ DgSmall(DgAct(Tn, obj.e[2]))
                  ELSE DgSmall(DgAct(Tn, obj.xi)) /\ DgSmall(DgAct(Tn, obj.p[1])) /\ DgSmall(DgAct(Tn, obj.p[2]))
Transform(side, a) ==
  /\ obj.kind # "plane" /\ Len(word) < MaxWord
  /\ SmallImage(DgWordVal(Append(word, <<side, a>>)))
  /\ word' = Append(word, <<side, a>>) /\ UNCHANGED <<obj, fl, win>>
Next == Flip \/ \E a \in XAtoms : Transform("L", a) \/ Transform("R", a)

(***************************************************************************)
(* Geometry of a case                                                       *)
(***************************************************************************)
InWin(m, v) == DgInWindow(m, v, win)
TT == Iso!Mul(T, T)                       \* the transformation applied twice (to name a known defect in the report)

BArcGeom(m, ends) ==
  IF m = "halfplane" THEN
    IF \A i \in 1..2 : DgAtInf(ends[i]) \/ InWin(m, ends[i])
    THEN [ok |-> TRUE, pieces |-> XAxisPieces(ends[1], ends[2]), toinf |-> DgAtInf(ends[2]), frominf |-> DgAtInf(ends[1])]
    ELSE [ok |-> FALSE]
  ELSE [ok |-> TRUE, c |-> <<RZero, RZero>>, r |-> ROne, from |-> DgRat(DgCoord("klein", ends[1])), to |-> DgRat(DgCoord("klein", ends[2]))]

HoroArcGeom(m, xi, p1, p2) ==
  IF m = "klein" \/ ~(DgDefined(m, p1) /\ DgDefined(m, p2) /\ InWin(m, p1) /\ InWin(m, p2))
     \/ ~XHoroArcDecided(m, xi, p1) \/ (DgAtInf(xi) /\ m = "halfplane" /\ word # <<>>)
  THEN [ok |-> FALSE]
  ELSE [ok |-> TRUE] @@ XHoroArc(m, xi, p1, p2)

Case ==
  CASE obj.kind = "barc" ->
         LET ends == XArcEnds(obj.e[1], obj.e[2], fl, T)
             twice == XArcEnds(obj.e[1], obj.e[2], fl, TT)
         \* anti: the ends are antipodal (collinear with the origin): BoundaryArc then takes its second candidate for the
         \* orientation point
         IN [kind |-> "barc", e |-> obj.e, fl |-> fl, word |-> word, win |-> win, ends |-> ends,
             anti |-> (XDet3(obj.e[1], obj.e[2], <<1, 0, 0>>) = 0),
             geom |-> [m \in DrawModels |-> BArcGeom(m, ends)],
             \* NOT the specification: what three known defects would draw, emitted only so that the report can name them
             \* (ends in the wrong order; the transformation applied twice; both)
             defects |-> [swapped |-> [m \in DrawModels |-> BArcGeom(m, <<ends[2], ends[1]>>)],
                          twice |-> [m \in DrawModels |-> BArcGeom(m, twice)],
                          twice_swapped |-> [m \in DrawModels |-> BArcGeom(m, <<twice[2], twice[1]>>)]]]
    [] obj.kind = "horoarc" ->
         LET xi == DgAct(T, obj.xi)
             p1 == DgAct(T, obj.p[1])
             p2 == DgAct(T, obj.p[2])
         IN [kind |-> "horoarc", xi |-> obj.xi, p |-> obj.p, word |-> word, win |-> win, tv |-> <<xi, p1, p2>>,
             geom |-> [m \in DrawModels |-> HoroArcGeom(m, xi, p1, p2)]]
    [] obj.kind = "plane" ->
         [kind |-> "plane", win |-> win, word |-> word, geom |-> [m \in DrawModels |-> XRegion(m)]]

EmitCase == PrintT("EMIT " \o ToJson(Case))
View == <<obj, fl, word, win>>

(***************************************************************************)
(* Theorems                                                                 *)
(***************************************************************************)
TIdeals == {z \in Ideals : DgSmall(DgAct(T, z))}
ArcLaws ==
  obj.kind = "barc" =>
    LET ends == XArcEnds(obj.e[1], obj.e[2], fl, T) IN
    /\ XArcEquivariant(obj.e[1], obj.e[2], fl, T, TIdeals)
    /\ XAxisTheorem(ends[1], ends[2], {DgAct(T, z) : z \in TIdeals})
    /\ DgIdeal(ends[1]) /\ DgIdeal(ends[2]) /\ ends[1] # ends[2]
    \* flipping twice gives the arc back
    /\ XArcEnds(obj.e[1], obj.e[2], fl + 2, T) = ends
HoroArcLaws ==
  obj.kind = "horoarc" =>
    LET xi == DgAct(T, obj.xi)
        p1 == DgAct(T, obj.p[1])
        p2 == DgAct(T, obj.p[2])
        TU == {z \in {DgAct(T, u) : u \in Interior} : DgTiny(z)}
    IN /\ XSameHoro(xi, p1, p2)
       /\ (DgTiny(xi) /\ DgTiny(p1) /\ DgTiny(p2)) =>
             \A m \in {"poincare", "halfplane"} :
                (DgDefined(m, p1) /\ DgDefined(m, p2) /\ DgDefined(m, xi)) => XHoroArcTheorem(m, xi, p1, p2, TU)
       /\ (DgTiny(xi) /\ DgTiny(p1) /\ DgTiny(p2) /\ DgAtInf(xi) /\ ~DgAtInf(p1) /\ ~DgAtInf(p2)) =>
             DgHoro("halfplane", xi, p1) = DgHoro("halfplane", xi, p2)
       /\ XHoroArcEquivariant(obj.xi, obj.p[1], obj.p[2], T, {u \in Interior : DgSmall(DgAct(T, u))})
PlaneLaws ==
  obj.kind = "plane" => \A v \in Universe : \A m \in DrawModels : XRegionTheorem(m, v)
=============================================================================
