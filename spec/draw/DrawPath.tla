------------------------------ MODULE DrawPath ------------------------------
(***************************************************************************)
(* Property C19: the path assembler.  A drawn outline is a sequence of      *)
(* pen movements: MoveTo(v) lifts the pen and puts it on vertex v,          *)
(* EmitEdge(kind, first, last) draws one piece (a circular "arc" or a       *)
(* "straight" piece) from where the pen is to an adjacent vertex.           *)
(* Vertices are 1..nv (0 = "not a vertex of the object"); edge i joins      *)
(* vertex i and its successor; a polygon (closed) has nv edges, an open     *)
(* chain nv - 1.  The machine accepts exactly the outlines that are one     *)
(* continuous stroke through the vertices in (cyclic) order, forwards or    *)
(* backwards; Done says the outline is complete.                            *)
(*                                                                         *)
(* Checked here by TLC on all behaviours for nv <= MaxNV: the pen is lifted *)
(* once, every piece starts where the previous one ended, vertices are      *)
(* visited in order without repetition, every edge is drawn exactly once,   *)
(* a closed outline returns to its starting vertex, an open one joins the   *)
(* two ends.  DrawPathTrace binds the actions to the pieces cut out of the  *)
(* matplotlib paths produced by the library.                                *)
(***************************************************************************)
EXTENDS Integers, Sequences, FiniteSets, TLC

CONSTANT MaxNV

VARIABLES nv,        \* number of vertices of the object
          closed,    \* polygon (TRUE) or open chain (FALSE)
          k,         \* number of pieces drawn
          pen,       \* vertex the pen is on (0: pen not yet put down)
          start,     \* vertex of the MoveTo
          dir,       \* +1 / -1 once the first piece is drawn, 0 before
          moves,     \* number of MoveTo so far
          seen,      \* vertices visited, in order
          drawn      \* set of edges drawn
pvars == <<nv, closed, k, pen, start, dir, moves, seen, drawn>>

PieceKinds == {"arc", "straight"}
NE == IF closed THEN nv ELSE nv - 1
Nxt(v) == IF v = nv THEN (IF closed THEN 1 ELSE 0) ELSE v + 1
Prv(v) == IF v = 1 THEN (IF closed THEN nv ELSE 0) ELSE v - 1
\* the edge drawn by a piece from `first` to `lst` (edge i joins i and Nxt(i))
EdgeOf(first, lst) == IF lst = Nxt(first) THEN first ELSE lst

PathInit(n, c) ==
  /\ nv = n /\ closed = c /\ k = 0 /\ pen = 0 /\ start = 0 /\ dir = 0 /\ moves = 0 /\ seen = <<>> /\ drawn = {}

MoveTo(v) ==
  /\ moves = 0 /\ v \in 1..nv
  /\ pen' = v /\ start' = v /\ moves' = 1 /\ seen' = <<v>>
  /\ UNCHANGED <<nv, closed, k, dir, drawn>>

EmitEdge(kd, first, lst) ==
  /\ moves = 1 /\ k < NE /\ kd \in PieceKinds
  /\ first = pen /\ lst \in 1..nv
  /\ \/ /\ lst = Nxt(first) /\ dir \in {0, 1} /\ dir' = 1
     \/ /\ lst = Prv(first) /\ dir \in {0, 0 - 1} /\ dir' = 0 - 1
  /\ pen' = lst /\ k' = k + 1 /\ seen' = Append(seen, lst) /\ drawn' = drawn \cup {EdgeOf(first, lst)}
  /\ UNCHANGED <<nv, closed, start, moves>>

Done == k = NE /\ moves = 1

(***************************************************************************)
(* Stand-alone exploration                                                  *)
(***************************************************************************)
Init == \E n \in 2..MaxNV : \E c \in BOOLEAN : (n >= 3 \/ ~c) /\ PathInit(n, c)
Next == \/ \E v \in 0..MaxNV : MoveTo(v)
        \/ \E kd \in PieceKinds : \E f, l \in 0..MaxNV : EmitEdge(kd, f, l)

RECURSIVE Walk(_, _, _)
Walk(v, d, j) == IF j = 0 THEN v ELSE Walk(IF d = 1 THEN Nxt(v) ELSE Prv(v), d, j - 1)

TypeOK == /\ nv \in 2..MaxNV /\ closed \in BOOLEAN /\ k \in 0..NE /\ pen \in 0..nv /\ start \in 0..nv
          /\ dir \in {0 - 1, 0, 1} /\ moves \in {0, 1}
OneStroke == /\ (moves = 0) <=> (pen = 0)
             /\ k > 0 => moves = 1 /\ dir # 0
             /\ Len(seen) = k + moves
InOrder == moves = 1 => pen = Walk(start, dir, k) /\ \A j \in 0..k : seen[j + 1] = Walk(start, dir, j) /\ seen[j + 1] # 0
NoRepeat == \A i, j \in 1..Len(seen) : (i < j /\ seen[i] = seen[j]) => (closed /\ i = 1 /\ j = nv + 1)
EdgesOnce == Cardinality(drawn) = k /\ drawn \subseteq 1..NE
Complete == Done => /\ drawn = 1..NE
                    /\ {seen[i] : i \in 1..Len(seen)} = 1..nv
                    /\ closed => pen = start
                    /\ ~closed => {start, pen} = {1, nv}
=============================================================================
