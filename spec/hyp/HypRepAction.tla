---------------------------- MODULE HypRepAction ----------------------------
(***************************************************************************)
(* Property C03, representation clause (hyperbolic): the image of a group   *)
(* word under a HyperbolicRepresentation (or a ProjectiveRepresentation     *)
(* with the same generators) acts on a point exactly as the word's matrix   *)
(* acts on its coordinate column vector.  State: a pair (a, b) of exact     *)
(* isometries <<M, d>> of HypIso; the value of a word is the product of its *)
(* letters, a capital letter standing for the exact inverse.  Emitted: for  *)
(* every word of length <= 3 its matrix and the images of interior, ideal   *)
(* and exterior test points (one exterior point has time coordinate 0).     *)
(* The lists of words for the list-valued calls come from ActWords          *)
(* (emitted by RepAction).  TLC checks: homomorphism, inverse words, form   *)
(* preservation of every value, and that the universe separates row /       *)
(* column and left / right conventions.                                     *)
(***************************************************************************)
EXTENDS HypAction, ActWords

VARIABLES gi, tab

HGens == << <<Lox(2, 1), RotIn(1, 2, 3, 4, 5)>>,
            <<Refl(Pad(<<1, 2>>)), Boost(Pad(<<3, 2, 2>>))>>,
            <<Boost(Pad(<<3, 2, 2>>)), SignedPerm(Flip1)>>,             \* integer matrices (d = 1)
            <<Lox(3, 2), Refl(Pad(<<1, 1, 1>>))>> >>
HTest == <<Pad(<<3, 2, 2>>), Pad(<<5, 3, 4>>), Pad(<<0, 1>>), Pad(<<1, 2>>), Pad(<<5, 0 - 3, 1>>)>>

Eager(M) == TLCEval([i \in 1..Len(M) |-> TLCEval([j \in 1..Len(M[i]) |-> TLCEval(M[i][j])])])
EagerG(a) == <<Eager(a[1]), a[2]>>
HGen(l) == CASE l = "a" -> HGens[gi][1] [] l = "b" -> HGens[gi][2]
             [] l = "A" -> Inv(HGens[gi][1]) [] l = "B" -> Inv(HGens[gi][2])
RECURSIVE HVal(_)
HVal(w) == IF w = <<>> THEN EagerG(Ident) ELSE EagerG(Mul(HGen(Head(w)), HVal(Tail(w))))

HRepInit == /\ Init /\ obj = [cls |-> "none"] /\ A = Ident /\ B = Ident
            /\ gi \in 1..Len(HGens) /\ tab = [w \in Pool |-> HVal(w)]
HRepNext == UNCHANGED <<g, kind, len, last, obj, A, B, gi, tab>>

Short == {uv \in Pool \X Pool : Len(uv[1]) + Len(uv[2]) <= 3}
Homomorphism == \A uv \in Short : tab[uv[1] \o uv[2]] = Mul(tab[uv[1]], tab[uv[2]])
InverseWord == \A w \in Pool : Mul(tab[InvW(w)], tab[w]) = Ident /\ tab[InvW(w)] = Inv(tab[w])
TableIsProduct == \A w \in Pool : w # <<>> => tab[w] = Mul(HGen(Head(w)), tab[Tail(w)])
ValuesAreIsometries == \A w \in Pool : LET a == tab[w] IN
                         MatMul(Transpose(a[1]), MatMul(J, a[1])) = MatScale(a[2] * a[2], J)
SeparatesConventions == \E w \in Pool : tab[w] # tab[Rev(w)] /\ tab[w][1] # Transpose(tab[w][1])
IntegerPair == \E i \in 1..Len(HGens) : HGens[i][1][2] = 1 /\ HGens[i][2][2] = 1

EmitHRep == PrintT("HREP " \o ToJson(
  [n |-> N, a |-> HGens[gi][1], b |-> HGens[gi][2], pts |-> HTest,
   words |-> {[w |-> Str(w), M |-> tab[w], img |-> [i \in 1..Len(HTest) |-> Act(tab[w], HTest[i])]] : w \in Pool}]))
=============================================================================
