----------------------------- MODULE HypPolygon -----------------------------
(***************************************************************************)
(* Property C13, regular polygons.  A regular n-gon of H^2 with interior   *)
(* angle a and circumradius R satisfies (hyperbolic trigonometry of the    *)
(* triangle centre - vertex - vertex, angles 2 pi/n, a/2, a/2):            *)
(*     cosh R     = cot(pi/n) cot(a/2)                                     *)
(*     cosh(s/2)  = cos(pi/n) / sin(a/2)           s = side length         *)
(* All quantities are kept EXACT: angles are rational multiples k pi/m of  *)
(* pi with m in 1..6, whose cosines lie in a real quadratic field Q(sqrt r) *)
(* (r = 2, 5, 3 for m = 4, 5, 6); numbers are pairs <<x, y>> of rationals   *)
(* meaning x + y sqrt(r).  cos(k pi/m) is computed by the Chebyshev         *)
(* recursion from the table value cos(pi/m), and the table is validated by  *)
(* TLC (T_m = -1 and strict decrease of T_0..T_m).                          *)
(*                                                                         *)
(* TLC checks on every case: the library's closed forms                     *)
(*     sinh^2 R = (cos^2(a/2) - sin^2(pi/n)) / (sin^2(a/2) sin^2(pi/n))     *)
(*     sin^2(a/2) = cos^2(pi/n) / (1 + sin^2(pi/n) sinh^2 R)                *)
(* agree with the trigonometric definition and are mutual inverses, the     *)
(* law of cosines at the centre (side from radius) and at a vertex (angle   *)
(* from radius and side), and admissibility a < (n-2) pi/n <=> sinh^2 R > 0.*)
(* Cases: "angle" (n, a given; exact R, s), "surface" (genus g: n = 4g,     *)
(* a = pi/2g), "radius" (n, tanh R rational given; exact angle, s) and     *)
(* "generic" (n in 3..12, a = j pi/12: only the  *)
(* enumeration and admissibility are specified, no closed-form value).      *)
(***************************************************************************)
EXTENDS Rat, Naturals, FiniteSets, TLC, Json

CONSTANTS Dims,       \* dimensions of the ambient hyperbolic space to request
          MaxN,       \* largest n of the generic cases
          MaxSweep    \* the vertex-count sweep covers every n in MaxN+1..MaxSweep

VARIABLE kase

(***************************************************************************)
(* Q(sqrt r)                                                               *)
(***************************************************************************)
\* rational operations that cancel before multiplying (keeps 32-bit intermediates small)
RA(p, q) == LET l == (p[2] \div Gcd(p[2], q[2])) * q[2] IN R(p[1] * (l \div p[2]) + q[1] * (l \div q[2]), l)
RS(p, q) == RA(p, RNeg(q))
RM(p, q) == LET g1 == Gcd(p[1], q[2])
                g2 == Gcd(q[1], p[2])
            IN IF p[1] = 0 \/ q[1] = 0 THEN RZero
               ELSE R((p[1] \div g1) * (q[1] \div g2), (p[2] \div g2) * (q[2] \div g1))
RD(p, q) == RM(p, R(q[2], q[1]))                      \* q # 0
RL(p, q) == LET g0 == Gcd(p[2], q[2]) IN p[1] * (q[2] \div g0) < q[1] * (p[2] \div g0)
QRat(x) == <<x, RZero>>
QInt(n) == <<RInt(n), RZero>>
QOne == QInt(1)
QAdd(a, b) == <<RA(a[1], b[1]), RA(a[2], b[2])>>
QSub(a, b) == <<RS(a[1], b[1]), RS(a[2], b[2])>>
QMul(r, a, b) == <<RA(RM(a[1], b[1]), RM(RInt(r), RM(a[2], b[2]))), RA(RM(a[1], b[2]), RM(a[2], b[1]))>>
QNorm(r, a) == RS(RM(a[1], a[1]), RM(RInt(r), RM(a[2], a[2])))
QInv(r, a) == LET nn == QNorm(r, a) IN <<RD(a[1], nn), RNeg(RD(a[2], nn))>>
QDiv(r, a, b) == QMul(r, a, QInv(r, b))
QHalf(a) == <<RM(R(1, 2), a[1]), RM(R(1, 2), a[2])>>
\* sign of x + y sqrt(r), r a non-square positive integer
QSgn(r, a) ==
  LET sx == RSgn(a[1])
      sy == RSgn(a[2])
  IN IF sy = 0 THEN sx ELSE IF sx = 0 THEN sy ELSE IF sx = sy THEN sx
     ELSE IF RL(RM(RInt(r), RM(a[2], a[2])), RM(a[1], a[1])) THEN sx ELSE sy
QLess(r, a, b) == QSgn(r, QSub(a, b)) < 0

(***************************************************************************)
(* Angles k pi / m                                                         *)
(***************************************************************************)
FieldOf(m) == CASE m = 4 -> 2 [] m = 5 -> 5 [] m = 6 -> 3 [] OTHER -> 0       \* 0: rational
CosPi(m) == CASE m = 1 -> QInt(0 - 1)
              [] m = 2 -> QInt(0)
              [] m = 3 -> QRat(R(1, 2))
              [] m = 4 -> <<RZero, R(1, 2)>>                \* sqrt(2)/2
              [] m = 5 -> <<R(1, 4), R(1, 4)>>              \* (1 + sqrt 5)/4
              [] m = 6 -> <<RZero, R(1, 2)>>                \* sqrt(3)/2
RECURSIVE Cheb(_, _, _)
Cheb(r, c, k) == IF k = 0 THEN QOne ELSE IF k = 1 THEN c
                 ELSE QSub(QMul(r, QMul(r, QInt(2), c), Cheb(r, c, k - 1)), Cheb(r, c, k - 2))
RealField(f) == IF f = 0 THEN 2 ELSE f
CosAng(r, ang) == Cheb(r, CosPi(ang[2]), ang[1])             \* cos(k pi/m) in Q(sqrt r), r compatible with m

CosTableSound ==
  \A m \in 1..6 :
    LET r == RealField(FieldOf(m)) IN
      /\ Cheb(r, CosPi(m), m) = QInt(0 - 1)
      /\ \A k \in 1..m : QLess(r, Cheb(r, CosPi(m), k), Cheb(r, CosPi(m), k - 1))

(***************************************************************************)
(* Regular polygons                                                        *)
(***************************************************************************)
ExactNs == {3, 4, 5, 6, 8, 10, 12}
Central(n) == IF n % 2 = 0 THEN <<1, n \div 2>> ELSE <<2, n>>          \* 2 pi / n
Angles == {<<k, m>> : k \in 1..5, m \in 2..6} \ {a \in {<<k, m>> : k \in 1..5, m \in 2..6} : a[1] >= a[2] \/ Gcd(a[1], a[2]) # 1}
Compatible(n, a) == LET f1 == FieldOf(Central(n)[2])
                        f2 == FieldOf(a[2])
                    IN f1 = 0 \/ f2 = 0 \/ f1 = f2
FieldFor(n, a) == LET f1 == FieldOf(Central(n)[2])
                      f2 == FieldOf(a[2])
                  IN RealField(IF f1 # 0 THEN f1 ELSE f2)
Admissible(n, a) == a[1] * n < a[2] * (n - 2)                         \* a < (n - 2) pi / n

CSq(r, n) == QHalf(QAdd(QOne, CosAng(r, Central(n))))                 \* cos^2(pi/n)
SSq(r, n) == QSub(QOne, CSq(r, n))                                     \* sin^2(pi/n)

\* --- requested by interior angle: ca = cos a
HalfCosSq(ca) == QHalf(QAdd(QOne, ca))                                 \* cos^2(a/2)
HalfSinSq(ca) == QHalf(QSub(QOne, ca))                                 \* sin^2(a/2)
CoshSqR(r, n, ca) == QMul(r, QDiv(r, CSq(r, n), SSq(r, n)), QDiv(r, HalfCosSq(ca), HalfSinSq(ca)))
CoshSide(r, n, ca) == QSub(QDiv(r, QMul(r, QInt(2), CSq(r, n)), HalfSinSq(ca)), QOne)
\* the closed forms of the library
RadiusFormula(r, n, ca) == QDiv(r, QSub(HalfCosSq(ca), SSq(r, n)), QMul(r, HalfSinSq(ca), SSq(r, n)))      \* sinh^2 R
AngleFormula(r, n, sh2) == QDiv(r, CSq(r, n), QAdd(QOne, QMul(r, SSq(r, n), sh2)))                         \* sin^2(a/2)
\* --- requested by radius: sh2 = sinh^2 R
SideFromRadius(r, n, sh2) == QSub(QAdd(QOne, sh2), QMul(r, sh2, CosAng(r, Central(n))))
CosFromRadius(r, n, sh2) == QSub(QOne, QMul(r, QInt(2), AngleFormula(r, n, sh2)))

TanhRs == {<<1, 2>>, <<3, 5>>, <<4, 5>>, <<1, 3>>, <<2, 3>>}
Sinh2Of(t) == QRat(R(t[1] * t[1], t[2] * t[2] - t[1] * t[1]))

AngleCases == {[kind |-> "angle", n |-> n, a |-> a, dim |-> dd] : n \in ExactNs, a \in Angles, dd \in Dims}
RadiusCases == {[kind |-> "radius", n |-> n, t |-> t, dim |-> dd] : n \in ExactNs, t \in TanhRs, dd \in Dims}
\* the fundamental polygon of the genus-g surface: the regular 4g-gon whose 4g interior angles add up to 2 pi
SurfaceCases == {[kind |-> "surface", genus |-> gg, n |-> 4 * gg, a |-> <<1, 2 * gg>>, dim |-> 2] : gg \in {2, 3}}
GenericCases == {[kind |-> "generic", n |-> n, a |-> <<j, 12>>, dim |-> dd] : n \in 3..MaxN, j \in 1..11, dd \in Dims}

\* vertex-count sweep: EVERY n up to MaxSweep (no n is special in the specification: a regular n-gon has n vertices),
\* even n requested by the interior angle pi/3, odd n by the radius atanh(3/5) (cosh^2 R = 25/16)
SweepCases == {IF n % 2 = 0 THEN [kind |-> "sweep", n |-> n, a |-> <<1, 3>>, dim |-> IF n % 3 = 0 THEN 3 ELSE 2]
                             ELSE [kind |-> "sweep", n |-> n, t |-> <<3, 5>>, dim |-> IF n % 3 = 0 THEN 3 ELSE 2] : n \in (MaxN + 1)..MaxSweep}
InDomain(c) == CASE c.kind = "angle" -> Compatible(c.n, c.a) /\ Admissible(c.n, c.a)
                 [] c.kind = "surface" -> Compatible(c.n, c.a) /\ Admissible(c.n, c.a)
                 [] c.kind = "radius" -> TRUE
                 [] c.kind = "sweep" -> (c.n % 2 = 0) => Admissible(c.n, c.a)
                 [] c.kind = "generic" -> Admissible(c.n, c.a)

Init == kase \in {c \in AngleCases \cup RadiusCases \cup SurfaceCases \cup GenericCases \cup SweepCases : InDomain(c)}
Next == UNCHANGED kase

(***************************************************************************)
(* Theorems checked on every case                                          *)
(***************************************************************************)
\* triangle centre - V1 - V2 with angle g2 = 2 pi/n at the centre, legs R, side s, angles a/2 at the vertices:
\*   cosh s = cosh^2 R - sinh^2 R cos(2 pi/n)
\*   cosh R = cosh R cosh s - sinh R sinh s cos(a/2), squared and divided by (cosh s - 1) > 0:
\*   cosh^2 R (cosh s - 1) = sinh^2 R (cosh s + 1) cos^2(a/2)
Triangle(r, n, ch2, cs, hc2) ==
  LET sh2 == QSub(ch2, QOne) IN
    /\ cs = QSub(ch2, QMul(r, sh2, CosAng(r, Central(n))))
    /\ QMul(r, ch2, QSub(cs, QOne)) = QMul(r, sh2, QMul(r, QAdd(cs, QOne), hc2))
    /\ QSgn(r, sh2) > 0 /\ QLess(r, QOne, cs)

SurfaceCaseLaws == kase.kind = "surface" => kase.n * kase.a[1] = 2 * kase.a[2]          \* n a = 2 pi

AngleCaseLaws ==
  kase.kind \in {"angle", "surface"} =>
    LET n == kase.n
        r == FieldFor(n, kase.a)
        ca == CosAng(r, kase.a)
        ch2 == CoshSqR(r, n, ca)
        sh2 == RadiusFormula(r, n, ca)
    IN /\ QSub(ch2, QOne) = sh2                                   \* the library's radius formula is cosh R = cot cot
       /\ AngleFormula(r, n, sh2) = HalfSinSq(ca)                 \* angle(radius(a)) = a
       /\ Triangle(r, n, ch2, CoshSide(r, n, ca), HalfCosSq(ca))
       /\ SideFromRadius(r, n, sh2) = CoshSide(r, n, ca)

RadiusCaseLaws ==
  kase.kind = "radius" =>
    LET n == kase.n
        r == RealField(FieldOf(Central(n)[2]))
        sh2 == Sinh2Of(kase.t)
        hs2 == AngleFormula(r, n, sh2)
        ca == CosFromRadius(r, n, sh2)
    IN \* radius(angle(R)) = R, i.e. RadiusFormula(r, n, ca) = sh2, cross-multiplied (keeps the integers small)
       /\ QSub(HalfCosSq(ca), SSq(r, n)) = QMul(r, sh2, QMul(r, HalfSinSq(ca), SSq(r, n)))
       /\ HalfSinSq(ca) = hs2
       /\ Triangle(r, n, QAdd(QOne, sh2), SideFromRadius(r, n, sh2), HalfCosSq(ca))
       \* the resulting angle is an admissible interior angle: 0 < a < (n-2) pi/n, i.e. cos a > cos((n-2) pi/n) = -cos(2 pi/n)
       /\ QLess(r, ca, QOne) /\ QLess(r, QSub(QInt(0), CosAng(r, Central(n))), ca)

\* over ALL compatible (n, a), admissible or not: a < (n-2) pi/n  <=>  the radius formula gives sinh^2 R > 0
AdmissibleIffPositive ==
  \A n \in ExactNs : \A a \in Angles :
    Compatible(n, a) =>
      LET r == FieldFor(n, a) IN Admissible(n, a) <=> QSgn(r, RadiusFormula(r, n, CosAng(r, a))) > 0

(***************************************************************************)
(* Emission                                                                *)
(***************************************************************************)
QJ(a) == [x |-> a[1], y |-> a[2]]
CaseObs ==
  CASE kase.kind \in {"angle", "surface"} ->
         LET r == FieldFor(kase.n, kase.a)
             ca == CosAng(r, kase.a)
         IN [kase |-> kase, r |-> r, cosa |-> QJ(ca), coshsqR |-> QJ(CoshSqR(r, kase.n, ca)), coshside |-> QJ(CoshSide(r, kase.n, ca))]
    [] kase.kind = "radius" ->
         LET r == RealField(FieldOf(Central(kase.n)[2]))
             sh2 == Sinh2Of(kase.t)
         IN [kase |-> kase, r |-> r, cosa |-> QJ(CosFromRadius(r, kase.n, sh2)), coshsqR |-> QJ(QAdd(QOne, sh2)),
             coshside |-> QJ(SideFromRadius(r, kase.n, sh2))]
    [] kase.kind = "sweep" /\ kase.n % 2 = 1 ->
         [kase |-> kase, count |-> kase.n, r |-> 2, coshsqR |-> QJ(QAdd(QOne, Sinh2Of(kase.t)))]
    [] OTHER -> [kase |-> kase, count |-> kase.n]
EmitCase == PrintT("CASE " \o ToJson(CaseObs))
=============================================================================
