------------------------------ MODULE HypPoints ------------------------------
(***************************************************************************)
(* Property C01, coordinates: the conversion machine over HypCoords.       *)
(* The state machine converts the CURRENT COORDINATES from chart to chart; *)
(* the invariant says the abstract point never moves, i.e. every chain of  *)
(* conversions returns the coordinates of the same point.                  *)
(*                                                                         *)
(* The same machine carries the QUERY HISTORY of one point object:  a      *)
(* point is BUILT from the coordinates c in the model `chart` (every       *)
(* model, every dimension) and then asked a sequence of read-only queries  *)
(* (coordinates in a model, distance to the origin, distance to a second   *)
(* object built from the same coordinates, origin_to).  Every query has a  *)
(* specified value; the values already HANDED OUT (`held`) and the         *)
(* coordinates the caller supplied (`c`) are values, not windows into the  *)
(* object: no later query changes them (HeldValid, CallerCoordsKept).      *)
(***************************************************************************)
EXTENDS HypCoords

CONSTANTS MaxSteps,
          BPair,       \* bound on |entries| for the table of cross-model distance pairs
          BHist,       \* bound on |entries| of the points that are taken through query histories
          MaxQueries   \* length of the query histories

VARIABLES x,       \* the abstract point (primitive integer vector of length N+1)
          chart,   \* model the current coordinates are written in
          c,       \* current coordinates (sequence of rationals)
          steps, last,
          held     \* query history: sequence of <<query, value handed out>>

(***************************************************************************)
(* The conversion machine                                                  *)
(***************************************************************************)
Init == /\ x \in Points
        /\ chart \in Models /\ Defined(x, chart)
        /\ c = Coord(x, chart)
        /\ steps = 0 /\ last = [a |-> "init"]
        /\ held = <<>>

\* read the coordinates in model m2 of the point whose coordinates in `chart` are c
Convert(m2) ==
  LET y == From(chart, c) IN
  /\ steps < MaxSteps /\ held = <<>>
  /\ Defined(y, m2)
  /\ chart' = m2 /\ c' = Coord(y, m2)
  /\ steps' = steps + 1 /\ UNCHANGED <<x, held>>
  /\ last' = [a |-> "convert", from |-> chart, to |-> m2]

\* the abstract point never moves (query steps leave x, chart and c alone: nothing new to evaluate after them)
PointFixed == held # <<>> \/ (c = Coord(x, chart) /\ From(chart, c) = x)

\* what the coordinates must satisfy in each model
InModel ==
  held # <<>> \/
  CASE chart = "klein" -> RLeq(RNormSq(c), ROne) /\ (RNormSq(c) = ROne <=> Ideal(x))
    [] chart = "poincare" -> RLeq(RNormSq(c), ROne) /\ (RNormSq(c) = ROne <=> Ideal(x))
    [] chart = "hyperboloid" -> RSub(RNormSq(SubSeq(c, 2, N + 1)), RSq(c[1])) = RInt(0 - 1)
    [] chart = "halfspace" -> RSgn(c[N]) >= 0 /\ (RIsZero(c[N]) <=> Ideal(x))
    [] OTHER -> TRUE

\* Points far from the origin (cosh d up to 3363): solutions of the Pell equation x^2 - 2 y^2 = 1 give perfect-square
\* points (x, y, y, 0, ...) of Minkowski norm -1.  Their Klein / Poincare / hyperboloid coordinates are single
\* divisions; the rational half-space formulas and the round-trip invariants would overflow 32-bit arithmetic
\* for them, so they are only emitted (the harness checks conversions among these models and library round trips).
PadN(v) == v \o [i \in 1..(N + 1 - Len(v)) |-> 0]
\* The last Pell solution that fits 32-bit arithmetic, (19601, 13860): hyperbolic distance ~10.6 from the origin, Poincare
\* radius 0.99995, Klein radius 1 - 1.3e-9 - an ordinary interior point whose ball coordinates are close to the sphere.
FarPts == IF N >= 2 THEN {PadN(<<17, 12, 12>>), PadN(<<99, 70, 70>>), PadN(<<577, 408, 408>>), PadN(<<3363, 2378, 2378>>),
                          PadN(<<577, 0 - 408, 408>>), PadN(<<3363, 2378, 0 - 2378>>), PadN(<<99, 0 - 70, 0 - 70>>),
                          PadN(<<19601, 13860, 13860>>), PadN(<<19601, 0 - 13860, 13860>>)}
          ELSE {<<5, 4>>, <<13, 12>>, <<25, 24>>, <<41, 40>>, <<41, 0 - 40>>, <<19601, 19599>>, <<19601, 0 - 19599>>}
FS(v) == CHOOSE r \in 1..300 : r * r = NN(v)           \* S(v) without the linear search up to NN(v)
FarCoshSq(u, v) == R(MDot(u, v), FS(u) * FS(v))          \* -cosh d (both of norm -s^2); small enough not to overflow
\* cond = (x0/s)^2 = 1 / (1 - |k|^2): the conditioning of everything computed from ball coordinates of the point
\* (a relative rounding error eps in the coordinates is eps * cond in cosh d); the harness scales its tolerance by it
ASSUME PrintT("FAR " \o ToJson({[x |-> v, s |-> FS(v), klein |-> Klein(v), cond |-> R(v[1] * v[1], NN(v)),
                                    poincare |-> [i \in 1..N |-> R(v[i + 1], v[1] + FS(v))],
                                    hyperboloid |-> [i \in 1..(N + 1) |-> R(v[i], FS(v))]] : v \in FarPts}))
\* nearly coincident pairs (K, 1, 0, ..) and (K, 0, 1, ..): both have -<x,x> = K^2 - 1, so cosh d = K^2 / (K^2 - 1)
\* exactly, i.e. cosh d - 1 = 1 / (K^2 - 1): distances 1.4e-2 ... 7e-5
NearPairs == IF N >= 2 THEN {<<PadN(<<k, 1, 0>>), PadN(<<k, 0, 1>>), R(1, k * k - 1)>> : k \in {100, 1000, 5000, 20000}}
             ELSE {}
ASSUME PrintT("NEARPAIRS " \o ToJson(NearPairs))
ASSUME PrintT("FARPAIRS " \o ToJson({<<u, v, FarCoshSq(u, v)>> : u \in FarPts, v \in FarPts}))

\* ------------------------------------------------------------------ one metric across the models
\* all ordered pairs of interior points of the (perfect-square) universe with entries bounded by BPair, with the exact
\* cosh d (rational there).  The harness builds the first point from its coordinates in one model and the second from its
\* coordinates in another (all 25 ordered pairs of models): the reported distance does not depend on the models the two
\* points were given in; in particular it is zero (never NaN) for x = y held through coordinates of different models.
PairPts == {v \in Points : Interior(v) /\ \A i \in 1..(N + 1) : v[i] <= BPair /\ 0 - v[i] <= BPair}
PCosh(u, v) == R(0 - MDot(u, v), S(u) * S(v))
PCond(v) == R(v[1] * v[1], NN(v))
ASSUME PrintT("DPAIRS " \o ToJson({<<u, v, PCosh(u, v), RAdd(PCond(u), PCond(v))>> : u \in PairPts, v \in PairPts}))
ASSUME \A u \in PairPts : PCosh(u, u) = ROne

\* ------------------------------------------------------------------ the query-history machine
Queries == Models \cup {"dist_origin", "dist_rebuilt", "origin_to"}
QDefined(v, q) == IF q \in Models THEN Defined(v, q) ELSE Interior(v)
\* the specified value of a query on the point v
QValue(v, q) == CASE q \in Models -> Coord(v, q)
                  [] q = "dist_origin" -> <<R(v[1], S(v))>>       \* cosh d(v, origin) = v1 / s
                  [] q = "dist_rebuilt" -> <<ROne>>               \* cosh d(v, v) = 1: the second object is the same point
                  [] q = "origin_to" -> RVec(v)                   \* image of the origin under the returned isometry
SetNames == {"set:" \o m : m \in Models}
SetModel(q) == CHOOSE m \in Models : q = "set:" \o m
InHist(v) == \A i \in 1..(N + 1) : v[i] <= BHist /\ 0 - v[i] <= BHist
\* an entry of `held` is <<query, value handed out, the point the object held when it was asked, the model it was last given in>>
NQ(h) == Cardinality({i \in 1..Len(h) : h[i][1] \notin SetNames})
HasMove(h) == \E i \in 1..Len(h) : h[i][1] \in SetNames
Query(q) ==
  LET y == From(chart, c) IN
  /\ steps = 0 /\ InHist(x) /\ NQ(held) < MaxQueries
  /\ (HasMove(held) => NQ(held) < 2)          \* histories with a move have the form: query, move, query (in every tier)
  /\ QDefined(y, q)
  /\ held' = Append(held, <<q, QValue(y, q), y, chart>>)
  /\ UNCHANGED <<x, chart, c, steps>>
  /\ last' = [a |-> "query", q |-> q]

\* The live object is MOVED: its coordinates are set again through the setter of model m2 (`coords(m2, data)`), to the
\* coordinates of another point of the universe (Rot(x): spatial coordinates rotated, the one that comes first negated -- a
\* symmetry of the universe, so the target is a point whose specified values are tabulated too).  At most one move per
\* history, between two queries: a value computed for the old point (and possibly memoised in the object) must not
\* answer for the new one, and the values handed out before the move stay the values of the OLD point.
Rot(v) == [i \in 1..(N + 1) |-> IF i = 1 THEN v[1] ELSE IF i = 2 THEN 0 - v[N + 1] ELSE v[i - 1]]
Assign(m2) ==
  LET v == Rot(x) IN
  /\ steps = 0 /\ InHist(x) /\ Len(held) = 1 /\ NQ(held) = 1 /\ NQ(held) < MaxQueries
  /\ Defined(v, m2)
  /\ x' = v /\ chart' = m2 /\ c' = Coord(v, m2)
  /\ held' = Append(held, <<"set:" \o m2, Coord(v, m2), v, m2>>)
  /\ UNCHANGED steps
  /\ last' = [a |-> "assign", m |-> m2]

Next == (\E m2 \in Models : Convert(m2)) \/ (\E q \in Queries : Query(q)) \/ (\E m2 \in Models : Assign(m2))

\* values handed out describe the point the object held when they were handed out (queries are read-only, results are not
\* windows into the object, moving the object does not reach back into them); the last entry describes the point as it is now
HeldValid == /\ \A i \in 1..Len(held) : IF held[i][1] \in SetNames THEN held[i][2] = Coord(held[i][3], SetModel(held[i][1]))
                                                                  ELSE held[i][2] = QValue(held[i][3], held[i][1])
             /\ (held # <<>> => held[Len(held)][3] = x)
             /\ \A i \in 1..Len(held) : (\A j \in (i + 1)..Len(held) : held[j][1] \notin SetNames) => held[i][3] = x
\* a move really moves (vacuity guard of the Assign action: the universe has points off the rotation axis)
ASSUME \E v \in Points : Rot(v) # v /\ Rot(v) \in Points
\* the caller's coordinates still are the coordinates of the point in the model it was built in
\* (this is PointFixed: query steps leave c alone, so it is checked under that name)
CallerCoordsKept == PointFixed
\* the distance to the origin agrees with the closed form of the ball models on the exact coordinates
OriginDistance == (held = <<>> /\ Interior(x)) => /\ RMul(QValue(x, "dist_origin")[1], RSub(ROne, RNormSq(Poincare(x)))) = RAdd(ROne, RNormSq(Poincare(x)))
                                 /\ RMul(RSq(QValue(x, "dist_origin")[1]), RSub(ROne, RNormSq(Klein(x)))) = ROne

QNames == [i \in 1..Len(held) |-> held[i][1]]
\* cond = (x1/s)^2 = 1 / (1 - |k|^2): conditioning of arccosh at 1 for this point (tolerance of "zero distance")
Cond(v) == IF Interior(v) THEN R(v[1] * v[1], NN(v)) ELSE RZero
EmitHist == IF ~InHist(x) \/ MaxQueries = 0 THEN TRUE
            ELSE IF Len(held) = 0
            THEN PrintT("HIST " \o ToJson([k |-> "point", x |-> x, ideal |-> Ideal(x), chart |-> chart, c |-> c, cond |-> Cond(x),
                                             vals |-> [q \in {r \in Queries : QDefined(x, r)} |-> QValue(x, q)]]))
            ELSE (NQ(held) < MaxQueries /\ ~(HasMove(held) /\ NQ(held) = 2)) \/ PrintT("HIST " \o ToJson([k |-> "hist", x |-> held[1][3], chart |-> held[1][4], qs |-> QNames,
                                                                                 at |-> [i \in 1..Len(held) |-> held[i][3]]]))

Emit == last'.a # "convert" \/
        PrintT("EMIT " \o ToJson([x |-> x, ideal |-> Ideal(x), from |-> [m |-> chart, c |-> c],
                                    to |-> [m |-> chart', c |-> c']]))
View == <<x, chart, c, held>>
=============================================================================
