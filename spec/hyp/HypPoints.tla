------------------------------ MODULE HypPoints ------------------------------
(***************************************************************************)
(* Property C01, coordinates: the conversion machine over HypCoords.       *)
(* The state machine converts the CURRENT COORDINATES from chart to chart; *)
(* the invariant says the abstract point never moves, i.e. every chain of  *)
(* conversions returns the coordinates of the same point.                  *)
(***************************************************************************)
EXTENDS HypCoords

CONSTANT MaxSteps

VARIABLES x,       \* the abstract point (primitive integer vector of length N+1)
          chart,   \* model the current coordinates are written in
          c,       \* current coordinates (sequence of rationals)
          steps, last

(***************************************************************************)
(* The conversion machine                                                  *)
(***************************************************************************)
Init == /\ x \in Points
        /\ chart \in Models /\ Defined(x, chart)
        /\ c = Coord(x, chart)
        /\ steps = 0 /\ last = [a |-> "init"]

\* read the coordinates in model m2 of the point whose coordinates in `chart` are c
Convert(m2) ==
  LET y == From(chart, c) IN
  /\ steps < MaxSteps
  /\ Defined(y, m2)
  /\ chart' = m2 /\ c' = Coord(y, m2)
  /\ steps' = steps + 1 /\ UNCHANGED x
  /\ last' = [a |-> "convert", from |-> chart, to |-> m2]

Next == \E m2 \in Models : Convert(m2)

\* the abstract point never moves
PointFixed == c = Coord(x, chart) /\ From(chart, c) = x

\* what the coordinates must satisfy in each model
InModel ==
  CASE chart = "klein" -> RLeq(RNormSq(c), ROne) /\ (RNormSq(c) = ROne <=> Ideal(x))
    [] chart = "poincare" -> RLeq(RNormSq(c), ROne) /\ (RNormSq(c) = ROne <=> Ideal(x))
    [] chart = "hyperboloid" -> RSub(RNormSq(SubSeq(c, 2, N + 1)), RSq(c[1])) = RInt(0 - 1)
    [] chart = "halfspace" -> RSgn(c[N]) >= 0 /\ (RIsZero(c[N]) <=> Ideal(x))
    [] OTHER -> TRUE

Emit == PrintT("EMIT " \o ToJson([x |-> x, ideal |-> Ideal(x), from |-> [m |-> chart, c |-> c],
                                    to |-> [m |-> chart', c |-> c']]))
View == <<x, chart, c>>
=============================================================================
