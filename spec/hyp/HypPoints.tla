------------------------------ MODULE HypPoints ------------------------------
(***************************************************************************)
(* Property C01, coordinates: the conversion machine over HypCoords.       *)
(* The state machine converts the CURRENT COORDINATES from chart to chart; *)
(* the invariant says the abstract point never moves, i.e. every chain of  *)
(* conversions returns the coordinates of the same point.                  *)
(***************************************************************************)
EXTENDS HypCoords

CONSTANT MaxSteps

VARIABLES x,       \* the abstract point (primitive integer vector of length N+1)
          chart,   \* model the current coordinates are written in
          c,       \* current coordinates (sequence of rationals)
          steps, last

(***************************************************************************)
(* The conversion machine                                                  *)
(***************************************************************************)
Init == /\ x \in Points
        /\ chart \in Models /\ Defined(x, chart)
        /\ c = Coord(x, chart)
        /\ steps = 0 /\ last = [a |-> "init"]

\* read the coordinates in model m2 of the point whose coordinates in `chart` are c
Convert(m2) ==
  LET y == From(chart, c) IN
  /\ steps < MaxSteps
  /\ Defined(y, m2)
  /\ chart' = m2 /\ c' = Coord(y, m2)
  /\ steps' = steps + 1 /\ UNCHANGED x
  /\ last' = [a |-> "convert", from |-> chart, to |-> m2]

Next == \E m2 \in Models : Convert(m2)

\* the abstract point never moves
PointFixed == c = Coord(x, chart) /\ From(chart, c) = x

\* what the coordinates must satisfy in each model
InModel ==
  CASE chart = "klein" -> RLeq(RNormSq(c), ROne) /\ (RNormSq(c) = ROne <=> Ideal(x))
    [] chart = "poincare" -> RLeq(RNormSq(c), ROne) /\ (RNormSq(c) = ROne <=> Ideal(x))
    [] chart = "hyperboloid" -> RSub(RNormSq(SubSeq(c, 2, N + 1)), RSq(c[1])) = RInt(0 - 1)
    [] chart = "halfspace" -> RSgn(c[N]) >= 0 /\ (RIsZero(c[N]) <=> Ideal(x))
    [] OTHER -> TRUE

\* Points far from the origin (cosh d up to 3363): solutions of the Pell equation x^2 - 2 y^2 = 1 give perfect-square
\* points (x, y, y, 0, ...) of Minkowski norm -1.  Their Klein / Poincare / hyperboloid coordinates are single
\* divisions; the rational half-space formulas and the round-trip invariants would overflow 32-bit arithmetic
\* for them, so they are only emitted (the harness checks conversions among these models and library round trips).
PadN(v) == v \o [i \in 1..(N + 1 - Len(v)) |-> 0]
FarPts == IF N >= 2 THEN {PadN(<<17, 12, 12>>), PadN(<<99, 70, 70>>), PadN(<<577, 408, 408>>), PadN(<<3363, 2378, 2378>>),
                          PadN(<<577, 0 - 408, 408>>), PadN(<<3363, 2378, 0 - 2378>>), PadN(<<99, 0 - 70, 0 - 70>>)}
          ELSE {<<5, 4>>, <<13, 12>>, <<25, 24>>, <<41, 40>>, <<41, 0 - 40>>}
FarCoshSq(u, v) == R(MDot(u, v), S(u) * S(v))          \* -cosh d (both of norm -s^2); small enough not to overflow
ASSUME PrintT("FAR " \o ToJson({[x |-> v, s |-> S(v), klein |-> Klein(v), poincare |-> Poincare(v),
                                    hyperboloid |-> Hyperboloid(v)] : v \in FarPts}))
\* nearly coincident pairs (K, 1, 0, ..) and (K, 0, 1, ..): both have -<x,x> = K^2 - 1, so cosh d = K^2 / (K^2 - 1)
\* exactly, i.e. cosh d - 1 = 1 / (K^2 - 1): distances 1.4e-2 ... 7e-5
NearPairs == IF N >= 2 THEN {<<PadN(<<k, 1, 0>>), PadN(<<k, 0, 1>>), R(1, k * k - 1)>> : k \in {100, 1000, 5000, 20000}}
             ELSE {}
ASSUME PrintT("NEARPAIRS " \o ToJson(NearPairs))
ASSUME PrintT("FARPAIRS " \o ToJson({<<u, v, FarCoshSq(u, v)>> : u \in FarPts, v \in FarPts}))

Emit == PrintT("EMIT " \o ToJson([x |-> x, ideal |-> Ideal(x), from |-> [m |-> chart, c |-> c],
                                    to |-> [m |-> chart', c |-> c']]))
View == <<x, chart, c>>
=============================================================================
