------------------------------- MODULE Rescale -------------------------------
(***************************************************************************)
(* Property C12, second sentence: multiplying the homogeneous coordinates   *)
(* of any input point, unit by unit, by non-zero scalars (negative ones     *)
(* included) changes no geometric output.  In the specification a point IS  *)
(* its projective class, so Rescale is a stuttering step: the abstract      *)
(* object, and every observation defined on it, is unchanged.  What TLC     *)
(* checks is that the canonical forms the other specifications compare with *)
(* really are scale invariant (Prim, the tangent-direction class            *)
(* (x, v) ~ (c x, sgn(c) m v), Minkowski cosh^2), and it emits, per         *)
(* (object, scale vector), the observations the library must reproduce on   *)
(* the rescaled representatives.                                            *)
(***************************************************************************)
EXTENDS HypAction

VARIABLE sc        \* one scale factor <<num, den>> per row of the object (tangent: point row, then vector)

HC == INSTANCE HypCoords WITH B <- 0

Factors == <<<<0 - 3, 1>>, <<0 - 1, 1>>, <<0 - 1, 2>>, <<1, 3>>, <<2, 1>>, <<1, 1>>>>
NRows(X) == IF X.cls = "tangent" THEN 2 ELSE Len(X.rows)
Patterns(k) == {[i \in 1..k |-> Factors[f]] : f \in 1..Len(Factors)}
               \cup {[i \in 1..k |-> Factors[((i + s) % Len(Factors)) + 1]] : s \in 0..(Len(Factors) - 1)}

\* a hyperplane is given by the homogeneous coordinates of its normal (a point of the dual projective space): rescaling
\* them changes neither the hyperplane nor the reflection across it
Scalable == {X \in Objects : X.cls \notin {"isometry", "subspace"}}

RInit == /\ Init
         /\ obj \in Scalable
         /\ A \in {Lox(3, 2), Refl(Pad(<<1, 2>>)), Mul(Boost(Pad(<<9, 4, 8>>)), RotIn(1, 2, 5, 12, 13))}
         /\ B = A
         /\ sc \in Patterns(NRows(obj))

\* the stuttering step
Rescale(i, c) == /\ i \in 1..NRows(obj) /\ sc' = [sc EXCEPT ![i] = c]
                 /\ UNCHANGED <<g, kind, len, last, obj, A, B>>
RNext == \E i \in 1..5 : \E f \in 1..Len(Factors) : Rescale(i, Factors[f])

\* canonical forms are scale invariant (integer numerators of the factors)
PrimInvariant == \A i \in 1..Len(obj.rows) : \A f \in 1..Len(Factors) :
                    Prim(VScale(Factors[f][1], obj.rows[i])) = Prim(obj.rows[i])
\* tangent class: (x, v) ~ (c x, sgn(c) m v), canonical form (Prim(x), PrimPos(sgn(c) v))
TangentClassInvariant ==
  obj.cls = "tangent" => \A f \in 1..Len(Factors) : \A m \in {1, 2, 5} :
     LET c == Factors[f][1]
         x2 == VScale(c, obj.rows[1])
         v2 == VScale(Sgn(c) * m, obj.vec)
     IN Prim(x2) = obj.rows[1] /\ PrimPos(VScale(Sgn(x2[1]), v2)) = obj.vec
CoshInvariant ==
  obj.cls = "pair" /\ MNorm(obj.rows[1]) < 0 /\ MNorm(obj.rows[2]) < 0 /\ obj.rows[1][1] < 50 =>      \* 32-bit guard
     \A f1, f2 \in 1..Len(Factors) :
        LET x == VScale(Factors[f1][1], obj.rows[1])
            y == VScale(Factors[f2][1], obj.rows[2])
        IN R(MDot(x, y) * MDot(x, y), MNorm(x) * MNorm(y)) = R(MDot(obj.rows[1], obj.rows[2]) * MDot(obj.rows[1], obj.rows[2]),
                                                                   MNorm(obj.rows[1]) * MNorm(obj.rows[2]))

\* the reflection across a hyperplane does not depend on the representative of the normal
ReflInvariant == obj.cls = "hyperplane" => \A f \in 1..Len(Factors) : Refl(VScale(Factors[f][1], obj.rows[1])) = Refl(obj.rows[1])

\* ------------------------------------------------------------- observations
SquarePt(x) == MNorm(x) < 0 /\ IsSquare(0 - MNorm(x))
Along(X, p, q) == Act(X.frame, Pad(<<q, p>>))                \* point at distance t along the unit tangent, tanh t = p/q
\* direction at x of the geodesic towards y (both on the upper sheet):  N_x y + <x,y> x
Towards(x, y) == PrimPos(VAdd(VScale(0 - MNorm(x), y), VScale(MDot(x, y), x)))

Obs ==
  CASE obj.cls = "point" /\ SquarePt(obj.rows[1]) ->
         [coords |-> [m \in {"klein", "poincare", "hyperboloid", "halfspace"} |-> HC!Coord(obj.rows[1], m)]]
    [] obj.cls = "pair" /\ MNorm(obj.rows[1]) < 0 /\ MNorm(obj.rows[2]) < 0 ->
         [coshsq |-> R(MDot(obj.rows[1], obj.rows[2]) * MDot(obj.rows[1], obj.rows[2]), MNorm(obj.rows[1]) * MNorm(obj.rows[2])),
          towards |-> IF obj.rows[1] = obj.rows[2] THEN <<>> ELSE Towards(obj.rows[1], obj.rows[2])]
    [] obj.cls = "tangent" -> [along |-> Along(obj, 3, 5), back |-> Along(obj, 0 - 3, 5), tanh |-> <<3, 5>>]
    [] obj.cls = "hyperplane" -> [refl |-> Refl(obj.rows[1])]
    [] OTHER -> [none |-> TRUE]

TowardsIsTangent == obj.cls = "pair" /\ MNorm(obj.rows[1]) < 0 /\ MNorm(obj.rows[2]) < 0 /\ obj.rows[1] # obj.rows[2] =>
                      MDot(obj.rows[1], Towards(obj.rows[1], obj.rows[2])) = 0
AlongOnGeodesic == obj.cls = "tangent" =>
                     \* 5 * Along = 5 x_hat + 3 v_hat up to scale: Along lies in span(x, v) and at cosh^2 = 25/16
                     R(MDot(obj.rows[1], Along(obj, 3, 5)) * MDot(obj.rows[1], Along(obj, 3, 5)),
                       MNorm(obj.rows[1]) * MNorm(Along(obj, 3, 5))) = R(25, 16)

EmitRescale == (sc \in Patterns(NRows(obj))) => PrintT("CASE " \o ToJson([obj |-> obj, A |-> A, sc |-> sc, imgA |-> ActObj(A, obj), obs |-> Obs]))
RView == <<obj, A, sc>>
InPatterns == sc \in Patterns(NRows(obj))      \* state constraint: the emitted scale vectors
=============================================================================
