----------------------------- MODULE HypIsoHist -----------------------------
(***************************************************************************)
(* Property C02, the word machine of HypIso with two additions.             *)
(*                                                                         *)
(* 1. Reflections across hyperplanes GIVEN BY POINTS.  A hyperplane of H^n  *)
(*    is also handed to the library as a Subspace spanned by n ideal        *)
(*    points (for n = 2: a Geodesic by its two ideal endpoints, a Segment   *)
(*    by two interior points).  Such data with exact integer coordinates    *)
(*    are obtained by moving a coordinate hyperplane e_j^perp (spanned by   *)
(*    the ideal points e_0 +- e_k, k # j) with an exact isometry h: the     *)
(*    hyperplane h(e_j^perp) has the ideal points h(e_0 +- e_k), the        *)
(*    spacelike normal h(e_j), and the reflection across it is              *)
(*    h R_(e_j) h^-1 = R_(h e_j)  (checked by TLC).  Most of them do NOT    *)
(*    pass through the origin.  A "refl_sub" atom is the first letter of a  *)
(*    word; the other letters are the atoms of HypIso.                      *)
(*                                                                         *)
(* 2. A caller that WRITES INTO ARRAYS THE LIBRARY HANDED OUT (the          *)
(*    Minkowski form returned by minkowski(n) / obj.minkowski, the matrix   *)
(*    of an isometry it built earlier, the coordinates of the origin).      *)
(*    CallerWrites changes nothing in the abstract state: every constructor *)
(*    called afterwards must still return the same isometry.  After         *)
(*    CallerWrites the machine builds every atom once (words of length 1).  *)
(***************************************************************************)
EXTENDS HypIso

VARIABLES dirty

Unit(k) == [i \in 1..Dim |-> IF i = k THEN 1 ELSE 0]
\* the ideal points e_0 + e_k (k # j) and one e_0 - e_k: n independent null vectors spanning e_j^perp
CoordIdeal(j) == LET ks == [i \in 1..(N - 1) |-> IF i < j THEN i ELSE i + 1]        \* the spatial indices # j
                 IN [i \in 1..(N - 1) |-> VAdd(E1, Unit(ks[i] + 1))] \o <<VSub(E1, Unit(ks[1] + 1))>>
Movers == {[k |-> "origin_to", x |-> Pad(<<3, 2, 2>>)], [k |-> "lox", p |-> 2, q |-> 1]}
          \cup (IF N >= 3 THEN {[k |-> "origin_to", x |-> Pad(<<3, 2, 0, 2>>)]} ELSE {})
OnChordH(u, v, p, q) == Prim(VAdd(VScale(p, u), VScale(q - p, v)))
SubAtom(j, h) ==
  LET hv == AtomVal(h)
      ideal == [i \in 1..N |-> Act(hv, CoordIdeal(j)[i])]
  IN [k |-> "refl_sub", j |-> j, h |-> h, ideal |-> ideal, normal |-> Act(hv, Unit(j + 1)),
      \* two interior points of the hyperplane (for n = 2 they determine it: the Segment route)
      inner |-> <<OnChordH(ideal[1], ideal[N], 1, 3), OnChordH(ideal[1], ideal[N], 3, 5)>>]
SubAtoms == {SubAtom(j, h) : j \in 1..2, h \in Movers}
SubVal(a) == Refl(a.normal)

HInit == Init /\ dirty = FALSE
LeftSub(a) ==
  /\ len = 0 /\ len < MaxLen /\ a \in SubAtoms
  \* (len is the budget of the word machine: a refl_sub atom leaves room for ONE more letter - the point of these
  \* atoms is the constructor, compositions are explored with the atoms of HypIso)
  /\ g' = Mul(SubVal(a), g) /\ len' = (IF MaxLen > 1 THEN MaxLen - 1 ELSE 1) /\ UNCHANGED <<kind, dirty>>
  /\ last' = [a |-> "left", atom |-> a]
CallerWrites ==
  /\ len = 0 /\ ~dirty /\ dirty' = TRUE
  /\ UNCHANGED <<g, kind, len>>
  /\ last' = [a |-> "caller_writes"]
HNext == \/ (Next /\ UNCHANGED dirty /\ (dirty => len = 0))
         \/ (len = 0 /\ \E a \in SubAtoms : LeftSub(a))
         \/ CallerWrites

\* (a fact about the constants; evaluated in the initial states only)
SubAtomsSound == (len = 0) =>
  /\ \A a \in SubAtoms :
       /\ MNorm(a.normal) > 0
       /\ \A i \in 1..N : MNorm(a.ideal[i]) = 0 /\ MDot(a.ideal[i], a.normal) = 0 /\ Act(SubVal(a), a.ideal[i]) = a.ideal[i]
       /\ \A i, k \in 1..N : i # k => a.ideal[i] # a.ideal[k]
       /\ \A i \in 1..2 : MNorm(a.inner[i]) < 0 /\ MDot(a.inner[i], a.normal) = 0
       /\ a.inner[1] # a.inner[2]
       \* reflecting across the moved hyperplane = conjugating the reflection across the coordinate hyperplane
       /\ SubVal(a) = Mul(AtomVal(a.h), Mul(Refl(Unit(a.j + 1)), Inv(AtomVal(a.h))))
  \* most of these hyperplanes miss the origin (normal with a time component); at least one per j
  /\ \A j \in 1..2 : \E a \in SubAtoms : a.j = j /\ a.normal[1] # 0

\* a translation parameter p/q with q = 1 is an integer, and may be handed over as one (Python int, NumPy integer scalars of
\* either width, 0-d integer array); every packaging denotes the same atom
LoxPackagings(a) == IF a.q = 1 THEN {"float", "int", "int64", "int32", "int64_0d", "float_0d"} ELSE {"float", "float_0d"}
ASSUME PrintT("PACKAGINGS " \o ToJson({[atom |-> a, ways |-> LoxPackagings(a)] : a \in {b \in ExactAtoms : b.k = "lox"}}))

HEmit == PrintT("EMIT " \o ToJson([from |-> [g |-> g, kind |-> kind, len |-> len, dirty |-> dirty], act |-> last',
                                     to |-> [g |-> g', kind |-> kind', len |-> len', dirty |-> dirty', origin |-> Act(g', E1)]]))
HView == <<g, kind, len, dirty>>
=============================================================================
