------------------------------ MODULE HypMetric ------------------------------
(***************************************************************************)
(* Property C01, metric.  cosh^2 d(x,y) = <x,y>^2 / (<x,x><y,y>) exactly,   *)
(* for all primitive integer interior points.  TLC checks on every pair    *)
(* (and, with Triples = TRUE, every triple) of the universe:               *)
(*   - the reversed Cauchy-Schwarz inequality (cosh >= 1, = 1 iff x = y),  *)
(*   - agreement of the closed-form metrics of the five models evaluated   *)
(*     on the exact coordinates (perfect-square sub-universe),             *)
(*   - the triangle inequality in square-root-free form.                   *)
(***************************************************************************)
EXTENDS HypCoords

CONSTANTS Triples, SquareOnly

VARIABLES x, y, z

AllInterior == {v \in Box(N + 1, B) : v[1] > 0 /\ IsPrim(v) /\ NN(v) > 0}
U == IF SquareOnly THEN {v \in AllInterior : IsSquare(NN(v))} ELSE AllInterior
Sq(v) == IsSquare(NN(v))

CoshSq(u, v) == R(MDot(u, v) * MDot(u, v), NN(u) * NN(v))
\* cosh itself, rational on the perfect-square sub-universe
Cosh(u, v) == R(0 - MDot(u, v), S(u) * S(v))

Init == /\ x \in U /\ y \in U
        /\ z \in (IF Triples THEN U ELSE {x})
Next == UNCHANGED <<x, y, z>>

ReversedCauchySchwarz == RLeq(ROne, CoshSq(x, y)) /\ (CoshSq(x, y) = ROne <=> x = y)
Symmetric == CoshSq(x, y) = CoshSq(y, x)
TimeOrientation == MDot(x, y) < 0          \* both on the upper sheet

\* closed forms of the models on exact coordinates
CoshPoincare(p, q) == RAdd(ROne, RDiv(RMul(RInt(2), RNormSq(RVSub(p, q))),
                                       RMul(RSub(ROne, RNormSq(p)), RSub(ROne, RNormSq(q)))))
CoshSqKlein(k, l) == RDiv(RSq(RSub(ROne, RDot(k, l))),
                          RMul(RSub(ROne, RNormSq(k)), RSub(ROne, RNormSq(l))))
CoshHalf(a, b) == RAdd(ROne, RDiv(RNormSq(RVSub(a, b)), RMul(RInt(2), RMul(a[N], b[N]))))
CoshHyperboloid(g, h) == RNeg(RSub(RDot(g, h), RMul(RInt(2), RMul(g[1], h[1]))))

ModelsAgree ==
  (Sq(x) /\ Sq(y)) =>
    /\ CoshPoincare(Poincare(x), Poincare(y)) = Cosh(x, y)
    /\ CoshHalf(Halfspace(x), Halfspace(y)) = Cosh(x, y)
    /\ CoshHyperboloid(Hyperboloid(x), Hyperboloid(y)) = Cosh(x, y)
    /\ RSq(Cosh(x, y)) = CoshSq(x, y)
KleinAgrees == CoshSqKlein(Klein(x), Klein(y)) = CoshSq(x, y)

\* d(x,z) <= d(x,y) + d(y,z)  <=>  a <= c1 c2 + sqrt((c1^2-1)(c2^2-1)) with a = cosh d(x,z), c1 = cosh d(x,y),
\* c2 = cosh d(y,z).  Multiplying out the denominators (P = -<x,z>, Q = -<x,y>, T = -<y,z>, all > 0):
\*   a - c1 c2 <= 0                      <=>  P N_y <= Q T
\*   (a - c1 c2)^2 <= (c1^2-1)(c2^2-1)   <=>  (P N_y - Q T)^2 <= (Q^2 - N_x N_y)(T^2 - N_y N_z)
\* an integer polynomial inequality, valid for every interior point (no perfect squares needed).
Triangle ==
  Triples =>
    LET P == 0 - MDot(x, z)
        Q == 0 - MDot(x, y)
        T == 0 - MDot(y, z)
        d == P * NN(y) - Q * T
    IN d <= 0 \/ d * d <= (Q * Q - NN(x) * NN(y)) * (T * T - NN(y) * NN(z))

\* A point is a projective class: the metric may not depend on the representatives.  The harness supplies the two
\* points of every pair through the representatives RepScales[i] * x, RepScales[j] * y for the listed patterns (a
\* negative factor puts the representative on the lower sheet; equal points are then held through DIFFERENT vectors).
RepScales == <<<<1, 1>>, <<0 - 1, 1>>, <<3, 1>>, <<0 - 1, 2>>, <<7, 10>>, <<1, 20000>>>>
RepPatterns == {<<1, 2>>, <<3, 1>>, <<4, 3>>, <<2, 5>>, <<5, 5>>, <<1, 6>>, <<6, 4>>}
ASSUME PrintT("REPS " \o ToJson([scales |-> RepScales, patterns |-> RepPatterns]))
ScaleInvariant == \A p \in RepPatterns :
                     LET a == RepScales[p[1]][1]
                         b == RepScales[p[2]][1]
                     IN CoshSq(VScale(a, x), VScale(b, y)) = CoshSq(x, y)

EmitPair == Triples \/ PrintT("PAIR " \o ToJson([x |-> x, y |-> y, nx |-> NN(x), ny |-> NN(y), coshsq |-> CoshSq(x, y)]))
=============================================================================
