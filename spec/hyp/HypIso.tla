------------------------------- MODULE HypIso -------------------------------
(***************************************************************************)
(* Exact isometries of H^n (properties C02, C03, C13, C15).  An isometry    *)
(* is a pair <<M, d>>: integer matrix M acting on COLUMN vectors, common    *)
(* denominator d > 0, gcd-normalised, with M^T J M = d^2 J.  Atoms with an  *)
(* exact value: reflections in integer spacelike vectors, Pythagorean       *)
(* rotations, rational-parameter loxodromics, signed-permutation and        *)
(* Pythagorean elliptic blocks.  Atoms whose value the library completes    *)
(* by an SVD frame (origin_to(p)) are modelled by what IS determined: the   *)
(* coset Boost(p).O(n), i.e. the image of the origin; states reached        *)
(* through them are flagged inexact and only carry coset information.       *)
(*                                                                         *)
(* The state machine builds words: Left(a) multiplies by an atom on the     *)
(* left, Invert inverts an exact element.  Invariants: form preserved,      *)
(* inverse law, causal type and Minkowski products of test points           *)
(* preserved.                                                               *)
(***************************************************************************)
EXTENDS IntLinAlg, Naturals, FiniteSets, TLC, Json

CONSTANTS N,        \* dimension of hyperbolic space (>= 2)
          MaxLen    \* maximal number of factors of a word

VARIABLES g,        \* <<M, d>>
          kind,     \* "exact": g is the element; "coset": only the coset g.O(n) (image of the origin) is
                    \* determined; "form": only membership in O(n,1) is determined (g is meaningless)
          len, last
exact == kind = "exact"

Dim == N + 1
J == MinkJ(Dim)
Pad(v) == v \o [i \in 1..(Dim - Len(v)) |-> 0]

\* gcd of all entries and the denominator
RECURSIVE MGcd(_)
MGcd(M) == IF M = <<>> THEN 0 ELSE Gcd(VGcd(Head(M)), MGcd(Tail(M)))
Norm(M, d) == LET q == Gcd(MGcd(M), d) * Sgn(d)
              IN <<[i \in 1..Len(M) |-> [j \in 1..Len(M[i]) |-> M[i][j] \div q]], d \div q>>

Mul(a, b) == Norm(MatMul(a[1], b[1]), a[2] * b[2])
\* (M/d)^-1 = J (M/d)^T J
Inv(a) == Norm(MatMul(J, MatMul(Transpose(a[1]), J)), a[2])
Ident == <<IdMat(Dim), 1>>
Act(a, v) == Prim(MatVec(a[1], v))                  \* image of a projective point

Outer(u, v) == [i \in 1..Len(u) |-> [j \in 1..Len(v) |-> u[i] * v[j]]]
MatAdd(A, B) == [i \in 1..Len(A) |-> [j \in 1..Len(A[i]) |-> A[i][j] + B[i][j]]]

(***************************************************************************)
(* Atoms                                                                   *)
(***************************************************************************)
\* reflection across v^perp, v spacelike:  I - 2 v (Jv)^T / <v,v>
Refl(v) == LET q == MNorm(v) IN
           Norm(MatAdd(MatScale(q, IdMat(Dim)), MatScale(0 - 2, Outer(v, MatVec(J, v)))), q)

\* rotation by the angle with (cos, sin) = (a/c, b/c) in the plane of spatial coordinates p < q (1-based)
RotIn(p, q, a, b, c) ==
  Norm([i \in 1..Dim |-> [j \in 1..Dim |->
          IF i = p + 1 /\ j = p + 1 THEN a
          ELSE IF i = p + 1 /\ j = q + 1 THEN 0 - b
          ELSE IF i = q + 1 /\ j = p + 1 THEN b
          ELSE IF i = q + 1 /\ j = q + 1 THEN a
          ELSE IF i = j THEN c ELSE 0]], c)

\* standard loxodromic with parameter lambda = p/q along the first spatial axis
Lox(p, q) ==
  Norm([i \in 1..Dim |-> [j \in 1..Dim |->
          IF i <= 2 /\ j <= 2 THEN (IF i = j THEN p * p + q * q ELSE p * p - q * q)
          ELSE IF i = j THEN 2 * p * q ELSE 0]], 2 * p * q)

\* elliptic(block) for a signed permutation of the spatial coordinates: e_(i+1) -> s[i][2] * e_(s[i][1]+1)
SignedPerm(s) ==
  <<[i \in 1..Dim |-> [j \in 1..Dim |->
       IF i = 1 /\ j = 1 THEN 1
       ELSE IF i > 1 /\ j > 1 /\ s[j - 1][1] = i - 1 THEN s[j - 1][2] ELSE 0]], 1>>

\* the boost sending the origin e_1 to the interior point x (with -<x,x> = s^2):
\*   [[x1, xs^T], [xs, s I + xs xs^T / (s + x1)]] / s
Boost(x) ==
  LET s == Sqrt(0 - MNorm(x))
      t == s + x[1]
  IN Norm([i \in 1..Dim |-> [j \in 1..Dim |->
             IF i = 1 /\ j = 1 THEN x[1] * t
             ELSE IF i = 1 THEN t * x[j]
             ELSE IF j = 1 THEN t * x[i]
             ELSE (IF i = j THEN s * t ELSE 0) + x[i] * x[j]]], s * t)

Swap12 == [i \in 1..N |-> IF i = 1 THEN <<2, 1>> ELSE IF i = 2 THEN <<1, 1>> ELSE <<i, 1>>]
Flip1 == [i \in 1..N |-> IF i = 1 THEN <<1, 0 - 1>> ELSE <<i, 1>>]
Cycle == [i \in 1..N |-> <<(i % N) + 1, 1>>]

ReflNormals == {Pad(<<0, 1>>), Pad(<<0, 0, 1>>), Pad(<<0, 1, 1>>), Pad(<<0, 1, 0 - 1>>), Pad(<<1, 2>>),
                Pad(<<1, 1, 1>>), Pad(<<1, 0, 0 - 2>>)}
             \cup (IF N >= 3 THEN {Pad(<<0, 0, 0, 1>>), Pad(<<1, 1, 1, 1>>), Pad(<<0, 1, 0, 2>>)} ELSE {})
OriginTargets == {Pad(<<3, 2, 2>>), Pad(<<9, 4, 8>>), Pad(<<7, 2, 6>>), Pad(<<5, 3>>), Pad(<<5, 0, 0 - 4>>)}
                 \cup (IF N >= 3 THEN {Pad(<<3, 2, 0, 2>>), Pad(<<5, 4, 2, 2>>)} ELSE {})

ExactAtoms ==
  {[k |-> "refl", v |-> v] : v \in ReflNormals}
  \cup {[k |-> "rot", a |-> t[1], b |-> t[2], c |-> t[3]] : t \in {<<3, 4, 5>>, <<4, 0 - 3, 5>>, <<5, 12, 13>>, <<0, 1, 1>>}}
  \cup {[k |-> "lox", p |-> t[1], q |-> t[2]] : t \in {<<2, 1>>, <<3, 1>>, <<3, 2>>, <<1, 2>>}}
  \cup {[k |-> "perm", s |-> s] : s \in {Swap12, Flip1} \cup (IF N >= 3 THEN {Cycle} ELSE {})}
  \cup (IF N >= 3 THEN {[k |-> "rotin", p |-> 2, q |-> 3, a |-> 3, b |-> 4, c |-> 5]} ELSE {})
UndetAtoms == {[k |-> "origin_to", x |-> x] : x \in OriginTargets}
\* atoms known only to lie in O(n,1): images of SL^+-(2,Z) (n = 2; value fixed only up to conjugacy by the
\* documentation) and generators of Coxeter hyperbolic representations (diagonalisation dependent)
Sl2Mats == {<<<<1, 1>>, <<0, 1>>>>, <<<<0, 0 - 1>>, <<1, 0>>>>, <<<<2, 1>>, <<1, 1>>>>, <<<<1, 0>>, <<0, 0 - 1>>>>,
            <<<<0, 1>>, <<1, 0>>>>, <<<<3, 2>>, <<1, 1>>>>}
\* an infinite label is written 0 or negative
CoxGroups == IF N = 2 THEN {<<2, 3, 7>>, <<3, 3, 4>>, <<2, 4, 5>>, <<3, 4, 0>>, <<3, 3, 0 - 2>>, <<0 - 1, 0 - 1, 0 - 1>>}
             ELSE IF N = 3 THEN {<<3, 5, 3>>, <<5, 3, 4>>} ELSE {}           \* linear diagrams [p,q,r]
FormAtoms == (IF N = 2 THEN {[k |-> "sl2", A |-> A] : A \in Sl2Mats} ELSE {})
             \cup {[k |-> "cox", m |-> m, gen |-> i] : m \in CoxGroups, i \in 1..Dim}

AtomVal(a) == CASE a.k = "refl" -> Refl(a.v)
                [] a.k = "rot" -> RotIn(1, 2, a.a, a.b, a.c)
                [] a.k = "rotin" -> RotIn(a.p, a.q, a.a, a.b, a.c)
                [] a.k = "lox" -> Lox(a.p, a.q)
                [] a.k = "perm" -> SignedPerm(a.s)
                [] a.k = "origin_to" -> Boost(a.x)

(***************************************************************************)
(* Test points: interior, ideal and exterior                               *)
(***************************************************************************)
TestPts == {Pad(<<1>>), Pad(<<3, 2, 2>>), Pad(<<2, 1>>), Pad(<<5, 0 - 3, 1>>), Pad(<<3, 1, 0 - 2>>),     \* interior
            Pad(<<1, 1>>), Pad(<<5, 3, 4>>), Pad(<<5, 0 - 4, 3>>), Pad(<<1, 0, 0 - 1>>),                     \* ideal
            Pad(<<0, 1>>), Pad(<<1, 2>>), Pad(<<1, 1, 0 - 1>>)}                                               \* exterior
           \cup (IF N >= 3 THEN {Pad(<<3, 1, 1, 2>>), Pad(<<3, 2, 1, 2>>), Pad(<<1, 0, 0, 2>>)} ELSE {})
E1 == Pad(<<1>>)

(***************************************************************************)
(* The word machine                                                        *)
(***************************************************************************)
Init == g = Ident /\ kind = "exact" /\ len = 0 /\ last = [a |-> "init"]

FixesOrigin(a) == Act(a, E1) = E1

Left(a) ==
  /\ len < MaxLen /\ a \in ExactAtoms /\ kind # "form"
  /\ g' = Mul(AtomVal(a), g) /\ len' = len + 1 /\ UNCHANGED kind
  /\ last' = [a |-> "left", atom |-> a]

\* origin_to(p) . g is determined (as a coset) only when g fixes the origin
LeftUndet(a) ==
  /\ len < MaxLen /\ a \in UndetAtoms /\ kind # "form" /\ FixesOrigin(g)
  /\ g' = Mul(AtomVal(a), g) /\ kind' = "coset" /\ len' = len + 1
  /\ last' = [a |-> "left_undet", atom |-> a]

\* g . a for an atom a fixing the origin keeps the coset of an inexact g
RightElliptic(a) ==
  /\ len < MaxLen /\ a \in ExactAtoms /\ kind # "form" /\ FixesOrigin(AtomVal(a))
  /\ g' = Mul(g, AtomVal(a)) /\ len' = len + 1 /\ UNCHANGED kind
  /\ last' = [a |-> "right", atom |-> a]

Invert ==
  /\ len < MaxLen /\ exact /\ len > 0
  /\ g' = Inv(g) /\ len' = len + 1 /\ UNCHANGED kind
  /\ last' = [a |-> "invert"]

\* any composition with an O(n,1)-only atom, and inverses of such words: only the form is known
LeftForm(a) ==
  /\ len < MaxLen /\ a \in FormAtoms
  /\ g' = Ident /\ kind' = "form" /\ len' = len + 1
  /\ last' = [a |-> "left", atom |-> a]
FormStep(a) ==
  /\ len < MaxLen /\ kind = "form" /\ a \in ExactAtoms \cup UndetAtoms
  /\ UNCHANGED <<g, kind>> /\ len' = len + 1
  /\ last' = [a |-> "left", atom |-> a]
FormInvert ==
  /\ len < MaxLen /\ kind = "form"
  /\ UNCHANGED <<g, kind>> /\ len' = len + 1
  /\ last' = [a |-> "invert"]

Next == \/ \E a \in ExactAtoms : Left(a) \/ RightElliptic(a)
        \/ \E a \in UndetAtoms : LeftUndet(a)
        \/ Invert
        \/ \E a \in FormAtoms : LeftForm(a)
        \/ \E a \in ExactAtoms \cup UndetAtoms : FormStep(a)
        \/ FormInvert

(***************************************************************************)
(* Invariants                                                              *)
(***************************************************************************)
\* TLC integers are 32-bit: the quadratic invariants are evaluated on the states whose entries are small
\* enough for the products not to overflow (all states of words of length <= 2, most of length 3)
Small(b) == \A i, j \in 1..Dim : Abs(g[1][i][j]) <= b
FormPreserved == Small(10000) => MatMul(Transpose(g[1]), MatMul(J, g[1])) = MatScale(g[2] * g[2], J)
InverseLaw == Small(10000) => (Mul(g, Inv(g)) = Ident /\ Mul(Inv(g), g) = Ident)
CausalTypePreserved == Small(2500) => \A v \in TestPts : Sgn(MNorm(MatVec(g[1], v))) = Sgn(MNorm(v))
ProductsPreserved == Small(2500) => \A u, v \in TestPts : MDot(MatVec(g[1], u), MatVec(g[1], v)) = g[2] * g[2] * MDot(u, v)
Normalised == g[2] > 0 /\ Gcd(MGcd(g[1]), g[2]) = 1
\* every atom is what its name says
AtomsSound ==
  /\ \A v \in ReflNormals : MNorm(v) > 0 /\ Mul(Refl(v), Refl(v)) = Ident /\ Act(Refl(v), v) = Prim(v)
                            /\ MatVec(Refl(v)[1], v) = VScale(0 - Refl(v)[2], v)
  /\ \A x \in OriginTargets : IsSquare(0 - MNorm(x)) /\ Act(Boost(x), E1) = Prim(x)

Emit == PrintT("EMIT " \o ToJson([from |-> [g |-> g, kind |-> kind, len |-> len], act |-> last',
                                    to |-> [g |-> g', kind |-> kind', len |-> len', origin |-> Act(g', E1)]]))
View == <<g, kind, len>>
ASSUME PrintT("TESTPTS " \o ToJson(TestPts))
=============================================================================
