------------------------------ MODULE HypValid ------------------------------
(***************************************************************************)
(* Extension check X04, part 3: geometry validation of Segment, Tangent-   *)
(* Vector and Hyperplane (_assert_geometry_valid), IdealPoint.from_angle / *)
(* get_boundary_point, HyperbolicObject.minkowski.                         *)
(*                                                                         *)
(* CONTRACT.  (Read off the error messages of the three validators and the *)
(* module switch hyperbolic.CHECK_LIGHT_CONE, default False, which the     *)
(* docstrings do not mention: "invalid geometry raises GeometryError,      *)
(* valid geometry does not".)  A vector is timelike / lightlike /          *)
(* spacelike by the sign of its Minkowski norm.                            *)
(*   Segment(rows)        needs exactly 2 rows; with the switch on, both   *)
(*                        end points must lie in the closed ball (not      *)
(*                        spacelike).                                      *)
(*   TangentVector(rows)  needs exactly 2 rows; with the switch on, the    *)
(*                        base point is timelike and the vector is         *)
(*                        Minkowski-orthogonal to it.                      *)
(*   Hyperplane(rows)     full data, n+1 rows: with the switch on, row 1   *)
(*                        spacelike and the other rows lightlike;          *)
(*   Hyperplane(v)        one vector: spacelike, whatever the switch; the  *)
(*                        object then holds v as its normal and n ideal    *)
(*                        points orthogonal to v.                          *)
(* Accepted data is stored unchanged.  Switching validation on can only    *)
(* reject more (Monotone), never make valid data fail.  Anything else the  *)
(* constructor may raise is outside the contract: the outcome of a case is *)
(* "accept" or "geometry_error", nothing else.                             *)
(*   IdealPoint.from_angle(theta, dimension) is the ideal point            *)
(*   (1, cos theta, sin theta, 0, .., 0) of H^dimension, dimension >= 2    *)
(*   (GeometryError for dimension < 2), for single angles and arrays of    *)
(*   angles, with or without an explicit dtype; get_boundary_point(theta)  *)
(*   is from_angle(theta) in H^2.  Exact for Pythagorean angles.           *)
(*   obj.minkowski is diag(-1, 1, .., 1) of size dimension + 1.            *)
(***************************************************************************)
EXTENDS IntLinAlg, Naturals, FiniteSets, TLC, Json

CONSTANT N          \* dimension (validation cases: n = 2)
VARIABLE cs

Neg(x) == 0 - x
CT(v) == Sgn(MNorm(v))                         \* -1 timelike, 0 lightlike, 1 spacelike
Pool == [t |-> {<<3, 2, 2>>, <<1, 0, 0>>, <<2, 1, 0>>, <<3, Neg(1), 2>>},
         l |-> {<<1, 1, 0>>, <<5, 3, 4>>, <<1, 0, Neg(1)>>, <<5, Neg(4), 3>>},
         s |-> {<<0, 1, 0>>, <<1, 2, 0>>, <<0, 0, 1>>, <<2, 3, 0>>, <<2, 2, Neg(3)>>}]
All == Pool.t \cup Pool.l \cup Pool.s
ASSUME /\ \A v \in Pool.t : CT(v) = 0 - 1
       /\ \A v \in Pool.l : CT(v) = 0
       /\ \A v \in Pool.s : CT(v) = 1

SegmentValid(rows, flag) == Len(rows) = 2 /\ (flag => \A i \in 1..2 : CT(rows[i]) <= 0)
TangentValid(rows, flag) == Len(rows) = 2 /\ (flag => CT(rows[1]) = 0 - 1 /\ MDot(rows[1], rows[2]) = 0)
PlaneValid(rows, flag) == Len(rows) = N + 1 /\ (flag => CT(rows[1]) = 1 /\ \A i \in 2..(N + 1) : CT(rows[i]) = 0)
NormalValid(v) == CT(v) = 1
Valid(c) == CASE c.cls = "Segment" -> SegmentValid(c.rows, c.flag)
              [] c.cls = "TangentVector" -> TangentValid(c.rows, c.flag)
              [] c.cls = "Hyperplane" -> PlaneValid(c.rows, c.flag)
              [] c.cls = "HyperplaneNormal" -> NormalValid(c.rows[1])

Pairs == {<<u, v>> : u \in All, v \in All}
Triples == {<<u, v, w>> : u \in All, v \in All, w \in All}
Distinct(rows) == \A i, j \in 1..Len(rows) : i # j => Prim(rows[i]) # Prim(rows[j])
\* a square array of spacelike rows is also an array of hyperplane normals: ambiguous input, left out
Ambiguous(rows) == \A i \in 1..Len(rows) : CT(rows[i]) = 1
ValidCases ==
  {[kind |-> "valid", cls |-> cl, rows |-> r, flag |-> f] : cl \in {"Segment", "TangentVector"}, r \in {x \in Pairs : Distinct(x)}, f \in BOOLEAN}
  \cup {[kind |-> "valid", cls |-> cl, rows |-> r, flag |-> f] : cl \in {"Segment", "TangentVector"},
            r \in {x \in Triples : Distinct(x) /\ x[1] \in Pool.t /\ x[3] \in Pool.l}, f \in BOOLEAN}
  \cup {[kind |-> "valid", cls |-> "Hyperplane", rows |-> r, flag |-> f] :
            r \in {x \in Triples : Distinct(x) /\ ~Ambiguous(x) /\ (x[1] \in Pool.s \/ x[2] \in Pool.l)}, f \in BOOLEAN}
  \cup {[kind |-> "valid", cls |-> "HyperplaneNormal", rows |-> <<v>>, flag |-> f] : v \in All, f \in BOOLEAN}

\* Pythagorean angles (cos, sin) = (a/c, b/c)
Pyth == {<<3, 4, 5>>, <<4, 3, 5>>, <<Neg(3), 4, 5>>, <<5, Neg(12), 13>>, <<Neg(12), Neg(5), 13>>, <<1, 0, 1>>, <<0, 1, 1>>, <<Neg(1), 0, 1>>,
         <<0, Neg(1), 1>>, <<8, 15, 17>>, <<Neg(7), Neg(24), 25>>}
AngleCases == {[kind |-> "angle", t |-> t, dim |-> d, dtype |-> dt] : t \in Pyth, d \in 1..4, dt \in {"none", "float64"}}
AnglePoint(t, d) == [i \in 1..(d + 1) |-> IF i = 1 THEN t[3] ELSE IF i = 2 THEN t[1] ELSE IF i = 3 THEN t[2] ELSE 0]

Init == cs \in ValidCases \cup AngleCases
Next == UNCHANGED cs

Outcome(c) == IF Valid(c) THEN "accept" ELSE "geometry_error"
\* validation can only reject more
Monotone == cs.kind = "valid" => (Valid([cs EXCEPT !.flag = TRUE]) => Valid([cs EXCEPT !.flag = FALSE]))
\* the rule per class restated through causal types only: shape first, then types
ShapeFirst == cs.kind = "valid" => (cs.cls \in {"Segment", "TangentVector"} /\ Len(cs.rows) # 2 => ~Valid(cs))
\* a valid tangent vector is tangent to the hyperboloid at a point of H^n; valid hyperplane data spans a degenerate-free frame
TangentMeaning == (cs.kind = "valid" /\ cs.cls = "TangentVector" /\ cs.flag /\ Valid(cs)) => MNorm(cs.rows[2]) >= 0
AngleIdeal == cs.kind = "angle" => (cs.dim >= 2 => /\ MNorm(AnglePoint(cs.t, cs.dim)) = 0
                                                  /\ cs.t[1] * cs.t[1] + cs.t[2] * cs.t[2] = cs.t[3] * cs.t[3] /\ cs.t[3] > 0)

Exp == IF cs.kind = "valid"
       THEN [kind |-> "valid", n |-> N, cls |-> cs.cls, rows |-> cs.rows, flag |-> cs.flag, types |-> [i \in 1..Len(cs.rows) |-> CT(cs.rows[i])],
             outcome |-> Outcome(cs), form |-> MinkJ(N + 1)]
       ELSE [kind |-> "angle", t |-> cs.t, dim |-> cs.dim, dtype |-> cs.dtype,
             outcome |-> IF cs.dim >= 2 THEN "accept" ELSE "geometry_error",
             point |-> IF cs.dim >= 2 THEN AnglePoint(cs.t, cs.dim) ELSE <<>>, form |-> MinkJ(cs.dim + 1)]
EmitCase == PrintT("CASE " \o ToJson(Exp))
=============================================================================
