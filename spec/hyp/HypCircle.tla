------------------------------ MODULE HypCircle ------------------------------
(***************************************************************************)
(* Property C14 (and the edge geometry of C19): exact circles and spheres  *)
(* of geodesics, segments, horospheres and totally geodesic subspaces in   *)
(* the two conformal models.  PURE OPERATORS ONLY (no constants, no        *)
(* variables) on integer homogeneous vectors X = <<x0, x1, .., xn>> (time  *)
(* coordinate first, x0 > 0, Minkowski form of IntLinAlg); results are     *)
(* rationals (Rat).  Everything is computed in integers and divided once,  *)
(* so that the 32-bit arithmetic of TLC is not exhausted by denominators.  *)
(*                                                                         *)
(* Poincare ball.  A sphere orthogonal to the unit sphere is described by  *)
(* its POLE, a spacelike vector W with W0 > 0: centre W_s / W_0 (the Klein *)
(* point of W) and r^2 = <W,W> / W_0^2 = |centre|^2 - 1.  A point with     *)
(* Klein coordinates k lies on it iff centre . k = 1 iff <W,X> = 0.        *)
(* The geodesic through two points is the arc inside the ball of the       *)
(* circle whose pole lies in the span of the two points; for ideal end     *)
(* points u, v the centre is (u + v)/(1 + u.v).  W0 = 0 is the straight-   *)
(* line limit (the geodesic is a diameter).                                *)
(*                                                                         *)
(* Half-space (convention of HypCoords: the point at infinity is the ideal *)
(* point <<1, 1, 0, .., 0>>, the height is the last coordinate):           *)
(*    horizontal coordinates  -x_(i+1) / (x0 - x1),  i = 1..n-1  (rational)*)
(*    height^2                -<x,x> / (x0 - x1)^2                         *)
(* so every centre on the boundary and every squared radius is rational.   *)
(*                                                                         *)
(* Arcs (n = 2).  Counter-clockwise order of three points is the sign of   *)
(* the determinant of their homogeneous coordinates.  Seen from the centre *)
(* of the geodesic circle, a point of the arc and the point of the chord   *)
(* representing the same hyperbolic point move monotonically together, so  *)
(* the end point that STARTS the counter-clockwise arc lying inside the    *)
(* disc is read off from homogeneous coordinates without any square root.  *)
(***************************************************************************)
EXTENDS IntLinAlg

(***************************************************************************)
(* points                                                                  *)
(***************************************************************************)
SpatialOf(X) == [i \in 1..(Len(X) - 1) |-> X[i + 1]]
KleinOf(X) == [i \in 1..(Len(X) - 1) |-> R(X[i + 1], X[1])]
NegNorm(X) == 0 - MNorm(X)                                   \* -<X,X>: > 0 inside, = 0 ideal
\* the point of the chord between the ideal points U, V with Klein coordinates (a u + b v)/(a + b), ab = <<a, b>>,
\* a, b >= 0 not both 0:  the vector  a V0 U + b U0 V
Weights(U, V, ab) == <<ab[1] * V[1], ab[2] * U[1]>>
OnChord(U, V, ab) == VAdd(VScale(ab[1] * V[1], U), VScale(ab[2] * U[1], V))
\* -<P,P> for P = OnChord(U, V, ab) is the product of these factors (null vectors U, V); kept as factors because
\* the product of the near-diameter family exceeds 32 bits
ChordNegNormFactors(U, V, ab) == <<2, ab[1] * V[1], ab[2] * U[1], 0 - MDot(U, V)>>
\* P = OnChord(U, V, ab) comes strictly before Q = OnChord(U, V, cd) when walking along the geodesic from U to V
ChordBefore(ab, cd) == ab[2] * cd[1] < ab[1] * cd[2]

\* Poincare coordinates are  xs / (x0 + sqrt(nn)) : emitted as this record (nn as a list of factors), evaluated in
\* floating point by the harness
PoincareSurd(X) == [xs |-> SpatialOf(X), x0 |-> X[1], nn |-> <<NegNorm(X)>>]
ChordPoincareSurd(U, V, ab) == [xs |-> SpatialOf(OnChord(U, V, ab)), x0 |-> OnChord(U, V, ab)[1], nn |-> ChordNegNormFactors(U, V, ab)]

(***************************************************************************)
(* rational vectors through one common denominator                         *)
(***************************************************************************)
CommonDen(rv) == LcmSeq([i \in 1..Len(rv) |-> rv[i][2]])
Numerators(rv) == [i \in 1..Len(rv) |-> rv[i][1] * (CommonDen(rv) \div rv[i][2])]
SmallRVec(rv, bnd) == CommonDen(rv) <= bnd /\ \A i \in 1..Len(rv) : Abs(Numerators(rv)[i]) <= bnd
NormSqCD(rv) == R(Dot(Numerators(rv), Numerators(rv)), CommonDen(rv) * CommonDen(rv))
DistSqCD(a, b) == NormSqCD(RVSub(a, b))
DotCD(a, b) == R(Dot(Numerators(a), Numerators(b)), CommonDen(a) * CommonDen(b))
\* |a - b|^2 = r2, evaluated only where the integers stay far from 2^31
GuardBnd == 15000
DistSqIs(a, b, r2) == SmallRVec(RVSub(a, b), GuardBnd) => DistSqCD(a, b) = r2
RHalf == <<1, 2>>

(***************************************************************************)
(* poles: spheres orthogonal to the unit sphere                            *)
(***************************************************************************)
\* W spacelike with W[1] > 0
PoleCentre(W) == KleinOf(W)
PoleRadSq(W) == R(MNorm(W), W[1] * W[1])
Straight(W) == W[1] = 0                                      \* a plane through the origin, no finite sphere
\* the point X lies on the sphere / subspace with pole W
OnPole(W, X) == MDot(W, X) = 0

\* pole of the geodesic with ideal end points U # V:  (U0 V0 + Us.Vs ; V0 Us + U0 Vs), i.e. centre (u+v)/(1+u.v)
PrimOrZero(v) == IF \A i \in 1..Len(v) : v[i] = 0 THEN v ELSE Prim(v)
IdealPole(U, V) == PrimOrZero(<<U[1] * V[1] + Dot(SpatialOf(U), SpatialOf(V))>> \o VAdd(VScale(V[1], SpatialOf(U)), VScale(U[1], SpatialOf(V))))
\* pole of the geodesic through any two distinct points X, Y of the closed ball: the vector of the linear span of the
\* Klein points k, l with c.k = c.l = 1, cleared of denominators
GeoPole(X, Y) ==
  LET xs == SpatialOf(X)
      ys == SpatialOf(Y)
      xy == Dot(xs, ys)
      a == Dot(ys, ys) * X[1] - xy * Y[1]
      b == Dot(xs, xs) * Y[1] - xy * X[1]
  IN PrimOrZero(<<Dot(xs, xs) * Dot(ys, ys) - xy * xy>> \o VAdd(VScale(a, xs), VScale(b, ys)))
\* n = 2: the normal of the plane spanned by X and Y (Minkowski-orthogonal to both), first non-zero entry positive
Normal3(X, Y) == Prim(<<0 - (X[2] * Y[3] - X[3] * Y[2]), X[3] * Y[1] - X[1] * Y[3], X[1] * Y[2] - X[2] * Y[1]>>)

(***************************************************************************)
(* orientation (n = 2), homogeneous coordinates with positive first entry  *)
(***************************************************************************)
Det3(A, B, C) == A[1] * (B[2] * C[3] - B[3] * C[2]) - A[2] * (B[1] * C[3] - B[3] * C[1]) + A[3] * (B[1] * C[2] - B[2] * C[1])
\* > 0 iff the points A, B, C are in counter-clockwise order (for three points of a circle: iff B lies on the ccw arc A -> C)
OrientH(A, B, C) == Sgn(Det3(A, B, C))
\* 1 or 2: which of two points X, Y of a geodesic with pole W (W[1] > 0) starts the counter-clockwise arc
\* from one to the other that stays inside the disc
PoincareFirst(W, X, Y) == IF OrientH(W, X, Y) > 0 THEN 1 ELSE 2
PoincareFirstOf(X, Y) == PoincareFirst(Normal3(X, Y), X, Y)
\* the same for the points OnChord(U, V, ab1), OnChord(U, V, ab2) of the chord between the ideal points U, V
PoincareFirstOnChord(U, V, ab1, ab2) == IF (OrientH(IdealPole(U, V), U, V) > 0) = ChordBefore(ab1, ab2) THEN 1 ELSE 2
\* the same for points given by rational affine coordinates
Homog(rv) == <<CommonDen(rv)>> \o Numerators(rv)
Orient(a, b, c) == OrientH(Homog(a), Homog(b), Homog(c))
\* 1 or 2: which of two points a, b of a circle starts the ccw arc from one to the other that AVOIDS the point t
AvoidFirst(a, b, t) == IF Orient(a, t, b) < 0 THEN 1 ELSE 2

(***************************************************************************)
(* half-space model                                                        *)
(***************************************************************************)
HsDen(X) == X[1] - X[2]
AtHsInfinity(X) == HsDen(X) = 0
HsHoriz(X) == [i \in 1..(Len(X) - 2) |-> R(0 - X[i + 2], HsDen(X))]
HsHeightSq(X) == R(NegNorm(X), HsDen(X) * HsDen(X))
HsOnBoundary(h) == Append(h, RZero)                 \* horizontal coordinates -> point of the boundary
\* emitted form of half-space coordinates: horizontal part exact, height = sqrt(nn) / den
HalfSurd(X) == [h |-> HsHoriz(X), nn |-> <<NegNorm(X)>>, den |-> HsDen(X)]
ChordHalfSurd(U, V, ab) == [h |-> HsHoriz(OnChord(U, V, ab)), nn |-> ChordNegNormFactors(U, V, ab), den |-> HsDen(OnChord(U, V, ab))]
\* geodesic with ideal end points U, V (neither at infinity): half-sphere centred on the boundary
HsGeoCentre(U, V) == RScale(RHalf, RVAdd(HsHoriz(U), HsHoriz(V)))
HsGeoRadSq(U, V) == RMul(<<1, 4>>, DistSqCD(HsHoriz(U), HsHoriz(V)))
\* the squared distance of the point X from the boundary point with horizontal coordinates m is r2
\* (one common denominator D; evaluated only where the integers stay far from 2^31)
HsDistSqIs(X, m, r2) ==
  LET d == RVSub(HsHoriz(X), m)
      D == Lcm(CommonDen(d), Abs(HsDen(X)))
      e == D \div Abs(HsDen(X))
      nums == [i \in 1..Len(d) |-> Numerators(d)[i] * (D \div CommonDen(d))]
  IN (D <= GuardBnd /\ e <= 700 /\ NegNorm(X) <= 2000 /\ \A i \in 1..Len(d) : Abs(nums[i]) <= GuardBnd)
       => R(Dot(nums, nums) + NegNorm(X) * e * e, D * D) = r2
\* n = 2, from any two points with different horizontal coordinate: the boundary point equidistant from both
HsCentre2(X, Y) ==
  LET x == HsHoriz(X)[1]
      y == HsHoriz(Y)[1]
  IN RDiv(RSub(RAdd(RSq(x), HsHeightSq(X)), RAdd(RSq(y), HsHeightSq(Y))), RMul(RInt(2), RSub(x, y)))
\* n = 2: the counter-clockwise arc in the upper half-plane runs from right to left
HalfFirst(X, Y) == IF RLess(HsHoriz(Y)[1], HsHoriz(X)[1]) THEN 1 ELSE 2
\* sphere of the subspace with pole W not through the point at infinity (W[2] # W[1]): centre on the boundary
HsPoleCentre(W) == [i \in 1..(Len(W) - 2) |-> R(W[i + 2], W[2] - W[1])]
HsPoleRadSq(W) == R(MNorm(W), (W[2] - W[1]) * (W[2] - W[1]))

(***************************************************************************)
(* horospheres: centre U (ideal), through the interior point X with        *)
(* -<X,X> = s^2, s > 0.                                                    *)
(* Ball: the sphere of radius rho internally tangent at u, centre          *)
(* (1 - rho) u.  Two derivations:                                          *)
(*  (a) from the two defining conditions in model coordinates (tangent at  *)
(*      u, through p = xs/(x0+s)):  rho = |p - u|^2 / (2 (1 - u.p))        *)
(*  (b) from the Busemann function: rho / (1 - rho) = -<X,U> / (U0 s)      *)
(* Half-space: the sphere of radius rho resting on the boundary at the     *)
(* horizontal coordinates a of U, through (b, z):                          *)
(*      rho = (|a - b|^2 + z^2) / (2 z),  and also  rho = -U0.. see (b')   *)
(***************************************************************************)
HoroRadBall(U, X, s) == R(0 - MDot(X, U), U[1] * s - MDot(X, U))
HoroRadBallCoords(U, X, s) ==
  LET t == X[1] + s
      d == VSub(VScale(U[1], SpatialOf(X)), VScale(t, SpatialOf(U)))          \* U0 t (p - u)
  IN R(Dot(d, d), 2 * U[1] * t * (U[1] * t - Dot(SpatialOf(U), SpatialOf(X))))
HoroCentreBall(U, rho) == RScale(RSub(ROne, rho), KleinOf(U))
\* half-space, U not at infinity.  z = s / HsDen(X); a - b = (num) / (HsDen(U) HsDen(X))
HsHoroRadCoords(U, X, s) ==
  LET du == HsDen(U)
      dx == HsDen(X)
      d == [i \in 1..(Len(X) - 2) |-> X[i + 2] * du - U[i + 2] * dx]              \* du dx (a - b)
  IN R(Dot(d, d) + s * s * du * du, 2 * s * du * du * dx)
\* (b') the same radius from the Busemann function: rho = -<X,U> / (s HsDen(U))
HsHoroRad(U, X, s) == R(0 - MDot(X, U), s * HsDen(U))
HsHoroCentre(U, rho) == Append(HsHoriz(U), rho)

(***************************************************************************)
(* more ideal points of a subspace: for null vectors U, V, T and integers  *)
(* a, b the vector (a<U,T> + b<V,T>)(aU + bV) - ab<U,V> T is null and lies *)
(* in their span                                                           *)
(***************************************************************************)
NullInSpan(U, V, T, a, b) ==
  VSub(VScale(a * MDot(U, T) + b * MDot(V, T), VAdd(VScale(a, U), VScale(b, V))), VScale(a * b * MDot(U, V), T))
=============================================================================
