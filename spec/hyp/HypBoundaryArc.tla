--------------------------- MODULE HypBoundaryArc ---------------------------
(***************************************************************************)
(* Extension check X04, part 1: arcs of the ideal boundary of H^2          *)
(* (hyperbolic.BoundaryArc: __init__, set_endpoints, _build_orientation_   *)
(* point, orientation, flip_orientation, endpoint_coords, circle_          *)
(* parameters; Transformation.apply on such arcs).                         *)
(*                                                                         *)
(* CONTRACT.  The class has no docstring beyond "an arc sitting in the     *)
(* boundary of hyperbolic space"; the contract below is what its only      *)
(* caller (drawtools.HyperbolicDrawing.draw_boundary_arc, which hands the  *)
(* two reported angles to matplotlib's Arc(theta1, theta2), drawn counter- *)
(* clockwise) and the code itself rely on:                                 *)
(*  - BoundaryArc(p, q), p # q ideal points of H^2, is the arc of the unit *)
(*    circle that runs COUNTER-CLOCKWISE FROM p TO q (both orders of a     *)
(*    pair are accepted and name the two complementary arcs; antipodal     *)
(*    pairs included);                                                     *)
(*  - endpoints are the two ideal points given, as projective points;      *)
(*  - flip_orientation() replaces the arc by the complementary arc (same   *)
(*    end points), in place;                                               *)
(*  - an isometry g built by the library (sheet preserving) acts on the    *)
(*    arc as it acts on the circle: (g @ arc) is the image SET g(arc).     *)
(*    If g preserves the orientation of the disc the image runs ccw from   *)
(*    g(start) to g(end), if g reverses it, from g(end) to g(start);       *)
(*  - endpoint_coords(model, ordered=True) = <<start, end>> of the arc in  *)
(*    the coordinates of any point model; circle_parameters(model,degrees) *)
(*    for the Poincare and Klein models = centre 0, radius 1 and the two   *)
(*    angles of start and end (so that the ccw arc between the angles is   *)
(*    the arc), in degrees or radians; any other model raises              *)
(*    GeometryError.                                                       *)
(*                                                                         *)
(* SPECIFICATION.  State: the word machine of HypIso (exact isometry g, a  *)
(* word of atoms) together with the arc <<p, q, fwd>> (fwd: the arc runs   *)
(* ccw from p to q, else from q to p) and two sets of WITNESS ideal points *)
(* (inside / outside the arc) that are carried along.  TLC checks that the *)
(* witnesses stay on their side, i.e. that the orientation rule (sign of   *)
(* det g) describes the image set, that end points stay ideal and that     *)
(* the arc is the image of the initial arc under the accumulated g.        *)
(* Counter-clockwise order of three ideal points = sign of the determinant *)
(* of their homogeneous coordinates (HypCircle.OrientH).                   *)
(***************************************************************************)
EXTENDS HypIso, HypCircle

CONSTANTS BA,        \* bound on the entries of the ideal points (witnesses)
          BP         \* bound on the entries of the end points of the initial arcs (BP <= BA)

VARIABLES p, q,      \* current end points (primitive null vectors, first entry > 0)
          fwd,       \* TRUE: the arc is ccw from p to q; FALSE: ccw from q to p
          win, wout, \* witnesses strictly inside / strictly outside the arc
          p0, q0     \* the arc the history started from (BoundaryArc(p0, q0))

avars == <<p, q, fwd, win, wout, p0, q0>>

Ideal2 == {v \in Box(3, BA) : v[1] > 0 /\ IsPrim(v) /\ MNorm(v) = 0}
\* z lies strictly inside the counter-clockwise arc from a to b
OnArc(a, z, b) == OrientH(a, z, b) > 0
Start == IF fwd THEN p ELSE q
End == IF fwd THEN q ELSE p
Antipodal2(a, b) == a[1] * b[2] + b[1] * a[2] = 0 /\ a[1] * b[3] + b[1] * a[3] = 0
\* +1 / -1: g preserves / reverses the orientation of the disc (g preserves the future sheet, g[2] > 0)
DetSign(a) == Sgn(Det3(a[1][1], a[1][2], a[1][3]))

ArcInit == /\ Init
           /\ p \in Ideal2 /\ q \in Ideal2 /\ p # q /\ \A i \in 1..3 : Abs(p[i]) <= BP /\ Abs(q[i]) <= BP
           /\ fwd = TRUE /\ p0 = p /\ q0 = q
           /\ win = {z \in Ideal2 : OnArc(p, z, q)}
           /\ wout = {z \in Ideal2 : OnArc(q, z, p)}

SmallPts == \A z \in win \cup wout \cup {p, q} : \A i \in 1..3 : Abs(z[i]) <= 600          \* 6 b^3 < 2^31

ArcApply(a) ==
  /\ SmallPts
  /\ Left(a)
  /\ p' = Act(AtomVal(a), p) /\ q' = Act(AtomVal(a), q)
  /\ fwd' = (fwd = (DetSign(AtomVal(a)) > 0))
  /\ win' = {Act(AtomVal(a), z) : z \in win}
  /\ wout' = {Act(AtomVal(a), z) : z \in wout}
  /\ UNCHANGED <<p0, q0>>

ArcFlip ==
  /\ len < MaxLen
  /\ fwd' = ~fwd /\ win' = wout /\ wout' = win
  /\ len' = len + 1 /\ last' = [a |-> "flip"]
  /\ UNCHANGED <<g, kind, p, q, p0, q0>>

ArcNext == (\E a \in ExactAtoms : ArcApply(a)) \/ ArcFlip

(***************************************************************************)
(* invariants                                                              *)
(***************************************************************************)
EndsIdeal == MNorm(p) = 0 /\ MNorm(q) = 0 /\ p # q /\ p[1] > 0 /\ q[1] > 0 /\ IsPrim(p) /\ IsPrim(q)
\* the witnesses are where the state says they are: the orientation rule describes the image SET
Witnesses == SmallPts => /\ \A z \in win : OnArc(Start, z, End)
                         /\ \A z \in wout : OnArc(End, z, Start)
                         /\ win \cap wout = {} /\ Cardinality(win) + Cardinality(wout) = Cardinality(Ideal2) - 2
\* the end points are the images of the initial end points under the accumulated isometry
Accumulated == Small(3000) => p = Act(g, p0) /\ q = Act(g, q0)
\* every atom preserves the future sheet (so that Prim does not change the sign of a representative) and its
\* determinant is +-(denominator)^3
AtomsSheet == \A a \in ExactAtoms :
                LET m == AtomVal(a)
                IN /\ m[2] > 0 /\ MatVec(m[1], E1)[1] > 0
                   /\ Det3(m[1][1], m[1][2], m[1][3]) \in {m[2] * m[2] * m[2], 0 - m[2] * m[2] * m[2]}

(***************************************************************************)
(* emission: one labelled transition per generated successor               *)
(***************************************************************************)
Obs(pp, qq, ff) ==
  LET s == IF ff THEN pp ELSE qq
      e == IF ff THEN qq ELSE pp
  IN [p |-> pp, q |-> qq, fwd |-> ff, antipodal |-> Antipodal2(pp, qq),
      start |-> KleinOf(s), end |-> KleinOf(e),
      hs |-> ~AtHsInfinity(s) /\ ~AtHsInfinity(e),
      hstart |-> IF AtHsInfinity(s) THEN <<>> ELSE HsOnBoundary(HsHoriz(s)),
      hend |-> IF AtHsInfinity(e) THEN <<>> ELSE HsOnBoundary(HsHoriz(e))]
ArcEmit == PrintT("EMIT " \o ToJson([from |-> [g |-> g, len |-> len, arc |-> Obs(p, q, fwd)], act |-> last',
                                       to |-> [g |-> g', len |-> len', arc |-> Obs(p', q', fwd'), orient |-> DetSign(g')]]))
ArcView == <<g, len, p, q, fwd>>
=============================================================================
