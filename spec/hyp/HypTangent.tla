----------------------------- MODULE HypTangent -----------------------------
(***************************************************************************)
(* Property C13, tangent vectors.  A tangent vector of H^n is the image    *)
(* g.(o, e_1) of the base tangent vector (model origin o = e_0, direction  *)
(* e_1, the first spatial axis) under an exact isometry g = <<M, d>> of     *)
(* HypIso: basepoint = column 1 of M / d (a point of the upper hyperboloid) *)
(* and UNIT direction = column 2 of M / d, both rational.  The state is the *)
(* frame g, built by the word machine of HypIso restricted to exact atoms   *)
(* (the boosts Boost(x) count as exact frames here: the tangent vector is   *)
(* handed to the library as numbers, not built by library isometries).      *)
(*                                                                         *)
(* A tangent DIRECTION is the class of (x, v) under (x, v) ~ (c x, m v),    *)
(* c > 0, m > 0 (representatives on the lower sheet belong to C12).         *)
(*                                                                         *)
(* Specified operations (exact):                                            *)
(*   PointAlong(g, t), tanh t = a/b :  g.(b, a, 0, ..)                      *)
(*   Angle(g, g.r) for r fixing o     :  cos = <e_1, r e_1>                 *)
(*   IsoTo(g, h) = h g^-1             :  carries (p_g, v_g) to (p_h, v_h)   *)
(*   TowardsDir(p, q)                 :  component of q tangent at p        *)
(* TLC checks in every reachable frame: the frame is a tangent vector on    *)
(* the upper sheet; d(p, PointAlong(t)) = |t| (cosh^2 form), the point lies *)
(* on the geodesic of the tangent vector and on the side given by sgn t;    *)
(* the unit tangent at p towards PointAlong(t) is sgn(t) v; angles are      *)
(* invariant under g; the hyperbolic law of cosines                         *)
(*   cosh d(q1,q2) = cosh t1 cosh t2 - sinh t1 sinh t2 cos(angle)           *)
(* in integer form (Pythagorean t, so that cosh t, sinh t are rational);    *)
(* IsoTo(g, h) carries basepoint and direction of g to those of h.          *)
(***************************************************************************)
EXTENDS HypIso

CONSTANT Thin      \* TRUE: the second letter of a word is restricted to the atoms that move the basepoint (fewer frames)

Col(M, j) == [i \in 1..Len(M) |-> M[i][j]]
NNorm(v) == 0 - MNorm(v)

\* the tangent vector carried by a frame a = <<M, d>>
BaseRaw(a) == Col(a[1], 1)             \* / a[2] : point of the hyperboloid
BaseOf(a) == Prim(BaseRaw(a))          \* canonical representative of the basepoint
DirOf(a) == Col(a[1], 2)               \* / a[2] : unit direction

\* distances t along the geodesic, given by tanh t = num/den (both signs)
Taus == << <<1, 2>>, <<3, 5>>, <<0 - 1, 3>>, <<0 - 4, 5>>, <<5, 13>>, <<0 - 3, 5>>, <<2, 3>>, <<0 - 12, 13>> >>
Pyth(t) == IsSquare(t[2] * t[2] - t[1] * t[1])
W(t) == Sqrt(t[2] * t[2] - t[1] * t[1])          \* cosh t = den / W, sinh t = num / W
PTaus == SelectSeq(Taus, Pyth)

AlongRaw(a, t) == MatVec(a[1], Pad(<<t[2], t[1]>>))
PointAlong(a, t) == Prim(AlongRaw(a, t))

\* isometries fixing the origin: the second tangent vector at the same basepoint is (g.r).(o, e_1)
Turns ==
  << Ident, RotIn(1, 2, 3, 4, 5), RotIn(1, 2, 0 - 3, 4, 5), RotIn(1, 2, 5, 0 - 12, 13), RotIn(1, 2, 0, 1, 1),
     RotIn(1, 2, 0 - 1, 0, 1), SignedPerm(Flip1), RotIn(1, 2, 0 - 12, 0 - 5, 13) >>
  \o (IF N >= 3 THEN << RotIn(1, 3, 4, 3, 5), Mul(RotIn(1, 3, 5, 12, 13), RotIn(1, 2, 3, 4, 5)), SignedPerm(Cycle) >> ELSE <<>>)
  \o (IF N >= 4 THEN << Mul(RotIn(1, 4, 3, 0 - 4, 5), RotIn(1, 2, 0 - 4, 3, 5)) >> ELSE <<>>)
CosOf(r) == R(r[1][2][2], r[2])                  \* <e_1, r e_1>

\* target frames of isometry_to
Seconds ==
  << Ident,
     Mul(Boost(Pad(<<3, 2, 2>>)), RotIn(1, 2, 3, 4, 5)),
     Mul(Refl(Pad(<<1, 2>>)), Lox(2, 1)),
     Mul(RotIn(1, 2, 5, 12, 13), Boost(Pad(<<5, 0, 0 - 4>>))),
     Mul(Lox(1, 2), SignedPerm(Swap12)) >>
  \o (IF N >= 3 THEN << Mul(Boost(Pad(<<3, 2, 0, 2>>)), SignedPerm(Cycle)), Mul(RotIn(2, 3, 3, 4, 5), Boost(Pad(<<5, 4, 2, 2>>))) >>
      ELSE <<>>)

(***************************************************************************)
(* The frame machine                                                       *)
(***************************************************************************)
TAtoms == ExactAtoms \cup UndetAtoms           \* AtomVal([k |-> "origin_to", x]) = Boost(x), an exact frame here

TInit == Init
TLeft(a) ==
  /\ len < MaxLen /\ a \in TAtoms
  /\ Thin => (len = 0 \/ a.k \in {"origin_to", "lox"})
  /\ g' = Mul(AtomVal(a), g) /\ len' = len + 1 /\ UNCHANGED kind
  /\ last' = [a |-> "left", atom |-> a]
TNext == \E a \in TAtoms : TLeft(a)

(***************************************************************************)
(* Model-level laws                                                        *)
(***************************************************************************)
D == g[2]
P1 == BaseRaw(g)
V1 == DirOf(g)
Bound(b) == \A i, j \in 1..Dim : Abs(g[1][i][j]) <= b

\* the frame carries a tangent vector: basepoint on the upper sheet, unit direction orthogonal to it
FrameValid ==
  Bound(10000) => /\ MNorm(P1) = 0 - D * D /\ MNorm(V1) = D * D /\ MDot(P1, V1) = 0
                  /\ P1[1] > 0 /\ BaseOf(g)[1] > 0

VSmall(v, b) == \A i \in 1..Len(v) : Abs(v[i]) <= b
Parallel(u, v) == \A i, j \in 1..Len(u) : u[i] * v[j] = u[j] * v[i]
\* component of q tangent to the hyperboloid at p, times <p,p> < 0 negated (a positive factor)
TowardsDir(p, q) == VAdd(VScale(NNorm(p), q), VScale(MDot(p, q), p))

PrimPos(v) == LET q == VGcd(v) IN [i \in 1..Len(v) |-> v[i] \div q]        \* positive multiples only: keeps the direction

\* TLC integers are 32-bit: every product below is guarded by bounds on its factors (frames of short words pass all
\* guards, longer words pass fewer); the emitted values themselves involve no large products
AlongLaws ==
  Bound(1500) =>
  \A i \in 1..Len(Taus) :
    LET t == Taus[i]
        raw == AlongRaw(g, t)
        q == Prim(raw)
        p == BaseOf(g)
        w == TowardsDir(p, q)
    IN /\ VSmall(raw, 10000) => MNorm(raw) = 0 - (t[2] * t[2] - t[1] * t[1]) * D * D         \* an interior point
       /\ q[1] > 0
       \* cosh^2 d(p, q) = 1 / (1 - tanh^2 t) : the point is at distance |t|
       /\ (VSmall(p, 1000) /\ VSmall(q, 1000) /\ Abs(MDot(p, q)) <= 3000 /\ NNorm(q) <= 3000 /\ NNorm(p) <= 3000)
            => MDot(p, q) * MDot(p, q) * (t[2] * t[2] - t[1] * t[1]) = t[2] * t[2] * NNorm(p) * NNorm(q)
       \* on the geodesic spanned by the tangent vector, on the side of sgn t
       /\ \A k \in 3..Dim : MDot(q, Col(g[1], k)) = 0
       /\ Sgn(MDot(q, V1)) = Sgn(t[1])
       \* the unit tangent at p towards q is sgn(t) v
       /\ (VSmall(p, 200) /\ VSmall(q, 500) /\ VSmall(w, 40000)) => (Parallel(w, V1) /\ Sgn(Dot(w, V1)) = Sgn(t[1]))

\* scale of a primitive point along: sqrt(-<q,q>) = W(t) d / gcd(raw)
SOf(a, t) == (W(t) * a[2]) \div VGcd(AlongRaw(a, t))
\* the law-of-cosines value cosh t1 cosh t2 - sinh t1 sinh t2 cos(angle)
CosineLaw(t1, t2, c) == R(t1[2] * t2[2] * c[2] - t1[1] * t2[1] * c[1], W(t1) * W(t2) * c[2])

TurnLaws ==
  Bound(600) =>
  \A i \in 1..Len(Turns) :
    LET r == Turns[i]
        h == Mul(g, r)
        c == CosOf(r)
    IN /\ FixesOrigin(r)
       /\ BaseOf(h) = BaseOf(g)
       \* the angle between the two directions, measured at the moved basepoint, is the angle at the origin
       /\ MDot(V1, DirOf(h)) * c[2] = c[1] * D * h[2]
       /\ \A j, k \in 1..Len(PTaus) :
            LET q1 == PointAlong(g, PTaus[j])
                q2 == PointAlong(h, PTaus[k])
                s1 == SOf(g, PTaus[j])
                s2 == SOf(h, PTaus[k])
            IN (VSmall(q1, 10000) /\ VSmall(q2, 10000)) =>
                 /\ s1 * s1 = NNorm(q1) /\ s2 * s2 = NNorm(q2)
                 /\ R(0 - MDot(q1, q2), s1 * s2) = CosineLaw(PTaus[j], PTaus[k], c)

IsoTo(a, b) == Mul(b, Inv(a))
Transport ==
  Bound(1500) =>
  \A i \in 1..Len(Seconds) :
    LET h == Seconds[i]
        T == IsoTo(g, h)
    IN (\A j \in 1..Dim : VSmall(T[1][j], 10000)) =>
         /\ Act(T, BaseOf(g)) = BaseOf(h)
         /\ PrimPos(MatVec(T[1], V1)) = PrimPos(DirOf(h))
         /\ MatMul(Transpose(T[1]), MatMul(J, T[1])) = MatScale(T[2] * T[2], J)

SecondsValid ==
  \A i \in 1..Len(Seconds) :
    LET h == Seconds[i] IN
      /\ MatMul(Transpose(h[1]), MatMul(J, h[1])) = MatScale(h[2] * h[2], J)
      /\ BaseRaw(h)[1] > 0

(***************************************************************************)
(* Observations handed to the harness                                      *)
(***************************************************************************)
\* conformance domain: basepoints with cosh d(o, p) <= CoshBound (floating-point isometries of far points are
\* ill-conditioned: the relative error of an inverse grows like cosh^2)
CoshBound == 200
InDomain == P1[1] <= CoshBound * D
TanOf(a) == [p |-> BaseOf(a), ph |-> BaseRaw(a), v |-> DirOf(a), d |-> a[2]]
AlongOf(a) == [i \in 1..Len(Taus) |-> [t |-> Taus[i], q |-> PointAlong(a, Taus[i])]]

(***************************************************************************)
(* Histories.  Every operation above is a QUERY: its specified value is a  *)
(* function of the frame alone and the frame is UNCHANGED by it, so a      *)
(* sequence of queries on the SAME tangent vector object must return, at   *)
(* every step, the values of Obs (read-only queries must not change later  *)
(* answers).  The only state change is item assignment on an array of      *)
(* tangent vectors: Assign(pos, h) replaces entry pos by the tangent vector *)
(* of the frame h and leaves the other entries alone; all later queries     *)
(* answer for the edited array.                                            *)
(***************************************************************************)
QueryHistory == <<"origin_to", "point_along", "isometry_to", "angle", "normalized", "point_along", "origin_to", "angle">>
Assign(arr, pos, h) == [arr EXCEPT ![pos] = h]
Edits == << [pos |-> 1, sec |-> 2], [pos |-> 4, sec |-> 3], [pos |-> 9, sec |-> 5], [pos |-> 14, sec |-> 4], [pos |-> 4, sec |-> 1] >>
EditsSound == \A i \in 1..Len(Edits) : Edits[i].sec \in 1..Len(Seconds) /\ Edits[i].pos >= 1
(***************************************************************************)
(* Constructed isometries are VALUES.  Applying an isometry object to a    *)
(* point, inverting it, composing it with another one or reading its       *)
(* matrix are queries on it: after any sequence of such uses the SAME      *)
(* object still sends the origin / the base tangent vector to its target   *)
(* (IsoUses is the sequence replayed on every constructed isometry), and   *)
(* its inverse sends the target back: Inv(g).(p_g, v_g) = (o, e_1).        *)
(* Orientation: with force_oriented every UNIT of an array of constructed  *)
(* isometries has positive determinant (OrientChoices are replayed on      *)
(* arrays of all frames of a dimension, whose unforced determinants are    *)
(* mixed), and the targets are hit either way.                             *)
(***************************************************************************)
IsoUses == <<"apply", "inv", "apply", "compose_inverse", "matrix", "inv_apply", "apply">>
OrientChoices == <<TRUE, FALSE>>
InverseLaws ==
  Bound(1500) => /\ Act(Inv(g), BaseOf(g)) = E1
                 /\ PrimPos(MatVec(Inv(g)[1], V1)) = Pad(<<0, 1>>)
                 /\ Mul(g, Inv(g)) = Ident

\* frames whose tangent vector has integer hyperboloid coordinates (handed over as INTEGER arrays)
Integral == D = 1

Obs ==
  [len |-> len, g |-> g, tv |-> TanOf(g), guards |-> [along |-> Bound(1500), turns |-> Bound(600), indomain |-> InDomain, integral |-> Integral],
   along |-> AlongOf(g),
   turns |-> [i \in 1..Len(Turns) |->
                LET h == Mul(g, Turns[i]) IN
                [cos |-> CosOf(Turns[i]), tv |-> TanOf(h),
                 pts |-> [k \in 1..Len(PTaus) |-> [t |-> PTaus[k], q |-> PointAlong(h, PTaus[k])]],
                 coshd |-> [j \in 1..Len(PTaus) |-> [k \in 1..Len(PTaus) |-> CosineLaw(PTaus[j], PTaus[k], CosOf(Turns[i]))]]]],
   ptaus |-> [k \in 1..Len(PTaus) |-> [t |-> PTaus[k], q |-> PointAlong(g, PTaus[k])]]]
EmitObs == PrintT("OBS " \o ToJson(Obs))
TView == <<g, len>>

ASSUME PrintT("SECONDS " \o ToJson([i \in 1..Len(Seconds) |->
                                         [p |-> BaseOf(Seconds[i]), ph |-> BaseRaw(Seconds[i]), v |-> DirOf(Seconds[i]),
                                          d |-> Seconds[i][2], along |-> AlongOf(Seconds[i])]]))
ASSUME PrintT("HISTORY " \o ToJson(QueryHistory))
ASSUME PrintT("ISOUSES " \o ToJson(IsoUses))
ASSUME PrintT("ORIENT " \o ToJson(OrientChoices))
ASSUME PrintT("EDITS " \o ToJson(Edits))
=============================================================================
