------------------------------- MODULE HypFix -------------------------------
(***************************************************************************)
(* Property C15: reflections, their walls and the fixed points of          *)
(* isometries correspond to each other.  Exact arithmetic over HypIso:     *)
(* an isometry is <<M, d>> (integer matrix on COLUMN vectors, common       *)
(* denominator), a hyperplane ("wall") is the projective class of an       *)
(* integer spacelike normal u, a point is a primitive integer vector.      *)
(*                                                                         *)
(* Two machines share the variables of HypIso plus `wall`:                 *)
(*                                                                         *)
(*  (A) the FIXED-POINT machine (InitFix / NextFix): the word machine of   *)
(*      HypIso builds exact conjugators g (letters FixAtoms: all exact     *)
(*      atoms, or a third of them when Rich = FALSE; origin_to cosets in   *)
(*      dimension 2); in every state the derived                           *)
(*      isometries g E g^-1 (Pythagorean rotations), g L g^-1 (rational    *)
(*      loxodromics), g P g^-1 (parabolics: products of two reflections    *)
(*      in tangent walls) and g R_v g^-1 (reflections) have exact fixed    *)
(*      data: the fixed point g.o resp. the fixed subspace g.{x2 = x3 = 0},*)
(*      the ordered pair (attracting, repelling) of ideal endpoints, the   *)
(*      ideal fixed point g.(1,1,0..), the wall g.v.  FixLaws proves on    *)
(*      the model that these ARE the fixed data (eigen-equations with the  *)
(*      eigenvalue > 1 first, characterisation of the fixed set on probe   *)
(*      points, uniqueness inside the closed ball).                        *)
(*                                                                         *)
(*  (B) the WALL machine (InitWall / NextWall): a wall u is chosen among   *)
(*      ALL primitive spacelike integer normals of a box; ReflectAcross    *)
(*      produces R_u, ConjBy(a) transports wall and reflection by an atom. *)
(*      WallLaws: the reflection held is the reflection of the wall held,  *)
(*      it is an involution, reverses orientation (det = -1), negates the  *)
(*      normal, fixes every spec-chosen point of the wall, and the wall    *)
(*      recovered from the matrix alone (NormalOf: the (-1)-eigenline) is  *)
(*      the wall held.                                                     *)
(*                                                                         *)
(* IsReflection is the exact acceptance predicate of from_reflection:      *)
(* involution, trace n-1, upper sheet preserved.  The harness reads one    *)
(* OBS record per state (ObsFix / ObsWall, evaluated as invariants), the   *)
(* labelled transitions (EmitFix) and the constant tables TARGETS and COX. *)
(* Configurations: INIT InitFix NEXT NextFix INVARIANTS FixLaws FarLaws    *)
(* FormPreserved Normalised ObsFix, or INIT InitWall NEXT NextWall         *)
(* INVARIANTS WallLaws ObsWall, or INIT InitLox NEXT NextLox INVARIANTS    *)
(* LoxWordLaws FormPreserved Normalised ObsFix; VIEW ViewFix,              *)
(* ACTION_CONSTRAINT EmitFix.                                              *)
(***************************************************************************)
EXTENDS HypIso

CONSTANTS WB,      \* wall machine: bound on |entries| of the normals
          Rich      \* fixed-point machine: TRUE = all derived isometries and letters, FALSE = a part of them (quick tier, n >= 3)
VARIABLE wall      \* wall machine: primitive normal of the hyperplane held; machine (A): <<>>, or the far translation <<p, q>>

(***************************************************************************)
(* 32-bit guards (TLC aborts on overflow): every product is evaluated only *)
(* when the actual magnitudes fit.                                         *)
(***************************************************************************)
Lim == 2000000000
Max2(a, b) == IF a > b THEN a ELSE b
RECURSIVE MaxAbsV(_)
MaxAbsV(v) == IF v = <<>> THEN 0 ELSE Max2(Abs(Head(v)), MaxAbsV(Tail(v)))
RECURSIVE MaxAbs(_)
MaxAbs(M) == IF M = <<>> THEN 0 ELSE Max2(MaxAbsV(Head(M)), MaxAbs(Tail(M)))
FitsN(a, b) == a = 0 \/ b <= (Lim \div Dim) \div a            \* Dim * a * b <= Lim
Fits(A, B) == FitsN(MaxAbs(A), MaxAbs(B))
FitsV(A, y) == FitsN(MaxAbs(A), MaxAbsV(y))
SafeMul(a, b) == Fits(a[1], b[1])
Tame(a) == MaxAbs(a[1]) <= 15000                              \* a.a, Inv(a), a.TestPts all fit

EV(i) == [j \in 1..Dim |-> IF j = i THEN 1 ELSE 0]
Zero == [j \in 1..Dim |-> 0]
Col(M, j) == [i \in 1..Len(M) |-> M[i][j]]
Trace(M) == ISum([i \in 1..Len(M) |-> M[i][i]])
Img(a, x) == MatVec(a[1], x)                                  \* d * (image of x), not normalised
FixedBy(a, x) == MatVec(a[1], x) = VScale(a[2], x)            \* x is fixed as a VECTOR (eigenvalue +1)
NormFits(y) == MaxAbsV(y) <= 14000                            \* MNorm(y), MDot(y, y') fit

\* floor square root by bisection (IsSquare of Rat.tla enumerates 0..n)
RECURSIVE SqrtBS(_, _, _)
SqrtBS(n, lo, hi) == IF lo >= hi THEN lo
                     ELSE LET mid == (lo + hi + 1) \div 2
                          IN IF mid * mid <= n THEN SqrtBS(n, mid, hi) ELSE SqrtBS(n, lo, mid - 1)
FloorSqrt(n) == SqrtBS(n, 0, IF n < 46340 THEN n ELSE 46340)
IsSq(n) == n >= 0 /\ FloorSqrt(n) * FloorSqrt(n) = n

RECURSIVE Det(_)
Minor1(M, j) == [i \in 1..(Len(M) - 1) |-> [k \in 1..(Len(M) - 1) |-> M[i + 1][IF k < j THEN k ELSE k + 1]]]
Det(M) == IF Len(M) = 1 THEN M[1][1]
          ELSE ISum([j \in 1..Len(M) |-> (IF j % 2 = 1 THEN 1 ELSE 0 - 1) * M[1][j] * Det(Minor1(M, j))])
DetSafe(M) == MaxAbs(M) <= (IF Dim = 3 THEN 500 ELSE IF Dim = 4 THEN 90 ELSE 25)     \* Dim! * max^Dim fits
RECURSIVE IPow(_, _)
IPow(b, e) == IF e = 0 THEN 1 ELSE b * IPow(b, e - 1)

(***************************************************************************)
(* Reflections and walls                                                   *)
(***************************************************************************)
\* exact acceptance predicate of from_reflection: an involution with a one-dimensional (-1)-eigenspace
\* that keeps the upper sheet (then the (-1)-eigenvector is spacelike)
IsReflection(a) == /\ a[1][1][1] > 0
                   /\ MatMul(a[1], a[1]) = MatScale(a[2] * a[2], IdMat(Dim))
                   /\ Trace(a[1]) = (Dim - 2) * a[2]
NotRefl(a) == Fits(a[1], a[1]) => ~IsReflection(a)
\* the wall recovered from the matrix alone: every column of M - d I is a multiple of the normal
NormalOf(a) == LET D == [i \in 1..Dim |-> [j \in 1..Dim |-> a[1][i][j] - (IF i = j THEN a[2] ELSE 0)]]
                   j == CHOOSE j \in 1..Dim : Col(D, j) # Zero /\ \A k \in 1..(j - 1) : Col(D, k) = Zero
               IN Prim(Col(D, j))

\* spec-chosen points of the wall u^perp: orthogonal projections of the interior test points (always
\* interior), ideal candidates that happen to lie on it, and in dimension 2 the two ideal endpoints
ProjTo(u, x) == Prim(VSub(VScale(MNorm(u), x), VScale(MDot(x, u), u)))
InteriorTest == {x \in TestPts : MNorm(x) < 0}
IdealCand == {x \in Box(Dim, 2) : x[1] > 0 /\ IsPrim(x) /\ MNorm(x) = 0}
             \cup {x \in TestPts : MNorm(x) = 0}
             \cup {Pad(<<5, 4, 3>>), Pad(<<5, 0 - 3, 0 - 4>>), Pad(<<13, 5, 12>>)}
             \cup (IF N >= 3 THEN {Pad(<<3, 2, 2, 1>>), Pad(<<3, 1, 0 - 2, 2>>)} ELSE {})
\* ideal endpoints of the geodesic u^perp of H^2, rational iff <u,u> is a perfect square
GeoEnds(u) == IF N = 2 /\ MaxAbsV(u) <= 3000 /\ IsSq(MNorm(u))
              THEN LET a == u[1]
                       b == u[2]
                       c == u[3]
                       s == FloorSqrt(MNorm(u))
                       r == b * b + c * c
                   IN {Prim(<<r, a * b - c * s, a * c + b * s>>), Prim(<<r, a * b + c * s, a * c - b * s>>)}
              ELSE {}
WallPts(u) == IF MaxAbsV(u) <= 3000
              THEN {ProjTo(u, x) : x \in InteriorTest} \cup {x \in IdealCand : MDot(x, u) = 0} \cup GeoEnds(u)
              ELSE {}

(***************************************************************************)
(* Derived isometries of the fixed-point machine                           *)
(***************************************************************************)
EllAngles == {<<3, 4, 5>>, <<0 - 1, 0, 1>>, <<4, 0 - 3, 5>>}                                     \* (cos, sin) = (a/c, b/c)
             \cup (IF Rich THEN {<<5, 12, 13>>, <<0, 1, 1>>, <<0 - 3, 0 - 4, 5>>} ELSE {})
LoxSeq == <<<<2, 1>>, <<1, 2>>, <<11, 10>>>> \o (IF Rich THEN <<<<3, 2>>, <<5, 1>>, <<1, 4>>>> ELSE <<>>)       \* lambda = p/q
LoxParams == {LoxSeq[i] : i \in 1..Len(LoxSeq)}
\* involutions of determinant -1 that are NOT reflections (dimension >= 3): the last k spatial coordinates
\* negated, k = 3 (the point inversion of H^3; a half-turn about a plane composed with a reflection in H^4)
InvolKs == IF N >= 3 THEN {3} ELSE {}
Invol(k) == SignedPerm([i \in 1..N |-> <<i, IF i > N - k THEN 0 - 1 ELSE 1>>])
ParaParams == {1, 0 - 1} \cup (IF Rich THEN {2} ELSE {})
ReflTargets == {Pad(<<1, 1, 1>>), Pad(<<1, 0, 0 - 2>>)}
               \cup (IF Rich THEN {Pad(<<0, 1>>), Pad(<<0, 1, 1>>)} ELSE {})
               \cup (IF N >= 3 THEN {Pad(<<1, 1, 1, 1>>)} ELSE {})

Ell(t) == RotIn(1, 2, t[1], t[2], t[3])
LoxOf(t) == Lox(t[1], t[2])
ParaW(k) == Pad(<<k, k, 1>>)                     \* <w,w> = 1 = <w,e3> : the walls of w and e3 are tangent at (1,1,0..)
ParaOf(k) == Mul(Refl(ParaW(k)), Refl(EV(3)))
Ap == Pad(<<1, 1>>)
Am == Pad(<<1, 0 - 1>>)
Hi(t) == Max2(t[1], t[2])
Lo(t) == IF t[1] < t[2] THEN t[1] ELSE t[2]
Attr(t) == IF t[1] > t[2] THEN Ap ELSE Am        \* eigenvalue Hi/Lo > 1
Rep(t) == IF t[1] > t[2] THEN Am ELSE Ap

Conj(c, t) == Mul(c, Mul(t, Inv(c)))
\* the same, or <<>> when a product would not fit in 32 bits
ConjG(c, t) == IF ~SafeMul(t, c) THEN <<>>
               ELSE LET u == Mul(t, Inv(c)) IN IF SafeMul(c, u) THEN Mul(c, u) ELSE <<>>

Probe == TestPts \cup {E1, Ap, Am}
         \cup (IF N >= 3 THEN {Pad(<<2, 0, 0, 1>>), Pad(<<1, 0, 0, 1>>), Pad(<<0, 0, 0, 1>>), Pad(<<3, 0, 0, 0 - 2>>)} ELSE {})
         \cup (IF N >= 4 THEN {Pad(<<3, 0, 0, 2, 2>>), Pad(<<3, 0, 0, 1, 1>>), Pad(<<3, 1, 0, 1, 1>>)} ELSE {})
InBall(x) == MNorm(x) <= 0

\* the atoms are what their names say
TargetsSound ==
  /\ \A t \in EllAngles : t[1] * t[1] + t[2] * t[2] = t[3] * t[3] /\ t[3] > 0 /\ <<t[1], t[2]>> # <<t[3], 0>>
                          /\ \A x \in Probe : FixedBy(Ell(t), x) <=> (x[2] = 0 /\ x[3] = 0)
                          /\ ~IsReflection(Ell(t))
  /\ \A t \in LoxParams : t[1] > 0 /\ t[2] > 0 /\ t[1] # t[2]
                          /\ VScale(Lo(t), Img(LoxOf(t), Attr(t))) = VScale(Hi(t) * LoxOf(t)[2], Attr(t))
                          /\ VScale(Hi(t), Img(LoxOf(t), Rep(t))) = VScale(Lo(t) * LoxOf(t)[2], Rep(t))
                          /\ ~IsReflection(LoxOf(t))
  /\ \A k \in ParaParams : LET P == ParaOf(k)
                               U == [i \in 1..Dim |-> [j \in 1..Dim |-> P[1][i][j] - (IF i = j THEN P[2] ELSE 0)]]
                               Z == [i \in 1..Dim |-> Zero]
                           IN /\ MNorm(ParaW(k)) = 1 /\ MDot(ParaW(k), EV(3)) = 1          \* tangent walls
                              /\ FixedBy(P, Ap) /\ MNorm(Ap) = 0
                              /\ MatMul(U, MatMul(U, U)) = Z /\ MatMul(U, U) # Z           \* one Jordan block of size 3
                              /\ \A x \in Probe : (InBall(x) /\ Prim(x) # Ap) => Prim(Img(P, x)) # Prim(x)
                              /\ ~IsReflection(P)
  /\ \A v \in ReflTargets \cup ReflNormals : MNorm(v) > 0 /\ IsReflection(Refl(v)) /\ NormalOf(Refl(v)) = Prim(v)
  /\ ~IsReflection(Ident)
  /\ \A k \in InvolKs : /\ Mul(Invol(k), Invol(k)) = Ident /\ Det(Invol(k)[1]) = 0 - 1       \* an orientation reversing involution
                         /\ Trace(Invol(k)[1]) = Dim - 2 * k /\ ~IsReflection(Invol(k))      \* whose (-1)-eigenspace is too big
ASSUME TargetsSound

(***************************************************************************)
(* (A) the fixed-point machine                                             *)
(***************************************************************************)
InitFix == Init /\ wall = <<>>
\* letters of the conjugators: all exact atoms, or (Rich = FALSE) a third of them
FixAtoms == IF Rich THEN ExactAtoms
            ELSE {a \in ExactAtoms :
                    IF a.k = "refl" THEN a.v \in {Pad(<<1, 1, 1>>), Pad(<<1, 0, 0 - 2>>), Pad(<<1, 2>>), Pad(<<1, 1, 1, 1>>), Pad(<<0, 1, 0, 2>>)}
                    ELSE IF a.k = "rot" THEN a.c = 5
                    ELSE IF a.k = "lox" THEN a.q = 1
                    ELSE TRUE}
\* origin_to cosets only matter in dimension 2, where the fixed point of a rotation does not depend on the frame
\* FAR conjugators: a translation of length ln(p/q) = 3..6 along the first axis, applied after at most one letter
\* that fixes the origin (so the axes of the derived loxodromics leave through every direction of the far point),
\* optionally followed by one turn about the origin (so the translation itself points in several directions).
\* In machine (A) the otherwise unused variable `wall` records this: <<>> = near, <<p, q>> = far, <<p, q, 0>> = far and
\* turned.  The integer entries of a far g exceed `Tame`, so for most of them the 32-bit laws are guarded out; their
\* expected endpoints Act(g, (1, +-1, 0..)) are still exact (products of exact letters).
FarParams == {<<20, 1>>, <<403, 1>>} \cup (IF Rich THEN {<<148, 1>>, <<1, 55>>} ELSE {})
FarTurns == {a \in ExactAtoms : IF a.k = "perm" THEN a.s = Swap12 ELSE IF a.k = "rot" THEN a.c = 1 ELSE FALSE}
Far == wall # <<>>
LeftFar(t) == /\ wall = <<>> /\ exact /\ len <= 1 /\ FixesOrigin(g)
              /\ g' = Mul(Lox(t[1], t[2]), g) /\ wall' = t /\ len' = len + 1 /\ UNCHANGED kind
              /\ last' = [a |-> "left", atom |-> [k |-> "lox", p |-> t[1], q |-> t[2]]]
FarTurn(a) == /\ Len(wall) = 2
              /\ g' = Mul(AtomVal(a), g) /\ wall' = Append(wall, 0) /\ len' = len + 1 /\ UNCHANGED kind
              /\ last' = [a |-> "left", atom |-> a]
NextFix == \/ /\ wall = <<>>
              /\ \/ \E a \in FixAtoms : Left(a)
                 \/ (N = 2 /\ \E a \in UndetAtoms : LeftUndet(a))
                 \/ Invert
              /\ UNCHANGED wall
           \/ \E t \in FarParams : LeftFar(t)
           \/ \E a \in FarTurns : FarTurn(a)

\* laws of the derived isometries in the current state (evaluated whenever the products fit in 32 bits);
\* gi[x] = d * g.x for the probe points, pb bounds their entries
EllLaw(t, gi, pb) == LET C == ConjG(g, Ell(t)) IN
  (C # <<>> /\ FitsN(MaxAbs(C[1]), pb)) =>
     /\ FixedBy(C, gi[E1])
     /\ \A x \in Probe : FixedBy(C, gi[x]) <=> (x[2] = 0 /\ x[3] = 0)             \* the fixed set is g.{x2 = x3 = 0}
     /\ NotRefl(C)
\* ... i.e. the Minkowski-orthogonal complement of g.e2, g.e3 (emitted as `perp`)
PerpLaw(gi) == \A x \in Probe : NormFits(gi[x]) =>
                  /\ MDot(gi[x], Img(g, EV(2))) = g[2] * g[2] * x[2]
                  /\ MDot(gi[x], Img(g, EV(3))) = g[2] * g[2] * x[3]
LoxLaw(t, gi, pb) ==
  LET C == ConjG(g, LoxOf(t))
      ya == gi[Attr(t)]
      yr == gi[Rep(t)]
  IN
  (C # <<>> /\ NormFits(ya) /\ NormFits(yr) /\ FitsN(MaxAbs(C[1]), Hi(t) * pb)) =>
     /\ MNorm(ya) = 0 /\ MNorm(yr) = 0 /\ Prim(ya) # Prim(yr)
     /\ VScale(Lo(t), MatVec(C[1], ya)) = VScale(Hi(t) * C[2], ya)                \* eigenvalue Hi/Lo > 1: attracting
     /\ VScale(Hi(t), MatVec(C[1], yr)) = VScale(Lo(t) * C[2], yr)                \* eigenvalue Lo/Hi < 1: repelling
     /\ \A x \in Probe : (InBall(x) /\ Prim(x) \notin {Ap, Am}) => Prim(Img(C, gi[x])) # Prim(gi[x])
     /\ NotRefl(C)
ParaLaw(k, gi, pb) == LET C == ConjG(g, ParaOf(k)) IN
  (C # <<>> /\ NormFits(gi[Ap]) /\ FitsN(MaxAbs(C[1]), pb)) =>
     /\ FixedBy(C, gi[Ap]) /\ MNorm(gi[Ap]) = 0
     /\ \A x \in Probe : (InBall(x) /\ Prim(x) # Ap) => Prim(Img(C, gi[x])) # Prim(gi[x])   \* the only one in the closed ball
     /\ NotRefl(C)
ReflLaw(v) == LET C == ConjG(g, Refl(v))
                 u == Img(g, v)
             IN
  (C # <<>> /\ MaxAbsV(u) <= 3000 /\ FitsV(C[1], u) /\ Fits(C[1], C[1])) =>
     /\ C = Refl(u)                                                               \* g R_v g^-1 = R_(g v)
     /\ IsReflection(C) /\ NormalOf(C) = Prim(u) /\ MNorm(u) > 0
     /\ MatVec(C[1], u) = VScale(0 - C[2], u)
     /\ \A w \in WallPts(Prim(u)) : NormFits(w) => (MDot(w, u) = 0 /\ InBall(w) /\ (FitsV(C[1], w) => FixedBy(C, w)))
InvolLaw(k, gi) == LET C == ConjG(g, Invol(k)) IN
  (C # <<>> /\ Fits(C[1], C[1]) /\ FitsV(C[1], gi[E1])) =>
     /\ Mul(C, C) = Ident /\ ~IsReflection(C) /\ FixedBy(C, gi[E1])
     /\ DetSafe(C[1]) => Det(C[1]) = 0 - IPow(C[2], Dim)
\* the matrix -M is another representative of the same isometry: the projective action does not see the sign
NegRepLaw(gi) == \A x \in Probe : Prim(MatVec(MatScale(0 - 1, g[1]), x)) = Prim(gi[x])
LawState == exact /\ Tame(g)
FixLaws == LawState =>
  LET gi == [x \in Probe |-> Img(g, x)]
      pb == Dim * MaxAbs(g[1]) * 5                     \* entries of the probe points are at most 5
  IN /\ \A t \in EllAngles : EllLaw(t, gi, pb)
     /\ PerpLaw(gi)
     /\ \A t \in LoxParams : LoxLaw(t, gi, pb)
     /\ \A k \in ParaParams : ParaLaw(k, gi, pb)
     /\ \A v \in ReflTargets : ReflLaw(v)
     /\ \A k \in InvolKs : InvolLaw(k, gi)
     /\ NegRepLaw(gi)
ASSUME \A x \in Probe : MaxAbsV(x) <= 5
ASSUME {E1, Ap, Am} \subseteq Probe

(***************************************************************************)
(* A composite isometry (the array of the loxodromic conjugates of the     *)
(* state, in the order LoxSeq) under queries and item assignment: a query  *)
(* changes nothing, SetItem(k, t) replaces entry k.  What every query must *)
(* report is determined by the CURRENT array alone.                        *)
(***************************************************************************)
ArrOps == <<[op |-> "query"], [op |-> "setitem", k |-> 1, t |-> LoxSeq[2]], [op |-> "query"],
            [op |-> "setitem", k |-> Len(LoxSeq), t |-> LoxSeq[1]], [op |-> "setitem", k |-> 2, t |-> LoxSeq[3]], [op |-> "query"]>>
ArrStep(arr, o) == IF o.op = "setitem" THEN [arr EXCEPT ![o.k] = o.t] ELSE arr
RECURSIVE ArrAfter(_)
ArrAfter(i) == IF i = 0 THEN LoxSeq ELSE ArrStep(ArrAfter(i - 1), ArrOps[i])          \* array after the first i operations
ArrExpected(arr) == [i \in 1..Len(arr) |-> [p |-> arr[i][1], q |-> arr[i][2], attr |-> Act(g, Attr(arr[i])), rep |-> Act(g, Rep(arr[i]))]]
ArrSound == \A i \in 1..Len(ArrOps) :
               /\ ArrOps[i].op = "query" => ArrAfter(i) = ArrAfter(i - 1)
               /\ ArrOps[i].op = "setitem" => (ArrAfter(i) # ArrAfter(i - 1) /\ ArrAfter(i)[ArrOps[i].k] = ArrOps[i].t
                                                /\ \A j \in 1..Len(LoxSeq) : j # ArrOps[i].k => ArrAfter(i)[j] = ArrAfter(i - 1)[j])
ASSUME ArrSound

\* the expected fixed data of the current state, read by the harness
ReflObs(v) == LET u == Prim(Img(g, v)) IN [v |-> v, normal |-> u, wallpts |-> WallPts(u), ends |-> GeoEnds(u)]
FixObs ==
  IF exact /\ Tame(g)
  THEN [g |-> g, kind |-> kind, len |-> len, tame |-> TRUE, size |-> MaxAbs(g[1]),
        origin |-> Act(g, E1), perp |-> <<Prim(Img(g, EV(2))), Prim(Img(g, EV(3)))>>,
        lox |-> {[p |-> t[1], q |-> t[2], attr |-> Act(g, Attr(t)), rep |-> Act(g, Rep(t))] : t \in LoxParams},
        para |-> Act(g, Ap),
        arr |-> [i \in 1..Len(ArrOps) |-> [op |-> ArrOps[i], after |-> ArrExpected(ArrAfter(i))]],
        refl |-> {ReflObs(v) : v \in ReflTargets},
        isrefl |-> IsReflection(g),
        normal |-> IF IsReflection(g) THEN NormalOf(g) ELSE <<>>]
  ELSE [g |-> g, kind |-> kind, len |-> len, tame |-> (kind = "coset" /\ Tame(g)), size |-> MaxAbs(g[1]), origin |-> Act(g, E1)]
\* a far state: only the loxodromic data (the other kinds are ill conditioned there)
FarObs == [g |-> g, kind |-> kind, len |-> len, tame |-> TRUE, far |-> wall, size |-> MaxAbs(g[1]), origin |-> Act(g, E1),
           lox |-> {[p |-> t[1], q |-> t[2], attr |-> Act(g, Attr(t)), rep |-> Act(g, Rep(t))] : t \in LoxParams},
           arr |-> [i \in 1..Len(ArrOps) |-> [op |-> ArrOps[i], after |-> ArrExpected(ArrAfter(i))]]]
ObsFix == PrintT("OBS " \o ToJson(IF Far THEN FarObs ELSE FixObs))
\* far states: the origin really is far (Klein radius^2 >= 0.99), the endpoints are distinct; the eigen-equations
\* are evaluated by FixLaws whenever they fit
FarLaws == (Far /\ wall[1] # 0) =>
                  /\ exact /\ MaxAbs(g[1]) <= 100000000
                  /\ LET o == Act(g, E1) IN MaxAbsV(o) <= 30000 => 100 * (0 - MNorm(o)) <= o[1] * o[1]
                  /\ Act(g, Ap) # Act(g, Am)

(***************************************************************************)
(* (C) the LOXODROMIC-WORD machine (InitLox / NextLox): many non-normal    *)
(* loxodromics g L g^-1 in dimension >= 3, where the eigenvalue 1 of L is  *)
(* repeated.  The conjugators are ALL words of length <= MaxLen over nine  *)
(* letters (reflections, a rotation, translations, a coordinate cycle, a   *)
(* rotation of the last coordinates) with at most one far translation      *)
(* (length ln 20) anywhere in the word; only the loxodromic data of a      *)
(* state is specified (FarObs), `wall` is the mode marker <<0>> / <<0, 1>> *)
(* (far letter used).  LoxWordLaws: the eigen-equations of FixLaws.        *)
(***************************************************************************)
LoxAtoms == {a \in ExactAtoms :
               IF a.k = "refl" THEN a.v \in {Pad(<<1, 1, 1, 1>>), Pad(<<1, 0, 0 - 2>>), Pad(<<0, 1, 0, 2>>), Pad(<<1, 2>>)}
               ELSE IF a.k = "rot" THEN a.c = 5 /\ a.a = 3
               ELSE IF a.k = "lox" THEN a.q = 1
               ELSE IF a.k = "perm" THEN a.s = Cycle
               ELSE TRUE}
InitLox == Init /\ wall = <<0>>
LoxFar == /\ wall = <<0>> /\ len < MaxLen
          /\ g' = Mul(Lox(20, 1), g) /\ wall' = <<0, 1>> /\ len' = len + 1 /\ UNCHANGED kind
          /\ last' = [a |-> "left", atom |-> [k |-> "lox", p |-> 20, q |-> 1]]
NextLox == \/ (\E a \in LoxAtoms : Left(a)) /\ UNCHANGED wall
           \/ LoxFar
LoxWordLaws == /\ exact /\ MaxAbs(g[1]) <= 100000000 /\ Act(g, Ap) # Act(g, Am)
               /\ LawState => LET gi == [x \in Probe |-> Img(g, x)]
                                  pb == Dim * MaxAbs(g[1]) * 5
                              IN \A t \in LoxParams : LoxLaw(t, gi, pb)

(***************************************************************************)
(* Composite isometries handed to from_reflection: a stack is accepted iff *)
(* EVERY member is a reflection.  Members are named by the kind of derived *)
(* isometry (R reflection, E rotation, L loxodromic, P parabolic, I the    *)
(* involution of InvolKs); the verdict is computed from the exact matrices *)
(* of one representative of each kind.                                     *)
(***************************************************************************)
StackKinds == {"R", "E", "L", "P"} \cup (IF InvolKs # {} THEN {"I"} ELSE {})
KindRep(k) == CASE k = "R" -> Refl(CHOOSE v \in ReflTargets : TRUE)
                [] k = "E" -> Ell(CHOOSE t \in EllAngles : TRUE)
                [] k = "L" -> LoxOf(LoxSeq[1])
                [] k = "P" -> ParaOf(CHOOSE c \in ParaParams : TRUE)
                [] k = "I" -> Invol(CHOOSE c \in InvolKs : TRUE)
Stacks == {<<a, b>> : a, b \in StackKinds} \cup {<<"R", "R", "R">>}
          \cup {<<"R", k, "R">> : k \in StackKinds \ {"R"}} \cup {<<k, "R", k>> : k \in StackKinds \ {"R"}}
StackAccepted(s) == \A i \in 1..Len(s) : IsReflection(KindRep(s[i]))
StackTable == {[kinds |-> s, accept |-> StackAccepted(s)] : s \in Stacks}
ASSUME \A r \in StackTable : r.accept <=> (\A i \in 1..Len(r.kinds) : r.kinds[i] = "R")
ASSUME PrintT("TARGETS " \o ToJson([ell |-> EllAngles, para |-> ParaParams, invol |-> InvolKs, loxseq |-> LoxSeq, reps |-> {1, 0 - 1},
                                     stacks |-> StackTable]))

(***************************************************************************)
(* (B) the wall machine                                                    *)
(***************************************************************************)
BoxNormals == {v \in Box(Dim, WB) : IsPrim(v) /\ MNorm(v) > 0}

InitWall == g = Ident /\ kind = "exact" /\ len = 0 /\ last = [a |-> "init"] /\ wall \in BoxNormals
ReflectAcross == /\ len = 0
                 /\ g' = Refl(wall) /\ len' = 1 /\ UNCHANGED <<kind, wall>>
                 /\ last' = [a |-> "reflection_across"]
ConjBy(a) == /\ len = 1 /\ len < MaxLen /\ a \in ExactAtoms
             /\ g' = Conj(AtomVal(a), g) /\ wall' = Act(AtomVal(a), wall) /\ len' = 2 /\ UNCHANGED kind
             /\ last' = [a |-> "conj", atom |-> a]
NextWall == ReflectAcross \/ \E a \in ExactAtoms : ConjBy(a)

\* a wall is a projective class: every non-zero multiple of the normal names it
WallScales == {2, 0 - 3}
WallLaws == len >= 1 =>
  /\ g = Refl(wall)                                        \* the reflection held is the reflection of the wall held
  /\ NormalOf(g) = wall                                    \* ... and the wall is recovered from the matrix alone
  /\ MNorm(wall) > 0 /\ IsPrim(wall)
  /\ Fits(g[1], g[1]) => (IsReflection(g) /\ Mul(g, g) = Ident)     \* involutive, accepted by from_reflection
  /\ MatVec(g[1], wall) = VScale(0 - g[2], wall)           \* negates the normal
  /\ DetSafe(g[1]) => Det(g[1]) = 0 - IPow(g[2], Dim)      \* orientation reversing
  /\ \A w \in WallPts(wall) : NormFits(w) => (MDot(w, wall) = 0 /\ InBall(w) /\ (FitsV(g[1], w) => FixedBy(g, w)))
  /\ \A x \in TestPts : FixedBy(g, x) <=> MDot(x, wall) = 0          \* fixes exactly the wall
  /\ \A w \in GeoEnds(wall) : MNorm(w) = 0
  /\ (N = 2 /\ IsSq(MNorm(wall))) => Cardinality(GeoEnds(wall)) = 2
  /\ len = 1 => \A c \in WallScales : Prim(VScale(c, wall)) = wall /\ Refl(VScale(c, wall)) = g      \* any representative of the normal
WallObs == [g |-> g, len |-> len, wall |-> wall, reps |-> {VScale(c, wall) : c \in WallScales}, wallpts |-> WallPts(wall), ends |-> GeoEnds(wall), sq |-> IsSq(MNorm(wall))]
ObsWall == len = 0 \/ PrintT("OBS " \o ToJson(WallObs))

EmitFix == PrintT("EMIT " \o ToJson([from |-> [g |-> g, kind |-> kind, len |-> len, wall |-> wall], act |-> last',
                                       to |-> [g |-> g', kind |-> kind', len |-> len', wall |-> wall', origin |-> Act(g', E1)]]))
ViewFix == <<g, kind, len, wall>>

(***************************************************************************)
(* Reflections of Coxeter hyperbolic representations (values known up to   *)
(* conjugacy only): which words are reflections, and the type of the       *)
(* product of two generators, from the Coxeter matrix.                     *)
(***************************************************************************)
RECURSIVE SeqsOver(_, _)
SeqsOver(S, k) == IF k = 0 THEN {<<>>} ELSE {Append(w, s) : w \in SeqsOver(S, k - 1), s \in S}
Rev(w) == [i \in 1..Len(w) |-> w[Len(w) + 1 - i]]
CoxGens == 1..Dim
Reduced1(w) == \A i \in 1..(Len(w) - 1) : w[i] # w[i + 1]
\* u s u^-1 : a reflection of the group
CoxReflWords == {u \o <<s>> \o Rev(u) : u \in {w \in SeqsOver(CoxGens, 0) \cup SeqsOver(CoxGens, 1) \cup SeqsOver(CoxGens, 2) : Reduced1(w)},
                                         s \in CoxGens}
\* words of even length: determinant +1, never a reflection
CoxEvenWords == {w \in SeqsOver(CoxGens, 2) \cup SeqsOver(CoxGens, 4) : Reduced1(w)} \cup {<<>>}
\* label of the pair {i, j}: triangle group (p,q,r) has m12 = p, m23 = q, m31 = r; a linear diagram [p,q,r] has
\* m(i,i+1) = m[i] and 2 otherwise; zero or negative stands for infinity
CoxLabel(m, i, j) == LET lo == IF i < j THEN i ELSE j
                         hi == IF i < j THEN j ELSE i
                     IN IF N = 2 THEN (IF <<lo, hi>> = <<1, 2>> THEN m[1] ELSE IF <<lo, hi>> = <<2, 3>> THEN m[2] ELSE m[3])
                        ELSE (IF hi = lo + 1 THEN m[lo] ELSE 2)
CoxPairs(m) == {[i |-> p[1], j |-> p[2], label |-> CoxLabel(m, p[1], p[2]),
                 type |-> IF CoxLabel(m, p[1], p[2]) <= 0 THEN "parabolic" ELSE "elliptic"]
                : p \in {q \in CoxGens \X CoxGens : q[1] < q[2]}}
\* hyperbolic triangle groups: 1/p + 1/q + 1/r < 1 (0 = infinity contributes nothing)
TriHyperbolic(m) == RLess(RSum([i \in 1..3 |-> IF m[i] <= 0 THEN RZero ELSE R(1, m[i])]), ROne)
\* stacks of words handed to from_reflection: accepted iff every word is a reflection u s u^-1
CoxStackWords == {<<1>>, <<2, 1, 2>>, <<3>>, <<1, 2>>, <<>>, <<2, 3>>}
CoxStacks == {<<a, b>> : a, b \in CoxStackWords} \cup {<<<<1>>, <<1, 2>>, <<2, 3, 2>>>>, <<<<1>>, <<3, 2, 3>>, <<2>>>>}
ASSUME \A w \in CoxStackWords : w \in CoxReflWords \/ w \in CoxEvenWords
CoxObs == [groups |-> {[m |-> m, pairs |-> CoxPairs(m)] : m \in CoxGroups},
           reflwords |-> CoxReflWords, evenwords |-> CoxEvenWords,
           stacks |-> {[words |-> s, accept |-> \A i \in 1..Len(s) : s[i] \in CoxReflWords] : s \in CoxStacks},
           loxword |-> IF N = 2 THEN <<1, 2, 3, 1, 2, 3>> ELSE <<>>]
ASSUME N = 2 => \A m \in CoxGroups : TriHyperbolic(m)
ASSUME PrintT("COX " \o ToJson(CoxObs))
=============================================================================
