---------------------------- MODULE HypHoroMeet ----------------------------
(***************************************************************************)
(* Extension check X04, part 2: Horosphere.intersect_geodesic, the         *)
(* construction forms of HorosphereArc, Polygon.circle_parameters /        *)
(* get_edges (hyperbolic.py).  Cases in the style of HypCircleCases (one   *)
(* state = one call with the exact value of everything observed).          *)
(*                                                                         *)
(* CONTRACT (the docstrings say only "Compute the intersection points of a *)
(* geodesic with this horosphere" / "Get parameters for a circle           *)
(* describing this horospherical arc"; there is no caller in the library;  *)
(* a TODO in the code says "check to see if the intersection actually      *)
(* occurs"):                                                               *)
(*  intersect_geodesic(geodesic, p2=None) accepts whatever Segment accepts *)
(*  (a Segment / Geodesic object, an array of two points, or two points    *)
(*  given separately; any two distinct points of the closed ball on the    *)
(*  geodesic) and returns a Point holding TWO points per horosphere /      *)
(*  geodesic pair, in no specified order:                                  *)
(*   - if the geodesic crosses the horosphere: the two crossing points,    *)
(*     each of which lies on the geodesic and on the horosphere;           *)
(*   - if it is tangent: the point of tangency twice; floating point may   *)
(*     instead see no intersection, so a caller can only rely on: every    *)
(*     finite returned point is the point of tangency (to square-root      *)
(*     precision);                                                         *)
(*   - if it misses the horosphere: no finite point (all coordinates NaN). *)
(*  The result is equivariant: for an isometry g, intersecting g.horosphere*)
(*  with g.geodesic gives g.(the points).                                  *)
(*  A horosphere with ideal centre U through X is {P : <P,U>^2 / -<P,P> =  *)
(*  <X,U>^2 / -<X,X>}.  On the geodesic with ideal end points A, B the     *)
(*  points s A + t B satisfy (s al + t be)^2 = 2 kappa w s t  (al = -<A,U>,*)
(*  be = -<B,U>, w = -<A,B>, kappa the constant above): two, one or no     *)
(*  solutions according to the sign of E = w (kappa w - 2 al be), rational *)
(*  iff kappa^2 E ... is a square; the family "chord" keeps the cases with *)
(*  rational crossing points, tangencies and misses.  The family "pair"    *)
(*  starts from two rational points X, Y of one horosphere: the geodesic   *)
(*  through them crosses it exactly in X and Y.                            *)
(*                                                                         *)
(*  HorosphereArc(centre, p1, p2) = HorosphereArc(array of the three rows) *)
(*  = HorosphereArc(another arc) = composite built from a list of arcs;    *)
(*  giving only one of p1, p2 raises GeometryError.  (Forms)               *)
(*                                                                         *)
(*  Polygon.circle_parameters(...) and Polygon.get_edges().circle_         *)
(*  parameters(degrees, model) describe the edges vertex i -> vertex i+1   *)
(*  (cyclically) as Segment.circle_parameters does (property C14): exact   *)
(*  circle of the geodesic through two arbitrary integer points from its   *)
(*  pole (HypCircle.Normal3), the end point that starts the inside arc.    *)
(***************************************************************************)
EXTENDS HypCircleCases

CONSTANTS XKinds,    \* families explored in this run
          Bp,        \* bound on the entries of polygon vertices
          PThin,     \* keep one polygon in PThin (deterministic thinning, like Thin)
          CThin      \* the same for the pairs of ideal end points of the chord family


(***************************************************************************)
(* integer square roots without a linear search                            *)
(***************************************************************************)
RECURSIVE BSqrt(_, _, _)
BSqrt(lo, hi, n) == IF lo >= hi THEN lo
                    ELSE LET m == (lo + hi + 1) \div 2 IN IF m <= n \div m THEN BSqrt(m, hi, n) ELSE BSqrt(lo, m - 1, n)
ISqrt(n) == BSqrt(0, IF n < 46340 THEN n ELSE 46340, n)          \* floor of the square root, 0 <= n < 2^31
Square(n) == n >= 0 /\ ISqrt(n) * ISqrt(n) = n

(***************************************************************************)
(* horosphere /\ geodesic                                                  *)
(***************************************************************************)
\* X lies on the horosphere with centre U through ref
OnHoro(U, ref, X) == MDot(X, U) * MDot(X, U) * NN(ref) = MDot(ref, U) * MDot(ref, U) * NN(X)
SmallV(v, b) == \A i \in 1..Len(v) : Abs(v[i]) <= b
\* atoms under which equivariance is replayed
XAtoms == {a \in Iso!ExactAtoms : \/ a.k = "refl" /\ a.v \in {Iso!Pad(<<0, 1, 1>>), Iso!Pad(<<1, 2>>)}
                                  \/ a.k = "rot" /\ a.a = 3
                                  \/ a.k = "lox" /\ a.p = 2 /\ a.q = 1}

\* --- family "pair": two points of one horosphere
PairCoefs == {<<<<1, 0>>, <<0, 1>>>>, <<<<2, 1>>, <<1, 3>>>>, <<<<1, 1>>, <<0, 1>>>>}
Comb(X, Y, c) == VAdd(VScale(c[1], X), VScale(c[2], Y))
PairPts == {xy \in SquarePts \X SquarePts : LexLess(xy[1], xy[2]) /\ Weight(<<xy[1], xy[2]>>) % Thin = 0}
PairCases(U) == {[kind |-> "meet", sub |-> "pair", U |-> U, R |-> xy[1], X |-> xy[1], Y |-> xy[2], co |-> co] :
                   xy \in {z \in PairPts : SameHoro(U, z[1], z[2])}, co \in PairCoefs}

\* --- family "chord": ideal end points A, B
Al(c) == 0 - MDot(c.A, c.U)
Be(c) == 0 - MDot(c.B, c.U)
Ww(c) == 0 - MDot(c.A, c.B)
Mm(c) == 0 - MDot(c.R, c.U)                    \* kappa = Mm^2 / Kd
Kd(c) == NN(c.R)
\* E has the sign of  w (m^2 w - 2 al be kd);  F1 F2 = E with gcd-reduced factors
F1(c) == Ww(c)
F2(c) == Mm(c) * Mm(c) * Ww(c) - 2 * Al(c) * Be(c) * Kd(c)
ESign(c) == Sgn(F2(c))
ERational(c) == LET gg == Gcd(F1(c), F2(c)) IN F2(c) > 0 /\ Square(F1(c) \div gg) /\ Square(F2(c) \div gg)
ERoot(c) == LET gg == Gcd(F1(c), F2(c)) IN gg * ISqrt(F1(c) \div gg) * ISqrt(F2(c) \div gg)       \* sqrt(E)
ChordPoint(c, sg) == Prim(VAdd(VScale(Mm(c) * Mm(c) * Ww(c) - Al(c) * Be(c) * Kd(c) + sg * Mm(c) * ERoot(c), c.A),
                               VScale(Al(c) * Al(c) * Kd(c), c.B)))
Closest(c) == Prim(VAdd(VScale(Be(c), c.A), VScale(Al(c), c.B)))      \* the point of the geodesic deepest in the horoball
\* pairs of ideal end points, thinned before they are combined with the reference points
ChordEnds(U) == {ab \in IdealPts \X IdealPts : LexLess(ab[1], ab[2]) /\ ab[1] # U /\ ab[2] # U /\ Weight(<<ab[1], ab[2]>>) % CThin = 0}
ChordCases(U) == {c \in {[kind |-> "meet", sub |-> "chord", U |-> U, R |-> X, A |-> ab[1], B |-> ab[2]] : X \in SquarePts, ab \in ChordEnds(U)} :
                    /\ (ESign(c) <= 0 \/ ERational(c))
                    /\ (ESign(c) < 0 => Weight(<<c.R, c.A, c.B>>) % 8 = 0)}     \* misses are the most frequent

MeetCount == IF cs.sub = "pair" THEN 2 ELSE IF ESign(cs) > 0 THEN 2 ELSE IF ESign(cs) = 0 THEN 1 ELSE 0
MeetPts == IF cs.sub = "pair" THEN <<cs.X, cs.Y>>
           ELSE IF ESign(cs) > 0 THEN <<ChordPoint(cs, 1), ChordPoint(cs, 0 - 1)>>
           ELSE IF ESign(cs) = 0 THEN <<Closest(cs)>> ELSE <<>>
\* the two points handed to the library as "the geodesic"
G1 == IF cs.sub = "pair" THEN Comb(cs.X, cs.Y, cs.co[1]) ELSE cs.A
G2 == IF cs.sub = "pair" THEN Comb(cs.X, cs.Y, cs.co[2]) ELSE cs.B
MeetExp ==
  LET pts == MeetPts
  IN [kind |-> "meet", sub |-> cs.sub, n |-> N, U |-> cs.U, R |-> cs.R, G1 |-> G1, G2 |-> G2, count |-> MeetCount,
      pts |-> pts, kpts |-> [i \in 1..Len(pts) |-> KleinOf(pts[i])],
      images |-> SetSeq({[atom |-> a, U |-> Img(a, cs.U), R |-> Img(a, cs.R), G1 |-> Img(a, G1), G2 |-> Img(a, G2),
                         kpts |-> [i \in 1..Len(pts) |-> KleinOf(Img(a, pts[i]))]] : a \in XAtoms})]
Collinear(a, b, c) == ElimOk(<<a, b, c>>) => RankOf(<<a, b, c>>) <= 2
MeetLaws ==
  Kind = "meet" =>
    LET pts == MeetPts
    IN /\ MNorm(cs.U) = 0 /\ NN(cs.R) > 0 /\ Prim(G1) # Prim(G2) /\ NN(G1) >= 0 /\ NN(G2) >= 0 /\ G1[1] > 0 /\ G2[1] > 0
       /\ Len(pts) = (IF MeetCount = 0 THEN 0 ELSE IF MeetCount = 1 THEN 1 ELSE 2)
       /\ \A i \in 1..Len(pts) :
            LET P == pts[i]
            IN /\ P[1] > 0
               /\ SmallV(P, 6000) => (NN(P) > 0 /\ Collinear(G1, G2, P))
               /\ SmallV(P, 100) => OnHoro(cs.U, cs.R, P)                         \* on the horosphere
               \* the atoms preserve the Minkowski products (up to their denominator), so the image of the point lies
               \* on the image of the horosphere and (linearity) on the image of the geodesic
               /\ SmallV(P, 300) => \A a \in XAtoms :
                    LET m == Iso!AtomVal(a)
                        im(v) == MatVec(m[1], v)
                    IN \A vw \in {<<P, cs.U>>, <<cs.R, cs.U>>, <<P, P>>, <<cs.R, cs.R>>} :
                         MDot(im(vw[1]), im(vw[2])) = m[2] * m[2] * MDot(vw[1], vw[2])
       /\ MeetCount = 2 => pts[1] # pts[2]
       \* chord family: the deepest point of the geodesic is inside / on / outside the horoball
       /\ cs.sub = "chord" =>
            LET C == Closest(cs)
                lhs == MDot(C, cs.U) * MDot(C, cs.U) * Kd(cs)
                rhs == Mm(cs) * Mm(cs) * NN(C)
            IN SmallV(C, 150) => /\ (MeetCount = 2 <=> lhs < rhs)
                                 /\ (MeetCount = 1 <=> lhs = rhs)
                                 /\ (MeetCount = 0 <=> lhs > rhs)

(***************************************************************************)
(* HorosphereArc: construction forms (n = 2)                               *)
(***************************************************************************)
Forms == [ok |-> {"three", "stacked", "from_object", "from_list"}, geometry_error |-> {"only_p1", "only_p2"}]
ASSUME Forms.ok \cap Forms.geometry_error = {}
FormCases(U) == {[kind |-> "arcform", U |-> c.U, X |-> c.X, Y |-> c.Y] : c \in {d \in ArcCases(U) : Weight(<<d.X, d.Y>>) % Thin = 0}}
FormLaws == Kind = "arcform" => /\ HoroBall(cs.U, cs.X) /\ HoroBallExp(cs.U, cs.Y) = HoroBallExp(cs.U, cs.X)
                                /\ HoroHs => HoroHalfExp(cs.U, cs.Y) = HoroHalfExp(cs.U, cs.X)

(***************************************************************************)
(* polygons (n = 2): edges vertex i -> vertex i+1                          *)
(***************************************************************************)
Verts == {v \in Box(3, Bp) : v[1] > 0 /\ IsPrim(v) /\ NN(v) > 0}
PolyOK(vs) == /\ \A i, j \in 1..Len(vs) : i # j => vs[i] # vs[j]
              /\ Weight(vs) % PThin = 0
Verts2 == {v \in Verts : \A i \in 1..3 : Abs(v[i]) <= 2}
PolyCases(v1) == {[kind |-> "polygon", vs |-> vs] :
                    vs \in {t \in {<<v1, a, b>> : a \in Verts, b \in Verts} \cup {<<v1, a, b, c>> : a \in Verts, b \in Verts2, c \in Verts2} : PolyOK(t)}}
Nxt(vs, i) == vs[(i % Len(vs)) + 1]
EdgeExp(X, Y) ==
  LET W == Normal3(X, Y)
      st == Straight(W)
      hs == W[1] # W[2]                                \* the geodesic does not end at the half-space point at infinity
  IN [X |-> X, Y |-> Y, k1 |-> KleinOf(X), k2 |-> KleinOf(Y), straight |-> st,
      pc |-> IF st THEN <<>> ELSE PoleCentre(W), pr2 |-> IF st THEN RZero ELSE PoleRadSq(W),
      pfirst |-> IF st THEN 0 ELSE PoincareFirst(W, X, Y),
      p1 |-> PoincareSurd(X), p2 |-> PoincareSurd(Y),
      hs |-> hs, hc |-> IF hs THEN HsOnBoundary(HsPoleCentre(W)) ELSE <<>>, hr2 |-> IF hs THEN HsPoleRadSq(W) ELSE RZero,
      hfirst |-> IF hs THEN HalfFirst(X, Y) ELSE 0, h1 |-> HalfSurd(X), h2 |-> HalfSurd(Y)]
PolyExp == [kind |-> "polygon", n |-> N, vs |-> cs.vs, edges |-> [i \in 1..Len(cs.vs) |-> EdgeExp(cs.vs[i], Nxt(cs.vs, i))]]
PolyLaws ==
  Kind = "polygon" =>
    \A i \in 1..Len(cs.vs) :
      LET X == cs.vs[i]
          Y == Nxt(cs.vs, i)
          W == Normal3(X, Y)
      IN /\ OnPole(W, X) /\ OnPole(W, Y) /\ MNorm(W) > 0 /\ W[1] >= 0
         /\ ~Straight(W) => /\ DotCD(PoleCentre(W), KleinOf(X)) = ROne /\ DotCD(PoleCentre(W), KleinOf(Y)) = ROne
                            /\ PoleRadSq(W) = RSub(NormSqCD(PoleCentre(W)), ROne)
                            /\ GeoPole(X, Y) = W
                            /\ PoincareFirst(W, Y, X) = 3 - PoincareFirst(W, X, Y)
         /\ W[1] # W[2] => /\ HsHoriz(X) # HsHoriz(Y)
                           /\ HsCentre2(X, Y) = HsPoleCentre(W)[1]
                           /\ HsDistSqIs(X, HsPoleCentre(W), HsPoleRadSq(W)) /\ HsDistSqIs(Y, HsPoleCentre(W), HsPoleRadSq(W))
                           /\ HalfFirst(Y, X) = 3 - HalfFirst(X, Y)

(***************************************************************************)
(* the machine: seeds, then cases                                          *)
(***************************************************************************)
XInit == \/ "meet" \in XKinds /\ cs \in {Seed("pair", U) : U \in IdealPts} \cup {Seed("chord", U) : U \in IdealPts}
         \/ "arcform" \in XKinds /\ N = 2 /\ cs \in {Seed("arcform", U) : U \in IdealPts}
         \/ "polygon" \in XKinds /\ N = 2 /\ cs \in {Seed("polygon", v) : v \in Verts}
XGrow(sd) == CASE sd.fam = "pair" -> PairCases(sd.x)
               [] sd.fam = "chord" -> ChordCases(sd.x)
               [] sd.fam = "arcform" -> FormCases(sd.x)
               [] sd.fam = "polygon" -> PolyCases(sd.x)
XNext == cs.kind = "seed" /\ cs' \in XGrow(cs)

XExp == CASE Kind = "meet" -> MeetExp
          [] Kind = "arcform" -> ArcExp @@ [forms |-> Forms]
          [] Kind = "polygon" -> PolyExp
XEmit == Kind = "seed" \/ PrintT("CASE " \o ToJson(XExp))
=============================================================================
