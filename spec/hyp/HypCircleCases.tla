--------------------------- MODULE HypCircleCases ---------------------------
(***************************************************************************)
(* Property C14: the cases.  One state = one object of the library with    *)
(* the exact value of everything C14 observes on it; Init chooses the      *)
(* object, nothing moves afterwards.  Families (chosen by Kinds):           *)
(*                                                                         *)
(*  "segment"    U, V distinct rational ideal points (integer null vectors *)
(*               with entries <= B), end points (a u + b v)/(a + b) in the *)
(*               Klein model with weights from Coefs (ideal end points     *)
(*               included), so the ideal end points are exactly {U, V}.    *)
(*  "near"       n = 2, U on a coordinate axis and V the rational ideal    *)
(*               point at angle 2 atan(1/m) from its antipode: the circle  *)
(*               has centre u + m u^perp and radius exactly m (near-       *)
(*               diameters, the straight-line limit).                      *)
(*  "horo"       ideal centre U, reference point X with -<X,X> a perfect   *)
(*               square (rational Poincare / half-space coordinates).      *)
(*  "horoarc"    n = 2, two such points on one horosphere.                 *)
(*  "subspace"   k+1 independent ideal points, 2 <= k <= n-1, plus further *)
(*               ideal points of their span.                               *)
(*  "hyperplane" spacelike integer normal W and the rational ideal points  *)
(*               of W^perp.                                                *)
(*                                                                         *)
(* TLC checks on every state that the emitted values have the geometric    *)
(* meaning the property gives them (invariants below) and prints one CASE  *)
(* record, which the harness replays through the library.                  *)
(***************************************************************************)
EXTENDS HypCoords, HypCircle, FormOps, Json

CONSTANTS Kinds,     \* families of cases explored in this run
          CoefMax,   \* weights a, b of the end points a U + b V range over 0..CoefMax
          NearM,     \* set of radii m of the near-diameter family
          Bx,        \* bound on the entries of interior reference points
          Bw,        \* bound on the entries of hyperplane normals
          Bs,        \* bound on the entries of the ideal points used as bases of subspaces
          Thin       \* keep one set of ideal points in Thin as a basis of a subspace (deterministic thinning)

VARIABLE cs
Kind == cs.kind
\* the exact isometries of HypIso (pure operators only: atoms, their values, the action on projective points)
Iso == INSTANCE HypIso WITH MaxLen <- 1, g <- <<>>, kind <- "exact", len <- 0, last <- <<>>

Neg(x) == 0 - x
IdealPts == {v \in Box(N + 1, B) : v[1] > 0 /\ IsPrim(v) /\ NN(v) = 0}
SquarePts == {v \in Box(N + 1, Bx) : v[1] > 0 /\ IsPrim(v) /\ NN(v) > 0 /\ IsSquare(NN(v))}
LexLess(u, v) == \E i \in 1..Len(u) : u[i] < v[i] /\ \A j \in 1..(i - 1) : u[j] = v[j]
Coefs == {ab \in (0..CoefMax) \X (0..CoefMax) : Gcd(ab[1], ab[2]) = 1}
E0 == [i \in 1..(N + 1) |-> IF i = 1 THEN 1 ELSE 0]                 \* the origin of the ball
Inf == [i \in 1..(N + 1) |-> IF i <= 2 THEN 1 ELSE 0]               \* the half-space point at infinity
Rows(Q) == SetSeq(Q)

(***************************************************************************)
(* the families.  An initial state is a SEED (family + first component of  *)
(* the object), its successors are the cases grown from it, so that TLC's  *)
(* workers share the evaluation of the invariants.                         *)
(***************************************************************************)
Seed(f, x) == [kind |-> "seed", fam |-> f, x |-> x]
SegOK(c) == LexLess(c.U, c.V) /\ c.a[1] * c.b[2] # c.a[2] * c.b[1]
SegCases(U) == {c \in {[kind |-> "segment", U |-> U, V |-> V, a |-> a, b |-> b] : V \in IdealPts, a \in Coefs, b \in Coefs} : SegOK(c)}

AxisPts == {<<1, 1, 0>>, <<1, 0, 1>>, <<1, Neg(1), 0>>, <<1, 0, Neg(1)>>}
NearV(U, m, sg) == <<m * m + 1, Neg(m * m - 1) * U[2] - sg * 2 * m * U[3], Neg(m * m - 1) * U[3] + sg * 2 * m * U[2]>>
NearCases(U) == {c \in {[kind |-> "near", U |-> U, V |-> NearV(U, m, sg), a |-> a, b |-> b] : m \in NearM, sg \in {1, Neg(1)}, a \in Coefs, b \in Coefs} :
                   c.a[1] * c.b[2] # c.a[2] * c.b[1]}

HoroCases(U) == {[kind |-> "horo", U |-> U, X |-> X] : X \in SquarePts}
\* X and Y on one horosphere centred at U:  <X,U>^2 / -<X,X>  =  <Y,U>^2 / -<Y,Y>
SameHoro(U, X, Y) == MDot(X, U) * MDot(X, U) * NN(Y) = MDot(Y, U) * MDot(Y, U) * NN(X)
ArcCases(U) == {c \in {[kind |-> "horoarc", U |-> U, X |-> X, Y |-> Y] : X \in SquarePts, Y \in SquarePts} : c.X # c.Y /\ SameHoro(U, c.X, c.Y)}

SubIdeal == {v \in IdealPts : \A i \in 1..(N + 1) : Abs(v[i]) <= Bs}
\* strictly increasing (lexicographic) tuples of k+1 ideal points = sets of k+1 ideal points, starting at z0
RECURSIVE IncTuples(_, _)
IncTuples(z0, m) == IF m = 1 THEN {<<z0>>}
                    ELSE UNION {{Append(t, z) : z \in {y \in SubIdeal : LexLess(t[Len(t)], y)}} : t \in IncTuples(z0, m - 1)}
Weight(t) == ISum([i \in 1..Len(t) |-> ISum([j \in 1..Len(t[i]) |-> (3 * i + j) * (t[i][j] + B)])])
\* three distinct null vectors are independent
SubOK(t) == Weight(t) % Thin = 0 /\ (Len(t) = 3 \/ RankOf(t) = Len(t))
SubCases(z0) == UNION {{[kind |-> "subspace", basis |-> t] : t \in {s \in IncTuples(z0, k + 1) : SubOK(s)}} : k \in 2..(N - 1)}

IdealOn(w) == {z \in IdealPts : MDot(w, z) = 0}
PlaneCases(w1) == {[kind |-> "hyperplane", W |-> w] :
                     w \in {v \in Box(N + 1, Bw) : v[1] = w1 /\ IsPrim(v) /\ MNorm(v) > 0 /\ Cardinality(IdealOn(v)) >= N}}

\* "tiny": end points very close together in the Klein model (Euclidean length ~ 1/K): short segments in the middle of
\* the chord (weights K, K+1 / K+1, K) and ordinary edges (hyperbolic length log(2)/2) about log(K)/2 away from the middle of
\* the chord, next to U or next to V.  The ideal end points are still exactly {U, V}.
TinyK == {1000, 20000}
TinyCoefs == UNION {{<<<<k, k + 1>>, <<k + 1, k>>>>, <<<<k, 1>>, <<k, 2>>>>, <<<<2, k>>, <<1, k>>>>} : k \in TinyK}
SmallIdeal == {v \in IdealPts : \A i \in 1..(N + 1) : Abs(v[i]) <= 5}
TinyCases(U) == {[kind |-> "tiny", U |-> U, V |-> V, a |-> c[1], b |-> c[2]] : V \in {z \in SmallIdeal : LexLess(U, z)}, c \in TinyCoefs}
\* "moved": the image of a segment (and of its geodesic) under an exact isometry.  The library object is obtained by
\* applying the isometry to the segment U, V, a, b; its stored representatives are whatever the linear map produces.
MovedAtoms == {t \in Iso!ExactAtoms : \/ t.k = "lox" /\ t.p + t.q = 3
                                      \/ t.k = "refl" /\ t.v = Iso!Pad(<<1, 2>>)
                                      \/ t.k = "rot" /\ t.a = 3}
MovedCases(U) == {c \in {[kind |-> "moved", U |-> U, V |-> V, a |-> a, b |-> b, atom |-> t] :
                            V \in SmallIdeal, a \in Coefs, b \in Coefs, t \in MovedAtoms} :
                    SegOK(c) /\ Weight(<<c.U, c.V, c.a, c.b>>) % Thin = 0}

Init == \/ "segment" \in Kinds /\ cs \in {Seed("segment", U) : U \in IdealPts}
        \/ "near" \in Kinds /\ N = 2 /\ cs \in {Seed("near", U) : U \in AxisPts}
        \/ "tiny" \in Kinds /\ cs \in {Seed("tiny", U) : U \in SmallIdeal}
        \/ "moved" \in Kinds /\ cs \in {Seed("moved", U) : U \in SmallIdeal}
        \/ "horo" \in Kinds /\ cs \in {Seed("horo", U) : U \in IdealPts}
        \/ "horoarc" \in Kinds /\ N = 2 /\ cs \in {Seed("horoarc", U) : U \in IdealPts}
        \/ "subspace" \in Kinds /\ cs \in {Seed("subspace", U) : U \in SubIdeal}
        \/ "hyperplane" \in Kinds /\ cs \in {Seed("hyperplane", w1) : w1 \in 0..Bw}
Grow(sd) == CASE sd.fam = "segment" -> SegCases(sd.x)
              [] sd.fam = "near" -> NearCases(sd.x)
              [] sd.fam = "tiny" -> TinyCases(sd.x)
              [] sd.fam = "moved" -> MovedCases(sd.x)
              [] sd.fam = "horo" -> HoroCases(sd.x)
              [] sd.fam = "horoarc" -> ArcCases(sd.x)
              [] sd.fam = "subspace" -> SubCases(sd.x)
              [] sd.fam = "hyperplane" -> PlaneCases(sd.x)
Next == cs.kind = "seed" /\ cs' \in Grow(cs)

(***************************************************************************)
(* segments and geodesics                                                  *)
(***************************************************************************)
IsSeg == Kind \in {"segment", "near", "tiny"}
P1 == OnChord(cs.U, cs.V, cs.a)
P2 == OnChord(cs.U, cs.V, cs.b)
SegPole == IdealPole(cs.U, cs.V)
SegStraight == Straight(SegPole)
SegHs == ~AtHsInfinity(cs.U) /\ ~AtHsInfinity(cs.V) /\ Kind \in {"segment", "tiny"}
\* right to left along the chord: the end point nearer to the right-hand ideal end point comes first
HalfFirstOnChord(U, V, ab1, ab2) == IF (HalfFirst(U, V) = 1) = ChordBefore(ab1, ab2) THEN 1 ELSE 2
SmallSeg == \A i \in 1..(N + 1) : Abs(P1[i]) <= 150 /\ Abs(P2[i]) <= 150
\* rational Poincare / half-space coordinates (HypCoords) exist for both end points
SquareSeg == SmallSeg /\ IsSquare(NN(P1)) /\ IsSquare(NN(P2))

SegExp ==
  LET U == cs.U
      V == cs.V
      W == SegPole
      st == SegStraight
      ang == N = 2 /\ ~st
  IN [kind |-> Kind, n |-> N, U |-> U, V |-> V, a |-> cs.a, b |-> cs.b, P1 |-> P1, P2 |-> P2,
      ku |-> KleinOf(U), kv |-> KleinOf(V), k1 |-> KleinOf(P1), k2 |-> KleinOf(P2),
      straight |-> st,
      pc |-> IF st THEN <<>> ELSE PoleCentre(W), pr2 |-> IF st THEN RZero ELSE PoleRadSq(W),
      pfirst |-> IF ang THEN PoincareFirstOnChord(U, V, cs.a, cs.b) ELSE 0,
      pgfirst |-> IF ang THEN PoincareFirst(W, U, V) ELSE 0,
      p1 |-> ChordPoincareSurd(U, V, cs.a), p2 |-> ChordPoincareSurd(U, V, cs.b),
      hs |-> SegHs,
      hc |-> IF SegHs THEN HsOnBoundary(HsGeoCentre(U, V)) ELSE <<>>, hr2 |-> IF SegHs THEN HsGeoRadSq(U, V) ELSE RZero,
      hfirst |-> IF SegHs /\ N = 2 THEN HalfFirstOnChord(U, V, cs.a, cs.b) ELSE 0,
      hgfirst |-> IF SegHs /\ N = 2 THEN HalfFirst(U, V) ELSE 0,
      hu |-> IF SegHs THEN HsOnBoundary(HsHoriz(U)) ELSE <<>>, hv |-> IF SegHs THEN HsOnBoundary(HsHoriz(V)) ELSE <<>>,
      h1 |-> IF SegHs THEN ChordHalfSurd(U, V, cs.a) ELSE <<>>, h2 |-> IF SegHs THEN ChordHalfSurd(U, V, cs.b) ELSE <<>>]

\* literal checks in rational model coordinates are evaluated on the cases with small entries (32-bit integers);
\* the square-root-free integer forms of the same statements are checked on every case
Lit == /\ \A i \in 1..(N + 1) : Abs(cs.U[i]) <= 5 /\ Abs(cs.V[i]) <= 5
       /\ \A i \in 1..2 : cs.a[i] <= 2 /\ cs.b[i] <= 2

\* <v,v> = 0; for the large vectors of the near-diameter family (n = 2) as a difference of squares
IsNull(v) == IF \A i \in 1..Len(v) : Abs(v[i]) <= 20000 THEN MNorm(v) = 0
             ELSE IF Abs(v[2]) > Abs(v[3]) THEN v[3] * v[3] = (v[1] - v[2]) * (v[1] + v[2])
             ELSE v[2] * v[2] = (v[1] - v[3]) * (v[1] + v[3])
\* the ideal end points are lightlike, distinct, and the end points lie on the chord between them (Klein model)
SegIdeal ==
  IsSeg => /\ IsNull(cs.U) /\ IsNull(cs.V) /\ Prim(cs.U) # Prim(cs.V)
           /\ P1[1] > 0 /\ P2[1] > 0 /\ Prim(P1) # Prim(P2)
           /\ SmallSeg => LET f == ChordNegNormFactors(cs.U, cs.V, cs.a) IN NegNorm(P1) = f[1] * f[2] * f[3] * f[4]
           /\ \A c \in {cs.a, cs.b} : \A i \in 1..4 : ChordNegNormFactors(cs.U, cs.V, c)[i] >= 0
           /\ SmallSeg => \A c \in {cs.a, cs.b} :                   \* Klein coordinates (a u + b v) / (a + b)
                 KleinOf(OnChord(cs.U, cs.V, c)) = RScale(R(1, c[1] + c[2]), RVAdd(RScale(RInt(c[1]), KleinOf(cs.U)), RScale(RInt(c[2]), KleinOf(cs.V))))
           /\ SmallSeg => \A i, j \in 1..N :
                 LET ku == KleinOf(cs.U)
                     kv == KleinOf(cs.V)
                     k == KleinOf(P1)
                 IN RMul(RSub(k[i], ku[i]), RSub(kv[j], ku[j])) = RMul(RSub(k[j], ku[j]), RSub(kv[i], ku[i]))
\* the circle: through both ideal end points and both end points (<W,X> = 0 <=> centre . klein(X) = 1 <=> the
\* Poincare point of X is on the circle), orthogonal to the unit sphere, centre in the plane of the geodesic;
\* it depends only on the geodesic; a diameter iff the ideal end points are antipodal
SegCircle ==
  IsSeg =>
    LET W == SegPole
        c == PoleCentre(W)
        ku == KleinOf(cs.U)
        kv == KleinOf(cs.V)
    IN /\ SegStraight <=> VAdd(SpatialOf(VScale(cs.V[1], cs.U)), SpatialOf(VScale(cs.U[1], cs.V))) = [i \in 1..N |-> 0]
       /\ OnPole(W, cs.U) /\ OnPole(W, cs.V) /\ OnPole(W, P1) /\ OnPole(W, P2)
       /\ ~SegStraight =>
            /\ W[1] > 0 /\ MNorm(W) > 0
            /\ PoleRadSq(W) = RSub(NormSqCD(c), ROne)                            \* orthogonal to the unit sphere
            /\ DistSqIs(ku, c, PoleRadSq(W)) /\ DistSqIs(kv, c, PoleRadSq(W))
            /\ c = RScale(RDiv(ROne, RAdd(ROne, DotCD(ku, kv))), RVAdd(ku, kv))
            /\ SmallSeg => /\ DotCD(c, KleinOf(P1)) = ROne /\ DotCD(c, KleinOf(P2)) = ROne
                           /\ (N = 2 => Normal3(P1, P2) = W /\ Normal3(cs.U, cs.V) = W)
       /\ SmallSeg => GeoPole(P1, P2) = W /\ GeoPole(cs.U, cs.V) = W
\* on the perfect-square sub-universe the end points have rational Poincare coordinates: they are on the circle, the
\* surd record is the Poincare point of HypCoords, and the square-root-free rule for the start of the arc is right:
\* counter-clockwise from `first` to the other end point one stays between the ideal end points
SegArc ==
  (IsSeg /\ Lit /\ SquareSeg /\ ~SegStraight) =>
    LET W == SegPole
        c == PoleCentre(W)
        q1 == Poincare(Prim(P1))
        q2 == Poincare(Prim(P2))
        f == PoincareFirstOnChord(cs.U, cs.V, cs.a, cs.b)
        qa == IF f = 1 THEN q1 ELSE q2
        qb == IF f = 1 THEN q2 ELSE q1
        g == PoincareFirst(W, cs.U, cs.V)
        ua == KleinOf(IF g = 1 THEN cs.U ELSE cs.V)
        ub == KleinOf(IF g = 1 THEN cs.V ELSE cs.U)
    IN /\ DistSqIs(q1, c, PoleRadSq(W)) /\ DistSqIs(q2, c, PoleRadSq(W))
       /\ q1 = [i \in 1..N |-> R(P1[i + 1], P1[1] + Sqrt(NN(P1)))]
       /\ N = 2 => /\ Orient(c, ua, ub) > 0 /\ Orient(c, qa, qb) > 0
                   /\ Orient(c, ua, qa) >= 0 /\ Orient(c, qb, ub) >= 0
                   /\ PoincareFirstOf(P1, P2) = f
                   /\ \A t \in {qa, qb} : RLeq(NormSqCD(t), ROne)
\* the square-root-free rule on every case of n = 2: it does not depend on which two points of the geodesic are
\* used to find the circle, and swapping the end points swaps the answer
SegFirst ==
  (IsSeg /\ N = 2 /\ ~SegStraight) =>
    /\ PoincareFirstOnChord(cs.U, cs.V, cs.b, cs.a) = 3 - PoincareFirstOnChord(cs.U, cs.V, cs.a, cs.b)
    /\ PoincareFirstOnChord(cs.U, cs.V, <<1, 0>>, <<0, 1>>) = PoincareFirst(SegPole, cs.U, cs.V)
    /\ SmallSeg => PoincareFirst(SegPole, P1, P2) = PoincareFirstOnChord(cs.U, cs.V, cs.a, cs.b)
\* half-space: centre on the boundary, equidistant from the ideal end points and from the end points; agreement
\* with the Cayley transform of HypCoords; right to left is counter-clockwise above the boundary
SegHalf ==
  (IsSeg /\ SegHs) =>
    LET m == HsGeoCentre(cs.U, cs.V)
        r2 == HsGeoRadSq(cs.U, cs.V)
    IN /\ HsHeightSq(cs.U) = RZero /\ HsHeightSq(cs.V) = RZero
       /\ DistSqCD(HsHoriz(cs.U), m) = r2 /\ DistSqCD(HsHoriz(cs.V), m) = r2 /\ RSgn(r2) > 0
       /\ N = 2 => /\ HsPoleCentre(Normal3(cs.U, cs.V)) = m /\ HsPoleRadSq(Normal3(cs.U, cs.V)) = r2   \* the pole describes the same circle
                   /\ HsHoriz(P1) # HsHoriz(P2)
       /\ SmallSeg => HsDistSqIs(P1, m, r2) /\ HsDistSqIs(P2, m, r2)
       /\ (SmallSeg /\ N = 2) => HalfFirstOnChord(cs.U, cs.V, cs.a, cs.b) = HalfFirst(P1, P2)
       /\ (Lit /\ N = 2) => HsCentre2(P1, P2) = m[1]
       /\ (Lit /\ SquareSeg) =>
            LET h1 == Halfspace(Prim(P1))
                h2 == Halfspace(Prim(P2))
                f == HalfFirst(P1, P2)
            IN /\ SubSeq(h1, 1, N - 1) = HsHoriz(P1) /\ RSq(h1[N]) = HsHeightSq(P1) /\ RSgn(h1[N]) >= 0
               /\ N = 2 => LET o == Orient(HsOnBoundary(m), IF f = 1 THEN h1 ELSE h2, IF f = 1 THEN h2 ELSE h1)
                           IN o >= 0 /\ (o = 0 => NN(P1) = 0 /\ NN(P2) = 0)       \* half a turn: the whole geodesic

(***************************************************************************)
(* images of segments under exact isometries                               *)
(***************************************************************************)
Img(t, v) == Iso!Act(Iso!AtomVal(t), v)
MovedExp ==
  LET U == Img(cs.atom, cs.U)
      V == Img(cs.atom, cs.V)
      o1 == OnChord(cs.U, cs.V, cs.a)
      o2 == OnChord(cs.U, cs.V, cs.b)
      Q1 == Img(cs.atom, o1)
      Q2 == Img(cs.atom, o2)
      W == IdealPole(U, V)
      st == Straight(W)
      ang == N = 2 /\ ~st
      hs == ~AtHsInfinity(U) /\ ~AtHsInfinity(V)
  IN [kind |-> "moved", n |-> N, atom |-> cs.atom, oU |-> cs.U, oV |-> cs.V, oP1 |-> o1, oP2 |-> o2, a |-> cs.a, b |-> cs.b,
      U |-> U, V |-> V, P1 |-> Q1, P2 |-> Q2,
      ku |-> KleinOf(U), kv |-> KleinOf(V), k1 |-> KleinOf(Q1), k2 |-> KleinOf(Q2),
      straight |-> st,
      pc |-> IF st THEN <<>> ELSE PoleCentre(W), pr2 |-> IF st THEN RZero ELSE PoleRadSq(W),
      \* an isometry maps the geodesic from U to V onto the geodesic from its images, keeping the order of the points
      pfirst |-> IF ang THEN (IF (OrientH(W, U, V) > 0) = ChordBefore(cs.a, cs.b) THEN 1 ELSE 2) ELSE 0,
      pgfirst |-> IF ang THEN PoincareFirst(W, U, V) ELSE 0,
      p1 |-> PoincareSurd(Q1), p2 |-> PoincareSurd(Q2),
      hs |-> hs,
      hc |-> IF hs THEN HsOnBoundary(HsGeoCentre(U, V)) ELSE <<>>, hr2 |-> IF hs THEN HsGeoRadSq(U, V) ELSE RZero,
      hfirst |-> IF hs /\ N = 2 THEN HalfFirstOnChord(U, V, cs.a, cs.b) ELSE 0,
      hgfirst |-> IF hs /\ N = 2 THEN HalfFirst(U, V) ELSE 0,
      hu |-> IF hs THEN HsOnBoundary(HsHoriz(U)) ELSE <<>>, hv |-> IF hs THEN HsOnBoundary(HsHoriz(V)) ELSE <<>>,
      h1 |-> IF hs THEN HalfSurd(Q1) ELSE <<>>, h2 |-> IF hs THEN HalfSurd(Q2) ELSE <<>>]
\* the image points lie on the image geodesic, in the closed ball, the ideal end points stay ideal and distinct, and the
\* order-based rules agree with the rules evaluated on the image points themselves
MovedLaws ==
  Kind = "moved" =>
    LET e == MovedExp
        W == IdealPole(e.U, e.V)
        sm == \A i \in 1..(N + 1) : Abs(e.P1[i]) <= 400 /\ Abs(e.P2[i]) <= 400
    IN /\ MNorm(e.U) = 0 /\ MNorm(e.V) = 0 /\ e.U # e.V /\ e.U[1] > 0 /\ e.V[1] > 0
       /\ e.P1[1] > 0 /\ e.P2[1] > 0 /\ e.P1 # e.P2
       /\ sm => /\ NegNorm(e.P1) >= 0 /\ NegNorm(e.P2) >= 0
                /\ OnPole(W, e.P1) /\ OnPole(W, e.P2) /\ OnPole(W, e.U) /\ OnPole(W, e.V)
                /\ (NegNorm(e.P1) = 0) = (NegNorm(e.oP1) = 0)
                /\ (N = 2 /\ ~Straight(W)) => PoincareFirst(W, e.P1, e.P2) = e.pfirst
                /\ (N = 2 /\ e.hs) => HalfFirst(e.P1, e.P2) = e.hfirst
                /\ e.hs => HsDistSqIs(e.P1, HsGeoCentre(e.U, e.V), HsGeoRadSq(e.U, e.V))

(***************************************************************************)
(* horospheres                                                             *)
(***************************************************************************)
IsHoro == Kind \in {"horo", "horoarc"}
Sx(X) == Sqrt(NN(X))
HoroHs == ~AtHsInfinity(cs.U)
HoroBallExp(U, X) == [c |-> HoroCentreBall(U, HoroRadBall(U, X, Sx(X))), r |-> HoroRadBall(U, X, Sx(X))]
HoroHalfExp(U, X) == [c |-> HsHoroCentre(U, HsHoroRad(U, X, Sx(X))), r |-> HsHoroRad(U, X, Sx(X))]
HoroExp ==
  [kind |-> Kind, n |-> N, U |-> cs.U, X |-> cs.X, ku |-> KleinOf(cs.U), px |-> Poincare(cs.X),
   pc |-> HoroBallExp(cs.U, cs.X).c, pr |-> HoroBallExp(cs.U, cs.X).r,
   hs |-> HoroHs,
   hu |-> IF HoroHs THEN HsOnBoundary(HsHoriz(cs.U)) ELSE <<>>, hx |-> Halfspace(cs.X),
   hc |-> IF HoroHs THEN HoroHalfExp(cs.U, cs.X).c ELSE <<>>, hr |-> IF HoroHs THEN HoroHalfExp(cs.U, cs.X).r ELSE RZero]

\* the two derivations of the radius agree; the sphere is tangent to the boundary at the centre of the
\* horosphere and passes through the reference point (literally, in model coordinates, where small enough)
HoroBall(U, X) ==
  LET e == HoroBallExp(U, X)
      u == KleinOf(U)
      p == Poincare(X)
  IN /\ HoroRadBallCoords(U, X, Sx(X)) = e.r
     /\ RLess(RZero, e.r) /\ RLess(e.r, ROne)
     /\ e.c = RScale(RSub(ROne, e.r), u)                                        \* on the radius towards u: tangent at u
     /\ (SmallRVec(e.c, 6000) /\ SmallRVec(RVSub(p, e.c), 6000)) =>
          /\ DistSqCD(u, e.c) = RSq(e.r)                                        \* u on the sphere
          /\ DistSqCD(p, e.c) = RSq(e.r)                                        \* reference point on the sphere
          /\ NormSqCD(e.c) = RSq(RSub(ROne, e.r))                               \* internally tangent to the unit sphere
HoroHalf(U, X) ==
  LET e == HoroHalfExp(U, X)
      h == Halfspace(X)
  IN /\ HsHoroRadCoords(U, X, Sx(X)) = e.r
     /\ RSgn(e.r) > 0 /\ e.c[N] = e.r /\ SubSeq(e.c, 1, N - 1) = HsHoriz(U)       \* rests on the boundary at h(U)
     /\ SubSeq(h, 1, N - 1) = HsHoriz(X) /\ RSq(h[N]) = HsHeightSq(X)
     /\ SmallRVec(RVSub(h, e.c), 6000) => DistSqCD(h, e.c) = RSq(e.r)             \* reference point on the sphere
HoroLaws ==
  IsHoro => /\ MNorm(cs.U) = 0 /\ NN(cs.X) > 0
            /\ HoroBall(cs.U, cs.X)
            /\ HoroHs => HoroHalf(cs.U, cs.X)

\* arcs of horocycles (n = 2): both end points on the same circle; the arc that avoids the tangency point
ArcExp ==
  HoroExp @@ [Y |-> cs.Y, py |-> Poincare(cs.Y), hy |-> Halfspace(cs.Y),
              pfirst |-> AvoidFirst(Poincare(cs.X), Poincare(cs.Y), KleinOf(cs.U)),
              hfirst |-> IF HoroHs THEN AvoidFirst(Halfspace(cs.X), Halfspace(cs.Y), HsOnBoundary(HsHoriz(cs.U))) ELSE 0]
ArcLaws ==
  Kind = "horoarc" =>
    /\ HoroBallExp(cs.U, cs.Y) = HoroBallExp(cs.U, cs.X)
    /\ HoroHs => HoroHalfExp(cs.U, cs.Y) = HoroHalfExp(cs.U, cs.X)
    /\ LET p == Poincare(cs.X)
           q == Poincare(cs.Y)
           u == KleinOf(cs.U)
           f == AvoidFirst(p, q, u)
       IN /\ Orient(p, u, q) # 0
          /\ Orient(IF f = 1 THEN p ELSE q, u, IF f = 1 THEN q ELSE p) < 0
          /\ AvoidFirst(q, p, u) = 3 - f

(***************************************************************************)
(* subspaces and hyperplanes                                               *)
(***************************************************************************)
\* pole of the subspace spanned by the ideal points t: the vector c = sum beta_i (t_i)_s with c . u_i = 1 for all i
SubPole(t) ==
  LET m == Len(t)
      A == TLCEval([j \in 1..m |-> [i \in 1..m |-> Dot(SpatialOf(t[i]), SpatialOf(t[j]))]])
      beta == Solve(A, [j \in 1..m |-> t[j][1]])
      c == [d \in 1..N |-> RSum([i \in 1..m |-> RMul(beta[i], RInt(t[i][d + 1]))])]
  IN ClearDen(<<ROne>> \o c)
Extras(t) == {Prim(NullInSpan(t[1], t[2], t[3], ab[1], ab[2])) : ab \in {<<1, 1>>, <<1, 2>>, <<2, 1>>, <<1, Neg(1)>>, <<3, Neg(1)>>}}
SubPts == LET t == cs.basis IN {t[i] : i \in 1..Len(t)} \cup {z \in Extras(t) : z[1] > 0 /\ z \notin {t[i] : i \in 1..Len(t)}}
SubStraight == RankOf(Append(cs.basis, E0)) = Len(cs.basis)         \* contains the origin of the ball
SubHs == RankOf(Append(cs.basis, Inf)) = Len(cs.basis) + 1          \* does not contain the point at infinity
SubExp ==
  LET pts == Rows(SubPts)
  IN [kind |-> Kind, n |-> N, k |-> Len(cs.basis) - 1, basis |-> cs.basis, pts |-> pts,
      kz |-> [i \in 1..Len(pts) |-> KleinOf(pts[i])],
      straight |-> SubStraight,
      pc |-> IF SubStraight THEN <<>> ELSE PoleCentre(SubPole(cs.basis)),
      pr2 |-> IF SubStraight THEN RZero ELSE PoleRadSq(SubPole(cs.basis)),
      hs |-> SubHs, hz |-> IF SubHs THEN [i \in 1..Len(pts) |-> HsOnBoundary(HsHoriz(pts[i]))] ELSE <<>>]
SubLaws ==
  Kind = "subspace" =>
    LET pts == SubPts
        m == Len(cs.basis)
    IN /\ ElimOk(cs.basis) /\ ElimOk(Append(cs.basis, E0)) /\ ElimOk(Append(cs.basis, Inf))    \* the emitted flags are exact
       /\ RankOf(cs.basis) = m
       /\ \A z \in pts : MNorm(z) = 0 /\ z[1] > 0 /\ (ElimOk(Append(cs.basis, z)) => RankOf(Append(cs.basis, z)) = m)
       /\ Cardinality(pts) > m
       /\ SubHs => \A z \in pts : ~AtHsInfinity(z)
       /\ ~SubStraight =>
            LET W == SubPole(cs.basis)
            IN /\ W[1] > 0 /\ MNorm(W) > 0
               /\ \A z \in pts : OnPole(W, z) /\ DistSqIs(KleinOf(z), PoleCentre(W), PoleRadSq(W))
               /\ PoleRadSq(W) = RSub(NormSqCD(PoleCentre(W)), ROne)

PlaneW == IF cs.W[1] < 0 THEN VScale(Neg(1), cs.W) ELSE cs.W
PlaneHs == cs.W[1] # cs.W[2]
PlaneExp ==
  LET pts == Rows(IdealOn(cs.W))
      W == PlaneW
      st == Straight(W)
  IN [kind |-> Kind, n |-> N, W |-> cs.W, pts |-> pts,
      kz |-> [i \in 1..Len(pts) |-> KleinOf(pts[i])],
      straight |-> st,
      pc |-> IF st THEN <<>> ELSE PoleCentre(W), pr2 |-> IF st THEN RZero ELSE PoleRadSq(W),
      hs |-> PlaneHs, hz |-> IF PlaneHs THEN [i \in 1..Len(pts) |-> HsOnBoundary(HsHoriz(pts[i]))] ELSE <<>>,
      hc |-> IF PlaneHs THEN HsOnBoundary(HsPoleCentre(cs.W)) ELSE <<>>, hr2 |-> IF PlaneHs THEN HsPoleRadSq(cs.W) ELSE RZero]
PlaneLaws ==
  Kind = "hyperplane" =>
    LET W == PlaneW
    IN /\ MNorm(W) > 0
       /\ PlaneHs <=> ~OnPole(W, Inf)
       /\ Straight(W) <=> OnPole(W, E0)
       /\ \A z \in IdealOn(cs.W) : OnPole(W, z)
       /\ ~Straight(W) => \A z \in IdealOn(cs.W) : DistSqIs(KleinOf(z), PoleCentre(W), PoleRadSq(W))
       /\ PlaneHs => \A z \in IdealOn(cs.W) : ~AtHsInfinity(z) /\ DistSqIs(HsHoriz(z), HsPoleCentre(cs.W), HsPoleRadSq(cs.W))
       /\ (Cardinality(IdealOn(cs.W)) = N /\ RankOf(Rows(IdealOn(cs.W))) = N /\ ~Straight(W)) => SubPole(Rows(IdealOn(cs.W))) = W

(***************************************************************************)
(* configurations                                                          *)
(*                                                                         *)
(* ModelNames: a model may be named by any of these enum members, or by    *)
(* the name of any of them as a string in any letter case; every spelling  *)
(* denotes exactly one model, and every observation with one spelling is   *)
(* the observation with any other spelling of the same model.              *)
(*                                                                         *)
(* A composite object is an array of units; item assignment replaces one   *)
(* unit (Assign), and every observation at index i is afterwards the       *)
(* observation of the unit then stored at i, whatever was observed before. *)
(* A unit is a projective class: Rescale by a non-zero factor (negative    *)
(* ones included) of any of its homogeneous vectors is a stuttering step.  *)
(***************************************************************************)
ModelNames == [poincare |-> {"POINCARE"}, klein |-> {"KLEIN", "KLEINIAN", "AFFINE"}, halfspace |-> {"HALFSPACE", "HALFPLANE"},
               hyperboloid |-> {"HYPERBOLOID"}, projective |-> {"PROJECTIVE"}]
ConformalModels == {"poincare", "halfspace"}
ASSUME /\ ConformalModels \subseteq DOMAIN ModelNames /\ DOMAIN ModelNames = Models
       /\ \A m1, m2 \in DOMAIN ModelNames : m1 # m2 => ModelNames[m1] \cap ModelNames[m2] = {}
       /\ \A m \in DOMAIN ModelNames : ModelNames[m] # {}
ASSUME PrintT("MODELNAMES " \o ToJson(ModelNames))
Assign(arr, k, unit) == [arr EXCEPT ![k] = unit]
RescaleFactors == {<<0 - 3, 1>>, <<0 - 1, 1>>, <<0 - 1, 2>>, <<1, 3>>, <<2, 1>>}
ASSUME \A c \in RescaleFactors : ~RIsZero(c)

(***************************************************************************)
(* emission                                                                *)
(***************************************************************************)
Exp == CASE IsSeg -> SegExp
         [] Kind = "moved" -> MovedExp
         [] Kind = "horo" -> HoroExp
         [] Kind = "horoarc" -> ArcExp
         [] Kind = "subspace" -> SubExp
         [] Kind = "hyperplane" -> PlaneExp
EmitCase == Kind = "seed" \/ PrintT("CASE " \o ToJson(Exp))
=============================================================================
