------------------------------ MODULE HypAction ------------------------------
(***************************************************************************)
(* Property C03 (hyperbolic classes): transformations act as a LEFT group   *)
(* action on every kind of object, derived data included.                   *)
(* Objects carry exact integer data; the action on derived data is defined *)
(* from the geometry (edges = consecutive image vertices, ideal endpoints = *)
(* null directions of the image span, tangent direction = image of the      *)
(* direction, ...), and TLC checks that this agrees with transforming the   *)
(* derived data linearly, class by class, for every pair (A, B) of exact    *)
(* isometries of HypIso (atoms and two-letter words) and every object.      *)
(* One TLC state per case (object, A, B); each is emitted for replay.       *)
(***************************************************************************)
EXTENDS HypIso

VARIABLES obj, A, B

\* ---------------------------------------------------------------- objects
\* primary data: a sequence of integer vectors ("rows"); kind-specific derived data
PrimPos(v) == LET q == VGcd(v) IN [i \in 1..Len(v) |-> v[i] \div q]      \* keeps the sign (directions)

IdealPts == <<Pad(<<1, 1>>), Pad(<<5, 3, 4>>), Pad(<<5, 0 - 4, 3>>), Pad(<<1, 0, 0 - 1>>), Pad(<<13, 5, 0 - 12>>)>>
InteriorPts == <<Pad(<<1>>), Pad(<<3, 2, 2>>), Pad(<<2, 1>>), Pad(<<5, 0 - 3, 1>>), Pad(<<3, 1, 0 - 2>>), Pad(<<9, 4, 8>>),
                 Pad(<<4, 0 - 1, 3>>)>>

\* points s u + (1 - s) v on the chord between ideal points u and v (s = p/q written homogeneously)
OnChord(u, v, p, q) == Prim(VAdd(VScale(p, u), VScale(q - p, v)))

\* points OUTSIDE the closed ball (poles of hyperplanes); the first three have time coordinate exactly 0 (poles of
\* hyperplanes through the origin) and stay there under every isometry fixing the origin
ExteriorPts == <<Pad(<<0, 1>>), Pad(<<0, 1, 2>>), Pad(<<0, 3, 0 - 4>>), Pad(<<1, 2>>), Pad(<<1, 1, 1>>), Pad(<<2, 0, 3>>),
                 Pad(<<0, 0, 1>>)>>

Objects ==
  {[cls |-> "point", rows |-> <<x>>] : x \in {InteriorPts[i] : i \in 1..Len(InteriorPts)} \cup {IdealPts[1], IdealPts[2]}}
  \cup {[cls |-> "pair", rows |-> <<InteriorPts[2], InteriorPts[4]>>], [cls |-> "pair", rows |-> <<InteriorPts[3], IdealPts[2]>>],
        \* the same point twice, and two points at distance ~0.007 (for distance / direction code with special
        \* branches for nearby points)
        [cls |-> "pair", rows |-> <<InteriorPts[2], InteriorPts[2]>>],
        [cls |-> "pair", rows |-> <<Pad(<<200, 1, 0>>), Pad(<<200, 0, 1>>)>>]}
  \cup {[cls |-> "segment", rows |-> <<OnChord(IdealPts[i], IdealPts[j], 1, 3), OnChord(IdealPts[i], IdealPts[j], 3, 5)>>,
          ends |-> <<IdealPts[i], IdealPts[j]>>] : i \in {1, 2}, j \in {3, 4}}
  \cup {[cls |-> "geodesic", rows |-> <<IdealPts[i], IdealPts[j]>>] : i \in {1, 5}, j \in {2, 3}}
  \cup {[cls |-> "polygon", rows |-> <<InteriorPts[1], InteriorPts[2], InteriorPts[5]>>],
        [cls |-> "polygon", rows |-> <<InteriorPts[2], InteriorPts[4], InteriorPts[3], InteriorPts[6]>>],
        [cls |-> "polygon", rows |-> <<IdealPts[1], IdealPts[2], IdealPts[3], IdealPts[4], InteriorPts[1]>>]}
  \cup {[cls |-> "simplex", rows |-> <<InteriorPts[1], InteriorPts[2], InteriorPts[7]>>]}
  \* tangent vectors (x, w) = h.(e_1, e_2) for exact h, so <x, w> = 0 exactly
  \cup {[cls |-> "tangent", rows |-> <<Act(AtomVal(h), E1)>>, vec |-> PrimPos(MatVec(AtomVal(h)[1], Pad(<<0, 1>>))),
         frame |-> AtomVal(h)] :
          h \in {[k |-> "origin_to", x |-> Pad(<<3, 2, 2>>)], [k |-> "lox", p |-> 2, q |-> 1],
                 [k |-> "rot", a |-> 3, b |-> 4, c |-> 5], [k |-> "origin_to", x |-> Pad(<<5, 0, 0 - 4>>)]}}
  \cup {[cls |-> "horosphere", rows |-> <<IdealPts[i], InteriorPts[j]>>] : i \in {2, 4}, j \in {1, 3}}
  \cup {[cls |-> "hyperplane", rows |-> <<v>>] : v \in {Pad(<<0, 1>>), Pad(<<1, 2>>), Pad(<<0, 1, 0 - 1>>), Pad(<<1, 1, 1>>)}}
  \cup {[cls |-> "subspace", rows |-> <<IdealPts[1], IdealPts[3]>>]}
  \cup {[cls |-> "isometry", rows |-> <<>>, h |-> AtomVal(h)] :
          h \in {[k |-> "lox", p |-> 3, q |-> 2], [k |-> "refl", v |-> Pad(<<1, 2>>)], [k |-> "rot", a |-> 5, b |-> 12, c |-> 13]}}

\* the other kinds of points of the projective model (kept apart from Objects, which Rescale.tla / C12 reuses):
\* poles of hyperplanes (hyperbolic.DualPoint), ideal points (hyperbolic.IdealPoint), points of the ambient
\* projective space (projective.Point) moved by an isometry, and pairs containing poles
PointObjects ==
  {[cls |-> "dualpoint", rows |-> <<ExteriorPts[i]>>] : i \in 1..Len(ExteriorPts)}
  \cup {[cls |-> "idealpoint", rows |-> <<IdealPts[i]>>] : i \in {3, 4, 5}}
  \cup {[cls |-> "ppoint", rows |-> <<x>>] : x \in {InteriorPts[4], IdealPts[2], ExteriorPts[1], ExteriorPts[3], ExteriorPts[5]}}
  \cup {[cls |-> "pair", rows |-> <<InteriorPts[5], ExteriorPts[1]>>], [cls |-> "pair", rows |-> <<ExteriorPts[2], ExteriorPts[4]>>]}

\* the action, defined from the geometry
ActObj(a, X) ==
  CASE X.cls = "tangent" -> [X EXCEPT !.rows = <<Act(a, X.rows[1])>>, !.vec = PrimPos(MatVec(a[1], X.vec))]
    [] X.cls = "segment" -> [X EXCEPT !.rows = [i \in 1..Len(X.rows) |-> Act(a, X.rows[i])],
                                      !.ends = [i \in 1..2 |-> Act(a, X.ends[i])]]
    [] X.cls = "isometry" -> [X EXCEPT !.h = Mul(a, X.h)]
    [] OTHER -> [X EXCEPT !.rows = [i \in 1..Len(X.rows) |-> Act(a, X.rows[i])]]

\* derived data of an object, recomputed from its primary data
Edges(X) == [i \in 1..Len(X.rows) |-> <<X.rows[i], X.rows[(i % Len(X.rows)) + 1]>>]

\* u lies in the span of x and y: all 3x3 minors of [x; y; u] vanish (checked through the cross-product identity in
\* every coordinate triple)
Det3(a, b, c, i, j, k) == a[i] * (b[j] * c[k] - b[k] * c[j]) - a[j] * (b[i] * c[k] - b[k] * c[i]) + a[k] * (b[i] * c[j] - b[j] * c[i])
InSpan(x, y, u) == \A i, j, k \in 1..Dim : (i < j /\ j < k) => Det3(x, y, u, i, j, k) = 0

\* quadratic conditions (safe for 32-bit arithmetic on images); the cubic span condition is checked on the
\* original objects only - the action is linear, so it is preserved
WellFormed(X) ==
  CASE X.cls = "segment" -> /\ \A i \in 1..2 : MNorm(X.ends[i]) = 0
                            /\ X.ends[1] # X.ends[2] /\ \A i \in 1..2 : MNorm(X.rows[i]) < 0
    [] X.cls = "tangent" -> MNorm(X.rows[1]) < 0 /\ MDot(X.rows[1], X.vec) = 0 /\ MNorm(X.vec) > 0
    [] X.cls = "geodesic" -> \A i \in 1..2 : MNorm(X.rows[i]) = 0
    [] X.cls = "horosphere" -> MNorm(X.rows[1]) = 0 /\ MNorm(X.rows[2]) < 0
    [] X.cls = "hyperplane" -> MNorm(X.rows[1]) > 0
    [] X.cls = "dualpoint" -> MNorm(X.rows[1]) > 0
    [] X.cls = "idealpoint" -> MNorm(X.rows[1]) = 0
    [] X.cls = "subspace" -> \A i \in 1..Len(X.rows) : MNorm(X.rows[i]) = 0
    [] OTHER -> TRUE

\* ---------------------------------------------------------------- the cases
Atoms1 == {Refl(Pad(<<1, 2>>)), Refl(Pad(<<0, 1, 0 - 1>>)), RotIn(1, 2, 3, 4, 5), Lox(2, 1), Lox(3, 2), SignedPerm(Swap12)}
Elems == Atoms1 \cup {Mul(AtomVal([k |-> "lox", p |-> 2, q |-> 1]), AtomVal([k |-> "rot", a |-> 3, b |-> 4, c |-> 5])),
                      Mul(AtomVal([k |-> "refl", v |-> Pad(<<1, 2>>)]), AtomVal([k |-> "lox", p |-> 3, q |-> 2])),
                      Boost(Pad(<<3, 2, 2>>)), Mul(Boost(Pad(<<9, 4, 8>>)), AtomVal([k |-> "rot", a |-> 5, b |-> 12, c |-> 13]))}

ActInit == /\ Init
           /\ obj \in Objects \cup PointObjects
           /\ A \in Elems /\ B \in Elems
ActNext == UNCHANGED <<g, kind, len, last, obj, A, B>>

ObjectsWellFormed == /\ WellFormed(obj)
                     /\ obj.cls = "segment" => \A i \in 1..2 : InSpan(obj.rows[1], obj.rows[2], obj.ends[i])
ImageWellFormed == WellFormed(ActObj(A, obj))                  \* derived data of the image = image of derived data
ActionLaw == ActObj(Mul(A, B), obj) = ActObj(A, ActObj(B, obj))
IdentityLaw == ActObj(Ident, obj) = obj
InverseActs == ActObj(Inv(A), ActObj(A, obj)) = obj
EdgesCommute == obj.cls = "polygon" =>
                  Edges(ActObj(A, obj)) = [i \in 1..Len(obj.rows) |-> <<Act(A, Edges(obj)[i][1]), Act(A, Edges(obj)[i][2])>>]

EmitCase == PrintT("CASE " \o ToJson([obj |-> obj, A |-> A, B |-> B, AB |-> Mul(A, B),
                                        img |-> ActObj(Mul(A, B), obj), imgA |-> ActObj(A, obj)]))
=============================================================================
