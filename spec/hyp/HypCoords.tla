------------------------------ MODULE HypCoords ------------------------------
(***************************************************************************)
(* Property C01, coordinates.  A point of the closed ball of H^n is the    *)
(* projective class of a primitive integer vector x with x1 > 0 and        *)
(* <x,x> <= 0 (Minkowski form, time coordinate first).  Its coordinates in *)
(* the five models are exact:                                              *)
(*   projective   x                                                        *)
(*   Klein        x_i / x_1                                                *)
(*   hyperboloid  x / s,              s = sqrt(-<x,x>)                     *)
(*   Poincare     x_i / (x_1 + s)                                          *)
(*   half-space   Cayley transform of the Poincare ball                    *)
(* On the sub-universe where -<x,x> is a perfect square (or 0: ideal       *)
(* points) everything is rational.  The state machine converts the         *)
(* CURRENT COORDINATES from chart to chart; the invariant says the         *)
(* abstract point never moves, i.e. every chain of conversions returns the *)
(* coordinates of the same point.                                          *)
(***************************************************************************)
EXTENDS IntLinAlg, Naturals, FiniteSets, TLC, Json

CONSTANTS N,       \* dimension of hyperbolic space
          B        \* bound on |entries| of the integer vectors

Models == {"projective", "klein", "hyperboloid", "poincare", "halfspace"}

NN(v) == 0 - MNorm(v)                      \* -<v,v> >= 0 inside the closed ball
Interior(v) == NN(v) > 0
Ideal(v) == NN(v) = 0
S(v) == Sqrt(NN(v))

\* the rational sub-universe
Points == {v \in Box(N + 1, B) : v[1] > 0 /\ IsPrim(v) /\ NN(v) >= 0 /\ IsSquare(NN(v))}

Spatial(v) == [i \in 1..N |-> v[i + 1]]

(***************************************************************************)
(* point -> coordinates                                                    *)
(***************************************************************************)
Klein(v) == [i \in 1..N |-> R(v[i + 1], v[1])]
Hyperboloid(v) == [i \in 1..(N + 1) |-> R(v[i], S(v))]                 \* interior points only
Poincare(v) == [i \in 1..N |-> R(v[i + 1], v[1] + S(v))]

\* half-space coordinates from Poincare coordinates p: y = p[1], w = p[2..N]
HSDenom(p) == RAdd(RNormSq(SubSeq(p, 2, N)), RSq(RSub(p[1], ROne)))
PoincareToHalf(p) ==
  LET w == SubSeq(p, 2, N)
      d == HSDenom(p)
  IN [i \in 1..N |-> IF i < N THEN RDiv(RMul(RInt(0 - 2), w[i]), d)
                     ELSE RDiv(RSub(RSub(ROne, RNormSq(w)), RSq(p[1])), d)]
AtInfinity(v) == RIsZero(HSDenom(Poincare(v)))        \* the half-space point at infinity
Halfspace(v) == PoincareToHalf(Poincare(v))

Coord(v, m) == CASE m = "projective" -> RVec(v)
                 [] m = "klein" -> Klein(v)
                 [] m = "hyperboloid" -> Hyperboloid(v)
                 [] m = "poincare" -> Poincare(v)
                 [] m = "halfspace" -> Halfspace(v)

Defined(v, m) == CASE m = "hyperboloid" -> Interior(v)
                   [] m = "halfspace" -> ~AtInfinity(v)
                   [] OTHER -> TRUE

(***************************************************************************)
(* coordinates -> point                                                    *)
(***************************************************************************)
FromKlein(k) == ClearDen(<<ROne>> \o k)
PoincareToKlein(p) == RScale(RDiv(RInt(2), RAdd(ROne, RNormSq(p))), p)
HalfToPoincare(h) ==
  LET y == h[N]
      w == SubSeq(h, 1, N - 1)
      d == RAdd(RNormSq(w), RSq(RAdd(y, ROne)))
  IN [i \in 1..N |-> IF i = 1 THEN RDiv(RSub(RAdd(RNormSq(w), RSq(y)), ROne), d)
                     ELSE RDiv(RMul(RInt(0 - 2), w[i - 1]), d)]
From(m, cc) == CASE m = "projective" -> ClearDen(cc)
                 [] m = "klein" -> FromKlein(cc)
                 [] m = "hyperboloid" -> ClearDen(cc)
                 [] m = "poincare" -> FromKlein(PoincareToKlein(cc))
                 [] m = "halfspace" -> FromKlein(PoincareToKlein(HalfToPoincare(cc)))
=============================================================================
