------------------------------ MODULE ActShapes ------------------------------
(***************************************************************************)
(* Property C03, composite shapes: a composite transformation T (an array   *)
(* of shape st of transformations) applied to a composite object X (an      *)
(* array of shape sx of units) in the three broadcasting modes of           *)
(* Transformation.apply:                                                    *)
(*   elementwise        NumPy broadcasting of sx against st (T @ X),        *)
(*   pairwise           result shape sx \o st, entry (i, j) = T[j] . X[i],  *)
(*   pairwise_reversed  result shape st \o sx, entry (j, i) = T[j] . X[i].  *)
(* Every entry of the result is the image of ONE unit under ONE             *)
(* transformation (the action is pointwise); the state is (sx, st, mode),   *)
(* over ALL pairs of shapes of ranks 0, 1, 2 - in particular operands of    *)
(* different rank.  The units are the exact integer objects and matrices of *)
(* ProjAction; the exact image of every entry is emitted for the four       *)
(* classes with different unit ranks (point 1, pair 2, polygon 2 + derived  *)
(* edges 3, transformation 2), and the bare index pairs so that the         *)
(* hyperbolic replay can combine them with the images of HypAction.         *)
(* TLC checks: pairwise = elementwise after inserting axes of length 1      *)
(* (which ties the mode to NumPy broadcasting), reversed = transposed,      *)
(* every pair exactly once, rank-0 operands, and the action law for stacks. *)
(***************************************************************************)
EXTENDS ProjAction

VARIABLES sx, st, mode

Max2(a, b) == IF a >= b THEN a ELSE b
RECURSIVE Size(_)
Size(s) == IF s = <<>> THEN 1 ELSE Head(s) * Size(Tail(s))
\* C order: flat position p (0-based) <-> multi-index (0-based) in shape s
RECURSIVE Unravel(_, _)
Unravel(p, s) == IF s = <<>> THEN <<>> ELSE LET r == Size(Tail(s)) IN <<p \div r>> \o Unravel(p % r, Tail(s))
RECURSIVE Ravel(_, _)
Ravel(ix, s) == IF s = <<>> THEN 0 ELSE Head(ix) * Size(Tail(s)) + Ravel(Tail(ix), Tail(s))

Ones(n) == [i \in 1..n |-> 1]
PadL(s, n) == Ones(n - Len(s)) \o s
BcastOK(x, t) == LET n == Max2(Len(x), Len(t)) IN
                 \A i \in 1..n : PadL(x, n)[i] = PadL(t, n)[i] \/ PadL(x, n)[i] = 1 \/ PadL(t, n)[i] = 1
Bcast(x, t) == LET n == Max2(Len(x), Len(t)) IN [i \in 1..n |-> Max2(PadL(x, n)[i], PadL(t, n)[i])]
\* the index into an operand of shape s that position ix of the broadcast result reads
Src(ix, s) == LET off == Len(ix) - Len(s) IN [i \in 1..Len(s) |-> IF s[i] = 1 THEN 0 ELSE ix[off + i]]

\* for every position of the result: <<flat position in X, flat position in T>> (1-based)
Cells(x, t, m) ==
  CASE m = "elementwise" ->
         LET S == Bcast(x, t) IN
         [shape |-> S, idx |-> [p \in 1..Size(S) |-> LET ix == Unravel(p - 1, S) IN <<Ravel(Src(ix, x), x) + 1, Ravel(Src(ix, t), t) + 1>>]]
    [] m = "pairwise" ->
         LET S == x \o t IN
         [shape |-> S, idx |-> [p \in 1..Size(S) |-> LET ix == Unravel(p - 1, S) IN
                                  <<Ravel(SubSeq(ix, 1, Len(x)), x) + 1, Ravel(SubSeq(ix, Len(x) + 1, Len(S)), t) + 1>>]]
    [] m = "pairwise_reversed" ->
         LET S == t \o x IN
         [shape |-> S, idx |-> [p \in 1..Size(S) |-> LET ix == Unravel(p - 1, S) IN
                                  <<Ravel(SubSeq(ix, Len(t) + 1, Len(S)), x) + 1, Ravel(SubSeq(ix, 1, Len(t)), t) + 1>>]]
Defined(x, t, m) == m # "elementwise" \/ BcastOK(x, t)

\* ---- the units
Classes == {"point", "pair", "polygon", "transformation"}
UnitList(c) ==
  CASE c = "point" -> [i \in 1..Len(Pts) |-> [cls |-> "point", rows |-> <<Pts[i]>>]]
    [] c = "pair" -> <<[cls |-> "pair", rows |-> <<Pts[2], Pts[3]>>], [cls |-> "pair", rows |-> <<Pts[5], Pts[7]>>],
                       [cls |-> "pair", rows |-> <<Pts[4], Pts[1]>>], [cls |-> "pair", rows |-> <<Pts[6], Pts[2]>>]>>
    [] c = "polygon" -> <<[cls |-> "polygon", rows |-> <<Pts[1], Pts[2], Pts[4]>>], [cls |-> "polygon", rows |-> <<Pts[2], Pts[3], Pts[5]>>],
                          [cls |-> "polygon", rows |-> <<Pts[7], Pts[6], Pts[1]>>], [cls |-> "polygon", rows |-> <<Pts[5], Pts[4], Pts[3]>>]>>
    [] c = "transformation" -> <<[cls |-> "transformation", rows |-> <<>>, h |-> MatList[2]],
                                 [cls |-> "transformation", rows |-> <<>>, h |-> MatList[4]],
                                 [cls |-> "transformation", rows |-> <<>>, h |-> MatList[6]]>>
Cyc(L, p) == L[((p - 1) % Len(L)) + 1]
XUnit(c, p) == Cyc(UnitList(c), p)
TUnit(q) == Cyc(MatList, q)              \* the stack T
T2Unit(q) == Cyc(MatList, q + 3)         \* a second stack of the same shape, for the action law

Image(c, x, t, m) == LET C == Cells(x, t, m) IN [p \in 1..Size(C.shape) |-> RAct(TUnit(C.idx[p][2]), XUnit(c, C.idx[p][1]))]
\* (T @ T2) @ X, elementwise: entry p is the image under the product of the two matrices at T's position
Image2(c, x, t) == LET C == Cells(x, t, "elementwise") IN
                   [p \in 1..Size(C.shape) |-> RAct(MatMul(TUnit(C.idx[p][2]), T2Unit(C.idx[p][2])), XUnit(c, C.idx[p][1]))]

Shapes == {<<>>, <<1>>, <<2>>, <<3>>, <<1, 2>>, <<2, 1>>, <<2, 2>>, <<2, 3>>, <<3, 2>>}
Modes == {"elementwise", "pairwise", "pairwise_reversed"}

ShInit == /\ obj = [cls |-> "none"] /\ A = IdMat(3) /\ B = IdMat(3)
          /\ sx \in Shapes /\ st \in Shapes /\ mode \in Modes /\ Defined(sx, st, mode)
ShNext == UNCHANGED <<obj, A, B, sx, st, mode>>

\* ---- theorems
PW == Cells(sx, st, "pairwise")
PR == Cells(sx, st, "pairwise_reversed")
\* pairwise is elementwise broadcasting of X with axes of length 1 appended against T with axes of length 1 prepended
PairwiseViaBroadcast ==
  LET x1 == sx \o Ones(Len(st))  t1 == Ones(Len(sx)) \o st
  IN BcastOK(x1, t1) /\ Cells(x1, t1, "elementwise") = PW
ReversedIsTransposed ==
  /\ Size(PR.shape) = Size(PW.shape)
  /\ \A p \in 1..Size(PW.shape) :
       LET ix == Unravel(p - 1, PW.shape)
           jx == SubSeq(ix, Len(sx) + 1, Len(ix)) \o SubSeq(ix, 1, Len(sx))
       IN PR.idx[Ravel(jx, PR.shape) + 1] = PW.idx[p]
EveryPairOnce ==
  /\ Size(PW.shape) = Size(sx) * Size(st)
  /\ \A i \in 1..Size(sx), j \in 1..Size(st) : \E p \in 1..Size(PW.shape) : PW.idx[p] = <<i, j>>
RankZero ==
  /\ st = <<>> => /\ PW.shape = sx /\ PR.shape = sx /\ Cells(sx, st, "elementwise") = PW /\ PR.idx = PW.idx
                  /\ \A p \in 1..Size(sx) : PW.idx[p] = <<p, 1>>
  /\ sx = <<>> => PW.shape = st /\ \A p \in 1..Size(st) : PW.idx[p] = <<1, p>>
\* equal shapes: elementwise is the zip
Zip == (sx = st) => LET C == Cells(sx, st, "elementwise") IN C.shape = sx /\ \A p \in 1..Size(sx) : C.idx[p] = <<p, p>>
StackActionLaw ==
  mode = "elementwise" =>
    \A c \in Classes : LET C == Cells(sx, st, mode) IN
      \A p \in 1..Size(C.shape) :
        RAct(TUnit(C.idx[p][2]), RAct(T2Unit(C.idx[p][2]), XUnit(c, C.idx[p][1]))) = Image2(c, sx, st)[p]
DifferentRanksCovered == \E x, t \in Shapes : Len(x) = 1 /\ Len(t) = 2 /\ x[1] = t[1]

EmitShape == PrintT("SHAPE " \o ToJson(
   [sx |-> sx, st |-> st, mode |-> mode, shape |-> Cells(sx, st, mode).shape, idx |-> Cells(sx, st, mode).idx,
    units |-> [c \in Classes |-> UnitList(c)], nmats |-> Len(MatList),
    img |-> [c \in Classes |-> Image(c, sx, st, mode)],
    img2 |-> IF mode = "elementwise" THEN [c \in Classes |-> Image2(c, sx, st)] ELSE [c \in Classes |-> <<>>]]))
ASSUME PrintT("MATLIST " \o ToJson(MatList))
=============================================================================
