------------------------------- MODULE Commute -------------------------------
(***************************************************************************)
(* Extension check X05: projective.Transformation.commute(other,            *)
(* broadcast=..., tol=...).  The method has no docstring and no caller in   *)
(* the library; CONTRACT specified here, read off the code and the          *)
(* broadcast convention documented for Transformation.apply /               *)
(* utils.matrix_product:                                                    *)
(*   unit objects     True iff the two matrices commute, A B = B A.  The    *)
(*                    answer does not depend on the scale of either         *)
(*                    representative.  Pairs that commute only as           *)
(*                    projective maps (A B = c B A, c # 1) are OUTSIDE the  *)
(*                    specified domain.                                     *)
(*   "elementwise"    composites of the same shape: result[i] is the        *)
(*                    verdict of self[i] and other[i].                      *)
(*   "pairwise"       result has shape self.shape + other.shape and         *)
(*                    result[i, j] is the verdict of self[i] and other[j]   *)
(*                    (the code carries a TODO doubting its own             *)
(*                    convention here).                                     *)
(* The library decides by comparing the group commutator with the identity  *)
(* up to 1e-8/1e-5; the pool keeps |det A det B| <= 10^4, so that a         *)
(* commutator different from 1 differs by at least 1e-4 in some entry.      *)
(*                                                                         *)
(* State: two composites (sequences of pool indices) grown by Append.       *)
(* TLC checks: the verdict is symmetric, reflexive, invariant under         *)
(* rescaling and under simultaneous conjugation, the elementwise table is   *)
(* the diagonal of the pairwise one and the pairwise table of (S2, S1) is    *)
(* the transpose.                                                           *)
(***************************************************************************)
EXTENDS IntMat, FiniteSets, Json

CONSTANTS N,         \* 2 or 3
          MaxLen     \* length of the composites

VARIABLES s1, s2

Neg(k) == 0 - k
Diag(e) == LET f(i, j) == IF i = j THEN e[i] ELSE 0 IN Mk(N, N, f)
Elem(i, j, s) == LET e(r, c) == IF r = c THEN 1 ELSE IF r = i /\ c = j THEN s ELSE 0 IN Mk(N, N, e)
Cyc == LET e(r, c) == IF c = (r % N) + 1 THEN 1 ELSE 0 IN Mk(N, N, e)
Pool == IF N = 3
        THEN <<Diag(<<2, 3, 5>>), Diag(<<1, Neg(1), 4>>), Elem(1, 2, 1), MMul(Elem(1, 2, 1), Elem(1, 2, 1)), Cyc,
               MScale(Neg(1), Diag(<<2, 3, 5>>)), MMul(Elem(1, 2, 1), Elem(2, 3, Neg(1))), Elem(1, 3, 2)>>
        ELSE <<Diag(<<2, 3>>), Diag(<<1, Neg(2)>>), Elem(1, 2, 1), Elem(1, 2, 3), <<<<2, 1>>, <<1, 1>>>>, <<<<5, 3>>, <<3, 2>>>>,
               MScale(Neg(3), Elem(1, 2, 1))>>
NP == Len(Pool)

Commutes(A, C) == MMul(A, C) = MMul(C, A)
Parallel(X, Y) == \A i, j, k, l \in 1..N : X[i][j] * Y[k][l] = X[k][l] * Y[i][j]
\* domain: commuting, or not even commuting up to a scalar; and a determinant gap
InDomain(A, C) == /\ Commutes(A, C) \/ ~Parallel(MMul(A, C), MMul(C, A))
                  /\ Det(A) # 0 /\ Det(C) # 0 /\ Det(A) * Det(C) <= 10000 /\ Det(A) * Det(C) >= Neg(10000)
ASSUME \A i, j \in 1..NP : InDomain(Pool[i], Pool[j])

Table == TLCEval([i \in 1..NP |-> TLCEval([j \in 1..NP |-> Commutes(Pool[i], Pool[j])])])
ASSUME \A i, j \in 1..NP :
         /\ Table[i][j] = Table[j][i] /\ Table[i][i]
         /\ Commutes(MScale(Neg(2), Pool[i]), Pool[j]) = Table[i][j]
         \* simultaneous conjugation by a unimodular matrix
         /\ LET c == Elem(1, 2, 1) ci == Elem(1, 2, Neg(1))
            IN Commutes(MMul(MMul(c, Pool[i]), ci), MMul(MMul(c, Pool[j]), ci)) = Table[i][j]
ASSUME \E i, j \in 1..NP : ~Table[i][j]

Init == s1 = <<>> /\ s2 = <<>>
AppendA(i) == Len(s1) < MaxLen /\ s1' = Append(s1, i) /\ UNCHANGED s2
AppendB(j) == Len(s2) < MaxLen /\ s2' = Append(s2, j) /\ UNCHANGED s1
Next == \E i \in 1..NP : AppendA(i) \/ AppendB(i)

Pairwise(a, b) == [i \in 1..Len(a) |-> [j \in 1..Len(b) |-> Table[a[i]][b[j]]]]
Elementwise(a, b) == [i \in 1..Len(a) |-> Table[a[i]][b[i]]]
Laws == /\ \A i \in 1..Len(s1), j \in 1..Len(s2) : Pairwise(s1, s2)[i][j] = Pairwise(s2, s1)[j][i]
        /\ Len(s1) = Len(s2) => \A i \in 1..Len(s1) : Elementwise(s1, s2)[i] = Pairwise(s1, s2)[i][i]

Obs == [n |-> N, s1 |-> s1, s2 |-> s2, pairwise |-> Pairwise(s1, s2),
        elementwise |-> IF Len(s1) = Len(s2) THEN Elementwise(s1, s2) ELSE <<>>]
EmitObs == (Len(s1) >= 1 /\ Len(s2) >= 1) => PrintT("OBS " \o ToJson(Obs))
ASSUME PrintT("TAB " \o ToJson([n |-> N, pool |-> Pool, table |-> Table]))
=============================================================================
