------------------------------- MODULE Affine -------------------------------
(***************************************************************************)
(* Property C16, part 1: standard affine charts of projective space and    *)
(* the projective maps built from affine data.                             *)
(*                                                                         *)
(* A point of P^N (over R or C) is the class of a non-zero vector of N+1   *)
(* Gaussian integers <<re, im>> (real mode: im = 0).  Chart i (0-based, as *)
(* in the library) is {x : x_i # 0 AS A COMPLEX NUMBER}; the affine        *)
(* coordinates of x in chart i are the Gaussian rationals x_j / x_i,       *)
(* j # i, kept as pairs <<numerator, denominator>> and compared by         *)
(* cross-multiplication.                                                   *)
(*                                                                         *)
(* The state machine starts from a point given by affine coordinates in a  *)
(* chart (1 in the chart slot) and applies                                 *)
(*   Rescale(c)   multiply the representative by a non-zero scalar: the    *)
(*                abstract point, its chart memberships and its affine     *)
(*                coordinates do not move (a stuttering step)              *)
(*   Lin(L, i)    the projective map acting in chart i as the linear map L *)
(*   Trans(t, i)  the projective map acting in chart i as a -> a + t       *)
(* The two embeddings are written as block matrices; TLC checks on every   *)
(* state and for every chart and every map of the pool that they MEAN what *)
(* their names say (LinActs, TransActs), that they compose (EmbedHom) and  *)
(* that rescaling changes nothing (RescaleInvariant).                      *)
(***************************************************************************)
EXTENDS IntLinAlg, Gauss, Naturals, FiniteSets, TLC, Json

CONSTANTS N,        \* dimension of projective space (1..5); vectors have N+1 entries
          Cplx,     \* BOOLEAN: Gaussian (complex) or integer (real) data
          K,        \* number of base points per chart
          MaxLen    \* number of steps of a walk

VARIABLES x,        \* current representative: sequence of N+1 Gaussian integers
          y,        \* the same point without the rescalings (x = c y for a scalar c)
          len, last

Charts == 0..N
D == N + 1

(***************************************************************************)
(* Gaussian vectors and matrices (column convention: T acts on x as T x)   *)
(***************************************************************************)
RECURSIVE GSum(_)
GSum(s) == IF s = <<>> THEN GZero ELSE GAdd(Head(s), GSum(Tail(s)))
GVScale(c, v) == [j \in 1..Len(v) |-> GMul(c, v[j])]
GVAdd(u, v) == [j \in 1..Len(u) |-> GAdd(u[j], v[j])]
GMatVec(T, v) == TLCEval([r \in 1..Len(T) |-> GSum([c \in 1..Len(v) |-> GMul(T[r][c], v[c])])])
GMatMulN(A, B) == [r \in 1..Len(A) |-> [c \in 1..Len(B[1]) |-> GSum([k \in 1..Len(B) |-> GMul(A[r][k], B[k][c])])]]
GIdent(n) == [r \in 1..n |-> [c \in 1..n |-> IF r = c THEN GOne ELSE GZero]]
GVecZero(v) == \A j \in 1..Len(v) : v[j] = GZero
\* projective equality of non-zero vectors
GParallel(u, v) == \A j, k \in 1..Len(u) : GMul(u[j], v[k]) = GMul(u[k], v[j])

(***************************************************************************)
(* Charts                                                                  *)
(***************************************************************************)
InChart(v, i) == v[i + 1] # GZero
\* positions of the affine coordinates of chart i inside a homogeneous vector
Slot(i, j) == IF j <= i THEN j ELSE j + 1                  \* j \in 1..N  ->  1..N+1 without i+1
\* Gaussian rational <<num, den>>, den # 0
Affine(v, i) == [j \in 1..N |-> <<v[Slot(i, j)], v[i + 1]>>]
QEq(p, q) == GMul(p[1], q[2]) = GMul(q[1], p[2])
QVecEq(a, b) == \A j \in 1..Len(a) : QEq(a[j], b[j])
\* homogeneous coordinates of the affine point a (Gaussian integers) in chart i: 1 in the chart slot
FromAffine(a, i) == [r \in 1..D |-> IF r = i + 1 THEN GOne ELSE a[IF r <= i THEN r ELSE r - 1]]

(***************************************************************************)
(* Embeddings of affine maps as (N+1) x (N+1) matrices                     *)
(***************************************************************************)
Unslot(i, r) == IF r <= i THEN r ELSE r - 1                \* r \in 1..N+1, r # i+1  ->  1..N
\* (TLCEval forces the otherwise lazily re-evaluated functions into tuples)
EmbedLin(L, i) == TLCEval([r \in 1..D |-> TLCEval([c \in 1..D |->
                     IF r = i + 1 /\ c = i + 1 THEN GOne
                     ELSE IF r = i + 1 \/ c = i + 1 THEN GZero
                     ELSE L[Unslot(i, r)][Unslot(i, c)]])])
EmbedTrans(t, i) == TLCEval([r \in 1..D |-> TLCEval([c \in 1..D |->
                       IF r = c THEN GOne
                       ELSE IF c = i + 1 THEN t[Unslot(i, r)]
                       ELSE GZero])])

(***************************************************************************)
(* Pools (fixed small universes; all arithmetic stays far below 2^31)      *)
(***************************************************************************)
G(k) == <<k, 0>>
RealPool == <<G(0), G(1), G(0 - 2), G(3), G(0 - 1), G(2)>>
CplxPool == <<G(0), G(1), <<0, 1>>, <<0 - 2, 1>>, <<0, 0 - 2>>, G(3), <<1, 0 - 1>>>>
Pool == IF Cplx THEN CplxPool ELSE RealPool
AffPt(k) == [j \in 1..N |-> Pool[((k * j + j * j + k) % Len(Pool)) + 1]]
AffPts == {AffPt(k) : k \in 1..K}

Scalars == {G(0 - 1), G(2), G(0 - 3)} \cup (IF Cplx THEN {<<0, 1>>, <<1, 1>>, <<0, 0 - 2>>} ELSE {})

\* extreme rescalings c = m * 10^e (|c| from 1e-12 to 1e12, real and complex).  The cross-multiplied equality
\* (c x_j) x_i = x_j (c x_i) behind "rescaling moves nothing" does not involve the size of c, so it is checked for
\* the mantissas m (10^e is a positive real common factor); the harness applies the full factor to the library's
\* representative of every state and must observe the state's own verdicts and affine coordinates again
ExtremeScales == {[m |-> G(1), e |-> 0 - 9], [m |-> G(0 - 1), e |-> 0 - 12], [m |-> G(3), e |-> 12]}
                 \cup (IF Cplx THEN {[m |-> <<0, 0 - 3>>, e |-> 0 - 10], [m |-> <<1, 1>>, e |-> 0 - 12], [m |-> <<0, 2>>, e |-> 11]}
                       ELSE {[m |-> G(0 - 2), e |-> 0 - 10]})

ASSUME \A a \in AffPts, i \in Charts, sc \in ExtremeScales, k \in Charts :
         LET p == FromAffine(a, i)
             q == GVScale(sc.m, p)
         IN /\ InChart(q, k) <=> InChart(p, k)
            /\ InChart(p, k) => QVecEq(Affine(q, k), Affine(p, k))

\* invertible linear maps of the affine chart: a unitriangular shear, a scaled signed cycle,
\* and (complex mode) a triangular map with Gaussian entries
LShear == [r \in 1..N |-> [c \in 1..N |-> IF r = c \/ c = r + 1 THEN GOne ELSE GZero]]
LCycle == [r \in 1..N |-> [c \in 1..N |-> IF c = (r % N) + 1 THEN (IF r = 1 THEN G(0 - 2) ELSE GOne) ELSE GZero]]
LGauss == [r \in 1..N |-> [c \in 1..N |-> IF r = c THEN (IF r = 1 THEN <<0, 1>> ELSE GOne)
                                            ELSE IF r = N /\ c = 1 THEN <<1, 1>> ELSE GZero]]
LinNames == {"shear", "cycle"} \cup (IF Cplx THEN {"gauss"} ELSE {})
LinMap(nm) == CASE nm = "shear" -> LShear [] nm = "cycle" -> LCycle [] nm = "gauss" -> LGauss
LinMaps == [nm \in LinNames |-> LinMap(nm)]
\* every map of the pool is invertible: triangular with non-zero diagonal, or monomial
Triangular(L) == (\A r \in 1..N : L[r][r] # GZero) /\
                 ((\A r, c \in 1..N : c < r => L[r][c] = GZero) \/ (\A r, c \in 1..N : c > r => L[r][c] = GZero))
Monomial(L) == /\ \A r \in 1..N : Cardinality({c \in 1..N : L[r][c] # GZero}) = 1
               /\ \A c \in 1..N : Cardinality({r \in 1..N : L[r][c] # GZero}) = 1
ASSUME \A nm \in LinNames : Triangular(LinMaps[nm]) \/ Monomial(LinMaps[nm])

TRamp == [j \in 1..N |-> G(j - 2)]
TAlt == [j \in 1..N |-> IF j % 2 = 1 THEN G(2) ELSE G(0 - 1)]
TGauss == [j \in 1..N |-> <<1, j - 2>>]
TransNames == {"ramp", "alt"} \cup (IF Cplx THEN {"gauss"} ELSE {})
TransVec(nm) == CASE nm = "ramp" -> TRamp [] nm = "alt" -> TAlt [] nm = "gauss" -> TGauss
Translations == [nm \in TransNames |-> TransVec(nm)]

\* the embedded maps of the pool, evaluated once (index i + 1 for chart i)
LinTab == TLCEval([nm \in LinNames |-> TLCEval([i \in 1..D |-> EmbedLin(LinMaps[nm], i - 1)])])
TransTab == TLCEval([nm \in TransNames |-> TLCEval([i \in 1..D |-> EmbedTrans(Translations[nm], i - 1)])])

(***************************************************************************)
(* The machine                                                             *)
(***************************************************************************)
Init == \E a \in AffPts, i \in Charts :
          /\ x = FromAffine(a, i) /\ y = x /\ len = 0
          /\ last = [a |-> "from_affine", pt |-> a, chart |-> i]

Rescale(c) == /\ len < MaxLen /\ c \in Scalars
              /\ x' = GVScale(c, x) /\ UNCHANGED y /\ len' = len + 1
              /\ last' = [a |-> "rescale", c |-> c]
Lin(nm, i) == /\ len < MaxLen
              /\ x' = GMatVec(LinTab[nm][i + 1], x)
              /\ y' = GMatVec(LinTab[nm][i + 1], y) /\ len' = len + 1
              /\ last' = [a |-> "lin", name |-> nm, L |-> LinMaps[nm], chart |-> i]
Trans(nm, i) == /\ len < MaxLen
                /\ x' = GMatVec(TransTab[nm][i + 1], x)
                /\ y' = GMatVec(TransTab[nm][i + 1], y) /\ len' = len + 1
                /\ last' = [a |-> "trans", name |-> nm, t |-> Translations[nm], chart |-> i]
Next == \/ \E c \in Scalars : Rescale(c)
        \/ \E nm \in LinNames, i \in Charts : Lin(nm, i)
        \/ \E nm \in TransNames, i \in Charts : Trans(nm, i)

(***************************************************************************)
(* What TLC checks                                                         *)
(***************************************************************************)
NonZero == ~GVecZero(x) /\ GParallel(x, y)
\* a rescaled representative lies in the same charts and has the same affine coordinates
RescaleInvariant == \A i \in Charts : /\ InChart(x, i) <=> InChart(y, i)
                                      /\ InChart(x, i) => QVecEq(Affine(x, i), Affine(y, i))
                                      /\ \A c \in Scalars : InChart(x, i) => QVecEq(Affine(GVScale(c, x), i), Affine(x, i))
\* the embedded linear map acts in its chart as L:   Affine(E x, i) = L . Affine(x, i)
LinActs == \A nm \in LinNames, i \in Charts : InChart(x, i) =>
             LET L == LinMaps[nm]
                 img == GMatVec(LinTab[nm][i + 1], x)
             IN /\ img[i + 1] = x[i + 1]
                /\ \A r \in 1..N : QEq(Affine(img, i)[r],
                                       <<GSum([c \in 1..N |-> GMul(L[r][c], x[Slot(i, c)])]), x[i + 1]>>)
\* the embedded translation acts in its chart as a -> a + t
TransActs == \A nm \in TransNames, i \in Charts : InChart(x, i) =>
               LET t == Translations[nm]
                   img == GMatVec(TransTab[nm][i + 1], x)
               IN /\ img[i + 1] = x[i + 1]
                  /\ \A r \in 1..N : QEq(Affine(img, i)[r], <<GAdd(x[Slot(i, r)], GMul(t[r], x[i + 1])), x[i + 1]>>)
\* constant theorems: chart round trip, embeddings compose
ASSUME \A a \in AffPts, i \in Charts, c \in Scalars :
         /\ FromAffine(a, i)[i + 1] = GOne
         /\ \A j \in 1..N : QEq(Affine(GVScale(c, FromAffine(a, i)), i)[j], <<a[j], GOne>>)
ASSUME \A i \in Charts :
         /\ \A n1, n2 \in LinNames :
              GMatMulN(EmbedLin(LinMaps[n1], i), EmbedLin(LinMaps[n2], i)) = EmbedLin(GMatMulN(LinMaps[n1], LinMaps[n2]), i)
         /\ \A n1, n2 \in TransNames :
              GMatMulN(EmbedTrans(Translations[n1], i), EmbedTrans(Translations[n2], i))
                = EmbedTrans(GVAdd(Translations[n1], Translations[n2]), i)
         /\ EmbedLin(GIdent(N), i) = GIdent(D)

(***************************************************************************)
(* Hyperplane normals (real mode): the transformation built from a normal   *)
(* n is only determined up to an orthogonal change of the hyperplane, so    *)
(* the spec states what IS determined: it is orthogonal and the chart       *)
(* coordinate of the image of v is n.v / |n| up to sign, i.e.               *)
(* cos^2 of the angle between v and n is preserved, whatever non-zero       *)
(* multiple of n is passed.  Test vectors on the hyperplane are built as    *)
(* n_j e_i - n_i e_j.                                                       *)
(***************************************************************************)
IntPart(v) == [j \in 1..Len(v) |-> v[j][1]]
UnitVec(i) == [c \in 1..D |-> IF c = i THEN 1 ELSE 0]
\* generic normals, and the axis-aligned ones of both signs with positive and negative multiples
\* (the hyperplane {x_0 = 0} itself is the one a construction by reflection degenerates on)
Normals == {nv \in {[j \in 1..D |-> ((k * j + j * j) % 5) - 2] : k \in 1..4} : \E j \in 1..D : nv[j] # 0}
           \cup {VScale(sc, UnitVec(i)) : i \in 1..D, sc \in {1, 0 - 1, 3, 0 - 2}}
\* the transformation depends on the normal only through the hyperplane: rational rescalings <<p, q>> of n
NormalScales == {<<1, 1>>, <<7, 2>>, <<0 - 1, 3>>}
OnPlane(nv) == {[c \in 1..D |-> IF c = ij[1] THEN nv[ij[2]] ELSE IF c = ij[2] THEN 0 - nv[ij[1]] ELSE 0] :
                     ij \in {p \in (1..D) \X (1..D) : p[1] # p[2]}} \ {[c \in 1..D |-> 0]}
OffPlane(nv) == {v \in {UnitVec(i) : i \in 1..D} \cup {nv} \cup {IntPart(FromAffine(a, i)) : a \in AffPts, i \in Charts} : Dot(v, nv) # 0}
ASSUME ~Cplx => \A nv \in Normals : /\ \A v \in OnPlane(nv) : Dot(v, nv) = 0
                                      /\ Cardinality(OnPlane(nv)) >= N /\ OffPlane(nv) # {}
HypTable == [nv \in Normals |-> [v \in OnPlane(nv) \cup OffPlane(nv) |-> <<Dot(v, nv) * Dot(v, nv), Dot(nv, nv) * Dot(v, v)>>]]
\* cos^2 does not change when the normal is rescaled
ASSUME ~Cplx => \A nv \in Normals, sc \in NormalScales : \A v \in DOMAIN HypTable[nv] :
         LET m == VScale(sc[1], nv) IN
         Dot(v, m) * Dot(v, m) * HypTable[nv][v][2] * sc[2] * sc[2] = HypTable[nv][v][1] * Dot(m, m) * Dot(v, v) * sc[2] * sc[2]
ASSUME Cplx \/ PrintT("HYP " \o ToJson([nv \in Normals |-> [n |-> nv, scales |-> NormalScales,
                                                             pts |-> {<<v, HypTable[nv][v]>> : v \in DOMAIN HypTable[nv]}]]))

(***************************************************************************)
(* Emission                                                                *)
(***************************************************************************)
Obs == [x |-> x, len |-> len, how |-> last,
        charts |-> [i \in 1..D |-> [inside |-> InChart(x, i - 1),
                                     aff |-> IF InChart(x, i - 1) THEN Affine(x, i - 1) ELSE <<>>]]]
EmitObs == PrintT("OBS " \o ToJson(Obs))
Emit == PrintT("EMIT " \o ToJson([from |-> x, flen |-> len, act |-> last', to |-> x']))
View == <<x, y, len>>
ASSUME PrintT("MAPS " \o ToJson([lin |-> LinTab, trans |-> TransTab, extreme |-> ExtremeScales]))
=============================================================================
