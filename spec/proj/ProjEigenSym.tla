---------------------------- MODULE ProjEigenSym ----------------------------
(***************************************************************************)
(* Property C16, part 3b: eigen-data of SYMMETRIC transformations, real,    *)
(* complex symmetric (not Hermitian) and Hermitian.                         *)
(*                                                                         *)
(* Write X^s for the transpose (Mode = "orth") or the conjugate transpose   *)
(* (Mode = "unit").  The state is a Gaussian-integer matrix G with          *)
(* G G^s = k 1 (k a positive integer): a product of plane rotations         *)
(*    real      [[3, -4], [4, 3]]               k = 25  (both modes)         *)
(*    complex   [[5, 4i], [-4i, 5]]             k = 9   (orth: 25 - 16)      *)
(*              [[3, 4i], [4i, 3]]              k = 25  (unit)               *)
(* Then T = G D G^s satisfies T^s = T, T g_j = (k d_j) g_j for the columns   *)
(* g_j of G: real symmetric, complex symmetric or Hermitian matrices with   *)
(* exactly known distinct eigenvalues k d_j and eigenvectors.  TLC checks    *)
(* G G^s = k 1, T^s = T, the eigen-equation, and that a complex rotation in  *)
(* "orth" mode really leaves the Hermitian matrices.                         *)
(***************************************************************************)
EXTENDS Integers, Sequences, Gauss, FiniteSets, TLC, Json

CONSTANTS M, MaxLen, Mode

VARIABLES Gm, k, sp, cx, len

Spectra == << <<2, 0 - 1, 3, 0 - 3, 5, 7>>, <<1, 0 - 2, 4, 3, 0 - 5, 6>> >>
Ev(s) == SubSeq(Spectra[s], 1, M)

RECURSIVE GSumS(_)
GSumS(s) == IF s = <<>> THEN GZero ELSE GAdd(Head(s), GSumS(Tail(s)))
\* deep TLCEval: TLC keeps [i \in S |-> e] lazy and would re-evaluate chains of products
CMatMul(A, B) == TLCEval([r \in 1..M |-> TLCEval([c \in 1..M |-> GSumS([j \in 1..M |-> GMul(A[r][j], B[j][c])])])])
CIdent == TLCEval([r \in 1..M |-> TLCEval([c \in 1..M |-> IF r = c THEN GOne ELSE GZero])])
CScaleM(n, A) == TLCEval([r \in 1..M |-> TLCEval([c \in 1..M |-> GScale(n, A[r][c])])])
Star(A) == TLCEval([r \in 1..M |-> TLCEval([c \in 1..M |-> IF Mode = "unit" THEN GConj(A[c][r]) ELSE A[c][r]])])
CDiag(e) == TLCEval([r \in 1..M |-> TLCEval([c \in 1..M |-> IF r = c THEN GInt(e[r]) ELSE GZero])])
CCol(A, j) == TLCEval([r \in 1..M |-> A[r][j]])
CMatVec(A, v) == TLCEval([r \in 1..M |-> GSumS([c \in 1..M |-> GMul(A[r][c], v[c])])])

\* plane rotation in the coordinates p < q:  [[a, b], [c, d]] embedded in the identity
Plane(p, q, a, b, c, d) == TLCEval([r \in 1..M |-> TLCEval([s \in 1..M |->
                              IF r = p /\ s = p THEN a ELSE IF r = p /\ s = q THEN b
                              ELSE IF r = q /\ s = p THEN c ELSE IF r = q /\ s = q THEN d
                              ELSE IF r = s THEN GOne ELSE GZero])])
\* scaled so that every rotation multiplies G G^s by its own k: the untouched coordinates are scaled too
RotRe(p, q) == [mat |-> CMatMul(Plane(p, q, GInt(3), GInt(0 - 4), GInt(4), GInt(3)),
                                TLCEval([r \in 1..M |-> TLCEval([s \in 1..M |-> IF r = s /\ r # p /\ r # q THEN GInt(5)
                                                                                  ELSE IF r = s THEN GOne ELSE GZero])])),
                kk |-> 25, complex |-> FALSE]
RotCx(p, q) == IF Mode = "orth"
               THEN [mat |-> CMatMul(Plane(p, q, GInt(5), <<0, 4>>, <<0, 0 - 4>>, GInt(5)),
                                     TLCEval([r \in 1..M |-> TLCEval([s \in 1..M |-> IF r = s /\ r # p /\ r # q THEN GInt(3)
                                                                                       ELSE IF r = s THEN GOne ELSE GZero])])),
                     kk |-> 9, complex |-> TRUE]
               ELSE [mat |-> CMatMul(Plane(p, q, GInt(3), <<0, 4>>, <<0, 4>>, GInt(3)),
                                     TLCEval([r \in 1..M |-> TLCEval([s \in 1..M |-> IF r = s /\ r # p /\ r # q THEN GInt(5)
                                                                                       ELSE IF r = s THEN GOne ELSE GZero])])),
                     kk |-> 25, complex |-> TRUE]
Planes == {<<i, i + 1>> : i \in 1..(M - 1)} \cup (IF M > 2 THEN {<<1, M>>} ELSE {})
Ops == {RotRe(pq[1], pq[2]) : pq \in Planes} \cup {RotCx(pq[1], pq[2]) : pq \in Planes}

T == CMatMul(CMatMul(Gm, CDiag(Ev(sp))), Star(Gm))

Init == Gm = CIdent /\ k = 1 /\ sp \in 1..Len(Spectra) /\ cx = FALSE /\ len = 0
Rotate(o) == /\ len < MaxLen
             /\ Gm' = CMatMul(Gm, o.mat) /\ k' = k * o.kk /\ cx' = (cx \/ o.complex)
             /\ len' = len + 1 /\ UNCHANGED sp
Next == \E o \in Ops : Rotate(o)

Conformal == CMatMul(Gm, Star(Gm)) = CScaleM(k, CIdent) /\ CMatMul(Star(Gm), Gm) = CScaleM(k, CIdent)
SelfAdjoint == Star(T) = T
EigenEquation == \A j \in 1..M : CMatVec(T, CCol(Gm, j)) = [r \in 1..M |-> GScale(k * Ev(sp)[j], CCol(Gm, j)[r])]
IsRealM(A) == \A r, c \in 1..M : A[r][c][2] = 0
\* without a complex rotation everything is real symmetric; in "unit" mode T is Hermitian
Kinds == (~cx => IsRealM(T)) /\ (Mode = "unit" => \A r, c \in 1..M : T[r][c] = GConj(T[c][r]))

Obs == [m |-> M, mode |-> Mode, complex |-> ~IsRealM(T), T |-> T, evals |-> [j \in 1..M |-> k * Ev(sp)[j]],
        evecs |-> [j \in 1..M |-> CCol(Gm, j)], len |-> len]
EmitObs == PrintT("OBS " \o ToJson(Obs))
View == <<Gm, sp, len>>
=============================================================================
