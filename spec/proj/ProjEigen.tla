------------------------------ MODULE ProjEigen ------------------------------
(***************************************************************************)
(* Property C16, part 3: eigenvectors and diagonalising frames of           *)
(* projective transformations.                                             *)
(*                                                                         *)
(* A transformation with known eigen-data is T = F D F^-1 (acting on        *)
(* COLUMN vectors) with D diagonal with distinct non-zero integer           *)
(* eigenvalues and F unimodular: the k-th column of F is, exactly, the      *)
(* eigenvector of the eigenvalue D[k], and F is a diagonalising frame.  A   *)
(* third spectrum has repeated eigenvalues (eigenspaces of dimension 2).    *)
(* The state machine walks F through SL(M,Z) by elementary shears, keeping  *)
(* F^-1 alongside; TLC checks in every state F F^-1 = 1, T f_k = D[k] f_k,  *)
(* F^-1 T F = D and tr T = sum of the eigenvalues.                          *)
(***************************************************************************)
EXTENDS IntLinAlg, Naturals, FiniteSets, TLC, Json

CONSTANTS M,        \* size of the matrices (projective dimension M - 1)
          MaxLen

VARIABLES F, Finv, sp, len

\* two spectra with distinct eigenvalues (some sharing a modulus) and one with REPEATED eigenvalues: there the
\* columns of F with the same eigenvalue span the eigenspace, and any vector of it is an eigenvector
Spectra == << <<2, 0 - 1, 3, 0 - 3, 5, 7>>, <<1, 0 - 2, 4, 3, 0 - 5, 6>>, <<2, 2, 1, 3, 3, 0 - 1>> >>
Ev(s) == SubSeq(Spectra[s], 1, M)
ASSUME \A s \in 1..Len(Spectra) : \A a \in 1..M : Ev(s)[a] # 0
ASSUME \A s \in 1..2 : \A a, b \in 1..M : a # b => Ev(s)[a] # Ev(s)[b]

Diag(e) == [r \in 1..M |-> [c \in 1..M |-> IF r = c THEN e[r] ELSE 0]]
Elem(i, j, s) == [r \in 1..M |-> [c \in 1..M |-> IF r = c THEN 1 ELSE IF r = i /\ c = j THEN s ELSE 0]]
Col(A, k) == TLCEval([r \in 1..M |-> A[r][k]])
\* deep TLCEval: TLC keeps [i \in S |-> e] lazy and would re-evaluate a chain of products entry by entry
Mul(A, B) == TLCEval([i \in 1..Len(A) |-> TLCEval([j \in 1..Len(B[1]) |-> ISum([k \in 1..Len(B) |-> A[i][k] * B[k][j]])])])
T == Mul(Mul(F, Diag(Ev(sp))), Finv)

Ops == {<<i, (i % M) + 1, 1>> : i \in 1..M} \cup {<<(i % M) + 1, i, 0 - 1>> : i \in 1..M}

\* the walk starts from a fixed dense unimodular frame (a product of shears, inverse kept alongside)
Frame0 == [n \in 1..(2 * M) |-> IF n <= M THEN <<n, (n % M) + 1, 1>>
                                ELSE <<((n - M) % M) + 1, n - M, IF n % 2 = 0 THEN 0 - 1 ELSE 2>>]
RECURSIVE BuildTo(_)
BuildTo(n) == IF n = 0 THEN <<IdMat(M), IdMat(M)>>
              ELSE LET prev == TLCEval(BuildTo(n - 1))
                       o == Frame0[n]
                   IN TLCEval(<<Mul(prev[1], Elem(o[1], o[2], o[3])), Mul(Elem(o[1], o[2], 0 - o[3]), prev[2])>>)
F0 == BuildTo(2 * M)

Init == F = F0[1] /\ Finv = F0[2] /\ sp \in 1..Len(Spectra) /\ len = 0
Shear(o) == /\ len < MaxLen
            /\ F' = Mul(F, Elem(o[1], o[2], o[3]))
            /\ Finv' = Mul(Elem(o[1], o[2], 0 - o[3]), Finv)
            /\ len' = len + 1 /\ UNCHANGED sp
Next == \E o \in Ops : Shear(o)

InverseKept == Mul(F, Finv) = IdMat(M) /\ Mul(Finv, F) = IdMat(M)
EigenEquation == \A k \in 1..M : MatVec(T, Col(F, k)) = VScale(Ev(sp)[k], Col(F, k))
Diagonalised == Mul(Finv, Mul(T, F)) = Diag(Ev(sp))
TraceLaw == ISum([k \in 1..M |-> T[k][k]]) = ISum(Ev(sp))

\* eigenvalues of the OTHER spectra that T lacks: T - c 1 is invertible, with the explicit inverse
\* F diag(prod_{j # k} (d_j - c)) F^-1 / prod_k (d_k - c), so no non-zero vector is mapped to c times itself (a composite
\* asked for c must report the degenerate zero point for this member).  32-bit guard: small matrices and entries.
AllValues == UNION {{Spectra[s][a] : a \in 1..M} : s \in 1..Len(Spectra)}
Absent == {c \in AllValues : \A a \in 1..M : Ev(sp)[a] # c}
RECURSIVE ProdExcept(_, _, _, _)
ProdExcept(e, c, k, a) == IF a = 0 THEN 1 ELSE (IF a = k THEN 1 ELSE e[a] - c) * ProdExcept(e, c, k, a - 1)
SmallT == M <= 4 /\ \A r, q \in 1..M : Abs(T[r][q]) <= 300 /\ Abs(F[r][q]) <= 40 /\ Abs(Finv[r][q]) <= 40
AbsentHasNoEigenvector ==
  SmallT => \A c \in Absent :
              LET e == Ev(sp)
                  shifted == TLCEval([r \in 1..M |-> TLCEval([q \in 1..M |-> T[r][q] - (IF r = q THEN c ELSE 0)])])
                  cof == Mul(Mul(F, Diag([k \in 1..M |-> ProdExcept(e, c, k, M)])), Finv)
                  det == ProdExcept(e, c, 0, M)
              IN det # 0 /\ Mul(shifted, cof) = TLCEval([r \in 1..M |-> TLCEval([q \in 1..M |-> IF r = q THEN det ELSE 0])])

Obs == [m |-> M, absent |-> Absent, T |-> T, evals |-> Ev(sp), evecs |-> [k \in 1..M |-> Col(F, k)], len |-> len]
EmitObs == PrintT("OBS " \o ToJson(Obs))
View == <<F, sp, len>>
=============================================================================
