------------------------------ MODULE RepAction ------------------------------
(***************************************************************************)
(* Property C03, representation clause (projective): "the image of a group  *)
(* word under a projective representation acts on a point exactly as the    *)
(* word's matrix acts on its coordinate column vector".                     *)
(* State: a pair of generator matrices (a, b).  real: integer 3x3 matrices  *)
(* of ProjAction, most of them NOT unimodular (determinants 2, 6, 125: a    *)
(* projective transformation is a class of matrices up to scale, so there   *)
(* is nothing special about determinant 1); complex: Gaussian-integer 2x2.  *)
(* The value of a word is the product of its letters, a capital letter      *)
(* standing for the inverse (taken projectively: the adjugate).  Emitted:   *)
(* for every word of length <= 3 its matrix and the images of the test      *)
(* points, and (once) the lists of words the list-valued calls elements /   *)
(* transformations are replayed with - every list of length <= 3 over five  *)
(* words, so most lists contain a repeated word.                            *)
(* TLC checks: Val is a homomorphism, Val(w^-1) Val(w) = 1, aA = 1, and the *)
(* universe separates conventions (some Val(w) is neither symmetric nor     *)
(* equal to the value of the reversed word).                                *)
(***************************************************************************)
EXTENDS ProjAction, ActWords

VARIABLES kind, gi,
          tab      \* [w \in Pool |-> value of w], computed once per state

RGens == << <<MatList[1], MatList[4]>>, <<MatList[2], MatList[6]>>, <<MatList[5], MatList[3]>>, <<MatList[7], MatList[1]>> >>
CGens == << << <<<<Z(1, 2), Z(1, 0 - 2)>>, <<Z(0 - 1, 0 - 2), Z(1, 0 - 2)>>>>, <<<<GOne, GI>>, <<GZero, GOne>>>> >>,
            << <<<<Z(2, 0), GI>>, <<GI, GOne>>>>, <<<<GZero, GI>>, <<GOne, GZero>>>> >> >>
RTest == <<Pts[2], Pts[4], Pts[3], Pts[7]>>
CTest == <<CPts2[3], CPts2[4], CPts2[1]>>

\* TLC keeps [i \in S |-> e] lazy and would re-evaluate chains of products entry by entry: evaluate deeply
Eager(M) == TLCEval([i \in 1..Len(M) |-> TLCEval([j \in 1..Len(M[i]) |-> TLCEval(M[i][j])])])

\* ---- real
RGen(l) == CASE l = "a" -> RGens[gi][1] [] l = "b" -> RGens[gi][2]
             [] l = "A" -> Adj3(RGens[gi][1]) [] l = "B" -> Adj3(RGens[gi][2])
RECURSIVE RVal(_)
RVal(w) == IF w = <<>> THEN Eager(IdMat(3)) ELSE Eager(MPrim(MatMul(RGen(Head(w)), RVal(Tail(w)))))
\* ---- complex (no canonical representative: compared projectively)
CGen(l) == CASE l = "a" -> CGens[gi][1] [] l = "b" -> CGens[gi][2]
             [] l = "A" -> CAdj(CGens[gi][1]) [] l = "B" -> CAdj(CGens[gi][2])
RECURSIVE CVal(_)
CVal(w) == IF w = <<>> THEN Eager(CId(2)) ELSE Eager(CMatMul(CGen(Head(w)), CVal(Tail(w))))

RepInit == /\ obj = [cls |-> "none"] /\ A = IdMat(3) /\ B = IdMat(3)
           /\ \/ (kind = "real" /\ gi \in 1..Len(RGens) /\ tab = [w \in Pool |-> RVal(w)])
              \/ (kind = "complex" /\ gi \in 1..Len(CGens) /\ tab = [w \in Pool |-> CVal(w)])
RepNext == UNCHANGED <<obj, A, B, kind, gi, tab>>

Short == {uv \in Pool \X Pool : Len(uv[1]) + Len(uv[2]) <= 3}
Homomorphism ==
  IF kind = "real" THEN \A uv \in Short : tab[uv[1] \o uv[2]] = MPrim(MatMul(tab[uv[1]], tab[uv[2]]))
  ELSE \A uv \in Short : CMatProjEq(tab[uv[1] \o uv[2]], CMatMul(tab[uv[1]], tab[uv[2]]))
InverseWord ==
  IF kind = "real" THEN \A w \in Pool : MPrim(MatMul(tab[InvW(w)], tab[w])) = IdMat(3)
  ELSE \A w \in Pool : CMatProjEq(CMatMul(tab[InvW(w)], tab[w]), CId(2))
Cancels == IF kind = "real" THEN tab[<<"a", "A">>] = IdMat(3) /\ tab[<<"B", "b">>] = IdMat(3)
           ELSE CMatProjEq(tab[<<"a", "A">>], CId(2))
\* the table is the product of the letters, read from the left: value(l w) = gen(l) value(w)
TableIsProduct == \A w \in Pool : w # <<>> =>
                    IF kind = "real" THEN tab[w] = MPrim(MatMul(RGen(Head(w)), tab[Tail(w)]))
                    ELSE tab[w] = CMatMul(CGen(Head(w)), tab[Tail(w)])
GensInvertible == IF kind = "real" THEN Det3x3(RGens[gi][1]) # 0 /\ Det3x3(RGens[gi][2]) # 0
                  ELSE CDet(CGens[gi][1]) # GZero /\ CDet(CGens[gi][2]) # GZero
SeparatesConventions ==
  IF kind = "real" THEN \E w \in Pool : tab[w] # tab[Rev(w)] /\ tab[w] # MPrim(Transpose(tab[w]))
  ELSE \E w \in Pool : ~CMatProjEq(tab[w], tab[Rev(w)]) /\ ~CMatProjEq(tab[w], CTr(tab[w]))
RichUniverse == /\ \E i \in 1..Len(RGens) : Det3x3(RGens[i][1]) \notin {1, 0 - 1}
                /\ \E l \in Lists : HasRepeat(l) /\ l[1] = l[2]
                /\ \E l \in Lists : Len(l) = 3 /\ l[1] = l[3] /\ l[1] # l[2]

EmitRep == PrintT("REP " \o ToJson(
  IF kind = "real"
  THEN [kind |-> kind, a |-> RGens[gi][1], b |-> RGens[gi][2], pts |-> RTest,
        words |-> {[w |-> Str(w), M |-> tab[w], img |-> [i \in 1..Len(RTest) |-> Prim(MatVec(tab[w], RTest[i]))]] : w \in Pool}]
  ELSE [kind |-> kind, a |-> CGens[gi][1], b |-> CGens[gi][2], pts |-> CTest,
        words |-> {[w |-> Str(w), M |-> tab[w], img |-> [i \in 1..Len(CTest) |-> CMatVec(tab[w], CTest[i])]] : w \in Pool}]))
ASSUME PrintT("LISTS " \o ToJson([words |-> [i \in 1..Len(ListWords) |-> Str(ListWords[i])], lists |-> Lists]))
=============================================================================
