----------------------------- MODULE ConvexHull -----------------------------
(***************************************************************************)
(* Extension check X05: projective.ConvexPolygon (constructor, set,         *)
(* _convexify, add_points).  CONTRACT (class and method docstrings): the    *)
(* points handed over are lifts in R^3 of points of the projective plane    *)
(* lying in one affine chart; non-extreme points are discarded, the         *)
(* vertices that remain are the extreme points of the convex hull, in       *)
(* cyclic order (a polygon: consecutive vertices are joined by the edges    *)
(* kept as derived data), the representatives (lifts) handed over are kept, *)
(* the dual vector computed when none is given is positive on every point;  *)
(* add_points(points) gives the hull of the old and the new points (a new   *)
(* object, or the same object with in_place=True); composite objects are    *)
(* refused with GeometryError.                                              *)
(*                                                                         *)
(* EXACT MODEL.  A state is the sequence of integer points (x, y) of the    *)
(* chart handed over so far (a history of add_points); lifts are            *)
(* (w, w x, w y) with the positive weights w = Weight(k).  The hull is      *)
(* computed by gift wrapping with the exact orientation predicate.  TLC     *)
(* checks in every state inside the domain (no point lies on the line of a  *)
(* hull edge without being one of its ends - Qhull's treatment of such      *)
(* points is not part of the contract): the hull turns strictly left at     *)
(* every vertex, every point is inside or on it, its vertices are given     *)
(* points, adding a point of the closed hull that creates no collinearity   *)
(* changes nothing, and the hull commutes with the affine maps of the       *)
(* chart in the pool (the projective transformations preserving the chart). *)
(***************************************************************************)
EXTENDS Integers, Sequences, FiniteSets, TLC, Json

CONSTANTS Grid,      \* points have coordinates in -Grid..Grid
          MaxPts,    \* length of the history
          Stride     \* thinning of the candidate points (1 = all)

VARIABLES pts

Neg(k) == 0 - k
Orient(a, b, c) == (b[1] - a[1]) * (c[2] - a[2]) - (b[2] - a[2]) * (c[1] - a[1])
Dist2(a, b) == (b[1] - a[1]) * (b[1] - a[1]) + (b[2] - a[2]) * (b[2] - a[2])
Candidates == {p \in (Neg(Grid)..Grid) \X (Neg(Grid)..Grid) : ((p[1] + Grid) * (2 * Grid + 1) + p[2] + Grid) % Stride = 0}
SetOf(s) == {s[i] : i \in 1..Len(s)}
Weight(k) == (k % 3) + 1

\* lexicographically smallest point
Lowest(S) == CHOOSE p \in S : \A q \in S : p[1] < q[1] \/ (p[1] = q[1] /\ p[2] <= q[2])
\* the next hull vertex after p, counter-clockwise: every point is to the left of p -> q; the farthest among collinear
NextV(S, p) == CHOOSE q \in S \ {p} : \A r \in S : Orient(p, q, r) > 0 \/ (Orient(p, q, r) = 0 /\ Dist2(p, r) <= Dist2(p, q))
RECURSIVE Wrap(_, _, _, _)
Wrap(S, start, p, acc) == LET q == NextV(S, p) IN IF q = start THEN acc ELSE Wrap(S, start, q, Append(acc, q))
Hull(S) == IF Cardinality(S) = 1 THEN <<Lowest(S)>> ELSE LET s == Lowest(S) IN Wrap(S, s, s, <<s>>)
Succ(h, i) == h[(i % Len(h)) + 1]

\* a genuine polygon, and no point on the line of an edge except its two ends
Degenerate(S) == \A a, b, c \in S : Orient(a, b, c) = 0
InDomain(S) == /\ ~Degenerate(S)
               /\ LET h == Hull(S) IN \A i \in 1..Len(h) : \A r \in S \ {h[i], Succ(h, i)} : Orient(h[i], Succ(h, i), r) # 0

Init == pts = <<>>
Add(p) == Len(pts) < MaxPts /\ pts' = Append(pts, p)
Next == \E p \in Candidates : Add(p)

S == SetOf(pts)
H == Hull(S)
Defined == Len(pts) >= 3 /\ InDomain(S)
StrictlyConvex == Defined => \A i \in 1..Len(H) : Orient(H[i], Succ(H, i), Succ(H, (i % Len(H)) + 1)) > 0
Contains == Defined => \A r \in S : \A i \in 1..Len(H) : Orient(H[i], Succ(H, i), r) >= 0
VerticesGiven == Defined => SetOf(H) \subseteq S /\ Len(H) = Cardinality(SetOf(H)) /\ Len(H) >= 3
InsideClosed(p) == \A i \in 1..Len(H) : Orient(H[i], Succ(H, i), p) >= 0
InteriorStable == Defined => \A p \in Candidates : (InsideClosed(p) /\ InDomain(S \cup {p})) => Hull(S \cup {p}) = H
\* affine maps of the chart (determinant 1 and -1) and a translation
Maps == {<<<<1, 1>>, <<0, 1>>, <<2, Neg(1)>>>>, <<<<2, 1>>, <<1, 1>>, <<0, 3>>>>, <<<<0, 1>>, <<1, 0>>, <<1, 1>>>>}
ApplyMap(m, p) == <<m[1][1] * p[1] + m[1][2] * p[2] + m[3][1], m[2][1] * p[1] + m[2][2] * p[2] + m[3][2]>>
AffineInvariant == Defined => \A m \in Maps : SetOf(Hull({ApplyMap(m, p) : p \in S})) = {ApplyMap(m, p) : p \in SetOf(H)}

Obs == [pts |-> pts, weights |-> [k \in 1..Len(pts) |-> Weight(k)], defined |-> Defined,
        hull |-> IF Defined THEN H ELSE <<>>]
EmitObs == Len(pts) >= 3 => PrintT("OBS " \o ToJson(Obs))
\* histories that hand over the same points in another order reach the same hull: one representative per set of points
\* is explored (VIEW), every add_points step out of it is emitted with the hull before and after
View == <<SetOf(pts), Len(pts)>>
HullOrNone(T) == IF Cardinality(T) >= 3 /\ InDomain(T) THEN Hull(T) ELSE <<>>
Emit == Len(pts) >= 3 => PrintT("EMIT " \o ToJson([from |-> pts, weights |-> [k \in 1..Len(pts') |-> Weight(k)], add |-> pts'[Len(pts')],
                                                    hull_before |-> HullOrNone(S), hull_after |-> HullOrNone(SetOf(pts'))]))
ASSUME PrintT("TAB " \o ToJson([maps |-> Maps]))
=============================================================================
