---------------------------- MODULE NearIdentity ----------------------------
(***************************************************************************)
(* Property C03 for group elements NEAR THE IDENTITY.  A one-parameter      *)
(* family A(e) with A(0) = 1 is a matrix of POLYNOMIALS in e with integer   *)
(* coefficients (over a polynomial denominator for the isometries):         *)
(*   projective  trans  1 + e E13,   shear  1 + e (E12 + E23),              *)
(*               diag   diag(1 + e, 1, 1),   gen  1 + e K                   *)
(*   hyperbolic  lox    standard loxodromic of parameter 1 + e,             *)
(*               rot    rotation with (cos, sin) = (1 - e^2, 2e)/(1 + e^2), *)
(*               par    parabolic exp(e N) fixing the ideal point (1,1,0).  *)
(* Products, adjugates and images are computed as polynomial identities, so *)
(* the action of A(e), of B A(e), A(e) B, A(e)^2 and A(e)^-1 is known       *)
(* EXACTLY for every value of e; the replay substitutes the values Eps      *)
(* (1e-9 ... 1e-3, both signs).  Each emitted expression carries its exact  *)
(* image `img` and the image `ref` the same expression would have if A(e)   *)
(* were replaced by the identity; TLC checks that the two differ as         *)
(* polynomials (A(e) really moves the object), and the replay compares the  *)
(* library's result with `img` RELATIVE to the distance between `ref` and   *)
(* `img`: a near-identity element must act as itself, not as the identity.  *)
(* TLC also checks: A(0) = 1, A adj(A) = det(A) 1, the action law for the   *)
(* polynomial matrices, and A^T J A = den^2 J for the isometries.           *)
(***************************************************************************)
EXTENDS Integers, Sequences, FiniteSets, TLC, Json

VARIABLES fam, bi, xi

\* ---- polynomials in e: sequences of integer coefficients (e^0 first), no trailing zeros; <<>> is 0
RECURSIVE Trim(_)
Trim(p) == IF p = <<>> THEN <<>> ELSE IF p[Len(p)] = 0 THEN Trim(SubSeq(p, 1, Len(p) - 1)) ELSE p
Co(p, k) == IF k >= 1 /\ k <= Len(p) THEN p[k] ELSE 0
Max2(a, b) == IF a >= b THEN a ELSE b
PAdd(p, q) == Trim([k \in 1..Max2(Len(p), Len(q)) |-> Co(p, k) + Co(q, k)])
PNeg(p) == [k \in 1..Len(p) |-> 0 - p[k]]
PSub(p, q) == PAdd(p, PNeg(q))
RECURSIVE ConvSum(_, _, _, _)
ConvSum(p, q, k, i) == IF i = 0 THEN 0 ELSE Co(p, i) * Co(q, k + 1 - i) + ConvSum(p, q, k, i - 1)
PMul(p, q) == IF p = <<>> \/ q = <<>> THEN <<>> ELSE Trim([k \in 1..(Len(p) + Len(q) - 1) |-> ConvSum(p, q, k, Len(p))])
PC(n) == IF n = 0 THEN <<>> ELSE <<n>>          \* constant polynomial
RECURSIVE PSum(_)
PSum(s) == IF s = <<>> THEN <<>> ELSE PAdd(Head(s), PSum(Tail(s)))

\* ---- 3 x 3 matrices and 3-vectors of polynomials (matrices act on columns)
PMVec(M, v) == [r \in 1..3 |-> PSum([c \in 1..3 |-> PMul(M[r][c], v[c])])]
PMMul(M, K) == [r \in 1..3 |-> [c \in 1..3 |-> PSum([j \in 1..3 |-> PMul(M[r][j], K[j][c])])]]
PCof(M, i, j) == LET r == <<(i % 3) + 1, ((i + 1) % 3) + 1>>
                     c == <<(j % 3) + 1, ((j + 1) % 3) + 1>>
                 IN PSub(PMul(M[r[1]][c[1]], M[r[2]][c[2]]), PMul(M[r[1]][c[2]], M[r[2]][c[1]]))
PAdj(M) == [i \in 1..3 |-> [j \in 1..3 |-> PCof(M, j, i)]]
PDet(M) == PSum([j \in 1..3 |-> PMul(M[1][j], PCof(M, 1, j))])
PScalar(p) == [r \in 1..3 |-> [c \in 1..3 |-> IF r = c THEN p ELSE <<>>]]
PTr(M) == [r \in 1..3 |-> [c \in 1..3 |-> M[c][r]]]
PConstM(M) == [r \in 1..3 |-> [c \in 1..3 |-> PC(M[r][c])]]
PConstV(v) == [r \in 1..3 |-> PC(v[r])]
RECURSIVE Flat(_)
Flat(M) == IF M = <<>> THEN <<>> ELSE Head(M) \o Flat(Tail(M))
\* projective equality of vectors of polynomials, as an identity in e
PProjEq(u, v) == \A i, j \in 1..Len(u) : PMul(u[i], v[j]) = PMul(u[j], v[i])
PNonZero(u) == \E i \in 1..Len(u) : u[i] # <<>>

\* ---- the families; den is the polynomial d with A / d in O(2,1) (1 for the projective families)
E == <<0, 1>>
Fam(f) ==
  CASE f = "trans" -> [mat |-> <<<<PC(1), PC(0), E>>, <<PC(0), PC(1), PC(0)>>, <<PC(0), PC(0), PC(1)>>>>, den |-> PC(1), hyp |-> FALSE]
    [] f = "shear" -> [mat |-> <<<<PC(1), E, PC(0)>>, <<PC(0), PC(1), E>>, <<PC(0), PC(0), PC(1)>>>>, den |-> PC(1), hyp |-> FALSE]
    [] f = "diag" -> [mat |-> <<<<<<1, 1>>, PC(0), PC(0)>>, <<PC(0), PC(1), PC(0)>>, <<PC(0), PC(0), PC(1)>>>>, den |-> PC(1), hyp |-> FALSE]
    [] f = "gen" -> [mat |-> <<<<<<1, 1>>, <<0, 2>>, PC(0)>>, <<PC(0), <<1, 0 - 1>>, E>>, <<E, PC(0), PC(1)>>>>, den |-> PC(1), hyp |-> FALSE]
    [] f = "lox" -> [mat |-> <<<<<<2, 2, 1>>, <<0, 2, 1>>, PC(0)>>, <<<<0, 2, 1>>, <<2, 2, 1>>, PC(0)>>, <<PC(0), PC(0), <<2, 2>>>>>>,
                     den |-> <<2, 2>>, hyp |-> TRUE]
    [] f = "rot" -> [mat |-> <<<<<<1, 0, 1>>, PC(0), PC(0)>>, <<PC(0), <<1, 0, 0 - 1>>, <<0, 0 - 2>>>>, <<PC(0), <<0, 2>>, <<1, 0, 0 - 1>>>>>>,
                     den |-> <<1, 0, 1>>, hyp |-> TRUE]
    [] f = "par" -> [mat |-> <<<<<<2, 0, 1>>, <<0, 0, 0 - 1>>, <<0, 2>>>>, <<<<0, 0, 1>>, <<2, 0, 0 - 1>>, <<0, 2>>>>, <<<<0, 2>>, <<0, 0 - 2>>, PC(2)>>>>,
                     den |-> PC(2), hyp |-> TRUE]
Families == {"trans", "shear", "diag", "gen", "lox", "rot", "par"}
\* how the library can also build the element (besides from its matrix): constructor name and parameter polynomial(s)
Ctor(f) == CASE f = "lox" -> [name |-> "standard_loxodromic", param |-> <<<<1, 1>>>>]                  \* lambda = 1 + e
             [] f = "rot" -> [name |-> "standard_rotation", param |-> <<<<1, 0, 0 - 1>>, <<0, 2>>>>]   \* angle = atan2(2e, 1 - e^2)
             [] OTHER -> [name |-> "none", param |-> <<>>]

\* ---- the far elements B: integer matrices over an integer denominator
BProj == << [mat |-> <<<<2, 1, 0>>, <<0, 1, 0>>, <<0, 0, 1>>>>, den |-> 1], [mat |-> <<<<1, 2, 3>>, <<0, 1, 4>>, <<5, 6, 0>>>>, den |-> 1] >>
BHyp == << [mat |-> <<<<5, 3, 0>>, <<3, 5, 0>>, <<0, 0, 4>>>>, den |-> 4],               \* Lox(2, 1)
           [mat |-> <<<<3, 2, 2>>, <<2, 2, 1>>, <<2, 1, 2>>>>, den |-> 1] >>              \* the boost sending the origin to (3, 2, 2)
Bs(f) == IF Fam(f).hyp THEN BHyp ELSE BProj

\* ---- the objects
XProj == << [cls |-> "point", rows |-> <<<<1, 2, 3>>>>], [cls |-> "point", rows |-> <<<<2, 0 - 1, 1>>>>],
            [cls |-> "polygon", rows |-> <<<<1, 2, 3>>, <<2, 0 - 1, 1>>, <<1, 1, 4>>>>],
            [cls |-> "transformation", rows |-> <<>>, h |-> <<<<1, 1, 0>>, <<0, 1, 1>>, <<1, 0, 1>>>>, den |-> 1] >>
XHyp == << [cls |-> "point", rows |-> <<<<3, 2, 2>>>>], [cls |-> "point", rows |-> <<<<5, 3, 4>>>>],
           [cls |-> "polygon", rows |-> <<<<3, 2, 2>>, <<5, 0 - 3, 1>>, <<3, 1, 0 - 2>>>>],
           [cls |-> "transformation", rows |-> <<>>, h |-> <<<<5, 3, 0>>, <<3, 5, 0>>, <<0, 0, 4>>>>, den |-> 4] >>
Xs(f) == IF Fam(f).hyp THEN XHyp ELSE XProj

\* image of an object under a polynomial matrix
PAct(M, X) == IF X.cls = "transformation" THEN [cls |-> X.cls, rows |-> <<>>, h |-> PMMul(M, PConstM(X.h))]
              ELSE [cls |-> X.cls, rows |-> [i \in 1..Len(X.rows) |-> PMVec(M, PConstV(X.rows[i]))]]
\* (for images that are themselves polynomial objects)
PAct2(M, Y) == IF Y.cls = "transformation" THEN [cls |-> Y.cls, rows |-> <<>>, h |-> PMMul(M, Y.h)]
               ELSE [cls |-> Y.cls, rows |-> [i \in 1..Len(Y.rows) |-> PMVec(M, Y.rows[i])]]
PSameObj(Y, W) == IF Y.cls = "transformation" THEN PProjEq(Flat(Y.h), Flat(W.h))
                  ELSE \A i \in 1..Len(Y.rows) : PProjEq(Y.rows[i], W.rows[i])
PId == PScalar(PC(1))

Am == Fam(fam).mat
Bm == PConstM(Bs(fam)[bi].mat)
Xo == Xs(fam)[xi]

\* expression name |-> [img, ref]: exact image, and the image if A(e) were the identity
Exprs ==
  [AX    |-> [img |-> PAct(Am, Xo), ref |-> PAct(PId, Xo)],
   BAX   |-> [img |-> PAct(PMMul(Bm, Am), Xo), ref |-> PAct(Bm, Xo)],
   ABX   |-> [img |-> PAct(PMMul(Am, Bm), Xo), ref |-> PAct(Bm, Xo)],
   AAX   |-> [img |-> PAct(PMMul(Am, Am), Xo), ref |-> PAct(Am, Xo)],
   AinvX |-> [img |-> PAct(PAdj(Am), Xo), ref |-> PAct(PId, Xo)]]
ExprNames == {"AX", "BAX", "ABX", "AAX", "AinvX"}

Eps == {<<1, 1000000000>>, <<3, 1000000000>>, <<1, 100000000>>, <<0 - 1, 100000000>>, <<1, 10000000>>, <<1, 1000000>>,
        <<0 - 1, 1000000>>, <<1, 100000>>, <<1, 1000>>}

Init == fam \in Families /\ bi \in 1..2 /\ xi \in 1..4
Next == UNCHANGED <<fam, bi, xi>>

\* ---- theorems
EvalAtZero(M) == [r \in 1..3 |-> [c \in 1..3 |-> Co(M[r][c], 1)]]
IdentityAtZero == LET Z == EvalAtZero(Am) IN \A r, c \in 1..3 : Z[r][c] = (IF r = c THEN Co(Fam(fam).den, 1) ELSE 0)
AdjugateIsInverse == PMMul(Am, PAdj(Am)) = PScalar(PDet(Am)) /\ PMMul(PAdj(Am), Am) = PScalar(PDet(Am))
PJ == <<<<PC(0 - 1), PC(0), PC(0)>>, <<PC(0), PC(1), PC(0)>>, <<PC(0), PC(0), PC(1)>>>>
BSound == Fam(fam).hyp => PMMul(PTr(Bm), PMMul(PJ, Bm)) = PMMul(PScalar(PC(Bs(fam)[bi].den * Bs(fam)[bi].den)), PJ)
FormPreserved == Fam(fam).hyp => PMMul(PTr(Am), PMMul(PJ, Am)) = PMMul(PScalar(PMul(Fam(fam).den, Fam(fam).den)), PJ)
ActionLaw == /\ PSameObj(PAct2(Bm, PAct(Am, Xo)), Exprs.BAX.img)
             /\ PSameObj(PAct2(Am, PAct(Bm, Xo)), Exprs.ABX.img)
             /\ PSameObj(PAct2(Am, PAct(Am, Xo)), Exprs.AAX.img)
InverseActs == PSameObj(PAct2(PAdj(Am), PAct(Am, Xo)), PAct(PId, Xo))
\* A(e) moves the object: in every expression the exact image differs from the image with A replaced by 1
Moves == \A n \in ExprNames : ~PSameObj(Exprs[n].img, Exprs[n].ref)
RowsNonZero == \A n \in ExprNames : Xo.cls # "transformation" => \A i \in 1..Len(Xo.rows) : PNonZero(Exprs[n].img.rows[i])

EmitCase == PrintT("NEAR " \o ToJson([fam |-> fam, mat |-> Am, den |-> Fam(fam).den, hyp |-> Fam(fam).hyp, ctor |-> Ctor(fam),
                                        B |-> Bs(fam)[bi], X |-> Xo, exprs |-> Exprs, eps |-> Eps]))
=============================================================================
