------------------------------ MODULE ProjAction ------------------------------
(***************************************************************************)
(* Property C03 (projective classes): general invertible integer 3x3        *)
(* matrices (not isometries; inverse taken projectively as the adjugate)    *)
(* acting on points, pairs, polygons (with edges), simplices, subspaces and *)
(* transformations of RP^2, and Gaussian-integer 2x2 / 3x3 matrices acting  *)
(* on points, pairs, polygons and transformations of CP^1 / CP^2.           *)
(* Matrices act on COLUMN vectors.  TLC checks the action laws on every     *)
(* (object, A, B) and emits the cases.                                      *)
(*                                                                         *)
(* A transformation is a projective class of matrices.  Some classes have   *)
(* a distinguished representative: if A A^* = k 1 (A^* the conjugate        *)
(* transpose) then A / sqrt(k) is unitary, if A A^T = k 1 it is (complex)   *)
(* orthogonal.  Scales(A) lists those k; the replay passes A itself and     *)
(* A / sqrt(k) for every k in Scales(A) - all of them are the same          *)
(* transformation.  TLC checks that the inverse (adjugate) of such a class  *)
(* is the conjugate transpose resp. the transpose, and that for a complex   *)
(* unitary class which is not orthogonal the plain transpose is NOT the     *)
(* inverse.                                                                 *)
(***************************************************************************)
EXTENDS IntLinAlg, Gauss, Naturals, FiniteSets, TLC, Json

VARIABLES obj, A, B

\* ---- real 3x3
Cof(M, i, j) == LET r == <<(i % 3) + 1, ((i + 1) % 3) + 1>>
                    c == <<(j % 3) + 1, ((j + 1) % 3) + 1>>
                IN M[r[1]][c[1]] * M[r[2]][c[2]] - M[r[1]][c[2]] * M[r[2]][c[1]]
Adj3(M) == [i \in 1..3 |-> [j \in 1..3 |-> Cof(M, j, i)]]          \* transpose of the cofactor matrix
Det3x3(M) == M[1][1] * Cof(M, 1, 1) + M[1][2] * Cof(M, 1, 2) + M[1][3] * Cof(M, 1, 3)

\* a sequence, so that other modules can address the matrices by position; the last one is 5 x a rotation
MatList == << <<<<2, 1, 0>>, <<0, 1, 0>>, <<0, 0, 1>>>>, <<<<1, 1, 0>>, <<0, 1, 1>>, <<1, 0, 1>>>>,
              <<<<0, 1, 0>>, <<0, 0, 1>>, <<1, 0, 0>>>>, <<<<1, 2, 3>>, <<0, 1, 4>>, <<5, 6, 0>>>>,
              <<<<1, 0, 0>>, <<0, 2, 0>>, <<0, 0, 3>>>>, <<<<1, 0, 0 - 2>>, <<0 - 1, 1, 0>>, <<0, 3, 1>>>>,
              <<<<3, 0 - 4, 0>>, <<4, 3, 0>>, <<0, 0, 5>>>> >>
Mats == {MatList[i] : i \in 1..Len(MatList)}

Pts == <<<<1, 0, 0>>, <<1, 2, 3>>, <<0, 1, 0 - 1>>, <<2, 0 - 1, 1>>, <<1, 1, 1>>, <<3, 1, 0 - 2>>, <<0, 0, 1>>>>

RObjects ==
  {[cls |-> "point", rows |-> <<Pts[i]>>] : i \in 1..Len(Pts)}
  \cup {[cls |-> "pair", rows |-> <<Pts[2], Pts[3]>>], [cls |-> "pair", rows |-> <<Pts[5], Pts[7]>>]}
  \cup {[cls |-> "polygon", rows |-> <<Pts[1], Pts[2], Pts[4]>>], [cls |-> "polygon", rows |-> <<Pts[2], Pts[3], Pts[5], Pts[6]>>]}
  \cup {[cls |-> "simplex", rows |-> <<Pts[1], Pts[5], Pts[6]>>]}
  \cup {[cls |-> "subspace", rows |-> <<Pts[2], Pts[4]>>]}
  \cup {[cls |-> "transformation", rows |-> <<>>, h |-> M] : M \in {<<<<1, 1, 0>>, <<0, 1, 1>>, <<1, 0, 1>>>>, <<<<1, 2, 3>>, <<0, 1, 4>>, <<5, 6, 0>>>>}}

MPrim(M) == LET q == Gcd(VGcd(M[1]), Gcd(VGcd(M[2]), VGcd(M[3]))) * Sgn(FirstNonZero(M[1] \o M[2] \o M[3]))
            IN [i \in 1..3 |-> [j \in 1..3 |-> M[i][j] \div q]]

RAct(M, X) == IF X.cls = "transformation" THEN [X EXCEPT !.h = MPrim(MatMul(M, X.h))]
              ELSE [X EXCEPT !.rows = [i \in 1..Len(X.rows) |-> Prim(MatVec(M, X.rows[i]))]]
RNormal(X) == IF X.cls = "transformation" THEN [X EXCEPT !.h = MPrim(X.h)] ELSE X

\* k > 0 with M M^T = k 1, or 0
ROrthScale(M) == LET P == MatMul(M, Transpose(M))
                 IN IF P = MatScale(P[1][1], IdMat(3)) THEN P[1][1] ELSE 0

\* ---- Gaussian-integer n x n matrices (n = 2, 3) acting on columns of CP^(n-1)
RECURSIVE GSumS(_)
GSumS(s) == IF s = <<>> THEN GZero ELSE GAdd(Head(s), GSumS(Tail(s)))
CMatVec(M, v) == [r \in 1..Len(M) |-> GSumS([c \in 1..Len(v) |-> GMul(M[r][c], v[c])])]
CMatMul(M, K) == [r \in 1..Len(M) |-> [c \in 1..Len(K[1]) |-> GSumS([j \in 1..Len(K) |-> GMul(M[r][j], K[j][c])])]]
CId(n) == [r \in 1..n |-> [c \in 1..n |-> IF r = c THEN GOne ELSE GZero]]
CStar(M) == [r \in 1..Len(M) |-> [c \in 1..Len(M) |-> GConj(M[c][r])]]       \* conjugate transpose
CTr(M) == [r \in 1..Len(M) |-> [c \in 1..Len(M) |-> M[c][r]]]                \* plain transpose
CCof3(M, i, j) == LET r == <<(i % 3) + 1, ((i + 1) % 3) + 1>>
                      c == <<(j % 3) + 1, ((j + 1) % 3) + 1>>
                  IN GSub(GMul(M[r[1]][c[1]], M[r[2]][c[2]]), GMul(M[r[1]][c[2]], M[r[2]][c[1]]))
CAdj(M) == IF Len(M) = 2 THEN GAdj(M) ELSE [i \in 1..3 |-> [j \in 1..3 |-> CCof3(M, j, i)]]
CDet(M) == IF Len(M) = 2 THEN GDet(M) ELSE GSumS([j \in 1..3 |-> GMul(M[1][j], CCof3(M, 1, j))])
CScalar(z, n) == [r \in 1..n |-> [c \in 1..n |-> IF r = c THEN z ELSE GZero]]
RECURSIVE Flat(_)
Flat(M) == IF M = <<>> THEN <<>> ELSE Head(M) \o Flat(Tail(M))
\* projective equality of non-zero Gaussian vectors: all 2 x 2 minors vanish
CProjEq(v, w) == \A i, j \in 1..Len(v) : GMul(v[i], w[j]) = GMul(v[j], w[i])
CNonZero(v) == \E i \in 1..Len(v) : v[i] # GZero
CMatProjEq(M, K) == CProjEq(Flat(M), Flat(K))

\* k > 0 with M M^* = k 1 (M / sqrt(k) unitary), resp. M M^T = k 1 with k a positive integer (orthogonal); else 0
UnitScale(M) == LET P == CMatMul(M, CStar(M)) IN IF P = CScalar(P[1][1], Len(M)) THEN P[1][1][1] ELSE 0
OrthScale(M) == LET P == CMatMul(M, CTr(M))
                IN IF P = CScalar(P[1][1], Len(M)) /\ P[1][1][2] = 0 /\ P[1][1][1] > 0 THEN P[1][1][1] ELSE 0
IsRealC(M) == \A r, c \in 1..Len(M) : M[r][c][2] = 0

Z(a, b) == <<a, b>>
CMats2 == {<<<<GOne, GI>>, <<GZero, GOne>>>>,                                 \* unipotent, upper triangular
           <<<<Z(1, 1), GOne>>, <<GOne, Z(0, 0 - 1)>>>>,                      \* generic
           <<<<Z(2, 0), GI>>, <<GI, GOne>>>>,                                 \* complex symmetric
           <<<<GZero, GOne>>, <<GOne, GZero>>>>,                              \* real permutation
           <<<<Z(1, 2), Z(1, 0 - 2)>>, <<Z(0 - 1, 0 - 2), Z(1, 0 - 2)>>>>,    \* sqrt(10) x SU(2): [[a, b], [-b*, a*]]
           <<<<GOne, GZero>>, <<GZero, GI>>>>,                                \* diagonal phases (unitary)
           <<<<GZero, GI>>, <<GOne, GZero>>>>,                                \* complex monomial (unitary)
           <<<<Z(2, 0), GI>>, <<Z(0, 0 - 1), GOne>>>>,                        \* Hermitian, not unitary
           <<<<Z(5, 0), Z(0, 4)>>, <<Z(0, 0 - 4), Z(5, 0)>>>>,                \* 3 x complex orthogonal, not unitary
           <<<<Z(3, 0), Z(0, 4)>>, <<Z(0, 4), Z(3, 0)>>>>}                    \* 5 x symmetric unitary
CMats3 == {<<<<Z(2, 1), Z(2, 0), GZero>>, <<Z(0 - 2, 0), Z(2, 0 - 1), GZero>>, <<GZero, GZero, Z(3, 0)>>>>,   \* 3 x U(3)
           <<<<GOne, GI, GZero>>, <<GZero, GOne, GI>>, <<GI, GZero, GOne>>>>,                                   \* generic
           <<<<GOne, GZero, GZero>>, <<GZero, GI, GZero>>, <<GZero, GZero, Z(0 - 1, 0)>>>>,                     \* phases
           <<<<GZero, GZero, GI>>, <<GOne, GZero, GZero>>, <<GZero, GOne, GZero>>>>,                            \* monomial
           <<<<GOne, Z(1, 1), GZero>>, <<GZero, GOne, Z(2, 0)>>, <<GZero, GZero, GOne>>>>}                      \* triangular
CMats == CMats2 \cup CMats3

CPts2 == <<<<GOne, GZero>>, <<GZero, GOne>>, <<GOne, GI>>, <<Z(1, 1), Z(2, 0 - 1)>>, <<GI, Z(3, 0)>>>>
CPts3 == <<<<GOne, GZero, GZero>>, <<GOne, GI, GZero>>, <<Z(1, 1), Z(2, 0 - 1), GOne>>, <<GZero, GOne, GI>>, <<GI, Z(3, 0), Z(1, 0 - 1)>>>>
CObjectsOf(P, Ms) ==
  {[cls |-> "cpoint", rows |-> <<P[i]>>] : i \in 1..Len(P)}
  \cup {[cls |-> "cpair", rows |-> <<P[1], P[3]>>], [cls |-> "cpair", rows |-> <<P[4], P[5]>>]}
  \cup {[cls |-> "cpolygon", rows |-> <<P[1], P[3], P[4]>>]}
  \cup {[cls |-> "ctransformation", rows |-> <<>>, h |-> M] : M \in Ms}
CObjects2 == CObjectsOf(CPts2, {<<<<Z(1, 1), GOne>>, <<GOne, Z(0, 0 - 1)>>>>, <<<<Z(3, 0), Z(0, 4)>>, <<Z(0, 4), Z(3, 0)>>>>})
CObjects3 == CObjectsOf(CPts3, {<<<<GOne, GI, GZero>>, <<GZero, GOne, GI>>, <<GI, GZero, GOne>>>>})

CAct(M, X) == IF X.cls = "ctransformation" THEN [X EXCEPT !.h = CMatMul(M, X.h)]
              ELSE [X EXCEPT !.rows = [i \in 1..Len(X.rows) |-> CMatVec(M, X.rows[i])]]
CSame(X, Y) == /\ X.cls = Y.cls
               /\ IF X.cls = "ctransformation" THEN CMatProjEq(X.h, Y.h)
                  ELSE Len(X.rows) = Len(Y.rows) /\ \A i \in 1..Len(X.rows) : CNonZero(X.rows[i]) /\ CProjEq(X.rows[i], Y.rows[i])

IsC(X) == X.cls \in {"cpoint", "cpair", "cpolygon", "ctransformation"}

Init == \/ (obj \in RObjects /\ A \in Mats /\ B \in Mats)
        \/ (obj \in CObjects2 /\ A \in CMats2 /\ B \in CMats2)
        \/ (obj \in CObjects3 /\ A \in CMats3 /\ B \in CMats3)
Next == UNCHANGED <<obj, A, B>>

Invertible == IF IsC(obj) THEN CDet(A) # GZero /\ CDet(B) # GZero ELSE Det3x3(A) # 0 /\ Det3x3(B) # 0
ActionLaw == IF IsC(obj) THEN CSame(CAct(CMatMul(A, B), obj), CAct(A, CAct(B, obj)))
             ELSE RAct(MatMul(A, B), obj) = RAct(A, RAct(B, obj))
IdentityLaw == IF IsC(obj) THEN CSame(CAct(CId(Len(A)), obj), obj) ELSE RAct(IdMat(3), obj) = RNormal(obj)
InverseActs == IF IsC(obj) THEN CSame(CAct(CAdj(A), CAct(A, obj)), obj)
               ELSE RAct(Adj3(A), RAct(A, obj)) = RNormal(obj)
AdjugateIsInverse == IF IsC(obj) THEN CMatMul(A, CAdj(A)) = CScalar(CDet(A), Len(A)) /\ CMatMul(CAdj(A), A) = CScalar(CDet(A), Len(A))
                     ELSE MatMul(A, Adj3(A)) = MatScale(Det3x3(A), IdMat(3))
\* the inverse of a unitary class is its conjugate transpose, of an orthogonal class its transpose; the transpose
\* is NOT the inverse of a unitary class unless the class is orthogonal as well
SpecialInverses ==
  IF IsC(obj) THEN /\ UnitScale(A) > 0 => CMatProjEq(CAdj(A), CStar(A))
                   /\ OrthScale(A) > 0 => CMatProjEq(CAdj(A), CTr(A))
                   /\ (UnitScale(A) > 0 /\ OrthScale(A) = 0) => ~CMatProjEq(CAdj(A), CTr(A))
                   /\ (OrthScale(A) > 0 /\ UnitScale(A) = 0) => ~CMatProjEq(CAdj(A), CStar(A))
  ELSE ROrthScale(A) > 0 => MPrim(Adj3(A)) = MPrim(Transpose(A))
\* the universe contains what the header promises
UniverseRich ==
  /\ \E M \in CMats2 : UnitScale(M) > 1 /\ OrthScale(M) = 0 /\ ~IsRealC(M)
  /\ \E M \in CMats2 : UnitScale(M) = 1 /\ OrthScale(M) = 0
  /\ \E M \in CMats2 : OrthScale(M) > 1 /\ UnitScale(M) = 0
  /\ \E M \in CMats3 : UnitScale(M) > 1 /\ OrthScale(M) = 0
  /\ \E M \in CMats3 : UnitScale(M) = 1 /\ OrthScale(M) = 0
  /\ \E M \in Mats : ROrthScale(M) > 1
  /\ \E M \in Mats : Det3x3(M) \notin {1, 0 - 1}

Scales(M) == IF IsC(obj) THEN {k \in {UnitScale(M), OrthScale(M)} : k > 0} ELSE {k \in {ROrthScale(M)} : k > 0}

EmitCase == PrintT("CASE " \o ToJson(
   IF IsC(obj) THEN [obj |-> obj, A |-> A, B |-> B, img |-> CAct(CMatMul(A, B), obj), imgA |-> CAct(A, obj),
                     sA |-> Scales(A), sB |-> Scales(B)]
   ELSE [obj |-> obj, A |-> A, B |-> B, img |-> RAct(MatMul(A, B), obj), imgA |-> RAct(A, obj),
         sA |-> Scales(A), sB |-> Scales(B)]))
=============================================================================
