------------------------------ MODULE ProjAction ------------------------------
(***************************************************************************)
(* Property C03 (projective classes): general invertible integer 3x3        *)
(* matrices (not isometries; inverse taken projectively as the adjugate)    *)
(* acting on points, pairs, polygons (with edges), simplices, subspaces and *)
(* transformations of RP^2, and Gaussian-integer 2x2 matrices acting on     *)
(* points of CP^1.  Matrices act on COLUMN vectors.  TLC checks the action  *)
(* laws on every (object, A, B) and emits the cases.                        *)
(***************************************************************************)
EXTENDS IntLinAlg, Gauss, Naturals, FiniteSets, TLC, Json

VARIABLES obj, A, B

\* ---- real 3x3
Cof(M, i, j) == LET r == <<(i % 3) + 1, ((i + 1) % 3) + 1>>
                    c == <<(j % 3) + 1, ((j + 1) % 3) + 1>>
                IN M[r[1]][c[1]] * M[r[2]][c[2]] - M[r[1]][c[2]] * M[r[2]][c[1]]
Adj3(M) == [i \in 1..3 |-> [j \in 1..3 |-> Cof(M, j, i)]]          \* transpose of the cofactor matrix
Det3x3(M) == M[1][1] * Cof(M, 1, 1) + M[1][2] * Cof(M, 1, 2) + M[1][3] * Cof(M, 1, 3)

Mats == {<<<<2, 1, 0>>, <<0, 1, 0>>, <<0, 0, 1>>>>, <<<<1, 1, 0>>, <<0, 1, 1>>, <<1, 0, 1>>>>,
         <<<<0, 1, 0>>, <<0, 0, 1>>, <<1, 0, 0>>>>, <<<<1, 2, 3>>, <<0, 1, 4>>, <<5, 6, 0>>>>,
         <<<<1, 0, 0>>, <<0, 2, 0>>, <<0, 0, 3>>>>, <<<<1, 0, 0 - 2>>, <<0 - 1, 1, 0>>, <<0, 3, 1>>>>}

Pts == <<<<1, 0, 0>>, <<1, 2, 3>>, <<0, 1, 0 - 1>>, <<2, 0 - 1, 1>>, <<1, 1, 1>>, <<3, 1, 0 - 2>>, <<0, 0, 1>>>>

RObjects ==
  {[cls |-> "point", rows |-> <<Pts[i]>>] : i \in 1..Len(Pts)}
  \cup {[cls |-> "pair", rows |-> <<Pts[2], Pts[3]>>], [cls |-> "pair", rows |-> <<Pts[5], Pts[7]>>]}
  \cup {[cls |-> "polygon", rows |-> <<Pts[1], Pts[2], Pts[4]>>], [cls |-> "polygon", rows |-> <<Pts[2], Pts[3], Pts[5], Pts[6]>>]}
  \cup {[cls |-> "simplex", rows |-> <<Pts[1], Pts[5], Pts[6]>>]}
  \cup {[cls |-> "subspace", rows |-> <<Pts[2], Pts[4]>>]}
  \cup {[cls |-> "transformation", rows |-> <<>>, h |-> M] : M \in {<<<<1, 1, 0>>, <<0, 1, 1>>, <<1, 0, 1>>>>, <<<<1, 2, 3>>, <<0, 1, 4>>, <<5, 6, 0>>>>}}

MPrim(M) == LET q == Gcd(VGcd(M[1]), Gcd(VGcd(M[2]), VGcd(M[3]))) * Sgn(FirstNonZero(M[1] \o M[2] \o M[3]))
            IN [i \in 1..3 |-> [j \in 1..3 |-> M[i][j] \div q]]

RAct(M, X) == IF X.cls = "transformation" THEN [X EXCEPT !.h = MPrim(MatMul(M, X.h))]
              ELSE [X EXCEPT !.rows = [i \in 1..Len(X.rows) |-> Prim(MatVec(M, X.rows[i]))]]
RNormal(X) == IF X.cls = "transformation" THEN [X EXCEPT !.h = MPrim(X.h)] ELSE X

\* ---- complex 2x2 on CP^1 (column action)
GMatVec(M, v) == <<GAdd(GMul(M[1][1], v[1]), GMul(M[1][2], v[2])), GAdd(GMul(M[2][1], v[1]), GMul(M[2][2], v[2]))>>
CMats == {<<<<GOne, GI>>, <<GZero, GOne>>>>, <<<<<<1, 1>>, GOne>>, <<GOne, <<0, 0 - 1>>>>>>,
          <<<<<<2, 0>>, GI>>, <<GI, GOne>>>>, <<<<GZero, GOne>>, <<GOne, GZero>>>>}
CPts == {<<GOne, GZero>>, <<GZero, GOne>>, <<GOne, GI>>, <<<<1, 1>>, <<2, 0 - 1>>>>, <<GI, <<3, 0>>>>}
CObjects == {[cls |-> "cpoint", v |-> v] : v \in CPts}
CAct(M, X) == [X EXCEPT !.v = GMatVec(M, X.v)]
CSame(X, Y) == GProjEq(X.v, Y.v)

IsC(X) == X.cls = "cpoint"

Init == \/ (obj \in RObjects /\ A \in Mats /\ B \in Mats)
        \/ (obj \in CObjects /\ A \in CMats /\ B \in CMats)
Next == UNCHANGED <<obj, A, B>>

Invertible == IF IsC(obj) THEN GDet(A) # GZero /\ GDet(B) # GZero ELSE Det3x3(A) # 0 /\ Det3x3(B) # 0
ActionLaw == IF IsC(obj) THEN CSame(CAct(GMatMul(A, B), obj), CAct(A, CAct(B, obj)))
             ELSE RAct(MatMul(A, B), obj) = RAct(A, RAct(B, obj))
IdentityLaw == IF IsC(obj) THEN CSame(CAct(GId2, obj), obj) ELSE RAct(IdMat(3), obj) = RNormal(obj)
InverseActs == IF IsC(obj) THEN CSame(CAct(GAdj(A), CAct(A, obj)), obj)
               ELSE RAct(Adj3(A), RAct(A, obj)) = RNormal(obj)
AdjugateIsInverse == IsC(obj) \/ MatMul(A, Adj3(A)) = MatScale(Det3x3(A), IdMat(3))

EmitCase == PrintT("CASE " \o ToJson(
   IF IsC(obj) THEN [obj |-> obj, A |-> A, B |-> B, img |-> CAct(GMatMul(A, B), obj), imgA |-> CAct(A, obj)]
   ELSE [obj |-> obj, A |-> A, B |-> B, img |-> RAct(MatMul(A, B), obj), imgA |-> RAct(A, obj)]))
=============================================================================
