------------------------------ MODULE Subspaces ------------------------------
(***************************************************************************)
(* Property C16, part 2: intersections of transverse projective subspaces.  *)
(*                                                                         *)
(* A subspace of the vector space Z^M (projective dimension M-1) is given   *)
(* by an integer spanning set: a matrix whose rows are independent.  The    *)
(* state holds a family As of P-dimensional and a family Bs of              *)
(* Q-dimensional subspaces such that EVERY pair (As[i], Bs[j]) is           *)
(* transverse (P + Q > M, As[i] + Bs[j] = everything), together with the    *)
(* table W[i][j] of spanning sets of the intersections.                     *)
(*                                                                         *)
(* A behaviour starts from coordinate subspaces of a common frame (where    *)
(* the intersection of span{e_k : k in S} and span{e_k : k in T} is         *)
(* span{e_k : k in S \cap T}) and then                                      *)
(*   Ambient(i, j, s)  changes the frame by the unimodular shear            *)
(*                     v -> v (I + s E_ij): everything, including W, moves   *)
(*   MixA / MixB       replaces a spanning set by another spanning set of   *)
(*                     the same subspace (row operation, row scaling)       *)
(* so W is the intersection transported along the behaviour.  Independently *)
(* Meet(A, B) computes the intersection from the two spanning sets alone,   *)
(* by fraction-free elimination (the kernel of the stacked         *)
(* spanning sets, exactly the construction of Subspace.intersect).  TLC     *)
(* checks in every state and for every pair: the dimension formula          *)
(* dim = P + Q - M, containment in both subspaces, independence,            *)
(* transversality, exactness of the elimination, and that the eliminated    *)
(* and the transported intersection span the same subspace.                 *)
(***************************************************************************)
EXTENDS FormOps, Json

CONSTANTS M,        \* dimension of the ambient vector space (2..6)
          P, Q,     \* dimensions of the subspaces in As and in Bs (P + Q > M)
          MaxLen

VARIABLES As, Bs, W, len, last

KDim == P + Q - M
ASSUME P <= M /\ Q <= M /\ KDim >= 1 /\ Q < M

E(k) == TLCEval([c \in 1..M |-> IF c = k THEN 1 ELSE 0])
RECURSIVE SortedSeq(_)
SortedSeq(S) == IF S = {} THEN <<>>
                ELSE LET m == CHOOSE a \in S : \A b \in S : a <= b IN <<m>> \o SortedSeq(S \ {m})
Coord(S) == LET s == SortedSeq(S) IN TLCEval([r \in 1..Len(s) |-> E(s[r])])
KSub(S, k) == {T \in SUBSET S : Cardinality(T) = k}
RECURSIVE TakeN(_, _)
TakeN(SS, n) == IF n = 0 \/ SS = {} THEN <<>>
                ELSE LET T == CHOOSE U \in SS : TRUE IN <<T>> \o TakeN(SS \ {T}, n - 1)

\* index sets: every B misses a subset of Core, every A contains Core, so each pair covers 1..M
Core == 1..(M - Q + 1)
ASets == TakeN({T \in KSub(1..M, P) : Core \subseteq T}, 2)
BSets == TakeN({(1..M) \ Dd : Dd \in KSub(Core, M - Q)}, 3)
NA == Len(ASets)
NB == Len(BSets)

(***************************************************************************)
(* Fraction-free Gauss-Jordan elimination (Bareiss), the algorithm of       *)
(* FormOps!GJ with every intermediate matrix forced into tuples (TLC keeps  *)
(* [i \in S |-> e] lazy, which is exponential along a chain of pivots).     *)
(***************************************************************************)
RECURSIVE GJD(_, _, _, _, _, _)
GJD(A, r, c, prev, pc, ok) ==
  LET m == Len(A)
      nc == Len(A[1])
  IN IF r = m \/ c > nc
     THEN [A |-> A, rank |-> r, piv |-> prev, pc |-> pc, ok |-> ok]
     ELSE IF \A i \in (r + 1)..m : A[i][c] = 0
          THEN GJD(A, r, c + 1, prev, pc, ok)
          ELSE LET i0 == CHOOSE i \in (r + 1)..m : A[i][c] # 0 /\ \A k \in (r + 1)..(i - 1) : A[k][c] = 0
                   B == TLCEval(SwapRows(A, r + 1, i0))
                   p == B[r + 1][c]
                   small == \A i \in 1..m : \A j \in 1..nc : Abs(B[i][j]) <= GBnd
                   C == TLCEval([i \in 1..m |-> IF i = r + 1 THEN B[i]
                                   ELSE TLCEval([j \in 1..nc |-> (p * B[i][j] - B[i][c] * B[r + 1][j]) \div prev])])
                   exact == \A i \in 1..m : i # r + 1 =>
                               \A j \in 1..nc : (p * B[i][j] - B[i][c] * B[r + 1][j]) % Abs(prev) = 0
               IN IF ~small THEN [A |-> A, rank |-> r, piv |-> prev, pc |-> pc, ok |-> FALSE]
                  ELSE GJD(C, r + 1, c + 1, p, Append(pc, c), ok /\ exact)
ElimD(A) == GJD(A, 0, 1, 1, <<>>, TRUE)
RankD(A) == ElimD(A).rank
\* integer basis of {x : A x = 0}: one vector per free column
KernelD(A) ==
  LET e == ElimD(A)
      nc == Len(A[1])
      pcs == {e.pc[i] : i \in 1..e.rank}
      free == {f \in 1..nc : f \notin pcs}
      rowOf(c) == CHOOSE i \in 1..e.rank : e.pc[i] = c
  IN {TLCEval([c \in 1..nc |-> IF c = f THEN e.piv
                                ELSE IF c \in pcs THEN 0 - e.A[rowOf(c)][f] ELSE 0]) : f \in free}

(***************************************************************************)
(* Exact intersection by elimination                                       *)
(***************************************************************************)
\* all c with  sum_r c[r] * S[r] = 0  for the stacked spanning sets S = A \o B;
\* the first P coefficients of c give a vector of A that also lies in B
TDeep(A) == TLCEval([j \in 1..Len(A[1]) |-> TLCEval([i \in 1..Len(A) |-> A[i][j]])])
Meet(A, B) ==
  LET S == A \o B
      ker == SetSeq(KernelD(TDeep(S)))
  IN TLCEval([n \in 1..Len(ker) |-> TLCEval(Prim(VecMat(SubSeq(ker[n], 1, Len(A)), A)))])
MeetOk(A, B) == ElimD(TDeep(A \o B)).ok

(***************************************************************************)
(* The machine                                                             *)
(***************************************************************************)
\* (TLCEval at every level: TLC keeps [i \in S |-> e] lazy and would re-evaluate chains of operations)
ShearVec(v, i, j, s) == TLCEval([c \in 1..M |-> IF c = j THEN v[c] + s * v[i] ELSE v[c]])
ShearMat(A, i, j, s) == TLCEval([r \in 1..Len(A) |-> ShearVec(A[r], i, j, s)])
\* the initial frame: a fixed product of unimodular shears applied to the coordinate subspaces
Frame0 == [n \in 1..(2 * M) |-> IF n <= M THEN <<n, (n % M) + 1, 1>>
                                ELSE <<((n - M) % M) + 1, n - M, IF n % 2 = 0 THEN 0 - 1 ELSE 2>>]
RECURSIVE Scramble(_, _)
Scramble(A, n) == IF n > Len(Frame0) THEN A
                  ELSE Scramble(ShearMat(A, Frame0[n][1], Frame0[n][2], Frame0[n][3]), n + 1)

Init == /\ As = [i \in 1..NA |-> Scramble(Coord(ASets[i]), 1)]
        /\ Bs = [j \in 1..NB |-> Scramble(Coord(BSets[j]), 1)]
        /\ W = [i \in 1..NA |-> [j \in 1..NB |-> Scramble(Coord(ASets[i] \cap BSets[j]), 1)]]
        /\ len = 0 /\ last = [a |-> "init"]
RowOp(A, r1, r2, s) == TLCEval([r \in 1..Len(A) |-> IF r = r1 THEN TLCEval(VAdd(A[r], VScale(s, A[r2]))) ELSE A[r]])
RowScale(A, r1, s) == TLCEval([r \in 1..Len(A) |-> IF r = r1 THEN TLCEval(VScale(s, A[r])) ELSE A[r]])

AmbientOps == {<<i, (i % M) + 1, 1>> : i \in 1..M} \cup {<<(i % M) + 1, i, 0 - 1>> : i \in 1..M}
MixOps(n) == IF n >= 2 THEN {<<"op", 1, 2, 1>>, <<"op", n, 1, 0 - 1>>, <<"scale", 1, 0, 0 - 2>>}
             ELSE {<<"scale", 1, 0, 0 - 2>>}
Mix(A, o) == IF o[1] = "op" THEN RowOp(A, o[2], o[3], o[4]) ELSE RowScale(A, o[2], o[4])

Ambient(o) == /\ len < MaxLen
              /\ As' = [i \in 1..NA |-> ShearMat(As[i], o[1], o[2], o[3])]
              /\ Bs' = [j \in 1..NB |-> ShearMat(Bs[j], o[1], o[2], o[3])]
              /\ W' = [i \in 1..NA |-> [j \in 1..NB |-> ShearMat(W[i][j], o[1], o[2], o[3])]]
              /\ len' = len + 1 /\ last' = [a |-> "ambient", op |-> o]
MixA(o) == /\ len < MaxLen
           /\ As' = [i \in 1..NA |-> Mix(As[i], o)] /\ UNCHANGED <<Bs, W>>
           /\ len' = len + 1 /\ last' = [a |-> "mixA", op |-> o]
MixB(o) == /\ len < MaxLen
           /\ Bs' = [j \in 1..NB |-> Mix(Bs[j], o)] /\ UNCHANGED <<As, W>>
           /\ len' = len + 1 /\ last' = [a |-> "mixB", op |-> o]
Next == \/ \E o \in AmbientOps : Ambient(o)
        \/ \E o \in MixOps(P) : MixA(o)
        \/ \E o \in MixOps(Q) : MixB(o)

(***************************************************************************)
(* What TLC checks                                                         *)
(***************************************************************************)
Pairs == (1..NA) \X (1..NB)
\* the table of eliminated intersections, computed once per state
Table == TLCEval([i \in 1..NA |-> TLCEval([j \in 1..NB |-> Meet(As[i], Bs[j])])])
ElimExact == \A ij \in Pairs : MeetOk(As[ij[1]], Bs[ij[2]])
SpanningSets == /\ \A i \in 1..NA : RankD(As[i]) = P
                /\ \A j \in 1..NB : RankD(Bs[j]) = Q
Transverse == \A ij \in Pairs : RankD(As[ij[1]] \o Bs[ij[2]]) = M
DimFormula(T) == \A ij \in Pairs : Len(T[ij[1]][ij[2]]) = KDim /\ RankD(T[ij[1]][ij[2]]) = KDim
InBoth(T) == \A ij \in Pairs : \A n \in 1..KDim :
               LET w == T[ij[1]][ij[2]][n]
               IN RankD(Append(As[ij[1]], w)) = P /\ RankD(Append(Bs[ij[2]], w)) = Q
TrackedAgrees(T) == \A ij \in Pairs : /\ RankD(W[ij[1]][ij[2]]) = KDim
                                      /\ RankD(W[ij[1]][ij[2]] \o T[ij[1]][ij[2]]) = KDim
Obs(T) == [m |-> M, p |-> P, q |-> Q, k |-> KDim, len |-> len, As |-> As, Bs |-> Bs, meet |-> T]
\* the three laws of the intersection table; the record is printed only when they hold
MeetLaws == LET T == Table
            IN DimFormula(T) /\ InBoth(T) /\ TrackedAgrees(T) /\ PrintT("OBS " \o ToJson(Obs(T)))
View == <<As, Bs, W, len>>
=============================================================================
