------------------------------ MODULE ProjData ------------------------------
(***************************************************************************)
(* Extension check X05: validation of the data handed to a                  *)
(* projective.ProjectiveObject, and the automatic choice of an affine       *)
(* chart.  CONTRACT (class docstring of ProjectiveObject, the messages of   *)
(* the _assert_* methods, docstring of affine_coords):                      *)
(*  - an object is declared with unit_ndims / aux_ndims / dual_ndims: the   *)
(*    number of trailing axes of one unit of primary / auxiliary / dual     *)
(*    data.  set(proj_data, aux_data, dual_data) accepts the data iff the   *)
(*    primary array has at least unit_ndims axes and every kind of data     *)
(*    the object is declared to carry (ndims > 0) is given as an array      *)
(*    with at least that many axes; anything else is refused with           *)
(*    GeometryError and leaves the object as it was (validation precedes    *)
(*    assignment).  Data of a kind the object is not declared to carry      *)
(*    (ndims = 0) is ignored and stored as None.                            *)
(*  - _assert_data_consistent (not called by the library itself) accepts    *)
(*    exactly the triples whose composite shapes - the shape without the    *)
(*    unit axes - agree, and refuses the others with GeometryError.         *)
(*  - affine_coords(points, chart_index=None) returns (coordinates, k) for  *)
(*    a standard chart k containing ALL the points, and raises              *)
(*    GeometryError iff no standard chart contains them all.                *)
(*                                                                         *)
(* State machine: an object with fixed declaration (u, a, d) and stored     *)
(* shapes; Set(p, x, y) with shapes drawn from a pool (0 = None).           *)
(* TLC checks that a refused Set changes nothing and that stored data is    *)
(* always valid.                                                            *)
(***************************************************************************)
EXTENDS Integers, Sequences, FiniteSets, TLC, Json

CONSTANTS U, A, D,     \* declaration: unit_ndims >= 1, aux_ndims, dual_ndims >= 0
          MaxLen

VARIABLES stored, len, last

None == <<0>>                 \* (no array: an extent 0 does not occur in the pool)
\* shapes of the pool (None, rank 1, 2, 3 arrays with small extents; same composite shape 2 or 3 in front)
Shapes == {None, <<3>>, <<2, 3>>, <<3, 3>>, <<2, 2, 3>>}
Rank(s) == IF s = None THEN 0 - 1 ELSE Len(s)
ValidPrimary(p) == p # None /\ Rank(p) >= U
ValidKind(x, nd) == nd = 0 \/ (x # None /\ Rank(x) >= nd)
Accepts(p, x, y) == ValidPrimary(p) /\ ValidKind(x, A) /\ ValidKind(y, D)
\* which clause refuses first (the library validates primary, dual, auxiliary in this order)
Refusal(p, x, y) == IF ~ValidPrimary(p) THEN "primary" ELSE IF ~ValidKind(y, D) THEN "dual" ELSE IF ~ValidKind(x, A) THEN "aux" ELSE "none"
Keep(x, nd) == IF nd = 0 THEN None ELSE x
Composite(s, nd) == SubSeq(s, 1, Len(s) - nd)
Consistent(p, x, y) ==
  LET cs == (IF p # None THEN {Composite(p, U)} ELSE {}) \cup (IF x # None /\ A > 0 THEN {Composite(x, A)} ELSE {})
            \cup (IF y # None /\ D > 0 THEN {Composite(y, D)} ELSE {})
  IN Cardinality(cs) <= 1

Init == stored = <<None, None, None>> /\ len = 0 /\ last = [a |-> "new"]
Set(p, x, y) == /\ len < MaxLen /\ len' = len + 1
                /\ stored' = IF Accepts(p, x, y) THEN <<p, Keep(x, A), Keep(y, D)>> ELSE stored
                /\ last' = [a |-> "set", p |-> p, x |-> x, y |-> y, accepted |-> Accepts(p, x, y), refusal |-> Refusal(p, x, y),
                            consistent |-> Consistent(p, x, y)]
Next == \E p, x, y \in Shapes : Set(p, x, y)

StoredValid == len = 0 \/ stored = <<None, None, None>> \/ Accepts(stored[1], stored[2], stored[3])
Emit == PrintT("EMIT " \o ToJson([from |-> stored, act |-> last', to |-> stored']))
View == <<stored, len>>

(***************************************************************************)
(* Automatic chart: integer point sets in P^2 / P^3                         *)
(***************************************************************************)
PointSets == {<<<<1, 2, 0>>, <<3, 1, 2>>>>, <<<<1, 0, 0>>, <<0, 1, 0>>, <<0, 0, 1>>>>, <<<<0, 2, 1>>, <<0, 0 - 1, 3>>>>,
              <<<<2, 0, 1>>, <<0 - 1, 1, 0>>>>, <<<<0, 0, 5>>>>, <<<<1, 1, 0, 2>>, <<0, 3, 0, 0 - 1>>, <<2, 1, 1, 4>>>>,
              <<<<0, 1, 1, 0>>, <<1, 0, 0, 1>>>>}
GoodCharts(ps) == {k \in 0..(Len(ps[1]) - 1) : \A i \in 1..Len(ps) : ps[i][k + 1] # 0}
ASSUME \E ps \in PointSets : GoodCharts(ps) = {}
ASSUME \E ps \in PointSets : Cardinality(GoodCharts(ps)) >= 2
ASSUME PrintT("TAB " \o ToJson([charts |-> {[pts |-> ps, good |-> GoodCharts(ps)] : ps \in PointSets}]))
=============================================================================
