----------------------------- MODULE CoxeterWalk -----------------------------
(***************************************************************************)
(* Property C07 (and the graph used by C08): the Cayley graph of a Coxeter *)
(* group as a transition system, with Tits' solution of the word problem   *)
(* as oracle.  Nothing here knows about roots, bilinear forms or floating  *)
(* point.                                                                  *)
(*                                                                         *)
(* A Coxeter matrix is a tuple of tuples of naturals, 1 on the diagonal,   *)
(* 0 = infinity.  Generators are 1..Rank.  A state is a group element of   *)
(* the chosen matrix, represented by its BRAID CLASS `cls`: the set of all *)
(* reduced expressions of the element.  (Tits / Matsumoto: two reduced     *)
(* words denote the same element iff braid moves connect them; a word is   *)
(* not reduced iff braid moves produce a word with a square ss.)           *)
(*                                                                         *)
(*   Step(g): right multiplication by the generator g                      *)
(*     going up   (no reduced expression ends in g):                       *)
(*                cls' = BraidClosure({u.g : u \in cls})                   *)
(*     going down (some reduced expression u.g \in cls):                   *)
(*                cls' = BraidClosure({u})                                 *)
(*                                                                         *)
(* Checked by TLC on every explored transition (Assert inside Step):       *)
(*   Exchange   : the braid closure of {u.g} contains a square iff some    *)
(*                reduced expression of the element ends in g              *)
(*   Matsumoto  : all words u with u.g \in cls are in ONE braid class      *)
(*   Complete   : the reduced expressions of e.g that end in g are exactly *)
(*                the u.g with u \in cls (so cls was the whole class and   *)
(*                Step(g) is an involution)                                *)
(* and, on constants (ASSUME), the growth series of A2, B2, A3, the        *)
(* infinite dihedral group, Z2*Z2*Z2 and the affine group A~2.             *)
(***************************************************************************)
EXTENDS Naturals, Integers, Sequences, FiniteSets, TLC, Json

CONSTANTS Mats,   \* sequence of Coxeter matrices
          Rad     \* sequence of radii: the ball of radius Rad[i] of Mats[i] is explored

VARIABLES mi,     \* index of the Coxeter matrix
          cm,     \* the Coxeter matrix Mats[mi] itself (constant along a behaviour)
          rad,    \* Rad[mi]
          cls,    \* braid class of the current element
          last    \* generator of the last step (hidden by VIEW)

(***************************************************************************)
(* Words and braid moves                                                   *)
(***************************************************************************)
Rank(M) == Len(M)
Gens(M) == 1..Len(M)

WellFormed(M) == /\ \A i \in Gens(M) : Len(M[i]) = Len(M) /\ M[i][i] = 1
                 /\ \A i, j \in Gens(M) : M[i][j] = M[j][i] /\ (i # j => M[i][j] # 1)

HasSquare(w) == \E p \in 1..(Len(w) - 1) : w[p] = w[p + 1]

\* positions p .. p+m-1 of w alternate between w[p] and w[p+1]
IsAlt(w, p, m) == \A k \in 0..(m - 1) : w[p + k] = w[p + (k % 2)]
\* exchange the two letters on that stretch: (i j i ...) -> (j i j ...)
Flip(w, p, m) == [k \in 1..Len(w) |-> IF k >= p /\ k < p + m THEN w[p + ((k - p + 1) % 2)] ELSE w[k]]

BraidNbrs(M, w) ==
  {Flip(w, p, M[w[p]][w[p + 1]]) :
     p \in {q \in 1..(Len(w) - 1) : /\ w[q] # w[q + 1]
                                    /\ M[w[q]][w[q + 1]] >= 2
                                    /\ q + M[w[q]][w[q + 1]] - 1 <= Len(w)
                                    /\ IsAlt(w, q, M[w[q]][w[q + 1]])}}

RECURSIVE Close(_, _, _)
Close(M, S, F) == IF F = {} THEN S
                  ELSE LET N == (UNION {BraidNbrs(M, w) : w \in F}) \ S
                       IN Close(M, S \cup N, N)
BraidClosure(M, S) == Close(M, S, S)

\* lexicographic order induced by the order of the generators (equal lengths)
LexLess(u, v) == \E k \in 1..Len(u) : u[k] < v[k] /\ \A j \in 1..(k - 1) : u[j] = v[j]
LexMin(S) == CHOOSE u \in S : \A v \in S : u = v \/ LexLess(u, v)

WordLen(c) == Len(CHOOSE u \in c : TRUE)
Descents(c) == {u[Len(u)] : u \in {v \in c : Len(v) > 0}}

\* the canonical name of an element: its shortlex normal form
ElementId(c) == LexMin(c)

(***************************************************************************)
(* The Cayley graph                                                        *)
(***************************************************************************)
Up(M, c, g) == BraidClosure(M, {Append(u, g) : u \in c})
Front(u) == SubSeq(u, 1, Len(u) - 1)
EndIn(c, g) == {u \in c : Len(u) > 0 /\ u[Len(u)] = g}

\* right multiplication by g as a function on braid classes (no checks, no radius)
StepF(M, c, g) == IF EndIn(c, g) # {} THEN BraidClosure(M, {Front(CHOOSE u \in EndIn(c, g) : TRUE)})
                  ELSE Up(M, c, g)
RECURSIVE Walk(_, _, _)
Walk(M, c, w) == IF w = <<>> THEN c ELSE Walk(M, StepF(M, c, Head(w)), Tail(w))

Step(g) ==
  LET M    == cm
      up   == Up(M, cls, g)
      down == EndIn(cls, g)
  IN /\ Assert((\E w \in up : HasSquare(w)) <=> (down # {}), <<"Exchange", M, cls, g>>)
     /\ IF down # {}
        THEN LET c == StepF(M, cls, g)
             IN /\ Assert(\A u \in down : Front(u) \in c, <<"Matsumoto", M, cls, g>>)
                /\ cls' = c
        ELSE /\ WordLen(cls) < rad
             /\ Assert({Front(u) : u \in EndIn(up, g)} = cls, <<"Complete", M, cls, g>>)
             /\ cls' = up
     /\ UNCHANGED <<mi, cm, rad>>
     /\ last' = g

Init == /\ mi \in DOMAIN Mats
        /\ cm = Mats[mi]
        /\ rad = Rad[mi]
        /\ cls = {<<>>}
        /\ last = 0

Next == \E g \in Gens(cm) : Step(g)

View == <<mi, cls>>

(***************************************************************************)
(* State invariants                                                        *)
(***************************************************************************)
TypeOK == /\ WellFormed(cm)
          /\ cls # {}
          /\ \A u \in cls : Len(u) = WordLen(cls) /\ ~HasSquare(u) /\ \A k \in 1..Len(u) : u[k] \in Gens(cm)
          /\ WordLen(cls) <= rad

\* the class is closed under braid moves
Closed == \A u \in cls : BraidNbrs(cm, u) \subseteq cls

\* an element of length n has at most n descents... and at most Rank; the identity has none
DescentsSane == /\ (WordLen(cls) = 0) <=> (Descents(cls) = {})
                /\ Cardinality(Descents(cls)) <= WordLen(cls)

(***************************************************************************)
(* The defining relations hold in the oracle, with the exact orders        *)
(* (checked at the identity of every matrix)                               *)
(***************************************************************************)
Alt(i, j, n) == [k \in 1..n |-> IF k % 2 = 1 THEN i ELSE j]
Pairs(M) == {p \in Gens(M) \X Gens(M) : p[1] # p[2]}
\* <<i, j, m>> : the relator (i j)^m, m = 1 for i = j
Relators(M) == {<<i, i, 1>> : i \in Gens(M)} \cup {<<p[1], p[2], M[p[1]][p[2]]>> : p \in {q \in Pairs(M) : M[q[1]][q[2]] > 0}}
RelatorWord(r) == IF r[1] = r[2] THEN <<r[1], r[1]>> ELSE Alt(r[1], r[2], 2 * r[3])
Id0 == {<<>>}
OrderBound == 13   \* powers of an infinite-order product checked up to here
RelationsHold ==
  cls = Id0 =>
    /\ \A r \in Relators(cm) : Walk(cm, Id0, RelatorWord(r)) = Id0
    /\ \A p \in Pairs(cm) :
         LET m == cm[p[1]][p[2]]
         IN \A k \in 1..(IF m > 0 THEN m - 1 ELSE OrderBound) : Walk(cm, Id0, Alt(p[1], p[2], 2 * k)) # Id0

(***************************************************************************)
(* Emission                                                                *)
(***************************************************************************)
\* one record per element: all its reduced expressions, its shortlex normal form, its descents
Obs == [m |-> mi, id |-> ElementId(cls), cls |-> cls, desc |-> Descents(cls)]
EmitObs == PrintT("OBS " \o ToJson(Obs))

\* one record per edge of the Cayley graph
Emit == PrintT("EMIT " \o ToJson([m |-> mi, f |-> ElementId(cls), g |-> last', t |-> ElementId(cls')]))

(***************************************************************************)
(* How a Coxeter matrix reaches the library (bound universe of the         *)
(* conformance harness).  The abstract group does not depend on any of it: *)
(*   namings   - names of the generators: letters, letter+digits, or (the  *)
(*               diagram route accepts any hashable object) small integers *)
(*   orders    - order in which the names first appear in a diagram:       *)
(*               alphabetical, reverse alphabetical, neither; the entry    *)
(*               (i, j) of the group's Coxeter matrix is the label of the  *)
(*               pair (ordered_gens[i], ordered_gens[j])                   *)
(*   histories - the group is determined when the constructor returns:     *)
(*               the caller may afterwards overwrite its own array / list  *)
(*               (e.g. with the next matrix of a sweep) and query the      *)
(*               earlier group                                             *)
(***************************************************************************)
Namings == {"alpha", "alphanum", "int"}
NameOrders == {"sorted", "reversed", "mixed"}
Histories == {"query", "edit_input_then_query"}
ASSUME PrintT("VAR " \o ToJson([namings |-> Namings, orders |-> NameOrders, histories |-> Histories]))

(***************************************************************************)
(* Growth series of known groups (constant level)                          *)
(***************************************************************************)
RECURSIVE Level(_, _)
Level(M, k) == IF k = 0 THEN {{<<>>}}
               ELSE {c \in {Up(M, b, g) : b \in Level(M, k - 1), g \in Gens(M)} : \A w \in c : ~HasSquare(w)}
Growth(M, n) == [k \in 1..(n + 1) |-> Cardinality(Level(M, k - 1))]

Dihedral(m) == <<<<1, m>>, <<m, 1>>>>
Tri(p, q, r) == <<<<1, p, r>>, <<p, 1, q>>, <<r, q, 1>>>>

ASSUME Growth(Dihedral(3), 4) = <<1, 2, 2, 1, 0>>
ASSUME Growth(Dihedral(4), 5) = <<1, 2, 2, 2, 1, 0>>
ASSUME Growth(Dihedral(0), 5) = <<1, 2, 2, 2, 2, 2>>
ASSUME Growth(Tri(3, 3, 2), 7) = <<1, 3, 5, 6, 5, 3, 1, 0>>           \* A3 = S4
ASSUME Growth(Tri(0, 0, 0), 4) = <<1, 3, 6, 12, 24>>                  \* Z2 * Z2 * Z2
ASSUME Growth(Tri(3, 3, 3), 5) = <<1, 3, 6, 9, 12, 15>>               \* affine A~2
ASSUME Growth(Tri(2, 2, 2), 4) = <<1, 3, 3, 1, 0>>                    \* (Z2)^3
=============================================================================
