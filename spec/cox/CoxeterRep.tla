------------------------------ MODULE CoxeterRep ------------------------------
(***************************************************************************)
(* Property C08: reflection representations of a Coxeter group as a        *)
(* labelling of the Cayley graph of CoxeterWalk.tla by matrices.           *)
(*                                                                         *)
(* The graph TLC explores is the ball of radius Rad in the Cayley graph    *)
(* (states = elements named by their shortlex normal form, edges = right   *)
(* multiplication by a generator).  A representation rho is a refinement:  *)
(* rho(e.g) = rho(e) rho(g) along EVERY edge, which is the closure the     *)
(* conformance harness demands of the library's float matrices.            *)
(*                                                                         *)
(* Where the Cartan matrix is integral the specification is executable:    *)
(*   s_i = I - E_ii C   (row i of s_i is e_i - C[i,.])                     *)
(* and TLC checks, in exact integer arithmetic, that this linear           *)
(* representation agrees with Tits' combinatorial solution of the word     *)
(* problem on every edge (RepClosed), is injective at the identity         *)
(* (Faithful), preserves the form C (FormPreserved) and that the dual is   *)
(* the transposed inverse (DualOK).  The exact matrices are emitted.       *)
(*                                                                         *)
(* Kinds of integral Cartan matrices (0 = infinite label):                 *)
(*   geo  labels {2,3,oo}      C = 2B: 2, 0, -1, -2       (geometric rep)  *)
(*   tvs  geo with oo          C_ij = C_ji = -(2 + (i+j) % 2) at oo pairs, *)
(*                             only (i,j), i<j handed to the library       *)
(*   tva  geo with oo          C_ij = -1, C_ji = -(4 + (i+j) % 2), i<j     *)
(*   cart labels {2,3,4,6,oo}  non-symmetric crystallographic Cartan       *)
(*                             matrix: m=4 -> (-1,-2), m=6 -> (-1,-3)      *)
(***************************************************************************)
EXTENDS CoxeterWalk

CONSTANT TriLabels   \* labels for the triangle-group table (0 = infinity)

(***************************************************************************)
(* Integer matrices                                                        *)
(***************************************************************************)

\* ranks are at most 5; written without recursion so that TLC evaluates each product once
Dot(X, Y, i, j) == LET n == Len(X)
                       T(k) == IF k <= n THEN X[i][k] * Y[k][j] ELSE 0
                   IN T(1) + T(2) + T(3) + T(4) + T(5)
\* TLC keeps [i \in S |-> e] as an unevaluated closure; SubSeq turns it into an explicit tuple, so that
\* a product of k matrices costs k multiplications instead of Rank^k
Vec(f) == SubSeq(f, 1, Len(f))
Mat(f) == Vec([i \in 1..Len(f) |-> Vec(f[i])])
Mul(X, Y) == Mat([i \in 1..Len(X) |-> [j \in 1..Len(X) |-> Dot(X, Y, i, j)]])
Ident(n) == Mat([i \in 1..n |-> [j \in 1..n |-> IF i = j THEN 1 ELSE 0]])
Tr(X) == Mat([i \in 1..Len(X) |-> [j \in 1..Len(X) |-> X[j][i]]])

Minor(X, c) == [i \in 1..(Len(X) - 1) |-> [j \in 1..(Len(X) - 1) |-> X[i + 1][IF j < c THEN j ELSE j + 1]]]
RECURSIVE Det(_), DetSum(_, _)
DetSum(X, j) == IF j = 0 THEN 0
                ELSE (IF j % 2 = 1 THEN 1 ELSE 0 - 1) * X[1][j] * Det(Minor(X, j)) + DetSum(X, j - 1)
Det(X) == IF Len(X) = 1 THEN X[1][1] ELSE DetSum(X, Len(X))

(***************************************************************************)
(* Cartan matrices and reflections                                         *)
(***************************************************************************)
Kinds == {"geo", "tvs", "tva", "cart"}
Labels(M) == {M[p[1]][p[2]] : p \in Pairs(M)}

Applicable(M, k) ==
  CASE k = "geo"  -> Labels(M) \subseteq {2, 3, 0}
    [] k = "tvs"  -> Labels(M) \subseteq {2, 3, 0} /\ 0 \in Labels(M)
    [] k = "tva"  -> Labels(M) \subseteq {2, 3, 0} /\ 0 \in Labels(M)
    [] k = "cart" -> Labels(M) \subseteq {2, 3, 4, 6, 0} /\ Labels(M) \cap {4, 6} # {}
KindsOf(M) == {k \in Kinds : Applicable(M, k)}

Entry(k, m, i, j) ==
  CASE m = 1 -> 2
    [] m = 2 -> 0
    [] m = 3 -> 0 - 1
    [] m = 4 -> (IF i < j THEN 0 - 1 ELSE 0 - 2)
    [] m = 6 -> (IF i < j THEN 0 - 1 ELSE 0 - 3)
    [] m = 0 -> (CASE k = "tvs" -> 0 - (2 + ((i + j) % 2))
                   [] k = "tva" -> (IF i < j THEN 0 - 1 ELSE 0 - (4 + ((i + j) % 2)))
                   [] OTHER -> 0 - 2)
CartanOf(M, k) == Mat([i \in Gens(M) |-> [j \in Gens(M) |-> Entry(k, M[i][j], i, j)]])

\* the free parameters as handed to CoxeterGroup.cartan_matrix: <<i, j, value>> (1-based)
ParamsOf(M, k) ==
  LET C == CartanOf(M, k)
  IN {<<p[1], p[2], C[p[1]][p[2]]>> :
        p \in {q \in Pairs(M) : M[q[1]][q[2]] = 0 /\ (k = "tva" \/ q[1] < q[2])}}

Refl(C, i) == Mat([r \in 1..Len(C) |-> [c \in 1..Len(C) |->
                 (IF r = c THEN 1 ELSE 0) - (IF r = i THEN C[i][c] ELSE 0)]])

\* image of a word: product of the generators from left to right
RECURSIVE EvalK(_, _, _), EvalTK(_, _, _)
EvalK(C, w, k) == IF k = 0 THEN Ident(Len(C)) ELSE Mul(EvalK(C, w, k - 1), Refl(C, w[k]))
Eval(C, w) == EvalK(C, w, Len(w))
\* the dual (contragredient): generators are involutions, so g |-> transpose(g)
EvalTK(C, w, k) == IF k = 0 THEN Ident(Len(C)) ELSE Mul(EvalTK(C, w, k - 1), Tr(Refl(C, w[k])))
EvalT(C, w) == EvalTK(C, w, Len(w))

Symmetric(C) == C = Tr(C)

(***************************************************************************)
(* Checked on every element / edge of the ball                             *)
(***************************************************************************)
\* the image is the identity matrix only at the identity element
Faithful(X) == (X = Ident(Rank(cm))) <=> (cls = Id0)
\* X^T C X = C for a symmetric Cartan matrix C = 2B
FormPreserved(C, X) == Symmetric(C) => Mul(Tr(X), Mul(C, X)) = C
\* the dual representation is the transposed inverse
DualOK(X, XT) == Mul(Tr(XT), X) = Ident(Rank(cm))

\* INVARIANT: the three laws on the exact image of every element, for every integral kind
RepInv ==
  LET id == ElementId(cls)
  IN \A k \in KindsOf(cm) :
       LET C  == CartanOf(cm, k)
           X  == Eval(C, id)
           XT == EvalT(C, id)
       IN /\ Assert(Faithful(X), <<"Faithful", cm, k, id>>)
          /\ Assert(FormPreserved(C, X), <<"FormPreserved", cm, k, id>>)
          /\ Assert(DualOK(X, XT), <<"DualOK", cm, k, id>>)

\* ACTION_CONSTRAINT: the linear representation closes up along every edge of the Cayley graph,
\* i.e. it agrees with Tits' solution of the word problem
RepClosed ==
  LET idf == ElementId(cls)
      idt == ElementId(cls')
  IN \A k \in KindsOf(cm) :
       LET C == CartanOf(cm, k)
       IN Assert(Mul(Eval(C, idf), Refl(C, last')) = Eval(C, idt), <<"RepClosed", cm, k, idf, last'>>)

(***************************************************************************)
(* Signature of the cosine form, where integers decide it                  *)
(***************************************************************************)
\* compare sum of 1/x over a set-with-multiplicity (sequence) of finite labels with 1
RECURSIVE SumInv(_, _)
SumInv(seq, k) == IF k = 0 THEN <<0, 1>>
                  ELSE LET s == SumInv(seq, k - 1) IN <<s[1] * seq[k] + s[2], s[2] * seq[k]>>
FiniteOf(seq) == SelectSeq(seq, LAMBDA x : x > 0)
TriType(p, q, r) ==
  LET f == FiniteOf(<<p, q, r>>)
      s == SumInv(f, Len(f))
  IN IF s[1] > s[2] THEN "spherical" ELSE IF s[1] = s[2] THEN "affine" ELSE "hyperbolic"

SubTri(M, S) == LET a == CHOOSE x \in S : \A y \in S : x <= y
                    c == CHOOSE x \in S : \A y \in S : x >= y
                    b == CHOOSE x \in S : x # a /\ x # c
                IN TriType(M[a][b], M[b][c], M[a][c])
\* a positive definite standard subgroup of rank Rank - 2
HasSphericalCorank2(M) ==
  CASE Rank(M) = 4 -> \E p \in Pairs(M) : M[p[1]][p[2]] > 0
    [] Rank(M) = 5 -> \E S \in SUBSET Gens(M) : Cardinality(S) = 3 /\ SubTri(M, S) = "spherical"
    [] OTHER -> FALSE

\* "spherical" (positive definite), "affine"/"degenerate" (det = 0), "hyperbolic" (signature (d,1)),
\* "nondegenerate" (det # 0, signature not decided here), "float" (irrational cosines: not decided here)
SigType(M) ==
  CASE Rank(M) = 2 -> (IF M[1][2] > 0 THEN "spherical" ELSE "affine")
    [] Rank(M) = 3 -> TriType(M[1][2], M[2][3], M[1][3])
    [] OTHER -> IF ~Applicable(M, "geo") THEN "float"
                ELSE LET d == Det(CartanOf(M, "geo"))
                     IN IF d = 0 THEN "degenerate"
                        ELSE IF d < 0 /\ HasSphericalCorank2(M) THEN "hyperbolic"
                        ELSE "nondegenerate"

(***************************************************************************)
(* Emission                                                                *)
(***************************************************************************)
\* per element: exact images
ObsRep == LET id == ElementId(cls)
          IN [m |-> mi, id |-> id,
              reps |-> [k \in KindsOf(cm) |-> Eval(CartanOf(cm, k), id)],
              dual |-> IF Applicable(cm, "geo") THEN EvalT(CartanOf(cm, "geo"), id) ELSE <<>>]
EmitRep == PrintT("OBS " \o ToJson(ObsRep))

\* per matrix (printed at the identity): Cartan matrices, parameters, relators with orders, signature
Info == [m |-> mi, M |-> cm, sig |-> SigType(cm),
         cartan |-> [k \in KindsOf(cm) |-> CartanOf(cm, k)],
         params |-> [k \in KindsOf(cm) \cap {"tvs", "tva"} |-> ParamsOf(cm, k)],
         relators |-> Relators(cm), orderbound |-> OrderBound,
         \* tits_vinberg_rep(parameters, diagonalize=True) needs a nondegenerate symmetric Cartan matrix
         tvsdet |-> IF Applicable(cm, "tvs") THEN Det(CartanOf(cm, "tvs")) ELSE 0,
         infinite |-> {p \in Pairs(cm) : cm[p[1]][p[2]] = 0}]
EmitInfo == cls = Id0 => PrintT("INFO " \o ToJson(Info))

\* configurations of the library call
Configs == [route : {"matrix", "diagram"}, style : {"alpha", "alphanum"}, diag : BOOLEAN, inf : {"zero", "neg"}]
ASSUME PrintT("CFG " \o ToJson(Configs))
\* the diagram route documents its argument as "an iterable of tuples": the same edges handed over in
\* each of these packagings (containers and one-shot iterables) denote the same Coxeter group
DiagramContainers == {"list", "tuple", "generator", "zip", "iterator", "map"}
ASSUME PrintT("DGC " \o ToJson(DiagramContainers))
\* labels are integers; handing them over as floats with the same (integral) values denotes the same group.
\* A CoxeterGroup object is immutable: every query (bilinear_form, every representation) may be repeated
\* in any order on one object with the same result, and leaves coxeter_matrix and the caller's input alone.
LabelTypes == {"int", "float"}
ASSUME PrintT("LBT " \o ToJson(LabelTypes))

\* hyperbolic triangle groups: vertex i has interior angle pi/label, ideal iff the label is 0
HypTriples == {t \in TriLabels \X TriLabels \X TriLabels : TriType(t[1], t[2], t[3]) = "hyperbolic"}
ASSUME PrintT("TRI " \o ToJson(HypTriples))

\* sanity of the signature rules on known cases
ASSUME TriType(2, 3, 5) = "spherical" /\ TriType(2, 3, 6) = "affine" /\ TriType(2, 3, 7) = "hyperbolic"
ASSUME TriType(2, 2, 0) = "affine" /\ TriType(0, 0, 0) = "hyperbolic" /\ TriType(3, 3, 3) = "affine"
ASSUME Det(<<<<2, 0 - 1, 0>>, <<0 - 1, 2, 0 - 1>>, <<0, 0 - 1, 2>>>>) = 4       \* A3
ASSUME Det(CartanOf(<<<<1, 3, 2, 2>>, <<3, 1, 3, 2>>, <<2, 3, 1, 3>>, <<2, 2, 3, 1>>>>, "geo")) = 5   \* A4
ASSUME SigType(<<<<1, 3, 2, 3>>, <<3, 1, 3, 2>>, <<2, 3, 1, 3>>, <<3, 2, 3, 1>>>>) = "degenerate"     \* affine A~3
=============================================================================
