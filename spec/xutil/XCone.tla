-------------------------------- MODULE XCone --------------------------------
(***************************************************************************)
(* Extension X06, part 3: utils.find_positive_functional.                  *)
(*                                                                         *)
(* CONTRACT (docstring + the caller ConvexPolygon._convexify, which stores *)
(* the result as the polygon's dual vector): for an array of shape         *)
(* (..., k, n) -- k vectors of R^n per unit -- the result has shape        *)
(* (..., n) and each functional f is of Euclidean norm 1 and pairs         *)
(* STRICTLY positively with the k vectors of its unit (they lie in the     *)
(* open half-space f > 0).  The docstring is silent about vectors that lie *)
(* in no open half-space; the code returns None for the WHOLE array as     *)
(* soon as one unit has no positive functional, and that is what is        *)
(* specified here (a caller can test the result against None).             *)
(*                                                                         *)
(* A behaviour adds integer vectors one at a time.  Each state is decided  *)
(* exactly, by a certificate either way (Gordan's alternative):            *)
(*   Feasible   : a small integer f with f.v > 0 for all v,                *)
(*   Infeasible : non-negative integers c, not all 0, with sum c_i v_i = 0.*)
(* TLC checks that the two never hold together, that feasibility is        *)
(* antitone along a behaviour, and (Complete) that on the configured       *)
(* universe every state is decided by the bounded certificates.            *)
(***************************************************************************)
EXTENDS FormOps, Json

CONSTANTS N,         \* dimension
          Rng,       \* vectors have entries in -Rng..Rng
          MaxVecs,   \* vectors per unit
          FK,        \* functionals searched in [-FK, FK]^N
          CK         \* Gordan coefficients searched in 0..CK

VARIABLES vs, hist   \* the vectors; the feasibility flag after each step

Pool == {v \in Box(N, Rng) : Supp(v) >= 1}
Positive(f, V) == \A i \in 1..Len(V) : Dot(f, V[i]) > 0
Feasible(V) == \E f \in Box(N, FK) : Positive(f, V)
Witness(V) == CHOOSE f \in Box(N, FK) : Positive(f, V)
Comb(c, V) == [k \in 1..N |-> ISum([i \in 1..Len(V) |-> c[i] * V[i][k]])]
Gordan(V) == \E c \in [1..Len(V) -> 0..CK] : (\E i \in 1..Len(V) : c[i] > 0) /\ Comb(c, V) = ZeroVec(N)

Init == vs = <<>> /\ hist = <<>>
Add(v) == /\ Len(vs) < MaxVecs
          /\ vs' = Append(vs, v)
          /\ hist' = Append(hist, Feasible(Append(vs, v)))
Next == \E v \in Pool : Add(v)

Feas == vs # <<>> /\ hist[Len(hist)]
Exclusive == vs # <<>> => ~(Feas /\ Gordan(vs))
Complete == vs # <<>> => (Feas \/ Gordan(vs))
Antitone == \A i \in 1..(Len(hist) - 1) : hist[i + 1] => hist[i]
\* scaling vectors by positive integers, or repeating one, changes nothing
ScaleFree == vs # <<>> => Feasible([i \in 1..Len(vs) |-> VScale(i, vs[i])]) = Feas
WitnessWorks == Feas => Positive(Witness(vs), vs)

Obs == [n |-> N, vs |-> vs, feasible |-> Feas, decided |-> (Feas \/ Gordan(vs)),
        witness |-> IF Feas THEN Witness(vs) ELSE <<>>]
EmitObs == vs # <<>> => PrintT("OBS " \o ToJson(Obs))
=============================================================================
