-------------------------------- MODULE XEquiv --------------------------------
(***************************************************************************)
(* Extension X06, part 7: utils.testing.assert_numpy_equivalent, the       *)
(* helper the repository's own tests use to compare projective objects.    *)
(*                                                                         *)
(* CONTRACT (no docstring; read off its use in testing/test_projective.py  *)
(* and test_hyperbolic.py, where it decides whether two construction       *)
(* routes gave "the same" object): it returns silently iff the two objects *)
(* have the same dtype, the same composite shape, the same unit / aux /    *)
(* dual ranks, the same optional stores present, and every store agrees    *)
(* entrywise in the sense of np.allclose(first, second):                   *)
(*      |x - y| <= 1e-8 + 1e-5 |y| ;                                       *)
(* otherwise it raises AssertionError.  It compares representatives, not   *)
(* projective classes: a rescaled copy is NOT equivalent.                  *)
(*                                                                         *)
(* An abstract object is [dtype, shape, und, proj, aux, dual] with integer *)
(* data; a case is a base object and one edit of a copy.  Perturbations    *)
(* are 10^-k and everything is compared in units of 10^-10, exactly.       *)
(***************************************************************************)
EXTENDS FormOps, Json

CONSTANTS NU,        \* number of units of the base object
          NC         \* coordinates per unit

VARIABLES hasAux, hasDual, base, ed

None == <<"none">>
Data(s) == [i \in 1..NU |-> [c \in 1..NC |-> ((i * (c + s) + s * c) % 7) - 2]]      \* small integers, zeros included
BaseObj == [dtype |-> "float64", shape |-> <<NU>>, und |-> 1,
            proj |-> Data(base), aux |-> IF hasAux THEN Data(base + 1) ELSE None,
            dual |-> IF hasDual THEN Data(base + 2) ELSE None]

Stores == {"proj"} \cup (IF hasAux THEN {"aux"} ELSE {}) \cup (IF hasDual THEN {"dual"} ELSE {})
Ks == {3, 6, 7, 9, 10}
Edits == {[t |-> "same"]}
         \cup {[t |-> "add", store |-> s, i |-> i, c |-> c, k |-> k] : s \in Stores, i \in 1..NU, c \in 1..NC, k \in Ks}
         \cup {[t |-> "scale2", store |-> s] : s \in Stores}
         \cup {[t |-> "dtype", to |-> x] : x \in {"int64", "float32", "complex128"}}
         \cup {[t |-> "drop_unit"], [t |-> "grid"], [t |-> "pairs"]}
         \cup {[t |-> "remove", store |-> s] : s \in Stores \ {"proj"}}

Init == hasAux \in BOOLEAN /\ hasDual \in BOOLEAN /\ base \in 0..2 /\ ed \in Edits
Next == UNCHANGED <<hasAux, hasDual, base, ed>>

RECURSIVE Pow10(_)
Pow10(k) == IF k = 0 THEN 1 ELSE 10 * Pow10(k - 1)
\* |x - y| <= atol + rtol |y| for y = a + 10^-k, in units of 10^-10 (the term rtol * 10^-k is below the margins)
CloseAdd(a, k) == Pow10(10 - k) < 100 + 100000 * Abs(a)
StoreOf(o, s) == IF s = "proj" THEN o.proj ELSE IF s = "aux" THEN o.aux ELSE o.dual

\* does the edited copy still count as the same object?
Accept ==
  CASE ed.t = "same" -> TRUE
    [] ed.t = "add" -> CloseAdd(StoreOf(BaseObj, ed.store)[ed.i][ed.c], ed.k)
    [] ed.t = "scale2" -> \A i \in 1..NU : \A c \in 1..NC : StoreOf(BaseObj, ed.store)[i][c] = 0
    [] ed.t = "dtype" -> FALSE          \* same values, other dtype
    [] ed.t = "drop_unit" -> FALSE      \* shape (NU-1,)
    [] ed.t = "grid" -> FALSE           \* shape (2, NU/2) instead of (NU,)
    [] ed.t = "pairs" -> FALSE          \* units of rank 2: shape (NU/2,), unit_ndims 2
    [] ed.t = "remove" -> FALSE         \* an optional store missing on one side

Reflexive == ed.t = "same" => Accept
\* a larger perturbation is never accepted when a smaller one is rejected
MonotoneInK == ed.t = "add" => \A k2 \in Ks : (k2 > ed.k /\ Accept) => CloseAdd(StoreOf(BaseObj, ed.store)[ed.i][ed.c], k2)
\* absolute tolerance at zero entries, relative elsewhere
ZeroEntries == ed.t = "add" /\ StoreOf(BaseObj, ed.store)[ed.i][ed.c] = 0 => (Accept <=> ed.k >= 9)
NonZeroEntries == ed.t = "add" /\ StoreOf(BaseObj, ed.store)[ed.i][ed.c] # 0 => (Accept <=> ed.k >= 6)

Obs == [nu |-> NU, nc |-> NC, obj |-> BaseObj, edit |-> ed, accept |-> Accept]
EmitObs == PrintT("OBS " \o ToJson(Obs))
=============================================================================
