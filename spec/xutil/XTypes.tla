-------------------------------- MODULE XTypes --------------------------------
(***************************************************************************)
(* Extension X06, part 6: the number-packaging helpers of utils.core and   *)
(* utils.types as they behave WITHOUT Sage (Sage is not installed; every   *)
(* Sage branch is out of scope).                                           *)
(*                                                                         *)
(* CONTRACT (none of these has a docstring; this is what the callers --    *)
(* zeros / ones / identity / array_like / number(1, like=...) /            *)
(* pi(like=...) all over hyperbolic.py, lie/core.py, coxeter.py -- rely    *)
(* on).  A dtype is abstracted to its kind; NumPy's safe-casting lattice   *)
(* (np.can_cast) is part of the trusted base and written down in ToInt /   *)
(* ToFloat / ToComplex (the harness asserts NumPy agrees).                 *)
(*  check_type(dtype=d, like=l, integer_type=it) -> (None, result):        *)
(*     the explicit dtype if given, else the dtype of an array `like`,     *)
(*     else object for a non-numeric Python `like`, else float64; and if   *)
(*     integer_type is False an integer-like result (castable to int:      *)
(*     bool, signed/unsigned ints below 64 bits, int64) becomes float64.   *)
(*     A base_ring raises EnvironmentError.                                *)
(*  zeros / ones / identity(shape, dtype, like, integer_type=True) are     *)
(*     NumPy's arrays of that result dtype; array_like(a, like, dtype,     *)
(*     integer_type=False) is np.array(a) in that dtype.                   *)
(*  number(val, like, dtype, base_ring): a Python scalar equal to val cast *)
(*     to dtype (val itself if dtype is None; `like` alone changes nothing *)
(*     without Sage); like together with dtype, or any base_ring, is       *)
(*     refused with UserWarning (raised, not warned).                      *)
(*  pi(...) = pi, unit_imag(...) = 1j, guess_literal_ring(x) = None,       *)
(*  change_base_ring(a, None) is a itself; with a ring -> EnvironmentError.*)
(*  power / cos / sin / conjugate accept like= / dtype= / base_ring= and   *)
(*     ignore them: they are NumPy's functions.                            *)
(*  types.is_linalg_type(x): x is numeric (bool, int, float, complex);     *)
(*  types.inexact_type(x): x is floating or complex.  (uint64 is outside   *)
(*     the domain: NumPy does not cast it safely to int64, so the          *)
(*     library's formula calls it inexact.)                                *)
(***************************************************************************)
EXTENDS FormOps, Json

VARIABLES fam, d, l, it, v, w

Kinds == {"bool", "int8", "int64", "uint8", "float32", "float64", "complex64", "complex128", "object", "str"}
ToInt == {"bool", "int8", "int64", "uint8"}                                       \* np.can_cast(k, int)
ToFloat == ToInt \cup {"float32", "float64"}                                      \* np.can_cast(k, float)
ToComplex == ToFloat \cup {"complex64", "complex128"}                             \* np.can_cast(k, complex)
FloatKinds == {"float32", "float64"}
ComplexKinds == {"complex64", "complex128"}

\* `like` arguments: nothing, an array of a kind, or a Python object
PyLikes == {"py:int", "py:float", "py:complex", "py:bool", "py:str", "py:list_int", "py:list_float", "py:object"}
PyKind(x) == CASE x = "py:int" -> "int64" [] x = "py:float" -> "float64" [] x = "py:complex" -> "complex128"
               [] x = "py:bool" -> "bool" [] x = "py:str" -> "str" [] x = "py:list_int" -> "int64"
               [] x = "py:list_float" -> "float64" [] x = "py:object" -> "object"
ArrLikes == {"arr:" \o k : k \in Kinds}
ArrKind(x) == CHOOSE k \in Kinds : x = "arr:" \o k
Likes == {"none"} \cup ArrLikes \cup PyLikes
DArgs == {"none"} \cup Kinds

IsLinalg(k) == k \in ToComplex \/ k \in ToFloat                  \* the library's formula
IsInexact(k) == k \notin ToInt /\ (k \in ToComplex \/ k \in ToFloat)

Base(dd, ll) == IF dd # "none" THEN dd
                ELSE IF ll \in ArrLikes THEN ArrKind(ll)
                ELSE IF ll \in PyLikes /\ ~IsLinalg(PyKind(ll)) THEN "object"
                ELSE "float64"
CheckType(dd, ll, itype) == IF ~itype /\ Base(dd, ll) \in ToInt THEN "float64" ELSE Base(dd, ll)

\* values for number(): rationals; casting to an integer kind truncates toward zero
Vals == <<R(1, 1), R(2, 1), R(1, 2), R(0 - 3, 2), R(0 - 3, 1)>>
Trunc(r) == Sgn(r[1]) * (Abs(r[1]) \div r[2])
NumKind(r, dd) == IF dd = "none" THEN (IF r[2] = 1 THEN "int" ELSE "float")
                  ELSE IF dd \in ToInt THEN "int" ELSE IF dd \in FloatKinds THEN "float" ELSE "complex"
NumValue(r, dd) == IF dd # "none" /\ dd \in ToInt THEN R(Trunc(r), 1) ELSE r

RECURSIVE IPow(_, _)
IPow(x, e) == IF e = 0 THEN 1 ELSE x * IPow(x, e - 1)
QuarterCos(k) == <<1, 0, Neg1, 0>>[(k % 4) + 1]
QuarterSin(k) == <<0, 1, 0, Neg1>>[(k % 4) + 1]

Init ==
  \/ /\ fam = "check_type" /\ d \in DArgs /\ l \in Likes /\ it \in BOOLEAN /\ v = 0 /\ w = 0
  \/ /\ fam = "kind" /\ d \in Kinds /\ l = "none" /\ it = TRUE /\ v = 0 /\ w = 0
  \/ /\ fam = "number" /\ d \in {"none", "int64", "float64", "complex128"} /\ l \in {"none", "arr:int64", "arr:float64"}
     /\ it \in BOOLEAN /\ v \in 1..Len(Vals) /\ w = 0                   \* it = TRUE: a base_ring is passed
  \/ /\ fam = "power" /\ d \in {"none", "float64"} /\ l \in {"none", "arr:int64"} /\ it = TRUE
     /\ v \in (0 - 3)..3 /\ w \in 0..4
  \/ /\ fam = "trig" /\ d = "none" /\ l \in {"none", "arr:float64"} /\ it = TRUE /\ v \in (0 - 4)..4 /\ w \in (0 - 2)..2
Next == UNCHANGED <<fam, d, l, it, v, w>>

(***************************************************************************)
(* Theorems                                                                *)
(***************************************************************************)
Lattice == ToInt \subseteq ToFloat /\ ToFloat \subseteq ToComplex /\ ToComplex \subseteq Kinds
\* the library's casting formulas say what their names say
InexactMeansFloating == \A k \in Kinds : IsInexact(k) <=> k \in FloatKinds \cup ComplexKinds
LinalgMeansNumeric == \A k \in Kinds : IsLinalg(k) <=> k \notin {"object", "str"}
CheckTypeLaws ==
  fam = "check_type" =>
    LET r == CheckType(d, l, it) IN
    /\ r \in Kinds
    /\ (~it => r \notin ToInt)                                           \* never integer-like on request
    /\ ((d # "none" /\ (it \/ d \notin ToInt)) => r = d)                 \* an explicit dtype wins
    /\ CheckType(r, l, it) = r                                           \* idempotent
    /\ (d = "none" /\ l = "none" => r = "float64")                       \* the default
    /\ CheckType(d, l, FALSE) = (IF CheckType(d, l, TRUE) \in ToInt THEN "float64" ELSE CheckType(d, l, TRUE))
NumberLaws ==
  fam = "number" =>
    LET r == Vals[v] IN
    /\ NumValue(r, "none") = r
    /\ (NumKind(r, d) = "int" => NumValue(r, d)[2] = 1)
    /\ RLeq(RAbs(NumValue(r, d)), RAbs(r))                               \* truncation is toward zero
PowerLaws == fam = "power" => \A e2 \in 0..2 : IPow(v, w + e2) = IPow(v, w) * IPow(v, e2)
TrigLaws == fam = "trig" => /\ QuarterCos(v) * QuarterCos(v) + QuarterSin(v) * QuarterSin(v) = 1
                            /\ QuarterCos(v + 1) = 0 - QuarterSin(v)
                            /\ QuarterSin(v + 1) = QuarterCos(v)

Obs ==
  CASE fam = "check_type" -> [fam |-> fam, dtype |-> d, like |-> l, integer_type |-> it, result |-> CheckType(d, l, it)]
    [] fam = "kind" -> [fam |-> fam, kind |-> d, linalg |-> IsLinalg(d), inexact |-> IsInexact(d),
                        to_int |-> d \in ToInt, to_float |-> d \in ToFloat, to_complex |-> d \in ToComplex]
    [] fam = "number" -> [fam |-> fam, val |-> Vals[v], dtype |-> d, like |-> l, base_ring |-> it,
                          raises |-> (it \/ (d # "none" /\ l # "none")),
                          value |-> NumValue(Vals[v], d), kind |-> NumKind(Vals[v], d)]
    [] fam = "power" -> [fam |-> fam, base |-> v, exp |-> w, dtype |-> d, like |-> l, value |-> IPow(v, w)]
    [] fam = "trig" -> [fam |-> fam, quarter_turns |-> v, like |-> l, cos |-> QuarterCos(v), sin |-> QuarterSin(v),
                        z |-> <<v, w>>, conj |-> <<v, 0 - w>>]
EmitObs == PrintT("OBS " \o ToJson(Obs))
=============================================================================
