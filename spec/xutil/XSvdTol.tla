------------------------------- MODULE XSvdTol -------------------------------
(***************************************************************************)
(* Extension X06, part 5: the `tolerance` parameter of svd_kernel.         *)
(*                                                                         *)
(* CONTRACT (from the code; no docstring): singular values BELOW           *)
(* `tolerance` (default 1e-8) count as zero, so the kernel dimension is    *)
(* the number of columns minus the number of singular values >= tolerance. *)
(* Exact universe: matrices whose rows are mutually orthogonal integer     *)
(* vectors r_i scaled by powers of ten 10^-e_i; the singular values are    *)
(* then exactly 10^-e_i |r_i|, and  10^-e |r| >= 10^-t  iff                *)
(* |r|^2 >= 10^(2 (e - t))  (always true for e < t).  Exact ties are       *)
(* outside the domain.  The rows that count span the row space seen by the *)
(* function; the kernel is their orthogonal complement.                    *)
(***************************************************************************)
EXTENDS FormOps, Json

CONSTANTS C,         \* number of columns
          Rng,       \* entries of the rows
          MaxRows,
          Exps,      \* exponents e_i available for the rows
          Tols       \* exponents t of the tolerance 10^-t

VARIABLES rows, es, tol

Pool == {v \in Box(C, Rng) : Supp(v) >= 1}
Init == rows = <<>> /\ es = <<>> /\ tol \in Tols
AddRow(v, e) == /\ Len(rows) < MaxRows /\ Len(rows) < C
                /\ \A i \in 1..Len(rows) : Dot(rows[i], v) = 0          \* mutually orthogonal
                /\ rows' = Append(rows, v) /\ es' = Append(es, e)
                /\ UNCHANGED tol
Next == \E v \in Pool : \E e \in Exps : AddRow(v, e)

RECURSIVE Pow10(_)
Pow10(k) == IF k = 0 THEN 1 ELSE 10 * Pow10(k - 1)
N2(i) == Dot(rows[i], rows[i])
\* 10^-e |r| compared with 10^-t  (|r|^2 < 10^8, so a gap of more than 4 decades is never bridged;
\* this also keeps the powers of ten inside 32 bits)
AboveAt(i, t) == es[i] < t \/ (es[i] - t <= 4 /\ N2(i) > Pow10(2 * (es[i] - t)))
Above(i) == AboveAt(i, tol)
Tie(i) == es[i] >= tol /\ es[i] - tol <= 4 /\ N2(i) = Pow10(2 * (es[i] - tol))
InDomain == rows # <<>> /\ \A i \in 1..Len(rows) : ~Tie(i)
Counted == {i \in 1..Len(rows) : Above(i)}
KDim == C - Cardinality(Counted)

Orthogonal == \A i, j \in 1..Len(rows) : i # j => Dot(rows[i], rows[j]) = 0
FullRowRank == rows # <<>> => RankOf(rows) = Len(rows)
\* raising the tolerance can only enlarge the kernel
Monotone == \A t2 \in Tols : t2 < tol =>
              Cardinality({i \in 1..Len(rows) : AboveAt(i, t2)}) <= Cardinality(Counted)
\* with the default tolerance and unscaled rows nothing is dropped: the kernel of the integer matrix
DefaultIsExact == (rows # <<>> /\ \A i \in 1..Len(rows) : es[i] = 0) => KDim = C - RankOf(rows)

Obs == [c |-> C, rows |-> rows, exps |-> es, tol |-> tol, indomain |-> InDomain,
        counted |-> [i \in 1..Len(rows) |-> Above(i)], dim |-> KDim]
EmitObs == rows # <<>> => PrintT("OBS " \o ToJson(Obs))
=============================================================================
