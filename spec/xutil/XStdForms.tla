------------------------------ MODULE XStdForms ------------------------------
(***************************************************************************)
(* Extension X06, part 2: the standard bilinear forms.                     *)
(*                                                                         *)
(* CONTRACT (no docstrings; callers: lie.hom.so_adjoint / sp_adjoint and   *)
(* lie.core.so_killing_form build the Lie algebras so(p,q), sp(n) from     *)
(* these matrices, so they rely on exactly this):                          *)
(*  - indefinite_form(p, q, neg_first=True) is the (p+q) x (p+q) diagonal  *)
(*    matrix whose first p diagonal entries are -1 and whose last q are +1 *)
(*    (signs exchanged when neg_first=False): symmetric, an involution,    *)
(*    with p negative and q positive squares (resp. exchanged);            *)
(*  - symplectic_form(n), n = 2m even, is the n x n block matrix           *)
(*    [[0, -I_m], [I_m, 0]]: antisymmetric, J^2 = -I, det 1; an odd n is   *)
(*    refused with ValueError ("Cannot construct a symplectic form in odd  *)
(*    dimensions").                                                        *)
(* TLC checks the algebraic laws on the specified matrices (signature by   *)
(* Jacobi's rule of FormOps) and emits them.                               *)
(***************************************************************************)
EXTENDS FormOps, Json

CONSTANTS MaxN
VARIABLES kind, a, b, nf       \* "indefinite": (p, q, neg_first) = (a, b, nf);  "symplectic": n = a

Init == \/ /\ kind = "indefinite" /\ a \in 0..MaxN /\ b \in 0..MaxN /\ a + b <= MaxN /\ nf \in BOOLEAN
        \/ /\ kind = "symplectic" /\ a \in 1..MaxN /\ b = 0 /\ nf = TRUE
Next == UNCHANGED <<kind, a, b, nf>>

Indef(pp, qq, negfirst) ==
  LET s == IF negfirst THEN Neg1 ELSE 1
  IN [i \in 1..(pp + qq) |-> [j \in 1..(pp + qq) |-> IF i # j THEN 0 ELSE IF i <= pp THEN s ELSE 0 - s]]
Sympl(n) == LET h == n \div 2
            IN [i \in 1..n |-> [j \in 1..n |-> IF i <= h /\ j = i + h THEN Neg1
                                               ELSE IF i > h /\ j = i - h THEN 1 ELSE 0]]
Even(n) == n % 2 = 0
Value == IF kind = "indefinite" THEN Indef(a, b, nf) ELSE IF Even(a) THEN Sympl(a) ELSE <<>>
Size == IF kind = "indefinite" THEN a + b ELSE a

NegM(A) == [i \in 1..Len(A) |-> [j \in 1..Len(A) |-> 0 - A[i][j]]]

IndefiniteLaws ==
  (kind = "indefinite" /\ Size >= 1) =>
    LET F == TLCEval(Value)
        ms == LeadMinors(F)
    IN /\ IsSym(F) /\ MatMul(F, F) = IdMat(Size)
       /\ JacobiDefined(ms)
       /\ JacobiNeg(ms) = (IF nf THEN a ELSE b)
       /\ Indef(a, b, ~nf) = NegM(F)
SymplecticLaws ==
  (kind = "symplectic" /\ Even(a) /\ a >= 2) =>
    LET J == TLCEval(Value)
    IN /\ Transpose(J) = NegM(J)
       /\ MatMul(J, J) = NegM(IdMat(a))
       /\ DetOf(J) = 1
       \* the standard symplectic basis: <e_i, e_{i+m}> = -1 and <e_{i+m}, e_i> = 1
       /\ \A i \in 1..(a \div 2) : J[i][i + a \div 2] = Neg1 /\ J[i + a \div 2][i] = 1

Obs == [kind |-> kind, p |-> a, q |-> b, neg_first |-> nf, n |-> Size,
        raises |-> (kind = "symplectic" /\ ~Even(a)), value |-> Value]
EmitObs == PrintT("OBS " \o ToJson(Obs))
=============================================================================
