----------------------------- MODULE XKernelOpts -----------------------------
(***************************************************************************)
(* Extension X06, part 4: the option branches of numerical.svd_kernel      *)
(* (the plain call is property C18's Kernels.tla).                         *)
(*                                                                         *)
(* CONTRACT (no docstring; taken from the code's own error messages, from  *)
(* sagewrap.kernel -- the exact twin with the same signature -- and from   *)
(* testing/sage/test_sage_linalg.py, the only caller of the options):      *)
(* for a batch of B matrices of shape (R, C),                              *)
(*  - matching_rank=True (default): all kernels have one dimension d and   *)
(*    the result is an array (B, C, d) of orthonormal kernel bases; if the *)
(*    kernel dimensions differ the call raises ValueError;                 *)
(*  - matching_rank=False: the result is a tuple with one array per        *)
(*    DISTINCT kernel dimension, in increasing order of dimension; the     *)
(*    array for dimension d has shape (count_d, C, d) and holds the bases  *)
(*    of the matrices of that dimension in batch order;                    *)
(*    with_dimensions=True prepends the array of these dimensions,         *)
(*    with_loc=True appends a tuple of boolean masks of shape (B,) telling *)
(*    which matrices went where; with both the result is                   *)
(*    (dimensions, bases, masks);                                          *)
(*  - assume_full_rank=True skips the rank detection: for matrices of full *)
(*    rank min(R, C) the result is the kernel, of dimension max(C - R, 0); *)
(*    together with matching_rank=False it raises ValueError.              *)
(* A behaviour appends matrices to the batch; ranks and integer kernel     *)
(* bases come from the fraction-free elimination of FormOps.               *)
(***************************************************************************)
EXTENDS FormOps, Json

CONSTANTS NR, NC,    \* shape (NR rows, NC columns) of every matrix
          Rng,       \* entries in -Rng..Rng
          MaxSupp,   \* non-zero entries per row
          MaxBatch

VARIABLES batch, rks

Rows == {v \in Box(NC, Rng) : Supp(v) <= MaxSupp}
MatPool == [1..NR -> Rows]

Init == batch = <<>> /\ rks = <<>>
Append1(A) == /\ Len(batch) < MaxBatch
              /\ batch' = Append(batch, A)
              /\ rks' = Append(rks, RankOf(A))
Next == \E A \in MatPool : Append1(A)

B == Len(batch)
Dim(i) == NC - rks[i]
Dims == {Dim(i) : i \in 1..B}
\* distinct dimensions in increasing order
RECURSIVE Sorted(_)
Sorted(S) == IF S = {} THEN <<>> ELSE LET x == CHOOSE y \in S : \A z \in S : y <= z IN <<x>> \o Sorted(S \ {x})
DimSeq == Sorted(Dims)
Members(d) == {i \in 1..B : Dim(i) = d}
Group(d) == Sorted(Members(d))                  \* batch order
Kers == [i \in 1..B |-> SetSeq(KernelBasis(batch[i]))]
FullRank(i) == rks[i] = (IF NR <= NC THEN NR ELSE NC)

Partition == /\ UNION {Members(d) : d \in Dims} = 1..B
             /\ \A d1, d2 \in Dims : d1 # d2 => Members(d1) \cap Members(d2) = {}
SortedDims == \A k \in 1..(Len(DimSeq) - 1) : DimSeq[k] < DimSeq[k + 1]
KernelsExact == \A i \in 1..B : /\ Len(Kers[i]) = Dim(i)
                                /\ \A k \in 1..Len(Kers[i]) : MatVec(batch[i], Kers[i][k]) = ZeroVec(NR)
RankBounds == \A i \in 1..B : rks[i] <= NR /\ rks[i] <= NC /\ Dim(i) >= (IF NC >= NR THEN NC - NR ELSE 0)
FullRankDim == \A i \in 1..B : FullRank(i) <=> Dim(i) = (IF NC >= NR THEN NC - NR ELSE 0)

Obs == [r |-> NR, c |-> NC, batch |-> batch, ranks |-> rks,
        dims |-> [i \in 1..B |-> Dim(i)],
        dimseq |-> DimSeq,
        groups |-> [k \in 1..Len(DimSeq) |-> [j \in 1..Len(Group(DimSeq[k])) |-> Group(DimSeq[k])[j] - 1]],
        matching |-> (Cardinality(Dims) = 1),
        allfull |-> (\A i \in 1..B : FullRank(i)),
        kers |-> Kers]
EmitObs == B >= 1 => PrintT("OBS " \o ToJson(Obs))
=============================================================================
