-------------------------------- MODULE XPerm --------------------------------
(***************************************************************************)
(* Extension X06, part 1: permutation matrices, conjugation by a           *)
(* permutation, transposition matrices and the ordering of eigenpairs.     *)
(*                                                                         *)
(* CONTRACT (utils.permutation_matrix has a docstring; the other three     *)
(* functions have neither docstring nor caller in the library, so the      *)
(* contract below is what their names, signatures and the conventions of   *)
(* permutation_matrix / permute_along_axis let a caller rely on):          *)
(*  - a permutation of 0..n-1 is the sequence p of its values;             *)
(*    permutation_matrix(p) = P with P[i, p[i]] = 1, and                   *)
(*    permutation_matrix(p, inverse=True) = P^-1 = P^T;                    *)
(*  - conjugate_by_permutation(M, p) = P M P^-1, entrywise M[p[i], p[j]],  *)
(*    for matrices M of shape (..., n, n) and permutations of shape        *)
(*    (..., n) with the SAME leading shape (no broadcasting is promised);  *)
(*    with inverse=True it conjugates by the inverse permutation:          *)
(*    P^-1 M P, so that the two calls undo each other;                     *)
(*  - swap_matrix(i, j, n) is the n x n matrix of the transposition (i j)  *)
(*    (the identity when i = j);                                           *)
(*  - order_eigs(values, vectors) returns the eigenvalues by increasing    *)
(*    modulus and the eigenvectors (columns) moved with them; eigenvalues  *)
(*    of equal modulus are outside the contract (argsort is not stable).   *)
(* Eigenvalues are Gaussian integers <<re, im>>, so moduli are compared    *)
(* exactly by their squares.                                               *)
(***************************************************************************)
EXTENDS FormOps, Json

CONSTANTS N          \* size

VARIABLES p, q,      \* two permutations of 0..N-1 (sequences of values)
          m,         \* index of the matrix in Mats
          ev         \* eigenvalue list (a sequence of Gaussian integers)

Idx == 0..(N - 1)
Perms == {s \in [1..N -> Idx] : \A i, j \in 1..N : s[i] = s[j] => i = j}

\* matrices with pairwise distinct entries (an index permutation is then visible in every entry)
Generic == [i \in 1..N |-> [j \in 1..N |-> N * (i - 1) + (j - 1)]]
Mats == <<Generic,
          [i \in 1..N |-> [j \in 1..N |-> 1 - 2 * Generic[j][i]]],
          [i \in 1..N |-> [j \in 1..N |-> (i - j) * (i + 2 * j)]]>>
M == Mats[m]

\* Gaussian integers with pairwise distinct moduli
EigPool == <<<<3, 0>>, <<0, Neg1>>, <<Neg1, 1>>, <<0 - 2, 0>>, <<2, 1>>, <<0, 0>>>>
GNorm2(z) == z[1] * z[1] + z[2] * z[2]

Init == /\ p \in Perms /\ q \in Perms /\ m \in 1..Len(Mats)
        \* the eigenvalue list is tied to (q, m, p): pairwise distinct entries of the pool
        /\ ev = [i \in 1..N |-> EigPool[((q[i] + m + p[1]) % Len(EigPool)) + 1]]
Next == UNCHANGED <<p, q, m, ev>>

(***************************************************************************)
(* Semantics                                                               *)
(***************************************************************************)
PermMat(s) == [i \in 1..N |-> [j \in 1..N |-> IF s[i] = j - 1 THEN 1 ELSE 0]]
InvPerm(s) == [i \in 1..N |-> (CHOOSE k \in 1..N : s[k] = i - 1) - 1]
Comp(s, t) == [i \in 1..N |-> s[t[i] + 1]]                \* i |-> s(t(i))
Conj(A, s) == [i \in 1..N |-> [j \in 1..N |-> A[s[i] + 1][s[j] + 1]]]
SwapPerm(i, j) == [k \in 1..N |-> IF k - 1 = i THEN j ELSE IF k - 1 = j THEN i ELSE k - 1]
IdP == [k \in 1..N |-> k - 1]

\* position k of the sorted list holds the entry whose modulus has exactly k-1 smaller ones
SortPerm(vals) == [k \in 1..N |-> (CHOOSE i \in 1..N :
                     Cardinality({j \in 1..N : GNorm2(vals[j]) < GNorm2(vals[i])}) = k - 1) - 1]
DistinctModuli(vals) == \A i, j \in 1..N : GNorm2(vals[i]) = GNorm2(vals[j]) => i = j

(***************************************************************************)
(* Theorems                                                                *)
(***************************************************************************)
P == TLCEval(PermMat(p))
PermOrthogonal == MatMul(P, Transpose(P)) = IdMat(N)
InverseIsTranspose == PermMat(InvPerm(p)) = Transpose(P)
ConjIsProduct == Conj(M, p) = MatMul(P, MatMul(M, Transpose(P)))
ConjInvIsProduct == Conj(M, InvPerm(p)) = MatMul(Transpose(P), MatMul(M, P))
ConjCompose == Conj(Conj(M, p), q) = Conj(M, Comp(p, q))
ConjUndo == Conj(Conj(M, p), InvPerm(p)) = M
\* (they do not depend on p, q: evaluated once per matrix)
SwapLaws == (p = IdP /\ q = IdP) => \A i, j \in Idx :
              LET S == TLCEval(PermMat(SwapPerm(i, j))) IN
              /\ S = Transpose(S) /\ MatMul(S, S) = IdMat(N)
              /\ (i # j => DetOf(S) = Neg1) /\ (i = j => S = IdMat(N))
              /\ Conj(M, SwapPerm(i, j))[i + 1][i + 1] = M[j + 1][j + 1]
SortLaws == DistinctModuli(ev) =>
              LET s == SortPerm(ev) IN
              /\ s \in Perms
              /\ \A k \in 1..(N - 1) : GNorm2(ev[s[k] + 1]) < GNorm2(ev[s[k + 1] + 1])

(***************************************************************************)
(* Observation                                                             *)
(***************************************************************************)
Obs == [n |-> N, p |-> p, q |-> q, M |-> M,
        P |-> P, Pinv |-> Transpose(P),
        conj |-> Conj(M, p), conjinv |-> Conj(M, InvPerm(p)), conjpq |-> Conj(Conj(M, p), q),
        swaps |-> {<<i, j, PermMat(SwapPerm(i, j))>> : i \in Idx, j \in Idx},
        ev |-> ev, evdom |-> DistinctModuli(ev),
        evsorted |-> [k \in 1..N |-> ev[SortPerm(ev)[k] + 1]],
        \* eigenvector matrix = M (columns); its columns in the sorted order
        vecsorted |-> [i \in 1..N |-> [k \in 1..N |-> M[i][SortPerm(ev)[k] + 1]]]]
EmitObs == PrintT("OBS " \o ToJson(Obs))
=============================================================================
