#!/usr/bin/env python3
"""Mutation analysis of the registered checks (measurement, decides nothing about a property).

  tools/mutate.py sites                      -> .work/mutation/sites.json   (every candidate mutation of the anchored files)
  tools/mutate.py run [-n N] [-j J] [--seed S] [--files f1,f2]
                                             -> .work/mutation/results.jsonl (+ survivors/<id>.patch)
  tools/mutate.py report                     -> summary table

A mutant is one small syntactic edit of one expression in a file the properties are anchored in (arithmetic / comparison /
boolean operator, constant, axis, dropped abs / conjugate / transpose / copy, swapped operands of @).  Only mutants on lines
that at least one property check executes are considered (per-check line coverage from tools/libcover.sh --per-check), and
only mutants under which the repository's own test-suite has the baseline outcome are counted: the question is how many of
THOSE the quick checks that execute the line detect.  Survivors are either equivalent mutants or gaps; they are kept as
patches for inspection.
"""
import ast
import concurrent.futures as cf
import glob
import hashlib
import json
import os
import random
import re
import shutil
import subprocess
import sys
import tempfile

HERE = os.path.dirname(os.path.dirname(os.path.abspath(__file__)))
REPO = "/repo"
OUT = os.path.join(HERE, ".work", "mutation")
PY = "/venv/bin/python"
FILES = ["geometry_tools/utils/core.py", "geometry_tools/hyperbolic.py", "geometry_tools/projective.py",
         "geometry_tools/representation.py", "geometry_tools/coxeter.py", "geometry_tools/automata/fsa.py",
         "geometry_tools/lie/core.py", "geometry_tools/lie/hom.py", "geometry_tools/utils/numerical.py",
         "geometry_tools/utils/words.py", "geometry_tools/utils/cp1.py", "geometry_tools/drawtools.py",
         "geometry_tools/complex_projective.py", "geometry_tools/automata/gap_parse.py",
         "geometry_tools/automata/coxeter_automaton.py", "geometry_tools/utils/types.py"]

SWAP_BIN = {ast.Add: ast.Sub, ast.Sub: ast.Add, ast.Mult: ast.Div, ast.Div: ast.Mult, ast.FloorDiv: ast.Mult,
            ast.Mod: ast.Mult, ast.Pow: ast.Mult}
SWAP_CMP = {ast.Lt: ast.LtE, ast.LtE: ast.Lt, ast.Gt: ast.GtE, ast.GtE: ast.Gt, ast.Eq: ast.NotEq, ast.NotEq: ast.Eq,
            ast.Is: ast.IsNot, ast.IsNot: ast.Is, ast.In: ast.NotIn, ast.NotIn: ast.In}
DROP_CALLS = {"abs", "conjugate", "conj", "real", "copy", "deepcopy", "array", "sqrt", "squeeze", "flip", "sorted", "list",
              "normalize", "atleast_1d", "atleast_2d"}


def seg(src_lines, node):
    """(start offset, end offset) of a node in the joined source"""
    def off(line, col):
        return sum(len(l) for l in src_lines[:line - 1]) + len(src_lines[line - 1].encode()[:col].decode())
    return off(node.lineno, node.col_offset), off(node.end_lineno, node.end_col_offset)


def candidates(path):
    src = open(path).read()
    lines = src.splitlines(keepends=True)
    tree = ast.parse(src)
    out = []

    def add(node, new_node, kind):
        try:
            text = ast.unparse(new_node)
        except Exception:
            return
        a, b = seg(lines, node)
        old = src[a:b]
        if text == old or "\n" in old and len(old) > 400:
            return
        out.append(dict(line=node.lineno, a=a, b=b, old=old, new=text, kind=kind))

    import copy as _c
    for node in ast.walk(tree):
        if isinstance(node, ast.BinOp):
            if type(node.op) in SWAP_BIN:
                n = _c.deepcopy(node)
                n.op = SWAP_BIN[type(node.op)]()
                add(node, n, "binop")
            elif isinstance(node.op, ast.MatMult):
                n = _c.deepcopy(node)
                n.left, n.right = n.right, n.left
                add(node, n, "matmul_swap")
        elif isinstance(node, ast.Compare) and len(node.ops) == 1 and type(node.ops[0]) in SWAP_CMP:
            n = _c.deepcopy(node)
            n.ops = [SWAP_CMP[type(node.ops[0])]()]
            add(node, n, "compare")
        elif isinstance(node, ast.BoolOp):
            n = _c.deepcopy(node)
            n.op = ast.Or() if isinstance(node.op, ast.And) else ast.And()
            add(node, n, "boolop")
        elif isinstance(node, ast.UnaryOp) and isinstance(node.op, (ast.Not, ast.USub, ast.Invert)):
            add(node, _c.deepcopy(node.operand), "drop_unary")
        elif isinstance(node, ast.Constant) and isinstance(node.value, (int, float)) and not isinstance(node.value, bool):
            v = node.value
            if isinstance(v, int):
                for w in ({0: [1], 1: [0, 2], 2: [1, 3]}.get(v, [v + 1])):
                    add(node, ast.Constant(w), "const")
            else:
                add(node, ast.Constant(v * 100 if abs(v) < 1 else v / 2), "const_float")
        elif isinstance(node, ast.Constant) and isinstance(node.value, bool):
            add(node, ast.Constant(not node.value), "bool")
        elif isinstance(node, ast.keyword) and node.arg in ("axis", "axes") and isinstance(node.value, (ast.Constant, ast.UnaryOp)):
            try:
                v = ast.literal_eval(node.value)
            except Exception:
                continue
            if isinstance(v, int):
                w = {-1: -2, -2: -1, 0: 1, 1: 0}.get(v, v + 1)
                a_node = node.value
                add(a_node, ast.parse(repr(w), mode="eval").body, "axis")
        elif isinstance(node, ast.Attribute) and node.attr == "T":
            add(node, _c.deepcopy(node.value), "drop_T")
        elif isinstance(node, ast.Call):
            f = node.func
            name = f.attr if isinstance(f, ast.Attribute) else (f.id if isinstance(f, ast.Name) else None)
            if name in DROP_CALLS and len(node.args) >= 1 and not node.keywords:
                add(node, _c.deepcopy(node.args[0]), "drop_call:" + name)
            elif name in ("copy",) and isinstance(f, ast.Attribute) and not node.args:
                add(node, _c.deepcopy(f.value), "drop_call:copy")
            elif name == "swapaxes" and isinstance(f, ast.Attribute):
                add(node, _c.deepcopy(f.value), "drop_swapaxes")
            elif name == "array" and isinstance(f, ast.Attribute) and node.args:
                n = _c.deepcopy(node)
                n.func.attr = "asarray"
                add(node, n, "array_to_asarray")
        elif isinstance(node, ast.Subscript) and isinstance(node.slice, ast.Slice):
            s = node.slice
            if s.lower is not None and s.upper is None and s.step is None:
                n = _c.deepcopy(node)
                n.slice = ast.Slice(lower=None, upper=s.lower, step=None)
                add(node, n, "slice_flip")
            elif s.upper is not None and s.lower is None and s.step is None:
                n = _c.deepcopy(node)
                n.slice = ast.Slice(lower=s.upper, upper=None, step=None)
                add(node, n, "slice_flip")
    return src, out


def load_cover():
    """line -> set of property checks executing it, per file (from tools/libcover.sh --per-check)"""
    p = os.path.join(HERE, ".work", "cov", "per_check.json")
    if not os.path.exists(p):
        sys.exit("run tools/libcover.sh --per-check first")
    return json.load(open(p))


def cmd_sites():
    cover = load_cover()
    os.makedirs(OUT, exist_ok=True)
    sites = []
    for f in FILES:
        src, cands = candidates(os.path.join(REPO, f))
        cov = cover.get("/repo/" + f, {})
        for c in cands:
            checks = sorted(k for k in cov.get(str(c["line"]), []) if k.startswith("C"))
            if not checks:
                continue
            c["file"] = f
            c["checks"] = checks
            c["id"] = hashlib.blake2b(("%s:%d:%d:%s" % (f, c["a"], c["b"], c["new"])).encode(), digest_size=5).hexdigest()
            sites.append(c)
    json.dump(sites, open(os.path.join(OUT, "sites.json"), "w"))
    by = {}
    for s in sites:
        by[s["file"]] = by.get(s["file"], 0) + 1
    print(len(sites), "candidate mutants on lines executed by a property check")
    for k, v in sorted(by.items()):
        print("  %-50s %d" % (k, v))


def tests(repo):
    p = subprocess.run([PY, "-m", "pytest", "-q", "-p", "no:cacheprovider", "--ignore", "testing/sage", "-rA", "testing"],
                       cwd=repo, capture_output=True, text=True, env=dict(os.environ, PYTHONPATH=repo), timeout=900)
    passed = frozenset(re.findall(r"^PASSED (\S+)", p.stdout, re.M))
    failed = frozenset(re.findall(r"^(?:FAILED|ERROR) (\S+)", p.stdout, re.M))
    return passed, failed


def run_one(site):
    tmp = tempfile.mkdtemp(prefix="mut.")
    repo = os.path.join(tmp, "repo")
    res = dict(id=site["id"], file=site["file"], line=site["line"], kind=site["kind"], old=site["old"][:120], new=site["new"][:120],
               checks=site["checks"])
    try:
        shutil.copytree(REPO, repo, symlinks=True, ignore=shutil.ignore_patterns(".git"))
        path = os.path.join(repo, site["file"])
        src = open(path).read()
        assert src[site["a"]:site["b"]] == site["old"]
        # parenthesise: the replacement is an expression put where an expression stood
        open(path, "w").write(src[:site["a"]] + "(" + site["new"] + ")" + src[site["b"]:])
        c = subprocess.run([PY, "-c", "import ast,sys; ast.parse(open(sys.argv[1]).read())", path], capture_output=True)
        if c.returncode:
            res["status"] = "invalid"
            return res
        imp = subprocess.run([PY, "-c", "import geometry_tools, geometry_tools.hyperbolic, geometry_tools.drawtools, geometry_tools.coxeter, geometry_tools.complex_projective, geometry_tools.representation"],
                             cwd=repo, env=dict(os.environ, PYTHONPATH=repo), capture_output=True, timeout=120)
        if imp.returncode:
            res["status"] = "import_fails"
            return res
        try:
            ps, fl = tests(repo)
        except subprocess.TimeoutExpired:
            res["status"] = "tests_timeout"
            return res
        if ps != BASE_PASS:
            res["status"] = "killed_by_repo_tests"
            return res
        killed = []
        order = sorted(site["checks"], key=lambda k: COST.get(k, 60))[:4]
        for pid in order:
            try:
                p = subprocess.run([os.path.join(HERE, "check"), pid, "--tier", "quick"], cwd=HERE, capture_output=True, text=True,
                                   env=dict(os.environ, VERIF_REPO=repo, VERIF_NO_EVIDENCE="1"), timeout=1500)
                rc = p.returncode
            except subprocess.TimeoutExpired:
                rc = 124
            res.setdefault("rcs", {})[pid] = rc
            if rc in (1, 124):       # a mutant that makes the library hang is detected as well
                killed.append(pid)
                break
        res["status"] = "killed" if killed else "survived"
        res["killed_by"] = killed
        if not killed:
            os.makedirs(os.path.join(OUT, "survivors"), exist_ok=True)
            d = subprocess.run(["diff", "-u", os.path.join(REPO, site["file"]), path], capture_output=True, text=True).stdout
            d = d.replace(path, "b/" + site["file"]).replace(os.path.join(REPO, site["file"]), "a/" + site["file"])
            open(os.path.join(OUT, "survivors", site["id"] + ".patch"), "w").write(d)
        return res
    except Exception as e:
        res["status"] = "error:%s" % e
        return res
    finally:
        shutil.rmtree(tmp, ignore_errors=True)


BASE_PASS = None
COST = {}


def cmd_run(argv):
    global BASE_PASS, COST
    n, j, seed, files = 200, 4, 1, None
    it = iter(argv)
    for a in it:
        if a == "-n":
            n = int(next(it))
        elif a == "-j":
            j = int(next(it))
        elif a == "--seed":
            seed = int(next(it))
        elif a == "--files":
            files = next(it).split(",")
    sites = json.load(open(os.path.join(OUT, "sites.json")))
    if files:
        sites = [s for s in sites if any(s["file"].endswith(f) for f in files)]
    done = set()
    rp = os.path.join(OUT, "results.jsonl")
    if os.path.exists(rp):
        done = {json.loads(l)["id"] for l in open(rp)}
    sites = [s for s in sites if s["id"] not in done]
    random.Random(seed).shuffle(sites)
    # stratify: at most one mutant per (file, line) in a sample
    seen, sample = set(), []
    for s in sites:
        if (s["file"], s["line"]) in seen:
            continue
        seen.add((s["file"], s["line"]))
        sample.append(s)
        if len(sample) >= n:
            break
    BASE_PASS, fl = tests(REPO)
    print("baseline: %d passed, %d failed" % (len(BASE_PASS), len(fl)), flush=True)
    for pid in ["C%02d" % i for i in range(1, 21)]:
        ev = os.path.join(HERE, "evidence", pid + ".json")
        if os.path.exists(ev):
            COST[pid] = json.load(open(ev)).get("wall_s", 60)
    with cf.ThreadPoolExecutor(j) as ex, open(rp, "a") as out:
        for r in ex.map(run_one, sample):
            out.write(json.dumps(r) + "\n")
            out.flush()
            print("%-22s %s:%d %-14s %r -> %r %s" % (r["status"], r["file"].split("/")[-1], r["line"], r["kind"], r["old"][:40], r["new"][:40],
                                                     r.get("killed_by", "")), flush=True)


def cmd_report():
    rs = [json.loads(l) for l in open(os.path.join(OUT, "results.jsonl"))]
    st = {}
    for r in rs:
        st[r["status"].split(":")[0]] = st.get(r["status"].split(":")[0], 0) + 1
    print(json.dumps(st, indent=1))
    live = [r for r in rs if r["status"] in ("killed", "survived")]
    k = sum(r["status"] == "killed" for r in live)
    print("mutants the repository's tests do not notice: %d; detected by the quick checks: %d (%.0f%%)" % (len(live), k, 100.0 * k / max(1, len(live))))
    for r in live:
        if r["status"] == "survived":
            print("  survived %s %s:%d %s %r -> %r ran %s" % (r["id"], r["file"], r["line"], r["kind"], r["old"][:50], r["new"][:50], r.get("rcs")))


def recheck_one(r):
    """run the covering checks that the first pass did not run (it stops at 4) against a survivor"""
    patch = os.path.join(OUT, "survivors", r["id"] + ".patch")
    tmp = tempfile.mkdtemp(prefix="mut.")
    repo = os.path.join(tmp, "repo")
    try:
        shutil.copytree(REPO, repo, symlinks=True, ignore=shutil.ignore_patterns(".git"))
        a = subprocess.run(["patch", "-p1", "-s", "-i", patch], cwd=repo, capture_output=True, text=True)
        if a.returncode:
            r["recheck"] = "patch failed"
            return r
        for pid in [c for c in r["checks"] if c not in r.get("rcs", {})]:
            try:
                p = subprocess.run([os.path.join(HERE, "check"), pid, "--tier", "quick"], cwd=HERE, capture_output=True, text=True,
                                   env=dict(os.environ, VERIF_REPO=repo, VERIF_NO_EVIDENCE="1"), timeout=1500)
                rc = p.returncode
            except subprocess.TimeoutExpired:
                rc = 124
            r.setdefault("rcs", {})[pid] = rc
            if rc in (1, 124):
                r["status"] = "killed"
                r["killed_by"] = [pid]
                break
        return r
    finally:
        shutil.rmtree(tmp, ignore_errors=True)


def anchored():
    m = {}
    for l in open(os.path.join(HERE, "properties.jsonl")):
        d = json.loads(l)
        for f in (d.get("anchors") or {}).get("files", []):
            m.setdefault(f, set()).add(d["id"])
    return m


def cmd_recheck(argv):
    """survivors (patch files) x the checks that execute the line AND are anchored in the file, minus those already run"""
    j = int(argv[argv.index("-j") + 1]) if "-j" in argv else 4
    sites = {s["id"]: s for s in json.load(open(os.path.join(OUT, "sites.json")))}
    anch = anchored()
    out_p = os.path.join(OUT, "recheck.jsonl")
    prev = {}
    for fn in ("results.jsonl", "recheck.jsonl"):
        if os.path.exists(os.path.join(OUT, fn)):
            for l in open(os.path.join(OUT, fn)):
                r = json.loads(l)
                prev.setdefault(r["id"], {}).update(r.get("rcs", {}))
    todo = []
    for f in sorted(glob.glob(os.path.join(OUT, "survivors", "*.patch"))):
        sid = os.path.basename(f)[:-6]
        s = sites.get(sid)
        if not s:
            continue
        if any(rc in (1, 124) for rc in prev.get(sid, {}).values()):
            continue
        want = [c for c in s["checks"] if c in anch.get(s["file"], set())]
        r = dict(id=sid, file=s["file"], line=s["line"], kind=s["kind"], old=s["old"][:120], new=s["new"][:120], checks=want,
                 rcs=dict(prev.get(sid, {})), status="survived")
        if any(c not in r["rcs"] for c in want):
            todo.append(r)
    print(len(todo), "survivors with anchored covering checks not yet run", flush=True)
    with cf.ThreadPoolExecutor(j) as ex, open(out_p, "a") as out:
        for r in ex.map(recheck_one, todo):
            out.write(json.dumps(r) + "\n")
            out.flush()
            print("%-9s %s %s:%d %s" % (r["status"], r["id"], r["file"], r["line"], r.get("rcs")), flush=True)


if __name__ == "__main__":
    cmd = sys.argv[1] if len(sys.argv) > 1 else "report"
    if cmd == "sites":
        cmd_sites()
    elif cmd == "run":
        cmd_run(sys.argv[2:])
    elif cmd == "recheck":
        cmd_recheck(sys.argv[2:])
    else:
        cmd_report()
