#!/usr/bin/env python3
"""Confirm seeded changes produced by independent sub-agents and run the checks against them.

  tools/eval_seeded.py <dir with SEEDED/<n>/{patch.diff,demo.py,notes.txt}> <owner ID> [other IDs to try...]

For each change: (1) the patch applies to a scratch copy of /repo; (2) the repository test-suite outcome is the
baseline's; (3) demo.py passes on /repo and fails on the patched copy; (4) the quick checks of the given
properties are run against the patched copy.  Confirmed changes are stored under /verif/seeded/<ID>/<k>/ with
meta.json recording what was run and which checks caught it.
"""
import json
import os
import re
import shutil
import subprocess
import sys
import tempfile

HERE = os.path.dirname(os.path.dirname(os.path.abspath(__file__)))
PY = "/venv/bin/python"


def tests(repo):
    p = subprocess.run([PY, "-m", "pytest", "-q", "-p", "no:cacheprovider", "--continue-on-collection-errors", "-rA", "testing"],
                       cwd=repo, capture_output=True, text=True, env=dict(os.environ, PYTHONPATH=repo))
    passed = set(re.findall(r"^PASSED (\S+)", p.stdout, re.M))
    failed = set(re.findall(r"^(?:FAILED|ERROR) (\S+)", p.stdout, re.M))
    return passed, failed


def demo(repo, path):
    # some demonstrations put "<three directories up>" first on sys.path (they were written inside the seeder's worktree as
    # <worktree>/SEEDED/<n>/demo.py): run a copy from the same relative position inside a root whose geometry_tools is the
    # tree under test, so that they import that tree and not the seeder's worktree
    root = tempfile.mkdtemp(prefix="seeddemo.")
    try:
        os.symlink(os.path.join(repo, "geometry_tools"), os.path.join(root, "geometry_tools"))
        d = os.path.join(root, "SEEDED", "x")
        os.makedirs(d)
        shutil.copy(path, os.path.join(d, "demo.py"))
        p = subprocess.run([PY, os.path.join(d, "demo.py")], cwd=root, capture_output=True, text=True,
                           env=dict(os.environ, PYTHONPATH=root), timeout=900)
        return p.returncode, (p.stdout + p.stderr)[-400:]
    finally:
        shutil.rmtree(root, ignore_errors=True)


def main():
    src, owner, others = sys.argv[1], sys.argv[2], sys.argv[3:]
    base_pass, base_fail = tests("/repo")
    dirs = sorted(d for d in os.listdir(os.path.join(src, "SEEDED")) if os.path.isdir(os.path.join(src, "SEEDED", d)))
    for d in dirs:
        sd = os.path.join(src, "SEEDED", d)
        patch = os.path.join(sd, "patch.diff")
        tmp = tempfile.mkdtemp(prefix="seedeval.")
        repo = os.path.join(tmp, "repo")
        shutil.copytree("/repo", repo, symlinks=True)
        meta = dict(property=owner, source="independent sub-agent given only the property text", ran=[])
        try:
            a = subprocess.run(["git", "apply", patch], cwd=repo, capture_output=True, text=True)
            if a.returncode:
                print("%s/%s: patch does not apply: %s" % (owner, d, a.stderr[:200]))
                continue
            ps, fl = tests(repo)
            meta["tests_same_as_baseline"] = (ps == base_pass)
            rc0, out0 = demo("/repo", os.path.join(sd, "demo.py"))
            rc1, out1 = demo(repo, os.path.join(sd, "demo.py"))
            meta["demo_unchanged_rc"], meta["demo_changed_rc"] = rc0, rc1
            meta["ran"] += ["repo test-suite on patched copy", "demo.py on /repo and on patched copy"]
            confirmed = ps == base_pass and rc0 == 0 and rc1 != 0
            results = {}
            for pid in [owner] + others:
                p = subprocess.run([os.path.join(HERE, "check"), pid, "--tier", "quick"], cwd=HERE, capture_output=True, text=True,
                                   env=dict(os.environ, VERIF_REPO=repo, VERIF_NO_EVIDENCE="1"))
                line = [l for l in p.stdout.splitlines() if l.startswith(("VIOLATION", "OK", "MACHINERY"))]
                clause = [l.strip() for l in p.stdout.splitlines() if "violated clause" in l][:1]
                results[pid] = dict(rc=p.returncode, line=line[-1] if line else "", first=clause[0][:300] if clause else "")
                meta["ran"].append("./check %s --tier quick (VERIF_REPO=patched copy) -> rc %d" % (pid, p.returncode))
            meta["checks"] = results
            meta["caught_by"] = [k for k, v in results.items() if v["rc"] == 1]
            notes = open(os.path.join(sd, "notes.txt")).read() if os.path.exists(os.path.join(sd, "notes.txt")) else ""
            meta["needs"] = notes[:1500]
            print("%s/%s confirmed=%s tests_same=%s demo=%d/%d caught_by=%s" % (owner, d, confirmed, ps == base_pass, rc0, rc1, meta["caught_by"]))
            for k, v in results.items():
                print("     %s rc=%d %s" % (k, v["rc"], v["first"][:200]))
            if confirmed:
                dst = os.path.join(HERE, "seeded", owner, os.environ.get("SEED_PREFIX", "") + d)
                os.makedirs(dst, exist_ok=True)
                for f in ("patch.diff", "demo.py", "notes.txt"):
                    if os.path.exists(os.path.join(sd, f)):
                        shutil.copy(os.path.join(sd, f), dst)
                json.dump(meta, open(os.path.join(dst, "meta.json"), "w"), indent=1)
        finally:
            shutil.rmtree(tmp, ignore_errors=True)


if __name__ == "__main__":
    main()
