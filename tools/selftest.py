#!/usr/bin/env python3
"""Shows that the binding between specifications and code is real.

  tools/selftest.py [IDs...] [-j N]

For every patch under mutants/ (named <ID>-<what>.patch) and every kept seeded change under
seeded/<ID>/*/patch.diff the owning property's quick check is run against a scratch copy of /repo
with the patch applied (tools/mutant.sh); the expected outcome is exit 1 with a VIOLATION line.
Exit status 0 iff every mutant is caught (rc 1) and none ends as a machinery failure (rc 2).
"""
import concurrent.futures as cf
import glob
import json
import os
import re
import subprocess
import sys

HERE = os.path.dirname(os.path.dirname(os.path.abspath(__file__)))


def owner(path):
    m = re.match(r"([CX]\d+)-", os.path.basename(path))
    if m:
        return [m.group(1)]
    meta = os.path.join(os.path.dirname(path), "meta.json")
    if os.path.exists(meta):
        d = json.load(open(meta))
        return d.get("caught_by") or [d["property"]]
    return []


def one(job):
    path, pid = job
    p = subprocess.run([os.path.join(HERE, "tools", "mutant.sh"), path, pid], capture_output=True, text=True, cwd=HERE)
    line = p.stdout.strip().splitlines()[-1] if p.stdout.strip() else p.stderr.strip()[-200:]
    m = re.search(r"rc=(\d+)", line)
    return path, pid, int(m.group(1)) if m else -1, line


def main():
    args = [a for a in sys.argv[1:] if not a.startswith("-")]
    j = 4
    if "-j" in sys.argv:
        j = int(sys.argv[sys.argv.index("-j") + 1])
        args = [a for a in args if a != str(j)]
    paths = sorted(glob.glob(os.path.join(HERE, "mutants", "*.patch")))
    if "--mutants-only" not in sys.argv:
        paths += sorted(glob.glob(os.path.join(HERE, "seeded", "*", "*", "patch.diff")))
    jobs = [(p, pid) for p in paths for pid in owner(p) if not args or pid in args]
    bad = 0
    with cf.ThreadPoolExecutor(j) as ex:
        for path, pid, rc, line in ex.map(one, jobs):
            status = "CAUGHT" if rc == 1 else ("MISSED" if rc == 0 else "ERROR rc=%d" % rc)
            if rc != 1:
                bad += 1
            print("%-8s %-4s %s" % (status, pid, os.path.relpath(path, HERE)))
    print("%d mutants, %d not caught" % (len(jobs), bad))
    sys.exit(1 if bad else 0)


if __name__ == "__main__":
    main()
