#!/usr/bin/env python3
"""Prints the markdown table of seeded changes (seeded/<ID>/<n>/meta.json) for DESIGN.md section 9.6."""
import glob, json, os, re
HERE = os.path.dirname(os.path.dirname(os.path.abspath(__file__)))
JUDGE = json.load(open(os.path.join(HERE, "seeded", "JUDGEMENTS.json"))) if os.path.exists(os.path.join(HERE, "seeded", "JUDGEMENTS.json")) else {}
rows = []
for m in sorted(glob.glob(os.path.join(HERE, "seeded", "*", "*", "meta.json"))):
    d = json.load(open(m))
    pid, n = m.split(os.sep)[-3], m.split(os.sep)[-2]
    notes = d.get("needs", "").strip().splitlines()
    first = next((l.strip(" -#*") for l in notes if len(l.strip()) > 25), "")
    caught = ", ".join(d.get("caught_by", []))
    if not caught:
        j = JUDGE.get("%s/%s" % (pid, n))
        if isinstance(j, dict) and j.get("judged") in ("superseded", "neutralised"):
            caught = "(%s by a later fix: commit)" % j["judged"]
        elif d.get("judged_out_of_domain") or j:
            caught = "(judged outside the domain)"
        else:
            caught = "**missed**"
    rows.append((pid, n, caught, first[:150]))
print("| seeded change | caught by (quick tier) | what it is |")
print("|---|---|---|")
for pid, n, c, f in rows:
    print("| %s/%s | %s | %s |" % (pid, n, c, f.replace("|", "/")))
tot = len(rows); miss = sum(1 for r in rows if "missed" in r[2]); out = sum(1 for r in rows if "outside" in r[2])
sup = sum(1 for r in rows if "later fix" in r[2])
print("\n%d confirmed seeded changes (wave 1: <n>, wave 2: b<n>, wave 3: c<n>, wave 4: d<n>), %d caught by at least one check, %d judged outside the stated domain, %d superseded / neutralised by a later fix: commit, %d missed." % (tot, tot - miss - out - sup, out, sup, miss))
