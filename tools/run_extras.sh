#!/bin/bash
# Run every extension check (behaviour outside the listed properties; see DESIGN.md section 10).
cd "$(dirname "$0")/.." || exit 2
tier=${1:-quick}; rc=0
for f in harness/props/x[0-9][0-9].py; do
  [ -e "$f" ] || continue
  id=$(basename "$f" .py | tr a-z A-Z)
  ./check "$id" --tier "$tier" | tail -3 || true
  [ "${PIPESTATUS[0]}" = 0 ] || rc=1
done
exit $rc
