#!/usr/bin/env python3
"""Regenerates /verif/MANIFEST.json from the table below (single place to edit)."""
import json, os
HERE = os.path.dirname(os.path.dirname(os.path.abspath(__file__)))

CHECKS = {
 "C09": dict(
  technique="TLA+ spec FSA.tla explored by TLC (invariants + labelled transition system); product exploration of the LTS with the real FSA object (bounded-exhaustive histories, concrete-state dedup); trace validation of recorded random histories against FSATrace.tla; kbmag records generated from GapRecord.tla",
  text="Model checking of an explicit state-machine specification of FSA (one action per public mutating method, queries as stuttering actions) with TLC, bound to the code in both directions: every history of spec actions up to depth k from every constructor route is executed on the real object and all three views plus every read-only query are compared with the spec state after each step; long random histories recorded from the real object are validated line by line by TLC against the trace specification.",
  note="Bounded universe (3 vertices x 2 labels, histories of depth <= 2 quick / 4 thorough after the constructor; random traces over 6 vertices x 3 labels); harness projection and renderer code trusted; single start vertex; non-deterministic insertions outside the domain.",
  design="4/C09"),
 "C10": dict(
  technique="TLA+ spec FSAOps.tla: TLC checks the language theorems on every deterministic automaton of the universe and emits the table of specified results; Prune.tla explores every pruning order (confluence); product exploration of FSA.tla's LTS with the real object runs every language-level operation against the table on each concrete state; recorded histories (queries and derived automata included) validated against FSATrace.tla",
  text="Model checking: every deterministic automaton with <=3 states over 2 labels (and 2 states over 3 labels) is a TLC state on which the operation semantics (acceptance, enumeration, k-multiple, recurrent as greatest fixed point, shortest-path version, relabelling) are checked against each other; the library is bound to it by executing every operation on every concrete FSA object reachable by spec histories of bounded depth and comparing with the spec's table, and by TLC validating recorded random histories.",
  note="Bounded universe and word length (<=3 quick, <=4 thorough, plus one foreign letter), k<=3; edge_ties=False and multiple start vertices not covered; harness projection trusted.",
  design="4/C10"),
 "C06": dict(
  technique="TLA+ spec Enumerate.tla: TLC checks the transcribed recursion against the declarative meaning on every automaton, emits exact integer images and the LTS of calls sharing a memo dictionary; every LTS transition and every single call (direction x state x length x options) over all automata of the FSAOps path table replayed on the real Representation; Words.tla oracle for freely reduced enumeration",
  text="Model checking of an explicit specification of automaton_accepted (declarative meaning Ref, the library's recursion Rec transcribed, memo-sharing calls as a state machine) with TLC, bound to the code by replaying every emitted call transition with a real shared `precomputed` dictionary (result words, matrices entry by entry against exact integer images, and every memo entry) and by executing every option combination on every deterministic automaton with <=3 states.",
  note="Universe: automata <=3 states over {a,B}, lengths <=3 (4 thorough), Sanov generators; memo shared only among calls with equal (direction, maxlen, with_words); quick tier samples 500 of the 3-state automata.",
  design="4/C06"),
 "C01": dict(
  technique="TLA+ specs HypPoints.tla (conversion machine over exact rational coordinates of integer points, invariants PointFixed/InModel) and HypMetric.tla (exact cosh^2, reversed Cauchy-Schwarz, agreement of the five closed-form metrics, integer triangle inequality on all triples) checked by TLC; every emitted conversion transition and every emitted point pair replayed through Point(...).coords / Point.distance",
  text="Model checking of the exact (integer/rational) reference semantics of the five coordinate models and of the metric with TLC, bound to the code by replaying every labelled conversion transition (point x ordered pair of models, as unit objects and as composite arrays of several shapes, plus chains of conversions) and every ordered pair of points of the universe (distance against exact cosh^2, zero/NaN, symmetry, closed forms on the library's own coordinates, triangle inequality on library values).",
  note="Bounded rational grid: primitive integer vectors, dimensions 1..4 (5 thorough), entries <= 13/9/5/3; conversions only where -<x,x> is a perfect square or 0; ideal points compared with sqrt-conditioning tolerance 2e-7; irrational points and points within 1e-6 of the boundary not covered.",
  design="4/C01"),
 "C02": dict(
  technique="TLA+ spec HypIso.tla: exact isometries <<M,d>> (integer matrix over a common denominator) generated by reflections, Pythagorean rotations, rational loxodromics, elliptic blocks; word machine with exact / coset / form-only states; TLC checks form preservation, inverse law, causal type and Minkowski products in every reachable state; the LTS is walked with real library isometries and every obligation of each target state is evaluated on the library's matrix",
  text="Model checking of an exact word machine over O(n,1)(Q) with TLC (every reachable word up to length 3 preserves the form, causal types and products of test points), bound to the code by building every emitted word with the library's own constructors, `@` and `inv()` and requiring form preservation, equality with the exact matrix as a projective map (exact states), the specified image of the origin (origin_to cosets), unchanged distances and interior/ideal/exterior types of the spec's test points.",
  note="Atoms at exact parameter values only (Pythagorean angles, rational translation parameters, integer normals, perfect-square targets); SL^+-(2,Z) images and Coxeter hyperbolic generators bound by form preservation only; words <= 3 (4 thorough for n=2); dimensions 2..4; model invariants evaluated where 32-bit products do not overflow.",
  design="4/C02"),
 "C03": dict(
  technique="TLA+ specs HypAction.tla (eleven hyperbolic object classes with exact integer data, action defined from the geometry, over the exact isometries of HypIso.tla) and ProjAction.tla (general integer 3x3 matrices with adjugate inverse on the projective classes; Gaussian-integer 2x2 on CP^1): TLC checks ActionLaw / IdentityLaw / InverseActs / derived-data compatibility on every (object, A, B) and emits each case; the library's (A@B)@X, A@(B@X), I@X, A.inv()@(A@X) replayed and compared with the exact images",
  text="Model checking of the exact action semantics with TLC (one state per (object, A, B); group-action laws and derived-data compatibility as invariants), bound to the code by replaying every case through the library's `@`, `inv()` and constructors on unit objects and composite stacks and comparing type, composite shape, primary and derived data (polygon edges, segment ideal endpoints, tangent directions) projectively with the spec's exact image; representation words act as the exact product matrix.",
  note="Universe: ~40 hyperbolic objects x 9 isometries squared in dimension 2 (3 in thorough), 14 projective objects x 6 matrices squared, 5 CP^1 points x 4 Gaussian matrices squared; hyperplane ideal bases compared through normal/nullity/orthogonality/rank (frame dependent); arbitrary real matrices only at these exact values.",
  design="4/C03"),
 "C12": dict(
  technique="TLA+ specs Packaging.tla (finite case analysis entry point x packaging x value: the rule is the specification, TLC enumerates it) and Rescale.tla (rescaling as a stuttering step of the projective state; TLC checks scale invariance of the canonical forms Prim / tangent class / cosh^2 and emits (object, scale vector, isometry) cases with exact observations); every case executed on the library",
  text="Model checking of two small explicit specifications with TLC: the packaging rule (domain, never-object, equality with the canonical packaging, follow-up routines succeed) over 314 cases, and the rescaling machine over ~950 (object, scale pattern, isometry) states; bound to the code by executing every packaging case on 26 entry points and by rebuilding every object from rescaled representatives (negative and fractional factors, unit by unit) and re-running constructor, image-under-isometry, coordinates, distance, tangent direction / point_along / unit_tangent_towards, origin_to as a projective map, circle and horosphere parameters against the unchanged spec state.",
  note="Only the installed NumPy 2.x; factors {-3,-1,-1/2,1/3,2,1} in 12 patterns; dimension 2 objects of HypAction.tla; circle/horosphere parameters compared metamorphically with the unscaled library output; geodesics through the half-space point at infinity excluded; integer-typed results accepted when numerically equal to the canonical result.",
  design="4/C12"),
 "C20": dict(
  technique="TLA+ spec CP1.tla (with Gauss.tla): CP^1 over Gaussian integers, disks as Hermitian integer matrices, Moebius action adj(M) H adj(M)*, complement -H; TLC explores point conversions, the Build/Apply/Complement disk state machine and a truth table of contains/intersects per disk pair, checks the model theorems, and emits them; every emitted conversion, disk history step and pair replayed on geometry_tools.complex_projective",
  text="Model checking of an explicit exact specification of CP^1 points, disks and Moebius maps with TLC (coordinate systems inverse and equal to stereographic projection, action on matrices equals pointwise image and is a left action, complement an involution exchanging sides, disk equals its reported spherical cap, contains/intersects sound on probe grids with witnesses, duality, Euclidean criterion, Moebius invariance), bound to the code by replaying every emitted conversion table row, every labelled transition of disk histories (boundary points on the circle, interior point inside, circle parameters, centre_inside, Fubini-Study centre/diameter, operand unchanged) and every disk pair (elementwise and pairwise modes, all four bounded/unbounded combinations).",
  note="Centres in a 5x5 Gaussian box, radii k/2, 7 fixed Gaussian-integer Moebius matrices and words of length <= 2 (3 thorough); circles not tangent; affine observables only when the circle avoids infinity; irrational inputs and near-degenerate conditioning not covered; rendering of emitted integers/rationals/surds to floats and tolerances (1e-9 / 1e-8) trusted.",
  design="4/C20"),

 "C04": dict(
  technique="TLA+ specs Composite.tla (index algebra of composite objects: Bcast, Elementwise, Pairwise, PairwiseReversed, Flatten, Reshape, Index, Slice, Iterate, Stack, Combine, SetItem) and CompUnits.tla (exact integer unit payloads) explored by TLC; the table of specified results replayed into geometry_tools for every class, dimension, shape pair and broadcast mode; recorded random histories validated by TLC against CompositeTrace.tla",
  text="Model checking of an explicit index-algebra specification: every pair of shapes of rank 0..3 is a TLC state on which pairwise = outer product with the object's axes leading (pairwise_reversed its transpose), elementwise = NumPy broadcasting = diagonal of the outer product, and order preservation of flatten/reshape/index/slice/iterate/stack/combine are checked; bound to the code by calling T.apply / T @ X, every shape operation and every vectorised query on composite objects built from TLC's exact payloads and requiring at every index the unit the specification names (projectively equal to TLC's exact image and numerically equal to the library's own result on the unit objects); recorded random histories validated line by line by TLC.",
  note="Shapes of rank <= 3 with dimensions in {1,2,3}; ten classes (projective Point, PointPair, Polygon, Transformation; hyperbolic Point, Geodesic, Segment, TangentVector, Polygon, Isometry) in dimensions 2 and 3; quick samples 30% of rank-3 apply cases; binary queries on equal shapes only; ConvexPolygon, Polygon.circle_parameters, dual data not covered; harness projection trusted.",
  design="4/C04"),
 "C05": dict(
  technique="TLA+ specs Rep.tla (with RepDefs, Fox, lib/IntMat, lib/Words), RepHist.tla (generator dictionary as a state machine) and RepTrace.tla explored by TLC: homomorphism / inverse / free-reduction laws, every derived kind commutes with evaluation, symmetric-square and adjoint bases, Fox laws in Z[F]; exact integer tables and the LTS of the dictionary replayed on live Representations; recorded histories validated by RepTrace.tla",
  text="Model checking of an explicit exact-integer reference semantics of Representation (word evaluation, 11 derived constructions plus tensor, subgroup, realification and projective/hyperbolic wrapping, Fox calculus) with TLC, bound to the code in both directions: every table row executed under 5-9 naming/parsing/dtype/assignment-order modes through every public word-evaluation form, every history of SetGen/Derive up to depth 3 (4 thorough) replayed with entry-by-entry comparison of the stored dictionaries (every name, both cases), all word images and the differential; random recorded histories validated line by line by TLC.",
  note="n = 1..5, up to 4 generators, integer or Gaussian-integer unimodular matrices only; words exhaustive to length 4 (base), 1-3 (derived), 2-4 (Fox), random to length 12; differential and Fox helpers with single-character names only; empty-word differential outside the library's domain; Sage types not covered; numpy homs passed to compose trusted.",
  design="4/C05"),
 "C11": dict(
  technique="TLA+ spec Derived.tla (state machine over objects with derived data, operators of Composite.tla, payloads of CompUnits.tla) explored by TLC (invariants Coherent, TypeOK); its LTS replayed exhaustively as bounded histories on the real object with unit ids decoded independently from proj_data and from aux_data after each step; recorded random histories validated against CompositeTrace.tla",
  text="Model checking of an explicit state machine of objects carrying derived data (construct, copy, apply, reshape, flatten, index, slice, set item, stack, combine, astype; queries as stuttering actions) with TLC, bound to the code by executing every history up to the depth bound on the real object and comparing after each step the shape, the units decoded from proj_data, the units decoded independently from aux_data, and aux_data against type(obj)(obj.proj_data).aux_data; after every query the object, the other operand and the caller's arrays must still represent the same projective points.",
  note="Classes: projective and hyperbolic Polygon, Segment, TangentVector, hyperbolic Point; depth 2 after the constructor (quick), 3 (thorough, small shapes); at most 6 units, two transformations per unit; query battery after the constructor and on a seeded 15% (6%) of later states; ids compared through payloads; ConvexPolygon and dual data not covered.",
  design="4/C04-C11"),
 "C13": dict(
  technique="TLA+ specs HypTangent.tla (exact rational tangent frames g.(o,e1) over HypIso's isometry group) and HypPolygon.tla (regular polygons in exact Q(sqrt r) arithmetic), plus HypMetric.tla point pairs, explored by TLC; every emitted frame, pair and polygon case replayed through the public API against the exact values",
  text="Model checking with TLC of the exact laws (frame validity, d(p, PointAlong(t)) = |t| on the geodesic on the side of sgn t, towards-direction, angles invariant under frames, law of cosines in integer form, transport h g^-1; polygon closed forms vs cosh R = cot(pi/n) cot(a/2), law of cosines at centre and vertex, admissibility), bound to the code by replaying every case: Point.origin_to, TangentVector.origin_to (orientation forced or not), isometry_to, point_along for rational tanh of both signs, unit_tangent_towards followed for d(p,q), angle against rational cosines, regular_polygon (angle or radius given) with equal radii, sides and the requested interior angle, radius/angle formulas as mutual inverses.",
  note="Frames: words of length <= 2 (3 thorough, n=2) in 22-29 exact atoms, dimensions 2..5; tanh t rational; polygon angles k*pi/m with m <= 6 and n in {3,4,5,6,8,10,12} exact, other (n, a) measured with the library's own distance/angle; model-level quadratic laws evaluated where 32-bit products are safe; representatives with x0 < 0 belong to C12.",
  design="4/C13"),
 "C14": dict(
  technique="TLA+ specs HypCircle.tla (exact operators: circle of a geodesic in the Poincare ball and half-space, arc orientation by integer determinants, horosphere spheres, null points in spans) and HypCircleCases.tla (case machine with invariants SegIdeal, SegCircle, SegArc, SegFirst, SegHalf, HoroLaws, ArcLaws, SubLaws, PlaneLaws) explored by TLC; every CASE record replayed into geometry_tools",
  text="Model checking of the exact integer/rational meaning of circle and sphere parameters with TLC, bound to the code by replaying every case: ideal endpoints equal the true pair, are lightlike and collinear with the endpoints in Klein; Poincare centre/radius equal (u+v)/(1+u.v), sqrt(|c|^2-1); half-space circle centred on the boundary through the endpoints; reported angles bound the inside arc counter-clockwise (sampled arc points on the hyperbolic segment); horosphere spheres through the reference point and tangent at the centre in both models; subspace and hyperplane spheres contain all ideal points; degrees/radians, unit and composite shapes agree.",
  note="Ideal-point entries <= 13/3/2 for n = 2/3/4 (25/5/3 thorough); near-diameters of radius 10, 100, 1000; angles for n = 2 only; objects through the half-space point at infinity excluded; tolerance 1e-9 relative to max(1, r), 1e-6 through conformal coordinates of ideal points; for subspaces of dimension >= 2 only containment is required.",
  design="4/C14"),
 "C18": dict(
  technique="TLA+ specs FormOps.tla, Forms.tla (forms by elementary congruences, rows fed one at a time to exact Gram-Schmidt), Kernels.tla, Spheres.tla, Arcs.tla explored by TLC (exhaustive n <= 3, seeded simulation n = 4..6); every state emitted with exact integer/rational expected values and replayed through indefinite_orthogonalize, find_isometry, orthogonal_complement, diagonalize_form, kernel, sphere_through, circle_through, short_arc, right_to_left, arc_include in 4-5 batch shapes",
  text="Model checking with TLC of exact contracts (Orth, NormRatio, GramMinor, FlagSpan, Inertia, Jacobi signature, fraction-free elimination rank/nullity, equidistance and order-freeness of sphere centres, declarative = arithmetic form of the three arc rules), bound to the code by replaying every state: orthogonalised rows equal w_i/sqrt|<w_i,w_i>| up to the sign of each row; find_isometry preserves the form with exact leading rows, signs and det > 0 on request; diagonalize_form gives diag(+-1) in the exact signed / minkowski / reversed order with inverse; kernel of exact dimension, annihilated, orthonormal, spanning the exact kernel; sphere/circle functions return the exact centre and radius; arc helpers return the spec's ordered pair modulo 2 pi.",
  note="Rows with entries in [-2,2] (n <= 4) or [-1,1] (n = 5,6), Gram minors <= 2000, CondK = 50; forms with |det| = 1 on the congruence walk or small symmetric universes; angles on pi/12 (pi/24 thorough), ties excluded; minkowski with p = q accepts either grouped order; SVD/eigh dependent rows bound by their Gram laws only; orthogonal_complement(normalize='form') only where the complement is definite.",
  design="4/C18"),
 "C19": dict(
  technique="TLA+ specs DrawGeom.tla / DrawScene.tla (exact edge, horosphere and chart geometry of scenes under drawing transforms), DrawPath.tla (path assembler state machine, invariants OneStroke, InOrder, NoRepeat, EdgesOnce, Complete) and DrawProj.tla explored by TLC; every emitted scene drawn on the Agg backend and compared with exact values (spec -> code); every outline found in drawing.ax validated as a trace by DrawPathTrace.tla (code -> spec)",
  text="Model checking of the path assembler and of the exact scene geometry with TLC, bound to the code in both directions: polygons (3..8 vertices, interior and ideal, convex or not, composite), segments, geodesics, points and horospheres under drawing transforms in Poincare, half-plane and Klein, and projective objects in three charts are drawn with the real drawing classes; each artist must be one continuous stroke through the spec's exact vertices in cyclic order with pieces of the specified kind, arcs on the exact circle inside the region on the minor arc, points / horospheres / chart objects at exact coordinates; wrong dimensions raise GeometryError and add nothing.",
  note="Perfect-square integer points with entries <= 11, transform words <= 2; half-plane objects inside the default window without a vertex at infinity; radius exactly at the threshold excluded; matplotlib's Bezier circles trusted to 1e-4 r; half-plane node tolerance 2e-5 r (conditioning of ideal endpoints); rasterisation, styles, 3-D, draw_nonaff_polygon, horoarcs, boundary arcs, CP1 drawings not covered.",
  design="4/C19"),
}

NOT_YET = {
}

ALL = ["C%02d" % i for i in range(1, 21)]

def main():
    checks = []
    for pid in ALL:
        if pid not in CHECKS:
            continue
        c = CHECKS[pid]
        checks.append(dict(
            property_id=pid,
            quick_cmd="./check %s --tier quick" % pid,
            thorough_cmd="./check %s --tier thorough" % pid,
            evidence_file="evidence/%s.json" % pid,
            replay_cmd_template="./check %s --replay {path}" % pid,
            engine="tlc+replay",
            level_claimed=dict(category="model_checking", text=c["text"], design_ref=c["design"]),
            level_note=c["note"],
            technique=c["technique"],
        ))
    na = [dict(property_id=p, reason=NOT_YET.get(p, "check not built yet in this round (planned: see DESIGN.md section 4); not claimed until it passes on the repaired tree"))
          for p in ALL if p not in CHECKS]
    m = dict(
        version=1,
        setup_cmd="./setup.sh",
        hooks=dict(guard="GEOMETRY_TOOLS_VERIF", enable="no source hooks: the harness observes through the public API from outside the repository",
                   baseline_off_cmd="cd /repo && /venv/bin/python -m pytest -ra -q -p no:cacheprovider --timeout=900 --continue-on-collection-errors",
                   source_commits=[], add_only=True),
        engines=[dict(name="tlc+replay", path="check", serves_properties=[c["property_id"] for c in checks],
                      kind_free_text="TLC 1.8 model checking of TLA+ specs under spec/, EMIT-ed labelled transitions replayed into geometry_tools (harness/), recorded traces validated by *Trace.tla specs")],
        checks=checks,
        notes="See DESIGN.md. known_findings.jsonl lists fixed/known defects. Exit 2 = machinery failure.",
        not_applicable=na,
    )
    with open(os.path.join(HERE, "MANIFEST.json"), "w") as f:
        json.dump(m, f, indent=1)
        f.write("\n")

if __name__ == "__main__":
    main()
