#!/usr/bin/env python3
"""Re-run the quick checks against every kept seeded change and refresh seeded/<ID>/<k>/meta.json.

  tools/reeval_seeded.py [-j N] [IDs...]

For each change: the patch is applied to a scratch copy of /repo (if it no longer applies because a later fix: commit
rewrote the same lines, meta["applies"] = False and the previous verdict is kept); the demonstration is re-run against
the patched copy (meta["demo_changed_rc"]); the owning check and the neighbouring checks recorded in the meta are run
(VERIF_REPO = patched copy).  Nothing under /repo is touched.
"""
import concurrent.futures as cf
import glob
import json
import os
import shutil
import subprocess
import sys
import tempfile

HERE = os.path.dirname(os.path.dirname(os.path.abspath(__file__)))
sys.path.insert(0, os.path.join(HERE, "tools"))
import eval_seeded as es  # noqa


def one(d):
    meta_p = os.path.join(d, "meta.json")
    meta = json.load(open(meta_p))
    owner = meta["property"]
    ids = [owner] + [k for k in meta.get("checks", {}) if k != owner]
    tmp = tempfile.mkdtemp(prefix="reeval.")
    repo = os.path.join(tmp, "repo")
    try:
        shutil.copytree("/repo", repo, symlinks=True)
        a = subprocess.run(["git", "apply", os.path.join(d, "patch.diff")], cwd=repo, capture_output=True, text=True)
        if a.returncode:
            meta["applies"] = False
            meta["applies_note"] = "patch no longer applies to the current /repo (a later fix: commit rewrote the same lines); last verdict kept"
            json.dump(meta, open(meta_p, "w"), indent=1)
            return d, "stale", meta.get("caught_by")
        meta["applies"] = True
        meta.pop("applies_note", None)
        if os.path.exists(os.path.join(d, "demo.py")):
            meta["demo_changed_rc"] = es.demo(repo, os.path.join(d, "demo.py"))[0]
        results = {}
        for pid in ids:
            p = subprocess.run([os.path.join(HERE, "check"), pid, "--tier", "quick"], cwd=HERE, capture_output=True, text=True,
                               env=dict(os.environ, VERIF_REPO=repo, VERIF_NO_EVIDENCE="1"))
            line = [l for l in p.stdout.splitlines() if l.startswith(("VIOLATION", "OK", "MACHINERY"))]
            clause = [l.strip() for l in p.stdout.splitlines() if "violated clause" in l][:1]
            results[pid] = dict(rc=p.returncode, line=line[-1] if line else "", first=clause[0][:300] if clause else "")
        meta["checks"] = results
        meta["caught_by"] = [k for k, v in results.items() if v["rc"] == 1]
        json.dump(meta, open(meta_p, "w"), indent=1)
        return d, "ok", meta["caught_by"]
    finally:
        shutil.rmtree(tmp, ignore_errors=True)


def main():
    args = [a for a in sys.argv[1:]]
    j = 4
    if "-j" in args:
        j = int(args[args.index("-j") + 1])
        del args[args.index("-j"):args.index("-j") + 2]
    dirs = sorted(os.path.dirname(p) for p in glob.glob(os.path.join(HERE, "seeded", "*", "*", "meta.json")))
    if args:
        dirs = [d for d in dirs if os.path.basename(os.path.dirname(d)) in args]
    with cf.ThreadPoolExecutor(j) as ex:
        for d, st, caught in ex.map(one, dirs):
            print("%-18s %-6s caught_by=%s" % (os.path.relpath(d, os.path.join(HERE, "seeded")), st, caught), flush=True)


if __name__ == "__main__":
    main()
