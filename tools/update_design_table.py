#!/usr/bin/env python3
import os, subprocess, re
HERE = os.path.dirname(os.path.dirname(os.path.abspath(__file__)))
tab = subprocess.run([os.path.join(HERE, "tools", "catch_table.py")], capture_output=True, text=True).stdout
p = os.path.join(HERE, "DESIGN.md")
s = open(p).read()
s = re.sub(r"<!-- CATCH-TABLE-BEGIN -->.*<!-- CATCH-TABLE-END -->", "<!-- CATCH-TABLE-BEGIN -->\n" + tab.replace("\\", "\\\\") + "<!-- CATCH-TABLE-END -->", s, flags=re.S)
open(p, "w").write(s)
