#!/bin/bash
# Per-check line coverage of the library: .work/cov/per_check.json  { file: { line: [check ids] } }
#   tools/libcover_percheck.sh [IDs...]
cd "$(dirname "$0")/.." || exit 2
COV=$PWD/.work/cov; mkdir -p $COV/pc
ids=("$@"); [ ${#ids[@]} = 0 ] && ids=($(seq -f 'C%02g' 1 20))
for id in "${ids[@]}"; do
  d=$COV/pc/$id; rm -rf $d; mkdir -p $d
  cat > $d/rc <<EOT
[run]
source = /repo/geometry_tools
parallel = True
concurrency = multiprocessing
data_file = $d/data
EOT
  COVERAGE_CORE=sysmon VERIF_NO_EVIDENCE=1 /venv/bin/python -m coverage run --rcfile=$d/rc ./check $id --tier quick > $d/log 2>&1
  echo "$id rc=$? $(tail -1 $d/log | cut -c1-120)"
  /venv/bin/python -m coverage combine --rcfile=$d/rc -q 2>/dev/null
  /venv/bin/python -m coverage json --rcfile=$d/rc -o $d/cov.json -q 2>/dev/null
done
/venv/bin/python - <<'PY'
import json, glob, os
out = {}
for f in sorted(glob.glob(os.path.expanduser('/verif/.work/cov/pc/*/cov.json'))):
    cid = f.split('/')[-2]
    d = json.load(open(f))
    for path, fd in d['files'].items():
        m = out.setdefault(path, {})
        for ln in fd['executed_lines']:
            m.setdefault(str(ln), []).append(cid)
json.dump(out, open('/verif/.work/cov/per_check.json', 'w'))
print('files', len(out))
PY
