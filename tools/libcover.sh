#!/bin/bash
# Which lines of the library do the registered quick checks execute?  (coverage.py from /venv; report only, decides nothing.)
#   tools/libcover.sh [IDs...]      -> .work/cov/report.txt, .work/cov/missing_functions.txt
cd "$(dirname "$0")/.." || exit 2
COV=.work/cov; rm -rf $COV; mkdir -p $COV
cat > $COV/rc <<EOT
[run]
source = /repo/geometry_tools
parallel = True
concurrency = multiprocessing
data_file = $PWD/$COV/data
[report]
omit = */sagewrap.py
EOT
ids=("$@"); [ ${#ids[@]} = 0 ] && ids=($(seq -f 'C%02g' 1 20))
for id in "${ids[@]}"; do
  COVERAGE_CORE=sysmon VERIF_NO_EVIDENCE=1 /venv/bin/python -m coverage run --rcfile=$COV/rc ./check $id --tier quick > $COV/$id.log 2>&1
  echo "$id rc=$? $(tail -1 $COV/$id.log)"
done
/venv/bin/python -m coverage combine --rcfile=$COV/rc -q
/venv/bin/python -m coverage report --rcfile=$COV/rc > $COV/report.txt
/venv/bin/python -m coverage json --rcfile=$COV/rc -o $COV/cov.json -q
tail -30 $COV/report.txt
