#!/bin/sh
# usage: tools/mutant.sh <patch file> <ID> [<ID>...]   -- runs the quick checks of the given properties
# against a scratch copy of /repo with the patch applied; the copy is removed afterwards.
set -u
PATCH=$(realpath "$1"); shift
D=$(mktemp -d /tmp/mutant.XXXXXX)
cp -r /repo "$D/repo"
( cd "$D/repo" && git apply "$PATCH" ) || { echo "PATCH DOES NOT APPLY: $PATCH"; rm -rf "$D"; exit 3; }
cd "$(dirname "$0")/.."
for id in "$@"; do
  out=$(VERIF_REPO="$D/repo" VERIF_NO_EVIDENCE=1 ./check "$id" --tier "${MUT_TIER:-quick}" 2>&1); rc=$?
  echo "mutant=$(basename "$PATCH") property=$id rc=$rc $(echo "$out" | grep -m1 'VIOLATION\|MACHINERY\|^OK')"
  [ "${MUT_VERBOSE:-0}" = 1 ] && echo "$out" | grep "violated clause" | head -3
done
rm -rf "$D"
