#!/bin/sh
# Offline setup: nothing to compile. Verify the toolchain and parse every TLA+ module.
set -e
cd "$(dirname "$0")"
command -v java >/dev/null || { echo "java missing"; exit 1; }
test -f /opt/veriftools/tla/tla2tools.jar || { echo "tla2tools.jar missing"; exit 1; }
/venv/bin/python -c "import numpy, geometry_tools" || { echo "repo python env missing"; exit 1; }
LIBS=$(find spec -type d | tr '\n' ':')
mkdir -p .work
fail=0
for f in $(find spec -name '*.tla' | sort); do
  if ! java -DTLA-Library="$LIBS" -cp /opt/veriftools/tla/tla2tools.jar:/opt/veriftools/tla/CommunityModules-deps.jar tla2sany.SANY "$f" >.work/sany.$$ 2>&1; then
    echo "SANY failed on $f"; tail -20 .work/sany.$$; fail=1
  elif grep -q "Semantic errors\|Parse Error\|Could not parse" .work/sany.$$; then
    echo "SANY errors in $f"; grep -A5 "errors\|Error" .work/sany.$$ | head -20; fail=1
  fi
done
rm -f .work/sany.$$
[ $fail -eq 0 ] && echo "setup ok: $(find spec -name '*.tla' | wc -l) modules parsed"
exit $fail
