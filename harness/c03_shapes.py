"""C03, composite shapes: spec/proj/ActShapes.tla states (sx, st, mode) replayed through
Transformation.apply(X, broadcast=mode) (and `@` for elementwise): the result has the type of X, the composite
shape the spec computes, and every entry is the exact image of the unit / transformation pair the spec names.
The same index tables drive hyperbolic stacks (Isometry on Point / DualPoint / Segment / TangentVector /
Isometry) whose entry images come from HypAction's cases."""
import json

import numpy as np

from . import core
from . import hyp_common as hc


def parse_matlist(stdout):
    for line in stdout.splitlines():
        if line.startswith('"MATLIST '):
            return json.loads(json.loads(line)[8:])
    raise core.MachineryFailure("no MATLIST table")


def tlc_job():
    c = core.cfg(init="ShInit", next_="ShNext",
                 invariants=["PairwiseViaBroadcast", "ReversedIsTransposed", "EveryPairOnce", "RankZero", "Zip", "StackActionLaw",
                             "DifferentRanksCovered", "EmitShape"])
    return dict(module="proj/ActShapes.tla", cfg=c, name="ActShapes", emit_prefix="SHAPE ")


def parse(r):
    return r.emits, parse_matlist(r.stdout)


def _stack(units, shape, build):
    """composite of the given shape whose flat position p holds units[p % len]"""
    size = int(np.prod(shape)) if shape else 1
    objs = [build(units[p % len(units)]) for p in range(size)]
    if not shape:
        return objs[0]
    X = type(objs[0])(objs)
    return X.reshape(tuple(shape))


def _units_of(R):
    return R.flatten_to_unit() if R.shape != () else [R]


def replay_projective(run, emits, matlist):
    from geometry_tools import projective as P
    from .props import c03_proj
    for e in emits:
        sx, st, mode, shape = tuple(e["sx"]), tuple(e["st"]), e["mode"], tuple(e["shape"])
        nm = e["nmats"]
        size_t = int(np.prod(st)) if st else 1
        for cls in sorted(e["img"]):
            run.case(key=None, action="shapes:%s:%s" % (mode, cls))
            bad = None
            try:
                X = _stack(e["units"][cls], sx, c03_proj.build)
                unit_type = type(c03_proj.build(e["units"][cls][0]))
                T = P.Transformation(np.array([matlist[q % nm] for q in range(size_t)], float).reshape(st + (3, 3)), column_vectors=True)
                results = [("apply(broadcast=%s)" % mode, T.apply(X, broadcast=mode), e["img"][cls])]
                if mode == "elementwise":
                    T2 = P.Transformation(np.array([matlist[(q + 3) % nm] for q in range(size_t)], float).reshape(st + (3, 3)),
                                          column_vectors=True)
                    results += [("T@X", T @ X, e["img"][cls]), ("(T@T2)@X", (T @ T2) @ X, e["img2"][cls]),
                                ("T@(T2@X)", T @ (T2 @ X), e["img2"][cls])]
                for name, R, want in results:
                    if type(R) is not unit_type:
                        bad = (name + ":type", "result is %s, X is %s" % (type(R).__name__, unit_type.__name__))
                    elif tuple(R.shape) != shape:
                        bad = (name + ":composite_shape", "result shape %r, spec %r" % (tuple(R.shape), shape))
                    else:
                        us = _units_of(R)
                        for p, w in enumerate(want):
                            b = c03_proj.same(us[p], w, unit_type, ())
                            if b:
                                bad = ("%s:entry[%d]=T[%d].X[%d]:%s" % (name, p, e["idx"][p][1] - 1, e["idx"][p][0] - 1, b[0]), b[1])
                                break
                    if bad:
                        break
            except Exception as ex:
                bad = ("raised:shapes", "%s: %s" % (type(ex).__name__, ex))
            if bad:
                run.violation("shapes:%s:X%r:T%r:%s" % (cls, sx, st, mode), bad[0],
                              dict(cls=cls, X_shape=sx, T_shape=st, mode=mode, expected_shape=shape, observed=bad[1]))
    run.traces += len(emits)
    run.nontrivial_count += len(emits)
    for e in emits:
        if e["mode"] == "pairwise" and len(e["sx"]) == 1 and len(e["st"]) == 2 and e["sx"][0] == e["st"][0] > 1:
            run.sample(dict(kind="composite shapes (pairwise, ranks 1 and 2)", sx=e["sx"], st=e["st"], shape=e["shape"], idx=e["idx"],
                            image_of_points=e["img"]["point"]))
            break


def replay_hyperbolic(run, shape_emits, hyp_emits, same, build):
    """the index tables of ActShapes with the exact images of HypAction: `same` / `build` are c03's"""
    H = hc.H()
    table, byclass, elems = {}, {}, {}
    for e in hyp_emits:
        oj, aj = json.dumps(e["obj"], sort_keys=True), json.dumps(e["A"])
        table[(oj, aj)] = e["imgA"]
        byclass.setdefault(e["obj"]["cls"], {})[oj] = e["obj"]
        elems[aj] = e["A"]
    elems = [elems[k] for k in sorted(elems)]
    for cls in ("point", "dualpoint", "segment", "tangent", "isometry"):
        units = [byclass[cls][k] for k in sorted(byclass.get(cls, {}))]
        if len(units) < 2:
            raise core.MachineryFailure("no units of class %s" % cls)
        for e in shape_emits:
            sx, st, mode, shape = tuple(e["sx"]), tuple(e["st"]), e["mode"], tuple(e["shape"])
            if len(shape) > 3:
                continue
            size_x, size_t = (int(np.prod(sx)) if sx else 1), (int(np.prod(st)) if st else 1)
            run.case(key=None, action="shapes_hyp:%s:%s" % (mode, cls))
            bad = None
            try:
                objs = [build(cls, units[p % len(units)]) for p in range(size_x)]
                if cls == "tangent":
                    X = H.TangentVector(np.array([u.proj_data for u in objs]).reshape(sx + objs[0].proj_data.shape))
                else:
                    X = objs[0] if not sx else type(objs[0])(objs).reshape(sx)
                T = H.Isometry(np.array([hc.spec_matrix(elems[q % len(elems)]) for q in range(size_t)]).reshape(st + X.proj_data.shape[-1:] * 2),
                               column_vectors=True)
                R = T.apply(X, broadcast=mode)
                if type(R) is not type(objs[0]):
                    bad = ("type", "result is %s, X is %s" % (type(R).__name__, type(objs[0]).__name__))
                elif tuple(R.shape) != shape:
                    bad = ("composite_shape", "result shape %r, spec %r" % (tuple(R.shape), shape))
                else:
                    us = R.flatten_to_unit() if shape else [R]
                    for p, (xp, tq) in enumerate(e["idx"]):
                        want = table[(json.dumps(units[(xp - 1) % len(units)], sort_keys=True), json.dumps(elems[(tq - 1) % len(elems)]))]
                        b = same(us[p], cls, want, type(objs[0]), ())
                        if b:
                            bad = ("entry[%d]=T[%d].X[%d]:%s" % (p, tq - 1, xp - 1, b[0]), b[1])
                            break
            except Exception as ex:
                bad = ("raised:shapes_hyp", "%s: %s" % (type(ex).__name__, ex))
            if bad:
                run.violation("shapes_hyp:%s:X%r:T%r:%s" % (cls, sx, st, mode), "hyp_stack:" + bad[0],
                              dict(cls=cls, X_shape=sx, T_shape=st, mode=mode, expected_shape=shape, observed=bad[1]))
