"""C05 (C): seeded random cases for spec/rep/Rep.tla.

Only *inputs* are chosen here: random unimodular integer matrices (short products of elementary,
permutation and sign matrices), random long words, random parameters of the derived kinds.  They
are written as a wrapper module `RepRand` (EXTENDS Rep, RandCases == <<...>>); TLC checks the
theorems on them and prints the tables of specified values exactly as for the fixed universe.

TLC integers are 32-bit and TLC aborts on overflow, so every generated case is filtered by a
conservative magnitude bound (products of max(row-sum, column-sum) norms, n! * norm^n for the
cofactor expansions) -- an input-domain filter, not an oracle.
"""
import math
import random

import numpy as np

from . import core

LIMIT = 2 ** 29          # TLC: 32-bit integers
FLOAT_LIMIT = 2 ** 22    # float64: keep len * (product of norms) * 1e-14 far below 1
LOWER = "abcd"


def mnorm(A):
    A = np.abs(np.array(A, dtype=object))
    return int(max(max(sum(r) for r in A.tolist()), max(sum(c) for c in A.T.tolist())))


def int_inverse(A):
    inv = np.round(np.linalg.inv(np.array(A, dtype=float))).astype("int64")
    if not np.array_equal(np.array(A, dtype="int64") @ inv, np.identity(len(A), dtype="int64")):
        raise ValueError("not unimodular")
    return inv


def rand_unimodular(rng, n, ops):
    M = np.identity(n, dtype="int64")
    for _ in range(ops):
        kind = rng.choice(["elem", "elem", "perm", "sign"]) if n > 1 else "sign"
        E = np.identity(n, dtype="int64")
        if kind == "elem":
            i, j = rng.sample(range(n), 2)
            E[i, j] = rng.choice([1, -1, 2]) if n <= 3 else rng.choice([1, -1])
        elif kind == "perm":
            i, j = rng.sample(range(n), 2)
            E[[i, j]] = E[[j, i]]
        else:
            i = rng.randrange(n)
            E[i, i] = -1
        M = M @ E
    return M


def rand_word(rng, letters, length):
    return tuple(rng.choice(letters) for _ in range(length))


def swap(l):
    return l.upper() if l.islower() else l.lower()


def gen_case(rng, idx):
    for attempt in range(200):
        n = rng.choice([1, 2, 2, 3, 3, 4, 5])
        k = rng.randint(1, 4 if n <= 3 else 2)
        ops = rng.randint(1, 3 if n <= 3 else 2)
        lo = {LOWER[i]: rand_unimodular(rng, n, ops) for i in range(k)}
        full = dict(lo)
        for g, M in lo.items():
            full[g.upper()] = int_inverse(M)
        letters = sorted(full)
        m = {l: mnorm(full[l]) for l in letters}
        mmax = max(m.values())
        fact = math.factorial(n)

        def P(w, norms=m):
            out = 1
            for l in w:
                out *= norms[l]
            return out

        L = 2 if k <= 3 else 1
        if fact * (mmax ** L) ** n >= LIMIT:
            L = 1
            if fact * mmax ** n >= LIMIT:
                continue
        LD = 2 if (k <= 2 and n <= 3) else 1
        LF = 2 if k <= 3 else 1
        # long words for the base laws
        xw = set()
        for _ in range(40):
            w = rand_word(rng, letters, rng.randint(5, 12))
            if P(w) * len(w) < FLOAT_LIMIT and len(xw) < 4:
                xw.add(w)
        # derived kinds
        C = rand_unimodular(rng, n, 2)
        Ci = int_inverse(C)
        mC, mCi = mnorm(C), mnorm(Ci)
        H = {g: rand_unimodular(rng, n, rng.randint(1, 2)) for g in lo}
        Hfull = dict(H)
        for g, M in H.items():
            Hfull[g.upper()] = int_inverse(M)
        pool = ["copy", "conjugate", "dual", "compose_invT", "compose_kron2", "compose_block", "symmetric_square",
                "gln_adjoint", "compose_id", "astype"] + (["sln_adjoint"] if n >= 2 else [])
        names = rng.sample(pool, 4 if n <= 3 else 3)
        per_letter = {
            "copy": lambda l: m[l], "astype": lambda l: m[l], "compose_id": lambda l: m[l], "compose_block": lambda l: m[l],
            "conjugate": lambda l: mCi * m[l] * mC, "dual": lambda l: m[swap(l)], "compose_invT": lambda l: m[swap(l)],
            "compose_kron2": lambda l: m[l] ** 2, "symmetric_square": lambda l: 4 * m[l] ** 2,
            "gln_adjoint": lambda l: m[l] * m[swap(l)], "sln_adjoint": lambda l: 2 * m[l] * m[swap(l)],
            "tensor": lambda l: m[l] * mnorm(Hfull[l]),
        }
        needs_inv = {"dual", "compose_invT", "gln_adjoint", "sln_adjoint"}

        def ok_word(w, kinds, limit=LIMIT):
            for kd in kinds:
                if P(w, {l: per_letter[kd](l) for l in letters}) * 4 * len(w) >= limit:
                    return False
                if kd in needs_inv and fact * P(w) ** n * max(1, P(w)) >= LIMIT:
                    return False
            return True

        all_kinds = names + ["tensor"]

        def worst(kd, length):
            return (max(letters, key=lambda l: per_letter[kd](l)),) * length

        if not all(ok_word(worst(kd, LD), [kd]) for kd in all_kinds):
            LD = 1
            if not all(ok_word(worst(kd, LD), [kd]) for kd in all_kinds):
                continue
        if "conjugate" in names and fact * mC ** n >= LIMIT:
            continue
        xd = set()
        for _ in range(40):
            w = rand_word(rng, letters, rng.randint(3, 5))
            if ok_word(w, all_kinds, FLOAT_LIMIT) and len(xd) < 2:
                xd.add(w)
        # subgroup
        sub = {}
        subL = 3 if n <= 3 else 2
        for i in range(rng.randint(1, 2)):
            w = rand_word(rng, letters, rng.randint(1, 3))
            sub[LOWER[i]] = w
        worst = max(max(P(w), P(tuple(swap(l) for l in w))) for w in sub.values())
        if worst ** subL >= LIMIT or fact * worst ** n >= LIMIT:
            sub = {}
        # relators that hold in every representation: u u^-1 (not freely reduced on purpose)
        rels = set()
        for _ in range(2):
            u = rand_word(rng, letters, rng.randint(1, 3))
            r = u + tuple(swap(l) for l in reversed(u))
            if P(r) * len(r) < FLOAT_LIMIT:
                rels.add(r)
        kinds = []
        for kd in names:
            rec = dict(kind=kd, C=(), m=0)
            if kd == "conjugate":
                rec["C"] = tuple(tuple(int(x) for x in r) for r in C)
            if kd == "compose_block":
                rec["m"] = n + rng.randint(1, 2)
            kinds.append(rec)
        vecs = {tuple(rng.randint(-3, 3) for _ in range(n)) for _ in range(2)}
        vecs = {v for v in vecs if any(v)}
        tup = lambda M: tuple(tuple(int(x) for x in r) for r in M)
        return dict(id="rand%d" % idx, n=n, lo={g: tup(M) for g, M in lo.items()},
                    H={g: tup(M) for g, M in H.items()},
                    sub=sub if sub else core.Raw("NoSub"), rels=rels, L=L, LD=LD, LF=LF, kinds=tuple(kinds),
                    vecs=vecs, hyp=False, xw=xw, xd=xd)
    raise core.MachineryFailure("could not generate a random case within the magnitude bounds")


def prepare(run, quick):
    """writes the wrapper module; returns (module path, cfg text)"""
    rng = random.Random(run.seed * 7919 + 5)
    ncases = 8 if quick else 48
    cases = [gen_case(rng, i) for i in range(ncases)]
    body = "RandCases == <<\n  " + ",\n  ".join(core.tla_expr(c) for c in cases) + "\n>>\nNoCCases == <<>>\n"
    path = core.write_module(run.work + "/RepRand_mod", "RepRand", ["Rep"], body)
    c = core.cfg(constants=dict(Cases=core.Raw("RandCases"), CCases=core.Raw("NoCCases")), invariants=["Theorems", "EmitObs"])
    c = c.replace("Cases = RandCases", "Cases <- RandCases").replace("CCases = NoCCases", "CCases <- NoCCases")
    run.extra["random_cases"] = [dict(id=c["id"], n=c["n"], generators=len(c["lo"]), long_words=sorted("".join(w) for w in c["xw"]))
                                 for c in cases[:6]]
    return path, c
