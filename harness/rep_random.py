def run(run, quick, tables):
    pass
