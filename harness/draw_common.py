"""Shared pieces of the C19 check (what is drawn is the object).

* construction of drawings / library objects for a scene emitted by spec/draw/DrawScene.tla,
* the projection of matplotlib artists: paths in data coordinates cut into MoveTo / pieces,
  vertices named by the spec's exact coordinates, arcs measured against the spec's exact circle,
* validation of the recorded outlines by TLC against spec/draw/DrawPathTrace.tla.
"""
import json
import os
import re

import numpy as np

from . import core
from . import hyp_common as hc

MODELS = ("poincare", "halfplane", "klein")
VERTEX_TOL = 1e-6          # a path point "is" a vertex (design: nearest vertex within 1e-6)
POINT_TOL = 1e-9           # positions of interior points; ideal points go through sqrt(1 - |k|^2): 2e-7 (as in C01)
IDEAL_TOL = 2e-6           # (rounding of transformed vectors with entries up to 60: ~1e-13 in |k|^2, its square root in the position)
CAP = 10 ** 9
MOVETO, LINETO, CURVE3, CURVE4, CLOSEPOLY = 1, 2, 3, 4, 79


def drawtools():
    from geometry_tools import drawtools as D
    return D


def plt():
    import matplotlib.pyplot as p
    return p


def rat(p):
    return p[0] / p[1]


def rat2(c):
    return np.array([c[0][0] / c[0][1], c[1][0] / c[1][1]], dtype=float)


def word_key(word):
    return json.dumps(word, sort_keys=True, separators=(",", ":"))


# ----------------------------------------------------------------------------------------
# drawings
# ----------------------------------------------------------------------------------------
MODEL_NAMES = {"poincare": ["poincare", "POINCARE"], "halfplane": ["halfplane", "halfspace", "HALFSPACE"],
               "klein": ["klein", "kleinian", "AFFINE"]}
DEFAULT_WINDOW = [-6, 6, 8]


def model_arg(model, rng=None):
    """the drawing's model as the library accepts it: an alias string (any case) or the enum member"""
    from geometry_tools.hyperbolic import Model
    if rng is None:
        return model
    names = MODEL_NAMES[model]
    member = {"poincare": Model.POINCARE, "halfplane": Model.HALFSPACE, "klein": Model.KLEIN}[model]
    return rng.choice(names + [member, member])


def make_drawing(model, word, via_constructor=False, window=None, rng=None, defaults=None, force_default=False, **kw):
    """A HyperbolicDrawing whose transformation is the word (add_transform / precompose_transform); a window other than
    the default is given to the constructor as xlim / ylim."""
    D = drawtools()
    w = list(word)
    if window is not None and list(window) != DEFAULT_WINDOW:
        kw = dict(kw, xlim=(float(window[0]), float(window[1])), ylim=(-0.1, float(window[2])))
    if defaults and model == defaults["model"] and not w and not kw and rng is not None and (force_default or rng.random() < 0.5):
        d = D.HyperbolicDrawing()                          # every argument left to its default
        d._verif_default = True
        return d
    model = model_arg(model, rng)
    if via_constructor and w:
        d = D.HyperbolicDrawing(model=model, transform=hc.lib_atom(w[0][1], 2), **kw)
        w = w[1:]
    else:
        d = D.HyperbolicDrawing(model=model, **kw)
    for side, atom in w:
        iso = hc.lib_atom(atom, 2)
        if side == "L":
            d.add_transform(iso)
        else:
            d.precompose_transform(iso)
    return d


def clear(d):
    for a in list(d.ax.patches) + list(d.ax.collections) + list(d.ax.lines):
        a.remove()


def close(d):
    plt().close(d.fig)


# ----------------------------------------------------------------------------------------
# paths -> pieces
# ----------------------------------------------------------------------------------------
def patch_path(p):
    """the outline of a patch in data coordinates: (vertices, codes)"""
    path = p.get_patch_transform().transform_path(p.get_path())
    return np.asarray(path.vertices, float), (None if path.codes is None else np.asarray(path.codes))


def cut_path(verts, codes, join_tol=VERTEX_TOL):
    """What the path draws, as a list of
         ("move", P) | ("line", P0, P1) | ("arc", P0, ctrl[(3m, 2)]) | ("bad", reason).
    A LINETO / CLOSEPOLY of length <= join_tol is a join, not a piece."""
    n = len(verts)
    if codes is None:
        codes = np.array([MOVETO] + [LINETO] * (n - 1))
    out = []
    pen = start = None
    i = 0
    while i < n:
        c = int(codes[i])
        v = verts[i]
        if c == MOVETO:
            out.append(("move", v.copy()))
            pen = start = v
            i += 1
        elif c in (LINETO, CLOSEPOLY):
            tgt = start if c == CLOSEPOLY else v
            if pen is None or tgt is None:
                out.append(("bad", "line without current point"))
                return out
            if not np.isfinite(tgt).all():
                out.append(("bad", "non-finite vertex"))
                return out
            if np.abs(tgt - pen).max() > join_tol:
                out.append(("line", np.array(pen, float), np.array(tgt, float)))
            pen = tgt
            i += 1
        elif c == CURVE4:
            j = i
            while j < n and int(codes[j]) == CURVE4:
                j += 1
            if pen is None or (j - i) % 3 != 0:
                out.append(("bad", "malformed Bezier run"))
                return out
            ctrl = verts[i:j].copy()
            if not np.isfinite(ctrl).all():
                out.append(("bad", "non-finite vertex"))
                return out
            out.append(("arc", np.array(pen, float), ctrl))
            pen = ctrl[-1]
            i = j
        else:
            out.append(("bad", "unsupported path code %d" % c))
            return out
    return out


def bezier_points(p0, ctrl):
    """nodes (on-curve points) and points at t = 1/4, 1/2, 3/4 of every cubic segment"""
    m = len(ctrl) // 3
    P0 = np.vstack([p0[None, :], ctrl[2::3][:-1]]) if m > 1 else p0[None, :]
    P1, P2, P3 = ctrl[0::3], ctrl[1::3], ctrl[2::3]
    nodes = np.vstack([p0[None, :], P3])
    pts = []
    for t in (0.25, 0.5, 0.75):
        s = 1 - t
        pts.append(s ** 3 * P0 + 3 * s * s * t * P1 + 3 * s * t * t * P2 + t ** 3 * P3)
    return nodes, np.vstack(pts)


def vertex_id(pt, vc, extra=0.0, ideal=None):
    """1-based index of the spec vertex within VERTEX_TOL (+ extra) of pt, else 0; ideal vertices (square root at the
    boundary in the library's conformal coordinates, as in C01) get 5 VERTEX_TOL"""
    d = np.abs(vc - pt[None, :]).max(axis=1)
    i = int(np.argmin(d))
    f = 5.0 if ideal is not None and ideal[i] else 1.0
    return i + 1 if d[i] <= f * VERTEX_TOL * max(1.0, float(np.abs(vc[i]).max())) + extra else 0


def conditioning(model, geom):
    """Spec-exported scale of the vertex tolerance.  In the half-plane the code derives the circle of an edge from
    the half-plane coordinates of its IDEAL endpoints: rounding 1e-16 becomes 1e-8 at the boundary (square root, as in
    C01) and is amplified by X^2 for an endpoint at abscissa X ~ 2 r.  The arcs of an outline are therefore only
    accurate to about 1e-8 r^2; r from the spec's descriptors of the arc edges."""
    if model != "halfplane":
        return 0.0
    r2 = [rat(e["r2"]) for e in geom["edges"] if e["kind"] == "arc"]
    return 2e-8 * max(r2) if r2 else 0.0


def edge_between(a, b, nv, closed):
    """index (1-based) of the edge joining vertices a and b, else 0 (same rule as DrawPath!EdgeOf)"""
    if a == 0 or b == 0:
        return 0
    nxt = (lambda v: (1 if closed else 0) if v == nv else v + 1)
    if nxt(a) == b:
        return a
    if nxt(b) == a:
        return b
    return 0


def measure_arc(model, desc, p0, ctrl):
    """deviation of an arc piece from the spec's exact circle (projection: numbers only, the spec decides)"""
    if "c" not in desc:
        return dict(devn=CAP, devc=CAP, inside=False, minor=False)
    c = rat2(desc["c"])
    r = float(np.sqrt(rat(desc["r2"])))
    mid = rat2(desc["mid"])
    h = float(np.sqrt(rat(desc["h2"])))
    nodes, pts = bezier_points(p0, ctrl)
    dn = np.abs(np.linalg.norm(nodes - c, axis=1) - r).max() / r
    dc = np.abs(np.linalg.norm(pts - c, axis=1) - r).max() / r
    allp = np.vstack([nodes, pts])
    if model == "poincare":
        inside = bool(((allp ** 2).sum(axis=1) <= 1 + 1e-6).all())
    else:
        inside = bool((allp[:, 1] >= -1e-6 * max(1.0, r)).all())
    minor = bool((np.linalg.norm(allp - mid, axis=1) <= h * (1 + 1e-6) + 1e-7).all())
    q = lambda x, unit: int(min(CAP, np.ceil(x / unit))) if np.isfinite(x) else CAP
    return dict(devn=q(dn, 1e-10), devc=q(dc, 1e-6), inside=inside, minor=minor)


def outline_events(model, geom, closed, verts, codes, ideal=None):
    """events of one outline against the spec's scene geometry (vertex coordinates, edge descriptors)"""
    vc = np.array([rat2(c) for c in geom["vc"]])
    nv = len(vc)
    evs = []
    extra = conditioning(model, geom)
    vid = lambda pt: vertex_id(pt, vc, extra, ideal)
    for pc in cut_path(verts, codes):
        if pc[0] == "move":
            evs.append(dict(op="move", at=vid(pc[1])))
        elif pc[0] == "line":
            a, b = vid(pc[1]), vid(pc[2])
            if a and a == b:
                continue                 # both ends are the same vertex (vertices are distinct points): a join
            evs.append(dict(op="edge", kind="straight", first=a, last=b))
        elif pc[0] == "arc":
            a, b = vid(pc[1]), vid(pc[2][-1])
            e = edge_between(a, b, nv, closed)
            ev = dict(op="edge", kind="arc", first=a, last=b)
            ev.update(measure_arc(model, geom["edges"][e - 1], pc[1], pc[2]) if e else
                      dict(devn=CAP, devc=CAP, inside=False, minor=False))
            evs.append(ev)
        else:
            evs.append(dict(op="bad", why=pc[1]))
    return evs


def structure_events(vc, verts, codes):
    """events of an outline whose vertices are only NAMED (vc: their model coordinates), no measurement of arcs: for
    objects too small for exact 32-bit circles.  Tolerances are relative to the shortest edge."""
    vc = np.asarray(vc, float)
    el = np.linalg.norm(vc - np.roll(vc, -1, axis=0), axis=1).min()
    # relative to the shortest edge; not below 1e-7 (the half-plane circle of an edge is derived from half-plane coordinates
    # of ideal points: absolute noise 1e-8, see conditioning()), never above 5% of the shortest edge
    tol = min(0.05 * el, max(1e-3 * el, 1e-7))

    def vid(pt):
        d = np.abs(vc - pt[None, :]).max(axis=1)
        i = int(np.argmin(d))
        return i + 1 if d[i] <= tol else 0
    evs = []
    for pc in cut_path(verts, codes, join_tol=tol):
        if pc[0] == "move":
            evs.append(dict(op="move", at=vid(pc[1])))
        elif pc[0] == "line":
            a, b = vid(pc[1]), vid(pc[2])
            if a and a == b:
                continue
            evs.append(dict(op="edge", kind="straight", first=a, last=b))
        elif pc[0] == "arc":
            evs.append(dict(op="edge", kind="arc", first=vid(pc[1]), last=vid(pc[2][-1]), devn=0, devc=0, inside=True, minor=True))
        else:
            evs.append(dict(op="bad", why=pc[1]))
    return evs


# ----------------------------------------------------------------------------------------
# trace validation by TLC
# ----------------------------------------------------------------------------------------
_ACC = re.compile(r'^"ACCEPT (\d+)"')
_AT = re.compile(r'^"AT (\d+) (\d+)"')
NODE_TOL = 10        # 1e-9 relative to the radius
NODE_TOL_HP = 200000  # 2e-5 in the half-plane (circle derived from half-plane coordinates of ideal points: sqrt at the boundary,
                      # amplified by the abscissa: relative error about 1e-8 r, r < threshold)
CURVE_TOL = 100      # 1e-4 relative to the radius (matplotlib's Bezier circle: ~4e-6 for 45 degree segments)


def validate(run, traces, threshold, name="DrawPathTrace", verbose=False, workers=4):
    wd = os.path.join(run.work, name)
    os.makedirs(wd, exist_ok=True)
    tf = os.path.join(wd, "traces.json")
    with open(tf, "w") as f:
        json.dump(traces, f)
    c = core.cfg(init="TraceInit", next_="TraceNext",
                 constants=dict(N=2, B=1, Threshold=threshold, MaxNV=8, NodeTol=NODE_TOL, NodeTolHP=NODE_TOL_HP, CurveTol=CURVE_TOL),
                 invariants=["Accepted", "OneStroke", "InOrder", "NoRepeat", "EdgesOnce", "Complete"], view="TraceView")
    env = {"TRACE_FILE": tf}
    if verbose:
        env["TRACE_VERBOSE"] = "1"
    r = run.tlc("draw/DrawPathTrace.tla", c, name=name, workers=workers, env_extra=env, emit_prefix="\x00none")
    acc, at = set(), {}
    for line in r.stdout.splitlines():
        m = _ACC.match(line)
        if m:
            acc.add(int(m.group(1)) - 1)
            continue
        m = _AT.match(line)
        if m:
            t, l = int(m.group(1)) - 1, int(m.group(2))
            at[t] = max(at.get(t, 0), l)
    rejected = {i: at.get(i) for i in range(len(traces)) if i not in acc}
    return rejected, r


def explain(tr, matched, expect=None):
    """a name for the clause a rejected outline breaks (labelling only: the verdict is TLC's).
    expect: the piece kinds DrawScene emitted for the edges (to tell a wrong kind from a wrong order)"""
    evs = tr["events"]
    nv, closed = len(tr["verts"]), tr["closed"]
    if matched >= len(evs):
        return "path.incomplete"
    ev = evs[matched]
    if ev["op"] == "bad":
        return "path.malformed"
    if ev["op"] == "move":
        return "path.single_moveto" if matched > 0 else "path.starts_at_vertex"
    if matched == 0:
        return "path.starts_with_moveto"
    prev = evs[matched - 1]
    pen = prev.get("at", prev.get("last"))
    if sum(1 for e in evs[:matched] if e["op"] == "edge") >= (nv if closed else nv - 1):
        return "path.extra_piece"
    if ev["first"] != pen or ev["first"] == 0:
        return "path.continuous"
    if ev["last"] == 0:
        return "path.ends_at_vertex"
    e = edge_between(ev["first"], ev["last"], nv, closed)
    if not e:
        return "path.vertices_in_order"
    fwd = [x["first"] == edge_between(x["first"], x["last"], nv, closed) for x in evs[:matched + 1] if x["op"] == "edge"]
    if nv > 2 and len(set(fwd)) > 1:
        return "path.vertices_in_order"
    if expect and expect[e - 1] != ev["kind"]:
        return "piece.kind"
    if ev["kind"] == "arc":
        if ev["devn"] > (NODE_TOL_HP if tr["model"] == "halfplane" else NODE_TOL):
            return "arc.on_exact_circle"
        if ev["devc"] > CURVE_TOL:
            return "arc.bezier_on_circle"
        if not ev["inside"]:
            return "arc.inside_region"
        if not ev["minor"]:
            return "arc.between_endpoints"
    return "piece.rejected"


def validate_and_report(run, traces, meta, threshold, name="DrawPathTrace"):
    """traces: list of trace records; meta: parallel list of dicts describing where each came from"""
    if not traces:
        return 0, 0
    rejected, _ = validate(run, traces, threshold, name=name)
    n_ok = len(traces) - len(rejected)
    run.traces += n_ok
    if rejected:
        ids = sorted(rejected)[:30]
        rej2, _ = validate(run, [traces[i] for i in ids], threshold, name=name + "_diag", verbose=True, workers=1)
        for j, i in enumerate(ids):
            matched = rej2.get(j) or 0
            tr = traces[i]
            clause = explain(tr, matched, meta[i].get("expect"))
            key = "%s:%s:%s:%s:%s" % (meta[i].get("what", "outline"), tr["model"], word_key(tr["word"]) if not tr.get("shrink") else "shrink=%d" % tr["shrink"],
                                      json.dumps(tr["verts"], separators=(",", ":")), clause)
            run.violation(key=key, clause=clause,
                          detail=dict(model=tr["model"], word=tr["word"], shrink=tr.get("shrink", 0), verts=tr["verts"], closed=tr["closed"], matched_events=matched,
                                      rejected_event=(tr["events"][matched] if matched < len(tr["events"]) else "outline ends after %d of the pieces" % matched),
                                      events=tr["events"][:12], **{k: v for k, v in meta[i].items() if k not in ("what", "expect")}))
    return n_ok, len(rejected)
