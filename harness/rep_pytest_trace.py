"""pytest plug-in (lives outside the repository): records every Representation instance touched while the
repository's own test-suite runs, so that the histories the existing tests already exercise can be validated by
TLC against spec/rep/RepSymTrace.tla (code -> spec).  Nothing under /repo is modified: the public methods of
geometry_tools.representation.Representation are wrapped at plug-in load, inside the pytest process only.

Usage (done by harness/rep_suite.py):
    REP_TRACE_OUT=<file> python -m pytest -p harness.rep_pytest_trace testing/test_representation.py ...

Projection.  The tests use float / complex matrices, so a matrix is logged as its interning id (first
occurrence in the process; equality up to 1e-9 relative) and a generator name as a letter [case, k]
(case 0: name == name.lower(), 1 otherwise; k: k-th distinct name.lower()).  Three tables of numerically
verified facts, restricted to what was observed, accompany the histories:
    invs   [s, t]             mat(s) @ mat(t) == I               (checked here with numpy)
    prods  [[s1..sk], s]      mat(s1) @ ... @ mat(sk) == mat(s)   (computed here with numpy; k >= 1)
    one    per history        symbol of the identity matrix of the instance's dimension (image of the empty word)
    F      [s, t] per derive  hom(mat(s)) == mat(t)               (hom evaluated here)
TLC validates the dictionary / history semantics on top of them (see RepSymTrace.tla).

Public methods call each other: only the outermost call is an event (DEPTH).  A history is CLOSED (kept up to
that point, counted, never reported) when a call leaves what can be projected: the call raised, sage/object
matrices, options outside the model (compute_inverse=False, base_ring=...), unreadable arguments.  Calls of
public methods the symbolic model does not cover are counted as `unmodelled`.
"""
import json
import os
import re

import numpy as np

HISTS = []           # Inst objects in order of first appearance
BY_ID = {}
DEPTH = [0]
MATS = []            # interned matrices: (array, id)
INVS = set()         # (s, t)
PRODS = {}           # tuple of ids -> id
NAMES = {}           # name.lower() -> k
UNMODELLED = {}      # method name -> count of outermost calls
STATS = dict(outer_calls=0)
NO_SYMBOL = 999999


class Unprojectable(Exception):
    pass


def intern(m):
    a = np.asarray(m)
    if a.dtype == object or a.ndim != 2 or a.shape[0] != a.shape[1]:
        raise Unprojectable("not a numeric square matrix (dtype %s, shape %s)" % (a.dtype, a.shape))
    a = a.astype(complex)
    if not np.all(np.isfinite(a)):
        raise Unprojectable("non-finite matrix")
    for b, i in MATS:
        if b.shape == a.shape and np.all(np.abs(a - b) <= 1e-9 * max(1.0, float(np.abs(b).max()))):
            return i
    MATS.append((a, len(MATS)))
    return len(MATS) - 1


def mat(i):
    return MATS[i][0]


def is_identity(a):
    return np.all(np.abs(a - np.identity(a.shape[0])) <= 1e-9 * max(1.0, float(np.abs(a).max())))


def note_inverse(s, t):
    """record (s, t) as an inverse pair iff it numerically is one"""
    if (s, t) in INVS:
        return True
    a, b = mat(s), mat(t)
    if a.shape == b.shape and is_identity(a @ b) and is_identity(b @ a):
        INVS.add((s, t))
        INVS.add((t, s))
        return True
    return False


def product(seq, dim):
    seq = tuple(seq)
    if not seq:          # the empty product depends on the dimension: logged per history (`one`), not in the table
        return intern(np.identity(dim))
    if seq not in PRODS:
        m = np.identity(dim, dtype=complex)
        for s in seq:
            m = m @ mat(s)
        PRODS[seq] = intern(m)
    return PRODS[seq]


def letter(name):
    if not isinstance(name, str):
        raise Unprojectable("generator name is not a string: %r" % (name,))
    low = name.lower()
    if low not in NAMES:
        NAMES[low] = len(NAMES)
    return [0 if name == low else 1, NAMES[low]]


class Inst:
    def __init__(self, owner):
        self.owner = owner
        self.events = []
        self.closed = None
        self.cls = type(owner).__name__


def unwrap_result(x):
    """library result (ndarray, Transformation-like, or composite) -> ndarray with column-vector matrices"""
    if hasattr(x, "matrix") and hasattr(x, "proj_data"):
        return np.swapaxes(np.asarray(x.matrix), -1, -2)
    return np.asarray(x)


def dict_of(rep):
    """the live generator dictionary as triples [case, k, symbol]; also notes the inverse pairs that hold"""
    out = []
    for name, m in rep.generators.items():
        c, k = letter(name)
        out.append([c, k, intern(m)])
    sym = {(c, k): s for c, k, s in out}
    for (c, k), s in sym.items():
        if (1 - c, k) in sym:
            note_inverse(s, sym[(1 - c, k)])
    return out


def inst_of(rep, adopt=True):
    i = BY_ID.get(id(rep))
    if i is None or i.owner is not rep:
        i = Inst(rep)
        BY_ID[id(rep)] = i
        HISTS.append(i)
        if adopt:
            # first seen without an outermost constructor call (built inside a library call)
            try:
                d = dict_of(rep)
                i.events.append(dict(op="adopt", dict=d, post=d, synthetic=True))
            except Unprojectable as e:
                i.closed = "unprojectable: %s" % e
            except Exception as e:
                i.closed = "unreadable: %s" % e
    return i


def letters_of_word(rep, word, parse_simple):
    """the harness's own reading of the documented word syntax (not the library's parser)"""
    simple = rep.parse_simple if parse_simple is None else parse_simple
    if isinstance(word, str):
        names = list(word) if simple else [t for t in re.split("[()*]", word) if t != ""]
    elif isinstance(word, (list, tuple)):
        names = list(word)
    else:
        raise Unprojectable("word is neither a string nor a list: %r" % (type(word),))
    return [letter(n) for n in names]


def word_product(rep, w):
    """make sure the table of products holds the product of the CURRENT stored images along w"""
    sym = {}
    for name, m in rep.generators.items():
        c, k = letter(name)
        sym[(c, k)] = intern(m)
    if all((c, k) in sym for c, k in w):
        product([sym[(c, k)] for c, k in w], rep.dim)


def pytest_configure(config):
    from geometry_tools import representation
    R = representation.Representation
    if getattr(R, "_rep_trace_wrapped", False):
        return
    R._rep_trace_wrapped = True
    orig_init = R.__init__

    def init(self, representation=None, *a, **kw):
        if DEPTH[0] > 0:
            return orig_init(self, representation, *a, **kw)
        STATS["outer_calls"] += 1
        DEPTH[0] += 1
        try:
            orig_init(self, representation, *a, **kw)
        finally:
            DEPTH[0] -= 1
        i = inst_of(self, adopt=False)
        try:
            if representation is None:
                i.events.append(dict(op="new", post=dict_of(self)))
            else:
                names = kw.get("generator_names")
                names = list(representation.generators) if names is None else list(names)
                ls = [letter(n) for n in names]
                if {(1 - c, k) for c, k in ls} != {(c, k) for c, k in ls}:
                    i.closed = "copy of a name subset that is not closed under case swap (outside the domain)"
                i.events.append(dict(op="copy", src=dict_of(representation), names=ls, post=dict_of(self)))
        except Unprojectable as e:
            i.closed = "unprojectable: %s" % e
        except Exception as e:
            i.closed = "constructor arguments unreadable: %s" % e
    R.__init__ = init

    def wrap(name, before, after):
        """before(i, rep, *a, **kw) -> event dict / None (not modelled here) / raises Unprojectable;
        after(i, rep, ev, result) completes the event from the result"""
        orig = getattr(R, name)

        def wrapped(self, *a, **kw):
            if DEPTH[0] > 0:
                return orig(self, *a, **kw)
            STATS["outer_calls"] += 1
            i = inst_of(self)
            ev = None
            if i.closed is None:
                try:
                    ev = before(i, self, *a, **kw)
                    if ev is None:
                        UNMODELLED[name] = UNMODELLED.get(name, 0) + 1
                except Unprojectable as e:
                    i.closed = "unprojectable (%s): %s" % (name, e)
                except Exception as e:
                    i.closed = "arguments unreadable (%s): %s" % (name, e)
            DEPTH[0] += 1
            try:
                res = orig(self, *a, **kw)
            except BaseException:
                i.closed = i.closed or "call raised (%s)" % name
                raise
            finally:
                DEPTH[0] -= 1
            if i.closed is None and ev is not None:
                try:
                    after(i, self, ev, res)
                    ev["post"] = dict_of(self)
                    i.events.append(ev)
                except Unprojectable as e:
                    i.closed = "unprojectable result (%s): %s" % (name, e)
                except Exception as e:
                    i.closed = "result unreadable (%s): %s" % (name, e)
            return res
        setattr(R, name, wrapped)

    # ---- assignment
    def b_setitem(i, rep, generator, matrix):
        return b_set(i, rep, generator, matrix)

    def b_set(i, rep, generator, matrix, **kw):
        if kw.get("compute_inverse", True) is not True or kw.get("base_ring") is not None:
            raise Unprojectable("set_generator options outside the model: %r" % (sorted(kw),))
        m = np.asarray(type(rep).unwrap_func(matrix))
        s = intern(m)
        t = intern(np.linalg.inv(m.astype(complex)))
        note_inverse(s, t)
        return dict(op="set", x=letter(generator), m=s, mi=t)

    def a_none(i, rep, ev, res):
        pass

    wrap("__setitem__", b_setitem, a_none)
    wrap("set_generator", b_set, a_none)

    # ---- evaluation
    def b_getitem(i, rep, word):
        w = letters_of_word(rep, word, None if _element_default_is_none else True)
        word_product(rep, w)
        return dict(op="eval", w=w, via="__getitem__")

    def b_element(i, rep, word, parse_simple=None, **kw):
        if "parse_simple" not in kw and parse_simple is None and not _element_default_is_none:
            parse_simple = True
        w = letters_of_word(rep, word, parse_simple)
        word_product(rep, w)
        return dict(op="eval", w=w, via="element")

    def a_eval(i, rep, ev, res):
        ev["res"] = intern(unwrap_result(res))

    def b_elements(i, rep, words):
        words = list(words)
        ws = [letters_of_word(rep, w, None) for w in words]
        for w in ws:
            word_product(rep, w)
        return dict(op="elements", ws=ws, via="elements")

    def a_elements(i, rep, ev, res):
        arr = unwrap_result(res)
        if arr.ndim != 3 or len(arr) != len(ev["ws"]):
            raise Unprojectable("elements() result of shape %s for %d words" % (arr.shape, len(ev["ws"])))
        ev["res"] = [intern(m) for m in arr]

    import inspect
    _element_default_is_none = inspect.signature(R.element).parameters["parse_simple"].default is None
    wrap("__getitem__", b_getitem, a_eval)
    wrap("element", b_element, a_eval)
    wrap("elements", b_elements, a_elements)

    def b_free(i, rep, length, maxlen=True, with_words=False):
        if not with_words:
            return None
        return dict(op="elements", ws=None, via="freely_reduced_elements")

    def a_free(i, rep, ev, res):
        mats, words = res
        ev["ws"] = [letters_of_word(rep, w, True) for w in words]
        for w in ev["ws"]:
            word_product(rep, w)
        arr = unwrap_result(mats)
        if arr.ndim != 3 or len(arr) != len(words):
            raise Unprojectable("result of shape %s for %d words" % (arr.shape, len(words)))
        ev["res"] = [intern(m) for m in arr]

    wrap("freely_reduced_elements", b_free, a_free)

    # ---- derived representations: F is evaluated numerically on the current images
    def derive(kind, hom_of):
        def before(i, rep, *a, **kw):
            hom = hom_of(rep, *a, **kw)
            if hom is None:
                return None
            F = []
            for name, m in rep.generators.items():
                s = intern(m)
                F.append([s, intern(hom(np.asarray(m)))])
            return dict(op="derive", kind=kind, F=F)

        def after(i, rep, ev, res):
            ev["ddict"] = dict_of(res)
            inst_of(res)        # the derived object starts its own history from this dictionary
        return before, after

    def h_conjugate(rep, mat_, inv_mat=None, unwrap=True, **kw):
        if inv_mat is not None or kw:
            raise Unprojectable("conjugate options outside the model")
        C = np.asarray(type(rep).unwrap_func(mat_) if unwrap else mat_)
        Ci = np.linalg.inv(C)
        return lambda M: Ci @ M @ C

    def h_compose(rep, hom, hom_in_wrapped=False, hom_out_wrapped=False, **kw):
        if hom_in_wrapped or hom_out_wrapped or kw.get("dtype") is not None or kw.get("base_ring") is not None:
            raise Unprojectable("compose options outside the model")
        try:
            inspect.signature(hom).bind(np.identity(2), inv=np.identity(2))
            raise Unprojectable("hom takes the inverse as a second argument")
        except TypeError:
            pass
        return hom

    def h_dual(rep):
        return lambda M: np.linalg.inv(M).T

    def h_astype(rep, dtype):
        if np.dtype(dtype).kind not in "fc":
            raise Unprojectable("astype(%r)" % (dtype,))
        return lambda M: M

    wrap("conjugate", *derive("conjugate", h_conjugate))
    wrap("compose", *derive("compose", h_compose))
    wrap("dual", *derive("dual", h_dual))
    wrap("astype", *derive("astype", h_astype))

    # ---- public methods the symbolic model does not cover: counted
    def b_unmodelled(i, rep, *a, **kw):
        return None

    for name in ("tensor_product", "symmetric_square", "gln_adjoint", "sln_adjoint", "subgroup", "automaton_accepted",
                 "differential", "differentials", "cocycle_matrix", "coboundary_matrix", "change_base_ring"):
        wrap(name, b_unmodelled, a_none)


def pytest_unconfigure(config):
    out = os.environ.get("REP_TRACE_OUT")
    if not out:
        return
    hs = []
    for i in HISTS:
        if not (i.events or i.closed):
            continue
        try:        # symbol of the identity of this instance's dimension (image of the empty word)
            one = intern(np.identity(i.owner.dim)) if i.owner.dim else NO_SYMBOL
        except Exception:
            one = NO_SYMBOL
        hs.append(dict(cls=i.cls, events=i.events, closed=i.closed, one=one))
    data = dict(histories=hs, invs=sorted([list(p) for p in INVS]), prods=[[list(k), v] for k, v in sorted(PRODS.items())],
                symbols=len(MATS), names=NAMES, unmodelled=UNMODELLED, outer_calls=STATS["outer_calls"])
    with open(out, "w") as f:
        json.dump(data, f, default=str)
