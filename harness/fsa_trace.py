"""Recording of FSA histories from the real object (code -> spec) and their validation by
TLC against spec/fsa/FSATrace.tla."""
import copy
import json
import os
import random
import re

from . import core
from . import fsa_common as fc


def views(f, split_labels=False):
    lab = (lambda l: list(l)) if split_labels else (lambda l: l)
    gd, od, idd = f.graph_dict, f.out_dict, f.in_dict
    return dict(
        gk=list(gd.keys()), ok=list(od.keys()), ik=list(idd.keys()),
        ge=[[v, lab(l), w] for v, d in gd.items() for l, w in d.items()],
        oe=[[v, lab(l), w] for v, d in od.items() for w, ls in d.items() for l in ls],
        ie=[[w, lab(l), v] for v, d in idd.items() for w, ls in d.items() for l in ls],
        on=[[v, w] for v, d in od.items() for w in d.keys()],
        inn=[[v, w] for v, d in idd.items() for w in d.keys()],
    )


class Recorder:
    """Drives one FSA through a random history, logging one event per public call."""

    def __init__(self, rng, verts, labels, length):
        self.rng, self.verts, self.labels, self.length = rng, verts, labels, length
        self.events = []
        self.f = None

    def log(self, op, **kw):
        ev = dict(op=op, **kw)
        ev["post"] = views(self.f)
        self.events.append(ev)

    def rand_det_edges(self, n, keys=None):
        es = {}
        for _ in range(n):
            t = self.rng.choice(keys or self.verts)
            l = self.rng.choice(self.labels)
            h = self.rng.choice(keys or self.verts)
            es[(t, l)] = h
        return [[t, l, h] for (t, l), h in es.items()]

    def build(self):
        FSA = fc.fsa_mod().FSA
        rng = self.rng
        route = rng.choice(["empty", "graph", "graph", "out"])
        if route == "empty":
            self.f = FSA(start_vertices=[0])
            self.log("build_empty")
        elif route == "graph":
            keys = rng.sample(self.verts, rng.randint(1, len(self.verts)))
            edges = [e for e in self.rand_det_edges(rng.randint(0, 8)) if e[0] in keys]
            d = {k: {} for k in keys}
            for t, l, h in edges:
                d[t][l] = h
            self.f = FSA(d, start_vertices=[0])
            self.log("build_graph_dict", keys=keys, edges=edges)
        else:
            keys = rng.sample(self.verts, rng.randint(1, len(self.verts)))
            edges = self.rand_det_edges(rng.randint(0, 8), keys=keys)
            d = {k: {} for k in keys}
            for t, l, h in edges:
                d[t].setdefault(h, []).append(l)
            self.f = FSA(d, start_vertices=[0], graph_dict=False)
            self.log("build_out_dict", keys=keys, edges=edges)

    def compatible(self, t, l, h):
        """deterministic insertion? decided on the implementation's own label view"""
        cur = self.f.graph_dict.get(t, {}).get(l)
        return cur is None or cur == h

    def rand_word(self, maxlen=3):
        return [self.rng.choice(self.labels + ["z"] if self.rng.random() < 0.15 else self.labels)
                for _ in range(self.rng.randint(0, maxlen))]

    def step(self):
        rng, f = self.rng, self.f
        fsa = fc.fsa_mod()
        vs = list(f.vertices())
        op = rng.choices(
            ["add_vertices", "add_edge", "add_edge_list", "add_edges", "delete_vertex", "delete_vertices",
             "recurrent_inplace", "rename_inplace", "copy", "has_edge", "edge_labels", "neighbors_out",
             "neighbors_in", "accepts", "follow", "prefix", "enumerate", "recurrent_copy", "multiple",
             "short", "rename_copy", "enumerate_words"],
            weights=[3, 10, 4, 4, 2, 1, 1, 2, 1, 3, 3, 2, 2, 3, 2, 2, 2, 1, 1, 1, 1, 2])[0]
        if op == "add_vertices":
            S = rng.sample(self.verts, rng.randint(1, 2))
            f.add_vertices(S)
            self.log(op, vertices=S)
        elif op == "add_edge":
            t, h, l = rng.choice(self.verts), rng.choice(self.verts), rng.choice(self.labels)
            if not self.compatible(t, l, h):
                return
            f.add_edges([(t, h, l)])
            self.log(op, t=t, h=h, l=l)
        elif op == "add_edge_list":
            t, h = rng.choice(self.verts), rng.choice(self.verts)
            ls = rng.sample(self.labels, rng.randint(2, len(self.labels)))
            if not all(self.compatible(t, l, h) for l in ls):
                return
            f.add_edges([(t, h, ls)], elist=True)
            self.log(op, t=t, h=h, ls=ls)
        elif op == "add_edges":
            es = self.rand_det_edges(rng.randint(2, 4))
            if not all(self.compatible(t, l, h) for t, l, h in es):
                return
            f.add_edges([(t, h, l) for t, l, h in es])
            self.log(op, edges=es)
        elif op == "delete_vertex":
            if not vs:
                return
            v = rng.choice(vs)
            f.delete_vertex(v)
            self.log(op, v=v)
        elif op == "delete_vertices":
            if len(vs) < 2:
                return
            S = rng.sample(vs, 2)
            f.delete_vertices(S)
            self.log(op, vertices=S)
        elif op == "recurrent_inplace":
            f.recurrent(inplace=True)
            self.log(op)
        elif op == "rename_inplace":
            p = self.labels[:]
            rng.shuffle(p)
            m = dict(zip(self.labels, p))
            f.rename_generators(m)
            self.log(op, m=m)
        elif op == "copy":
            self.f = copy.deepcopy(f)
            self.log(op)
        elif op in ("has_edge", "edge_labels"):
            if not vs:
                return
            t, h = rng.choice(vs), rng.choice(vs)
            res = f.has_edge(t, h) if op == "has_edge" else list(f.edge_labels(t, h))
            self.log(op, t=t, h=h, res=res)
        elif op in ("neighbors_out", "neighbors_in"):
            if not vs:
                return
            v = rng.choice(vs)
            res = list(f.neighbors_out(v)) if op == "neighbors_out" else list(f.neighbors_in(v))
            self.log(op, v=v, res=res)
        elif op == "accepts":
            if 0 not in vs:
                return
            w = self.rand_word()
            self.log(op, w=w, res=bool(f.accepts("".join(w))))
        elif op == "prefix":
            if 0 not in vs:
                return
            w = self.rand_word()
            self.log(op, w=w, res=len(f.initial_accepted_subword("".join(w))))
        elif op == "follow":
            if not vs:
                return
            v, w = rng.choice(vs), self.rand_word()
            try:
                res = f.follow_word("".join(w), start_vertex=v)
            except fsa.FSAException:
                res = -1
            self.log(op, v=v, w=w, res=res)
        elif op == "enumerate":
            if not vs:
                return
            v, k = rng.choice(vs), rng.randint(0, 3)
            res = [[list(w), e] for w, e in f.enumerate_fixed_length_paths(k, start_vertex=v, with_states=True)]
            self.log(op, v=v, k=k, res=res)
        elif op == "enumerate_words":
            if not vs:
                return
            v, k = rng.choice(vs), rng.randint(0, 3)
            res = [[list(w), e] for w, e in f.enumerate_words(k, start_vertex=v, with_states=True)]
            self.log(op, v=v, k=k, res=res)
        elif op == "recurrent_copy":
            self.log(op, res=views(f.recurrent(inplace=False)))
        elif op == "multiple":
            if 0 not in vs:
                return
            k = rng.randint(1, 3)
            self.log(op, k=k, res=views(f.automaton_multiple(k), split_labels=True))
        elif op == "short":
            if not vs:
                return
            root = rng.choice(vs)
            self.log(op, root=root, res=views(f.remove_long_paths(root=root)))
        elif op == "rename_copy":
            p = self.labels[:]
            rng.shuffle(p)
            m = dict(zip(self.labels, p))
            self.log(op, m=m, res=views(f.rename_generators(m, inplace=False)))

    def run(self):
        self.build()
        tries = 0
        while len(self.events) < self.length and tries < 10 * self.length:
            tries += 1
            self.step()
        return self.events


def record_random(seed, n, verts, labels, length):
    rng = random.Random(seed)
    traces, errors = [], []
    for i in range(n):
        r = Recorder(rng, list(verts), list(labels), length)
        try:
            traces.append(r.run())
        except Exception as e:  # the library raised on an in-domain call
            evs = r.events
            errors.append((len(traces), "%s: %s" % (type(e).__name__, e), [dict(op=x["op"]) for x in evs[-5:]]))
            traces.append(evs)
    return traces, errors


_ACC = re.compile(r'^"ACCEPT (\d+)"')
_AT = re.compile(r'^"AT (\d+) (\d+)"')


def validate(run, traces, verts, labels, name="FSATrace", verbose=False):
    """Returns dict tid(0-based) -> matched prefix length, for rejected histories only."""
    wd = os.path.join(run.work, name)
    os.makedirs(wd, exist_ok=True)
    tf = os.path.join(wd, "traces.json")
    with open(tf, "w") as f:
        json.dump(traces, f, default=str)
    c = core.cfg(init="TraceInit", next_="TraceNext",
                 constants=dict(Verts=set(verts), Labels=set(labels), MaxBuildEdges=0),
                 invariants=["Accepted"], view="TraceView")
    env = {"TRACE_FILE": tf}
    if verbose:
        env["TRACE_VERBOSE"] = "1"
    try:
        r = run.tlc("fsa/FSATrace.tla", c, name=name, workers=1, env_extra=env, emit_prefix="\x00none")
    except core.MachineryFailure as e:
        # seen once under extreme machine load: a JVM StackOverflowError on a trace file that needs < 512 kB of the
        # 16 MB stack and validates cleanly when run again.  A machinery failure is never a verdict; one more try.
        if "StackOverflowError" not in str(e):
            raise
        r = run.tlc("fsa/FSATrace.tla", c, name=name + "_retry", workers=1, env_extra=env, emit_prefix="\x00none")
    acc, at = set(), {}
    for line in r.stdout.splitlines():
        m = _ACC.match(line)
        if m:
            acc.add(int(m.group(1)) - 1)
        m = _AT.match(line)
        if m:
            t, l = int(m.group(1)) - 1, int(m.group(2))
            at[t] = max(at.get(t, 0), l)
    rejected = {i: at.get(i) for i in range(len(traces)) if i not in acc}
    return rejected, r


def well_typed(ev):
    """TLC cannot compare an integer with a record: views holding values that are not vertices / labels at all
    (e.g. a dict stored as an edge target) are reported here, not sent to TLC."""
    def vx(x):
        return isinstance(x, int) and not isinstance(x, bool)

    def lab(l):
        return isinstance(l, str) or (isinstance(l, list) and all(isinstance(c, str) for c in l))
    views = [ev.get("post")] + ([ev["res"]] if isinstance(ev.get("res"), dict) else [])
    for p in views:
        if p is None:
            continue
        for k in ("gk", "ok", "ik"):
            if not all(vx(v) for v in p[k]):
                return False
        for k in ("ge", "oe", "ie"):
            if not all(vx(e[0]) and lab(e[1]) and vx(e[2]) for e in p[k]):
                return False
        for k in ("on", "inn"):
            if not all(vx(a) and vx(b) for a, b in p[k]):
                return False
    return True


def validate_and_report(run, traces, verts, labels, prop_clause="trace", name="FSATrace"):
    kept = []
    for t in traces:
        bad_at = next((i for i, ev in enumerate(t) if not well_typed(ev)), None)
        if bad_at is None:
            kept.append(t)
            continue
        hist = [dict((k, v) for k, v in e.items() if k not in ("post", "res")) for e in t[:bad_at + 1]]
        run.violation(key="trace-illtyped:" + json.dumps(hist[-3:], sort_keys=True, default=str)[:300],
                      clause=prop_clause + ":ill_typed_view:" + t[bad_at]["op"],
                      detail=dict(event=json.loads(json.dumps(t[bad_at], default=str)), history=hist[-6:]))
    n_dropped = len(traces) - len(kept)
    traces = kept
    if not traces:
        return 0, n_dropped
    rejected, r = validate(run, traces, verts, labels, name=name)
    n_ok = len(traces) - len(rejected)
    run.traces += n_ok
    if rejected:
        # second, verbose run on the rejected histories only: longest matched prefix
        ids = sorted(rejected)[:20]
        rej2, _ = validate(run, [traces[i] for i in ids], verts, labels, name=name + "_diag", verbose=True)
        for j, i in enumerate(ids):
            matched = rej2.get(j) or 0
            ev = traces[i][matched] if matched < len(traces[i]) else None
            hist = [dict((k, v) for k, v in e.items() if k not in ("post", "res")) for e in traces[i][:matched + 1]]
            run.violation(key="trace:" + json.dumps(hist[-3:], sort_keys=True)[:300], clause=prop_clause + ":" + (ev["op"] if ev else "?"),
                          detail=dict(matched_prefix=matched, rejected_event=ev, history=hist[-6:]))
    return n_ok, len(rejected) + n_dropped
