"""C17 — the Lie-group maps are homomorphisms onto the groups they name.

spec/lie/LieHom.tla: walks in SL(2,Z), GL(2,Z), GL(3,Z) and SL(2,Z[i]) with exact Gaussian-integer
matrices; every map of geometry_tools.lie is defined there by its MEANING (Sym^(n-1) by
multiplying out binary forms, SL(2) -> SO(2,1) on binary quadratic forms with the discriminant as
the form, the adjoint as X -> g X g^-1 on elementary matrices, realification, SL(2,C) -> SO(3,1)
on Hermitian matrices with -det as the form, block inclusion).  TLC checks in every state and for
every generator: phi(g) phi(s) = phi(g s), phi(g) phi(g^-1) = phi(1), phi(1) = 1,
the determinants of the irreducible images, the preserved forms, the Killing form and the laws
tying each definition to its meaning.

Conformance (spec -> code).  The labelled transition system g --s--> g s is walked with the
library's own values: in every state lib_phi(g) is compared with the spec's exact matrix where
the documentation fixes the basis (sl2_irrep, gln/sln_adjoint, slc_to_slr, sl2c_herm_action,
block_include) and with the spec's conjugation-invariant data where only the target group is
documented (sl2_to_so21, sl2c_to_so31: form preserved, determinant, characteristic polynomial);
on every transition lib_phi(g s) = lib_phi(g) @ lib_phi(s) with the value computed in the source
state; phi(1) = 1; the Killing form reported by the library is a positive multiple of the spec's
trace form and is preserved by the adjoint.  o_to_pgl / Isometry.to_sl2: recovers +-g from the
image of g (determinant one) and is multiplicative up to sign on every transition, also on -X
and on images of determinant -1; for the spec's pool of other forms B = C^T J C of signature (2,1)
(multiples of J, diagonal and non-diagonal) o_to_pgl(C^-1 X C, bilinear_form=B) is multiplicative up to
sign on every transition and has the determinant and |trace| of g (+-g itself for multiples of J).  lie.hom wrappers return what the wrapped map returns.  Storage dtype: every real matrix is also
passed as an int64 array to the maps that accept integer input (adjoints, realification, Hermitian
action, SO(3,1), block inclusion) and must give the float64 result; the walks in non-unimodular
integer matrices make the adjoint images non-integral.  The product law is not restricted to the
named groups: in the non-unimodular walks (integer and Gaussian) and in GL(2,Z) every map, also
sl2_to_so21 / sl2c_herm_action / sl2c_to_so31 (whose forms are then scaled by |det g|^2, as the spec
states), is replayed, every real matrix must give the same image whether stored as float64 or as
complex128, and every transition is replayed with the factors in mixed storage dtypes
(float x complex, complex x float, int64 x complex, ...).
Arrays of matrices: all states of a walk are stacked into composite arrays of several shapes and
every map must return the stack of its single-matrix values and satisfy the law array-wise.
Polynomial-identity grids: sl2_irrep(A B) = sl2_irrep(A) sl2_irrep(B) on a full grid of integer
2x2 matrices with as many nodes per entry as the dimension of the representation.
"""
import json
import random
import warnings
from concurrent.futures import ThreadPoolExecutor

import numpy as np

from .. import core

MODULE = "lie/LieHom.tla"
TOL = 1e-9
INVS = ["HomLaw", "InverseLaw", "GroupElement", "IrrepDet", "So21Laws", "FormPoolLaws", "So31Laws", "AdjointLaws", "RealLaws",
        "EmitObs"]
# maps whose matrix is fixed by the documentation (basis stated) / only the target group is documented
FORM_ONLY = {"so21": np.diag([-1.0, 1, 1]), "so31": np.diag([-1.0, 1, 1, 1])}
# maps that accept integer-dtype input on the unchanged tree (sl2_irrep / sl2_to_so21 refuse it loudly with a casting
# error, which is not a wrong value): for these the result must not depend on the storage dtype of the matrix
INT_LEGAL = ("adgl", "adsl", "real", "herm", "so31", "blk")
# groups whose transitions are also replayed with the two factors in mixed storage dtypes (they contain real factors
# of determinant -1, 2, 3 and, for m2zi, complex factors of non-unit determinant)
MIXED_GROUPS = ("gl2z", "m2z", "m2zi")
MIXED_MAPS = ("herm", "so31", "irrep2", "irrep3", "irrep4", "so21", "real")


def lie():
    from geometry_tools import lie as L
    return L


def cm(rec):
    """{re, im} of the spec -> ndarray (float if the imaginary part vanishes)"""
    re = np.array(rec["re"], dtype=float)
    im = np.array(rec["im"], dtype=float)
    return re if not im.any() else re + 1j * im


def lib_map(name):
    """(direct function, lie.hom wrapper factory) for a map name of LieHom.tla"""
    L = lie()
    if name.startswith("irrep"):
        n = int(name[5:])
        return (lambda A: L.sl2_irrep(A, n)), (lambda: L.hom.sl2_irrep(n))
    if name.startswith("blk"):
        m = int(name[3:])
        return (lambda A: L.block_include(A, m)), (lambda: L.hom.block_include(m))
    return {
        "so21": (L.sl2_to_so21, L.hom.sl2_to_so21),
        "adgl": (L.gln_adjoint, L.hom.gln_adjoint),
        "adsl": (L.sln_adjoint, L.hom.sln_adjoint),
        "real": (L.slc_to_slr, L.hom.slc_to_slr),
        "herm": (L.sl2c_herm_action, None),
        "so31": (L.sl2c_to_so31, L.hom.sl2c_to_so31),
    }[name]


def num(x):
    """library output -> plain complex/float ndarray (the adjoint maps return dtype object)"""
    a = np.asarray(x)
    if a.dtype == object:
        a = a.astype(complex)
    if np.iscomplexobj(a) and not np.abs(a.imag).max(initial=0) > 0:
        a = a.real
    return np.asarray(a)


def close(a, b, tol=TOL):
    a, b = np.asarray(a), np.asarray(b)
    if a.shape != b.shape or not np.isfinite(a).all():
        return False
    return bool(np.abs(a - b).max(initial=0) <= tol * max(1.0, np.abs(b).max(initial=0)))


def preserves(X, F, factor=1.0, tol=TOL):
    """X^T F X = factor * F, the residual measured against the size of the terms that cancel"""
    X = np.asarray(X, float)
    res = np.abs(X.T @ F @ X - factor * F).max()
    return bool(np.isfinite(res) and res <= tol * max(1.0, np.abs(X).max() ** 2 * np.abs(F).max()))


def det_tol(v):
    with np.errstate(all="ignore"):
        c = np.linalg.cond(v)
    return max(1e-8, 1e-13 * c) if np.isfinite(c) else 1e-8


def close_pm(a, b, tol=TOL):
    return close(a, b, tol) or close(a, -np.asarray(b), tol)


def skey(rec):
    return json.dumps(rec, separators=(",", ":"))


def brief(a):
    return np.round(np.asarray(a), 6).tolist() if not np.iscomplexobj(a) else \
        [[str(complex(np.round(z, 6))) for z in row] for row in np.atleast_2d(a)]


# ----------------------------------------------------------------------------------------
# one state: library values against the spec's exact images
# ----------------------------------------------------------------------------------------
def eval_state(run, grp, names, A, obs, scale, path):
    """returns ({name: library value}, first failure or None)"""
    vals = {}
    for nm in names:
        f, wrap = lib_map(nm)
        try:
            with warnings.catch_warnings():
                warnings.simplefilter("ignore")
                v = num(f(A.copy()))
        except Exception as ex:
            return vals, ("raised:" + nm, "%s: %s" % (type(ex).__name__, ex))
        vals[nm] = v
        want = cm(obs["img"][nm]) / scale[nm]
        if nm in ("adgl", "adsl"):
            want = want / obs["den"]          # non-unimodular groups: the spec carries numerators over det g
        if nm in FORM_ONLY:
            J = FORM_ONLY[nm]
            if v.shape != J.shape or np.iscomplexobj(v):
                return vals, ("shape:" + nm, "library value %r" % (brief(v),))
            # the form is preserved in the named group; outside it is scaled by |det g|^2 (spec: So21Laws, So31Laws)
            n2 = float(obs["det"][0] ** 2 + obs["det"][1] ** 2)
            if not (preserves(v, J, n2) and preserves(v.T, J, n2)):
                return vals, ("form_preserved:" + nm, "X^T J X = %r, |det g|^2 = %g" % (brief(v.T @ J @ v), n2))
            if not close(np.linalg.det(v), np.linalg.det(want), det_tol(v)):
                return vals, ("determinant:" + nm, "det %r, spec %r" % (float(np.linalg.det(v)), float(np.linalg.det(want))))
            if not close(np.poly(v), np.poly(want), 1e-8):
                return vals, ("conjugacy_class:" + nm, "characteristic polynomial %r, spec %r" % (brief(np.poly(v)), brief(np.poly(want))))
        else:
            if not close(v, want):
                return vals, ("value:" + nm, "library %r, spec %r" % (brief(v), brief(want)))
        if nm.startswith("irrep") and obs["det"] == [1, 0] and not np.iscomplexobj(v):
            # a float determinant is accurate to about eps * cond(v): tolerance scaled by the conditioning
            if not close(np.linalg.det(v), 1.0, det_tol(v)):
                return vals, ("determinant_one:" + nm, "det %r" % float(np.linalg.det(v)))
        if not np.iscomplexobj(A):
            # a real matrix stored as complex128 with zero imaginary part is the same matrix
            try:
                with warnings.catch_warnings():
                    warnings.simplefilter("ignore")
                    vc = num(f(A.astype(complex)))
            except Exception as ex:
                return vals, ("raised:complex128:" + nm, "%s: %s" % (type(ex).__name__, ex))
            if not close(vc, v):
                return vals, ("storage_dtype:" + nm, "complex128 storage gives %r, float64 storage gives %r" % (brief(vc), brief(v)))
            run.evaluations += 1
        if nm.startswith(INT_LEGAL) and not np.iscomplexobj(A):
            try:
                with warnings.catch_warnings():
                    warnings.simplefilter("ignore")
                    Ai = np.rint(A).astype(np.int64)
                    vi = num(f(Ai.copy()))
                    wi = num(wrap()(Ai.copy())) if wrap is not None else vi
            except Exception as ex:
                return vals, ("raised:int64:" + nm, "%s: %s" % (type(ex).__name__, ex))
            if not (close(vi, v) and close(wi, v)):
                return vals, ("integer_dtype:" + nm, "int64 input gives %r, float64 input gives %r" % (brief(vi), brief(v)))
            run.evaluations += 1
        if wrap is not None:
            try:
                with warnings.catch_warnings():
                    warnings.simplefilter("ignore")
                    w = num(wrap()(A.copy()))
                    w2 = num(wrap()(A.copy(), inv=np.linalg.inv(A)))
            except Exception as ex:
                return vals, ("raised:hom." + nm, "%s: %s" % (type(ex).__name__, ex))
            if not (close(w, v) and close(w2, v)):
                return vals, ("hom_wrapper:" + nm, "wrapper %r, map %r" % (brief(w), brief(v)))
        run.evaluations += 1
    return vals, None


def is_real(M):
    return not np.iscomplexobj(M) or not np.abs(np.asarray(M).imag).max(initial=0) > 0


def mixed_products(run, names, Gm, Sm):
    """phi(g s) = phi(g) phi(s) with the two factors handed over in different storage dtypes"""
    kinds = {"f": np.float64, "c": np.complex128, "i": np.int64}
    combos = [("f", "c"), ("c", "f"), ("f", "f"), ("i", "c"), ("c", "i"), ("c", "c")]
    for nm in names:
        if nm not in MIXED_MAPS:
            continue
        f, _ = lib_map(nm)
        for da, db in combos:
            if (da != "c" and not is_real(Gm)) or (db != "c" and not is_real(Sm)):
                continue
            if "i" in (da, db) and not nm.startswith(INT_LEGAL):
                continue
            Ga = (np.rint(np.real(Gm)) if da == "i" else np.real(Gm) if da == "f" else Gm).astype(kinds[da])
            Sb = (np.rint(np.real(Sm)) if db == "i" else np.real(Sm) if db == "f" else Sm).astype(kinds[db])
            try:
                with warnings.catch_warnings():
                    warnings.simplefilter("ignore")
                    lhs = num(f(Ga @ Sb))
                    rhs = num(f(Ga.copy())) @ num(f(Sb.copy()))
            except Exception as ex:
                return ("raised:mixed_dtype:" + nm, "%s x %s: %s: %s" % (kinds[da].__name__, kinds[db].__name__, type(ex).__name__, ex))
            run.evaluations += 1
            if not close(lhs, rhs):
                return ("homomorphism.mixed_dtype:" + nm, "factors stored as %s x %s: phi(g s) = %r, phi(g) phi(s) = %r"
                        % (kinds[da].__name__, kinds[db].__name__, brief(lhs), brief(rhs)))
    return None


def pgl_checks(run, A, X, det1):
    """o_to_pgl on the library's own image X of A"""
    L = lie()
    from geometry_tools import hyperbolic
    out = {}
    try:
        with warnings.catch_warnings():
            warnings.simplefilter("ignore")
            raw = L.o_to_pgl(X.copy())
            if not isinstance(raw, np.ndarray) or raw.shape != (2, 2):
                return None, ("o_to_pgl.returns_2x2_array", "o_to_pgl(X) is a %s of shape %r" % (type(raw).__name__, getattr(raw, "shape", None)))
            R = num(raw)
            Rm = num(L.o_to_pgl(-X.copy()))
            Rw = num(L.hom.so21_to_sl2()(X.copy()))
            Rh = num(hyperbolic.Isometry.from_sl2(A.copy()).to_sl2()) if det1 else None
    except Exception as ex:
        return None, ("raised:o_to_pgl", "%s: %s" % (type(ex).__name__, ex))
    run.evaluations += 3
    if det1 and not close_pm(R, A):
        return R, ("o_to_pgl.recovers", "o_to_pgl(sl2_to_so21(A)) = %r, A = %r" % (brief(R), brief(A)))
    if not close_pm(Rm, R):
        return R, ("o_to_pgl.sign_of_O21", "o_to_pgl(-X) = %r, o_to_pgl(X) = %r" % (brief(Rm), brief(R)))
    if not close(Rw, R):
        return R, ("hom_wrapper:so21_to_sl2", "wrapper %r, map %r" % (brief(Rw), brief(R)))
    if det1 and not close_pm(Rh, A):
        return R, ("to_sl2.recovers", "Isometry.from_sl2(A).to_sl2() = %r, A = %r" % (brief(Rh), brief(A)))
    return R, None


def pgl_forms(run, A, X, forms):
    """o_to_pgl(C^-1 X C, bilinear_form=C^T J C) for the spec's pool of forms of signature (2,1): list of results"""
    L = lie()
    out = []
    for fr in forms:
        C = np.array(fr["C"], dtype=float)
        B = np.array(fr["B"], dtype=float)
        try:
            with warnings.catch_warnings():
                warnings.simplefilter("ignore")
                Ap = np.linalg.inv(C) @ X @ C
                R = num(L.o_to_pgl(Ap, bilinear_form=B.copy()))
        except Exception as ex:
            return None, ("raised:o_to_pgl.form", "B = %r: %s: %s" % (fr["B"], type(ex).__name__, ex))
        run.evaluations += 1
        t7 = 1e-7
        if R.shape != (2, 2) or np.iscomplexobj(R) or not np.isfinite(R).all():
            return None, ("o_to_pgl.form.value", "B = %r: returned %r" % (fr["B"], brief(R)))
        if not close(np.linalg.det(R), np.linalg.det(A), t7) or not close(abs(np.trace(R)), abs(np.trace(A)), t7):
            return None, ("o_to_pgl.form.conjugacy_class", "B = %r: returned %r (det %.9g, |trace| %.9g) for g = %r"
                          % (fr["B"], brief(R), np.linalg.det(R), abs(np.trace(R)), brief(A)))
        if fr["scalar"] and not close_pm(R, A, t7):
            return None, ("o_to_pgl.form.recovers", "B = %r (a multiple of the default form): returned %r for g = %r" % (fr["B"], brief(R), brief(A)))
        out.append(R)
    return out, None


# ----------------------------------------------------------------------------------------
# the walk
# ----------------------------------------------------------------------------------------
def parse(r):
    obs, tab = {}, None
    for line in r.stdout.splitlines():
        if line.startswith('"OBS '):
            o = json.loads(json.loads(line)[4:])
            k = skey(o["g"])
            if k not in obs or o["len"] < obs[k]["len"]:      # the same element may be reached at several lengths
                obs[k] = o
        elif line.startswith('"TAB '):
            tab = json.loads(json.loads(line)[4:])
    if tab is None or not obs:
        raise core.MachineryFailure("LieHom: no OBS/TAB output")
    return obs, tab


def walk(run, grp, r):
    L = lie()
    obs, tab = parse(r)
    scale = tab["scale"]
    names = sorted(scale)
    cplx = grp in ("sl2zi", "m2zi")
    dim = 3 if grp in ("gl3z", "m3z") else 2

    def mat(rec):
        a = cm(rec)
        return a.astype(complex) if cplx else a

    gens = {nm: mat(rec) for nm, rec in tab["gens"].items()}
    lts = {}
    for e in r.emits:
        lts.setdefault(skey(e["from"]), []).append((e["act"], skey(e["to"])))
    init = [k for k, o in obs.items() if o["len"] == 0]
    if len(init) != 1:
        raise core.MachineryFailure("LieHom: %d initial states" % len(init))
    init = init[0]
    pgl = "so21" in names

    def fail(path, clause, detail, A):
        run.violation("lie:%s:%s" % (grp, ".".join(path) or "1"), clause,
                      dict(group=grp, word=list(path), g=brief(A), observed=detail))

    # generators and the identity
    gen_vals, gen_pgl, gen_pf = {}, {}, {}
    for nm, S in gens.items():
        o = obs.get(skey(tab["gens"][nm]))
        if o is None:
            raise core.MachineryFailure("generator %s is not a state of the walk" % nm)
        v, bad = eval_state(run, grp, names, S, o, scale, (nm,))
        if bad:
            fail((nm,), bad[0], bad[1], S)
            return
        gen_vals[nm] = v
        if pgl:
            gen_pgl[nm], bad = pgl_checks(run, S, v["so21"], o["det"] == [1, 0])
            if bad:                      # keep walking: the other maps do not depend on o_to_pgl
                fail((nm,), bad[0], bad[1], S)
                gen_pgl[nm] = None
            gen_pf[nm], bad = pgl_forms(run, S, v["so21"], tab["forms"])
            if bad:
                fail((nm,), bad[0], bad[1], S)
    A0 = mat(obs[init]["g"])
    v0, bad = eval_state(run, grp, names, A0, obs[init], scale, ())
    if bad:
        fail((), bad[0], bad[1], A0)
        return
    for nm in names:
        if not close(v0[nm], np.eye(v0[nm].shape[-1])):
            fail((), "identity:" + nm, "phi(1) = %r" % (brief(v0[nm]),), A0)
    p0 = pf0 = None
    if pgl:
        p0, bad = pgl_checks(run, A0, v0["so21"], True)
        if bad:
            fail((), bad[0], bad[1], A0)
            p0 = None
        pf0, bad = pgl_forms(run, A0, v0["so21"], tab["forms"])
        if bad:
            fail((), bad[0], bad[1], A0)
    # Killing form
    if "adsl" in names:
        run.case(key=("killing", grp), action="sln_killing_form")
        try:
            K = num(L.sln_killing_form(dim))
            TF = np.array(tab["traceform"], dtype=float)
            c = (K * TF).sum() / (TF * TF).sum()
            if not (K.shape == TF.shape and c > 0 and close(K, c * TF)):
                run.violation("killing:%d" % dim, "killing_form.value", dict(n=dim, library=brief(K), spec_trace_form=brief(TF),
                                                                             spec_killing_factor=tab["killing"]))
                K = None
        except Exception as ex:
            run.violation("killing:%d:raise" % dim, "raised:sln_killing_form", dict(n=dim, error="%s: %s" % (type(ex).__name__, ex)))
            K = None
    else:
        K = None

    state_vals = {init: (v0, p0, (), pf0)}
    frontier = [init]
    ntrans = 0
    stack_keys = [init]
    while frontier:
        nxt = []
        for sk in frontier:
            vals, pg, path, pf = state_vals[sk]
            for act, tk in lts.get(sk, []):
                ntrans += 1
                p2 = path + (act,)
                o = obs[tk]
                A = mat(o["g"])
                run.actions["right:" + act] = run.actions.get("right:" + act, 0) + 1
                if tk in state_vals:
                    v2, pg2, _, pf2 = state_vals[tk]
                else:
                    v2, bad = eval_state(run, grp, names, A, o, scale, p2)
                    pg2 = pf2 = None
                    if not bad and pgl:
                        pf2, badf = pgl_forms(run, A, v2["so21"], tab["forms"])
                        if badf:
                            fail(p2, badf[0], badf[1], A)
                    if not bad and pgl:
                        pg2, badp = pgl_checks(run, A, v2["so21"], o["det"] == [1, 0])
                        if badp:
                            fail(p2, badp[0], badp[1], A)
                            pg2 = None
                    if not bad and K is not None:
                        ad = v2["adsl"]
                        if not preserves(ad, K, 1.0):
                            bad = ("killing_form.preserved", "Ad^T K Ad = %r" % (brief(ad.T @ K @ ad),))
                    if bad:
                        fail(p2, bad[0], bad[1], A)
                        continue
                    state_vals[tk] = (v2, pg2, p2, pf2)
                    stack_keys.append(tk)
                    nxt.append(tk)
                # the homomorphism law on this transition, with the value computed in the source state
                for nm in names:
                    prod = vals[nm] @ gen_vals[act][nm]
                    if not close(v2[nm], prod):
                        fail(p2, "homomorphism:" + nm, "phi(g s) = %r, phi(g) phi(s) = %r" % (brief(v2[nm]), brief(prod)), A)
                        break
                if pgl and pf is not None and pf2 is not None and gen_pf.get(act) is not None:
                    for fi, fr in enumerate(tab["forms"]):
                        prod = pf[fi] @ gen_pf[act][fi]
                        if not close_pm(pf2[fi], prod, 1e-7):
                            fail(p2, "o_to_pgl.form.homomorphism_up_to_sign", "B = %r: o_to_pgl(X' Y') = %r, o_to_pgl(X') o_to_pgl(Y') = %r"
                                 % (fr["B"], brief(pf2[fi]), brief(prod)), A)
                            break
                if grp in MIXED_GROUPS:
                    bad = mixed_products(run, names, mat(obs[sk]["g"]), gens[act])
                    if bad:
                        fail(p2, bad[0], bad[1], A)
                if pgl and pg is not None and pg2 is not None and gen_pgl[act] is not None:
                    prod = pg @ gen_pgl[act]
                    if not close_pm(pg2, prod):
                        fail(p2, "o_to_pgl.homomorphism_up_to_sign",
                             "o_to_pgl(X Y) = %r, o_to_pgl(X) o_to_pgl(Y) = %r" % (brief(pg2), brief(prod)), A)
        frontier = nxt
    run.traces += ntrans
    run.evaluations += ntrans * len(names)
    run.nontrivial_count += len(state_vals) - 1
    if r.emits:
        e = r.emits[len(r.emits) // 2]
        o = obs[skey(e["to"])]
        run.sample(dict(kind="transition of the %s walk" % grp, **{"from": brief(cm(e["from"])), "generator": e["act"], "to": brief(cm(e["to"])),
                        "spec_images_of_target (times scale)": {k: brief(cm(o["img"][k])) for k in list(o["img"])[:3]}}))
    arrays(run, grp, names, [k for k in stack_keys], obs, state_vals, gens, gen_vals, cplx)


# ----------------------------------------------------------------------------------------
# arrays of matrices
# ----------------------------------------------------------------------------------------
def arrays(run, grp, names, keys, obs, state_vals, gens, gen_vals, cplx):
    """every map applied to composite arrays of the walk's states equals the stack of its values"""
    k = len(keys)
    mats = np.array([cm(obs[s]["g"]) for s in keys], dtype=complex if cplx else float)
    shapes = [(k,)]
    if k >= 6:
        k6 = (k // 6) * 6
        shapes += [(k6 // 6, 6), (1, k6 // 6, 3, 2)]
    shapes.append((1,))
    gname = sorted(gens)[0]
    S = gens[gname]
    for nm in names:
        f, _ = lib_map(nm)
        single = np.array([state_vals[s][0][nm] for s in keys])
        for shp in shapes:
            cnt = int(np.prod(shp))
            key = "array:%s:%s:%r" % (grp, nm, shp)
            run.case(key=key, action="array:" + nm)
            try:
                with warnings.catch_warnings():
                    warnings.simplefilter("ignore")
                    G = mats[:cnt].reshape(shp + mats.shape[-2:]).copy()
                    v = num(f(G))
                    vs = num(f(G @ S))
            except Exception as ex:
                run.violation(key, "raised:array:" + nm, dict(group=grp, map=nm, shape=list(shp), error="%s: %s" % (type(ex).__name__, ex)))
                continue
            want = single[:cnt]
            if v.shape != shp + want.shape[-2:]:
                run.violation(key, "array.shape:" + nm, dict(group=grp, map=nm, shape=list(shp), got=list(v.shape)))
                continue
            if not close(v.reshape(want.shape), want):
                i = int(np.argmax(np.abs(v.reshape(want.shape) - want).reshape(cnt, -1).max(-1)))
                run.violation(key, "array.value:" + nm, dict(group=grp, map=nm, shape=list(shp), index=i, g=brief(mats[i]),
                                                            array_value=brief(v.reshape(want.shape)[i]), single_value=brief(want[i])))
                continue
            prod = v @ gen_vals[gname][nm]
            if not close(vs, prod):
                run.violation(key, "array.homomorphism:" + nm, dict(group=grp, map=nm, shape=list(shp), generator=gname))
            if nm.startswith(INT_LEGAL) and not cplx:
                try:
                    with warnings.catch_warnings():
                        warnings.simplefilter("ignore")
                        vi = num(f(np.rint(G).astype(np.int64)))
                    if not close(vi, v):
                        run.violation(key + ":int64", "array.integer_dtype:" + nm, dict(group=grp, map=nm, shape=list(shp)))
                except Exception as ex:
                    run.violation(key + ":int64", "raised:array.int64:" + nm, dict(group=grp, map=nm, shape=list(shp), error="%s: %s" % (type(ex).__name__, ex)))
            run.evaluations += cnt
    run.traces += len(names) * len(shapes)


# ----------------------------------------------------------------------------------------
# polynomial-identity grids for sl2_irrep
# ----------------------------------------------------------------------------------------
def grids(run, rng):
    L = lie()
    quick = run.tier == "quick"
    plan = [(n, (-1, 2)) for n in (2, 3, 4)] if quick else [(n, (-2, 3)) for n in (2, 3, 4, 5, 6)]
    info = {}
    for n, (lo, hi) in plan:
        side = hi - lo + 1
        ax = np.arange(lo, hi + 1, dtype=float)
        g = np.stack(np.meshgrid(*([ax] * 4), indexing="ij"), -1).reshape(-1, 2, 2)      # all 2x2 matrices
        inv = np.abs(g[:, 0, 0] * g[:, 1, 1] - g[:, 0, 1] * g[:, 1, 0]) > 0.5
        worst, worst_inv, bad_at = 0.0, 0.0, None
        try:
            RA = num(L.sl2_irrep(g.copy(), n))
            chunk = max(1, 400000 // len(g))
            for s in range(0, len(g), chunk):
                A = g[s:s + chunk, None]
                lhs = num(L.sl2_irrep((A @ g[None]).reshape(-1, 2, 2), n)).reshape(len(A), len(g), n, n)
                rhs = RA[s:s + chunk, None] @ RA[None]
                res = np.abs(lhs - rhs).max((-1, -2)) / np.maximum(1.0, np.abs(rhs).max((-1, -2)))
                worst = max(worst, float(res.max()))
                m = inv[s:s + chunk, None] & inv[None]
                ri = np.where(m, res, 0.0)
                if ri.max() > worst_inv:
                    worst_inv = float(ri.max())
                    i, j = np.unravel_index(int(ri.argmax()), ri.shape)
                    bad_at = (g[s + i].tolist(), g[j].tolist())
        except Exception as ex:
            run.violation("grid:n=%d:raise" % n, "raised:sl2_irrep.grid", dict(n=n, error="%s: %s" % (type(ex).__name__, ex)))
            continue
        npairs = int(inv.sum()) ** 2
        run.evaluations += len(g) ** 2
        run.nontrivial_count += npairs
        run.actions["grid:irrep%d" % n] = len(g) ** 2
        info["irrep%d" % n] = dict(nodes_per_entry=side, pairs=len(g) ** 2, invertible_pairs=npairs, max_residual=worst)
        if worst_inv > TOL:
            run.violation("grid:n=%d:A=%s:B=%s" % (n, bad_at[0], bad_at[1]), "homomorphism.grid:irrep%d" % n,
                          dict(n=n, A=bad_at[0], B=bad_at[1], residual=worst_inv))
    run.extra["polynomial_identity_grids"] = dict(
        note="the residual of sl2_irrep(AB) - sl2_irrep(A) sl2_irrep(B) has degree <= n-1 in each of the 8 entries IF the "
             "implementation computes a polynomial; vanishing on a grid with >= n nodes per entry would then be the identity. "
             "Recorded as an observation, not claimed as a proof.", grids=info)
    # complex and non-integer samples (sampled, as the property says)
    for n in (2, 3, 4, 5, 6):
        cnt = 300 if quick else 3000
        A = np.array([[rng.randint(-3, 3) + 1j * rng.randint(-3, 3) for _ in range(4)] for _ in range(cnt)]).reshape(cnt, 2, 2)
        B = np.array([[rng.randint(-3, 3) / 2 + 1j * rng.randint(-3, 3) / 4 for _ in range(4)] for _ in range(cnt)]).reshape(cnt, 2, 2)
        ok = (np.abs(np.linalg.det(A)) > 0.1) & (np.abs(np.linalg.det(B)) > 0.1)
        A, B = A[ok], B[ok]
        try:
            res = np.abs(num(L.sl2_irrep(A @ B, n)) - num(L.sl2_irrep(A, n)) @ num(L.sl2_irrep(B, n))).max((-1, -2))
            sc = np.maximum(1.0, np.abs(num(L.sl2_irrep(A @ B, n))).max((-1, -2)))
        except Exception as ex:
            run.violation("sample:n=%d:raise" % n, "raised:sl2_irrep.complex", dict(n=n, error="%s: %s" % (type(ex).__name__, ex)))
            continue
        run.evaluations += len(A)
        run.nontrivial_count += len(A)
        i = int(np.argmax(res / sc))
        if res[i] / sc[i] > TOL:
            run.violation("sample:n=%d:%d" % (n, i), "homomorphism.sample:irrep%d" % n,
                          dict(n=n, A=brief(A[i]), B=brief(B[i]), residual=float(res[i] / sc[i])))


# ----------------------------------------------------------------------------------------
def run(run, replay=None):
    quick = run.tier == "quick"
    rng = random.Random(run.seed)
    core.import_repo()
    run.rule = ("one case per transition of LieHom.tla's walks replayed with the library's maps (all maps of the group "
                "evaluated in the target state and the homomorphism law evaluated with the source state's values); "
                "distinct_nontrivial = distinct group elements reached + invertible pairs of the identity grids + samples")
    run.assumptions += [
        "groups: SL(2,Z), GL(2,Z), GL(3,Z), SL(2,Z[i]) and monoid walks in invertible non-unimodular 2x2 / 3x3 integer and "
        "2x2 Gaussian-integer matrices (adjoint images over the denominator det g) with walks of bounded length; the real / complex continuum is "
        "covered by integer grids and rational / Gaussian samples only",
        "sl2_to_so21 and sl2c_to_so31 are compared through conjugation-invariant data (the documentation names the "
        "target group, not a basis)",
        "o_to_pgl is exercised on single 3x3 matrices (its docstring admits that array input is not implemented)",
    ]
    # (group, MaxLen, MaxIrrep, MaxDet)
    plan = [("sl2z", 5, 6, 6), ("gl2z", 4, 4, 4), ("gl3z", 3, 2, 2), ("sl2zi", 3, 4, 2), ("m2z", 3, 4, 4), ("m3z", 2, 2, 2), ("m2zi", 3, 4, 2)] if quick else \
           [("sl2z", 6, 6, 6), ("gl2z", 5, 4, 4), ("gl3z", 5, 2, 2), ("sl2zi", 5, 6, 2), ("m2z", 4, 4, 4), ("m3z", 3, 2, 2), ("m2zi", 4, 4, 2)]

    def tlc(p):
        grp, ml, mi, md = p
        c = core.cfg(constants=dict(Grp=grp, MaxLen=ml, MaxIrrep=mi, MaxDet=md), invariants=INVS, view="View",
                     action_constraints=["Emit"])
        return run.tlc(MODULE, c, name="LieHom_" + grp, workers=3 if quick else 4)

    with ThreadPoolExecutor(len(plan)) as ex:
        results = list(ex.map(tlc, plan))
    for p, r in zip(plan, results):
        walk(run, p[0], r)
    grids(run, rng)
