"""C15 — reflections, their walls and isometry fixed points correspond to each other.

spec/hyp/HypFix.tla (EXTENDS HypIso), two machines over exact integer isometries <<M, d>>:

(A) fixed-point machine: HypIso's word machine builds exact conjugators g; in every state the
    derived isometries g E g^-1 (Pythagorean rotations), g L g^-1 (rational loxodromics),
    g P g^-1 (parabolics = products of reflections in tangent walls), g R_v g^-1 (reflections)
    have exact fixed data, proved on the model by TLC (FixLaws: eigen-equations with the
    eigenvalue > 1 first, fixed set = g.{x2 = x3 = 0} on probe points, uniqueness in the
    closed ball, g R_v g^-1 = R_(g v), IsReflection / NormalOf).
(B) wall machine: every primitive spacelike integer normal of a box; ReflectAcross, ConjBy(atom);
    WallLaws: reflection held = reflection of the wall held, involution, det = -1, negates the
    normal, fixes exactly the wall, wall recovered from the matrix alone.

Conformance (spec -> code): the LTS of (A) is walked with real library isometries (atom
constructors, `@`, `.inv()`); in every state the library's g @ T @ g.inv() is handed to
fixed_point / fixed_point_pair / axis / Hyperplane.from_reflection / Geodesic.from_reflection
and the projected answers are compared with the spec's exact data.  (B): Hyperplane(u)
.reflection_across() against the exact matrix R_u, its laws on the spec-chosen wall points,
from_reflection round trip, transport by atoms, unit objects and composite arrays.
Reflections / products from Coxeter hyperbolic representations (value known up to conjugacy):
the spec names which words are reflections and the type of s_i s_j; the harness measures the
laws (wall negated, returned hyperplane fixed, fixed point fixed and in the closed ball).
"""
import json
import math
import multiprocessing as mp
import random
import time
import warnings
from concurrent.futures import ThreadPoolExecutor

import numpy as np

from .. import core
from .. import hyp_common as hc

TOL = 1e-9            # relative, multiplied by the size of the matrices involved
PARA_TOL = 2e-4       # parabolic fixed points: the eigenvalue 1 sits in a 3x3 Jordan block, so an eigen-solver
                      # returns it with error ~ eps^(1/3) (documented conditioning, not an implementation choice)
INTERIOR = 1e-9       # <x,x>/(x.x) < -INTERIOR counts as interior
NOTES = {}            # observations outside the property (reported in the evidence, never a verdict)


def GeomErr():
    from geometry_tools import GeometryError
    return GeometryError


def parse_lines(stdout, prefix):
    out, q = [], '"' + prefix
    for line in stdout.splitlines():
        if line.startswith(q):
            try:
                out.append(json.loads(json.loads(line)[len(prefix):]))
            except Exception as e:
                raise core.MachineryFailure("unparsable %sline: %r (%s)" % (prefix, line[:200], e))
    return out


def nnorm(x):
    """<x,x> / (x.x): < 0 interior, = 0 ideal, > 0 outside the closed ball"""
    x = np.asarray(x, float)
    return hc.mink(x, x) / (x * x).sum(-1)


def perp_res(x, u):
    x, u = np.asarray(x, float), np.asarray(u, float)
    return np.abs(hc.mink(x, u)) / (np.linalg.norm(x, axis=-1) * np.linalg.norm(u, axis=-1))


def real_array(a, what):
    a = np.asarray(a)
    if np.iscomplexobj(a):
        if np.abs(a.imag).max() > 1e-12 * max(1.0, np.abs(a.real).max()):
            raise ValueError("%s has a genuinely complex value" % what)
        a = a.real
    return np.asarray(a, float)


def upper(Rm):
    """the representative of the projective class that keeps the upper sheet"""
    return Rm if Rm[0, 0] > 0 else -Rm


def vec_close(a, b, tol):
    a, b = np.asarray(a, float), np.asarray(b, float)
    return bool(np.abs(a - b).max() <= tol * max(1.0, np.abs(b).max()))


# ----------------------------------------------------------------------------------------
# obligations of a reflection and of the hyperplane recovered from it
# ----------------------------------------------------------------------------------------
def reflection_obligations(H, R, n, u, wallpts, tol, spec_g=None):
    """R: library Isometry claimed to be the reflection across u^perp.  Returns [(clause, detail)]."""
    u = np.array(u, float)
    Rm = real_array(R.matrix, "reflection matrix")
    if Rm.shape != (n + 1, n + 1):
        return [("reflection.shape", "matrix shape %r" % (Rm.shape,))]
    res = hc.form_residual(R)
    if not res <= tol:
        return [("reflection.isometry", "max|R J R^T - J|/max|R|^2 = %.3e" % res)]
    bad = []
    if spec_g is not None:
        M = hc.spec_matrix(spec_g)
        if not hc.mat_proj_close(Rm.T, M, tol):
            bad.append(("reflection_across.matrix", "library (column) %r, spec R_u %r" % (np.round(Rm.T, 9).tolist(), np.round(M, 9).tolist())))
    Ru = upper(Rm)
    RR = real_array((R @ R).matrix, "R @ R")
    if not hc.mat_proj_close(RR, np.eye(n + 1), tol):
        bad.append(("reflection.involutive", "R@R = %r" % np.round(RR, 9).tolist()))
    det = float(np.linalg.det(Ru))
    if not det < 0:
        bad.append(("reflection.orientation_reversing", "det of the sheet-preserving representative = %.6g" % det))
    un = u / np.linalg.norm(u)
    if not np.abs(un @ Ru + un).max() <= tol:
        bad.append(("reflection.negates_normal", "u=%r: u R = %r" % (u.tolist(), (un @ Ru * np.linalg.norm(u)).tolist())))
    if len(wallpts):
        W = np.array(wallpts, float)
        img = real_array((R @ H.Point(W.copy())).proj_data, "image of wall points")
        Wn = W / np.linalg.norm(W, axis=-1, keepdims=True)
        for i in range(len(W)):
            if not hc.proj_close(img[i], W[i], tol) or not np.abs(Wn[i] @ Ru - Wn[i]).max() <= tol:
                bad.append(("reflection.fixes_wall", "wall point %r -> %r" % (W[i].tolist(), img[i].tolist())))
                break
    return bad


def wall_obligations(H, hp, R, n, u, tol):
    """hp: library Hyperplane returned by from_reflection(R); u: exact normal of the wall."""
    u = np.array(u, float)
    pd = real_array(hp.proj_data, "hyperplane data")
    if pd.shape != (n + 1, n + 1):
        return [("from_reflection.shape", "hyperplane data shape %r" % (pd.shape,))]
    sv = real_array(hp.spacelike_vector, "spacelike vector").reshape(-1)
    ib = real_array(hp.ideal_basis, "ideal basis").reshape(n, n + 1)
    bad = []
    if not hc.proj_close(sv, u, tol):
        bad.append(("from_reflection.wall", "normal returned %r, spec wall %r" % (sv.tolist(), u.tolist())))
    if not (np.abs(nnorm(ib)) <= tol).all():
        bad.append(("from_reflection.ideal_basis_lightlike", "normalised <b,b> = %r" % nnorm(ib).tolist()))
    if not (perp_res(ib, u) <= tol).all():
        bad.append(("from_reflection.ideal_basis_in_wall", "|<b,u>|/(|b||u|) = %r" % perp_res(ib, u).tolist()))
    sing = np.linalg.svd(ib / np.linalg.norm(ib, axis=-1, keepdims=True), compute_uv=False)
    if not sing.min() >= 1e-6:
        bad.append(("from_reflection.ideal_basis_spans", "singular values %r" % sing.tolist()))
    Ru = upper(real_array(R.matrix, "reflection matrix"))
    ibn = ib / np.linalg.norm(ib, axis=-1, keepdims=True)
    if not np.abs(ibn @ Ru - ibn).max() <= tol:
        bad.append(("from_reflection.hyperplane_fixed", "max|b R - b| = %.3e" % np.abs(ibn @ Ru - ibn).max()))
    return bad


def geodesic_obligations(geo, u, ends, tol):
    u = np.array(u, float)
    e = real_array(geo.endpoints, "geodesic endpoints")
    if e.shape != (2, 3):
        return [("geodesic_from_reflection.shape", "endpoints shape %r" % (e.shape,))]
    bad = []
    if len(ends) == 2:
        a, b = np.array(ends[0], float), np.array(ends[1], float)
        ok = (hc.proj_close(e[0], a, tol) and hc.proj_close(e[1], b, tol)) or (hc.proj_close(e[0], b, tol) and hc.proj_close(e[1], a, tol))
        if not ok:
            bad.append(("geodesic_from_reflection.endpoints", "library %r, spec %r" % (e.tolist(), ends)))
    if not (np.abs(nnorm(e)) <= tol).all() or not (perp_res(e, u) <= tol).all():
        bad.append(("geodesic_from_reflection.ideal_points_of_wall", "endpoints %r: <e,e>~%r, <e,u>~%r" % (e.tolist(), nnorm(e).tolist(), perp_res(e, u).tolist())))
    en = e / np.linalg.norm(e, axis=-1, keepdims=True)
    if np.linalg.svd(en, compute_uv=False).min() < 1e-6:
        bad.append(("geodesic_from_reflection.distinct", "endpoints %r" % e.tolist()))
    return bad


def expect_rejected(H, iso, what):
    """a non-reflection must be rejected with GeometryError"""
    bad = []
    for name, f in (("Hyperplane.from_reflection", H.Hyperplane.from_reflection),) + \
            ((("Geodesic.from_reflection", H.Geodesic.from_reflection),) if iso.dimension == 2 else ()):
        try:
            f(iso)
            bad.append(("non_reflection_rejected", "%s accepted %s" % (name, what)))
        except GeomErr():
            pass
        except Exception as e:
            bad.append(("non_reflection_rejected", "%s on %s raised %s instead of GeometryError: %s" % (name, what, type(e).__name__, e)))
    return bad


def accept_reflection(H, R, n, u, ends, tol):
    """from_reflection on a reflection: wall obligations (+ the geodesic in dimension 2)"""
    try:
        hp = H.Hyperplane.from_reflection(R)
    except Exception as e:
        return [("from_reflection.accepts_reflection", "raised %s: %s" % (type(e).__name__, e))]
    bad = wall_obligations(H, hp, R, n, u, tol)
    if n == 2:
        try:
            geo = H.Geodesic.from_reflection(R)
            bad += geodesic_obligations(geo, u, ends, tol)
        except Exception as e:
            bad.append(("geodesic_from_reflection.accepts_reflection", "raised %s: %s" % (type(e).__name__, e)))
    return bad


# ----------------------------------------------------------------------------------------
# obligations of reported fixed points
# ----------------------------------------------------------------------------------------
def fixed_by(H, iso, x, tol):
    img = real_array((iso @ H.Point(np.array(x, float))).proj_data, "image")
    return hc.proj_close(img, x, tol), img


def point_of(obj, shape, what):
    p = real_array(obj.proj_data, what)
    if p.shape != shape:
        raise ValueError("%s has shape %r, expected %r" % (what, p.shape, shape))
    if not np.isfinite(p).all():
        raise ValueError("%s not finite" % what)
    return p


def elliptic_obligations(H, C, n, origin, perp, tol, exact_point):
    """exact_point: the fixed point is unique (n = 2): it must be `origin`; otherwise the fixed set is the
    orthogonal complement of perp[0], perp[1] and the reported point must be an interior point of it"""
    bad = []
    for kw in ({}, dict(max_eigval=False)):
        tag = "fixed_point(%s)" % ",".join("%s=%s" % kv for kv in kw.items())
        try:
            p = point_of(C.fixed_point(**kw), (n + 1,), tag)
            ok, img = fixed_by(H, C, p, tol)
        except Exception as e:
            # the property speaks about REPORTED points: with the non-default flag a refusal reports nothing
            if kw:
                NOTES["fixed_point(max_eigval=False) raised"] = "%s: %s" % (type(e).__name__, e)
            else:
                bad.append(("elliptic.raised", "%s: %s: %s" % (tag, type(e).__name__, e)))
            continue
        if not ok:
            bad.append(("elliptic.fixed", "%s = %r is moved to %r" % (tag, p.tolist(), img.tolist())))
        if not nnorm(p) < -INTERIOR:
            bad.append(("elliptic.interior", "%s = %r has <x,x>/(x.x) = %.3e" % (tag, p.tolist(), nnorm(p))))
        if exact_point:
            if not hc.proj_close(p, np.array(origin, float), tol):
                bad.append(("elliptic.value", "%s = %r, spec g.o = %r" % (tag, p.tolist(), origin)))
        elif perp is not None:
            r = [float(perp_res(p, np.array(q, float))) for q in perp]
            if not max(r) <= tol:
                bad.append(("elliptic.in_fixed_set", "%s = %r not in the fixed subspace: residuals %r" % (tag, p.tolist(), r)))
    return bad


def loxodromic_obligations(H, C, n, attr, rep, tol):
    bad = []
    attr, rep = np.array(attr, float), np.array(rep, float)
    try:
        pair = point_of(C.fixed_point_pair(), (2, n + 1), "fixed_point_pair()")
        if not (hc.proj_close(pair[0], attr, tol) and hc.proj_close(pair[1], rep, tol)):
            bad.append(("loxodromic.pair_attracting_first", "pair %r, spec (attracting, repelling) = %r" % (pair.tolist(), [attr.tolist(), rep.tolist()])))
        for i in (0, 1):
            ok, img = fixed_by(H, C, pair[i], tol)
            if not ok or not nnorm(pair[i]) <= tol:
                bad.append(("loxodromic.fixed_in_closed_ball", "pair[%d] = %r -> %r, <x,x>/(x.x) = %.3e" % (i, pair[i].tolist(), img.tolist(), nnorm(pair[i]))))
    except Exception as e:
        bad.append(("loxodromic.raised", "fixed_point_pair(): %s: %s" % (type(e).__name__, e)))
    try:
        ax = C.axis()
        e = point_of(ax, (2, n + 1), "axis()") if not hasattr(ax, "endpoints") else real_array(ax.endpoints, "axis().endpoints")
        if not isinstance(ax, H.Geodesic):
            bad.append(("loxodromic.axis", "axis() is a %s" % type(ax).__name__))
        elif e.shape != (2, n + 1) or not (hc.proj_close(e[0], attr, tol) and hc.proj_close(e[1], rep, tol)):
            bad.append(("loxodromic.axis", "axis endpoints %r, spec %r" % (e.tolist(), [attr.tolist(), rep.tolist()])))
    except Exception as e:
        bad.append(("loxodromic.raised", "axis(): %s: %s" % (type(e).__name__, e)))
    try:
        p = point_of(C.fixed_point(), (n + 1,), "fixed_point()")
        if not hc.proj_close(p, attr, tol):
            bad.append(("loxodromic.fixed_point_attracting", "fixed_point() = %r, spec attracting %r" % (p.tolist(), attr.tolist())))
    except Exception as e:
        bad.append(("loxodromic.raised", "fixed_point(): %s: %s" % (type(e).__name__, e)))
    # non-default flags: a refusal reports no point (noted, not a violation); a reported point must be an endpoint
    try:
        p = C.fixed_point(max_eigval=False)
        q = C.fixed_point_pair(sort_eigvals=False)
    except Exception as e:
        NOTES["fixed_point(max_eigval=False) / fixed_point_pair(sort_eigvals=False) raised"] = "%s: %s" % (type(e).__name__, e)
        return bad
    try:
        p = point_of(p, (n + 1,), "fixed_point(max_eigval=False)")
        if not (hc.proj_close(p, attr, tol) or hc.proj_close(p, rep, tol)):
            bad.append(("loxodromic.fixed_point_any", "fixed_point(max_eigval=False) = %r is neither endpoint" % (p.tolist(),)))
        q = point_of(q, (2, n + 1), "fixed_point_pair(sort_eigvals=False)")
        if not ((hc.proj_close(q[0], attr, tol) and hc.proj_close(q[1], rep, tol)) or (hc.proj_close(q[0], rep, tol) and hc.proj_close(q[1], attr, tol))):
            bad.append(("loxodromic.pair_unsorted", "fixed_point_pair(sort_eigvals=False) = %r" % (q.tolist(),)))
    except Exception as e:
        bad.append(("loxodromic.raised", "unsorted variants: %s: %s" % (type(e).__name__, e)))
    return bad


def parabolic_obligations(H, C, n, fix, tol):
    bad = []
    try:
        p = point_of(C.fixed_point(), (n + 1,), "fixed_point()")
        ok, img = fixed_by(H, C, p, tol)
        if not ok:
            bad.append(("parabolic.fixed", "fixed_point() = %r is moved to %r" % (p.tolist(), img.tolist())))
        if not nnorm(p) <= tol:
            bad.append(("parabolic.closed_ball", "fixed_point() = %r has <x,x>/(x.x) = %.3e" % (p.tolist(), nnorm(p))))
        if fix is not None and not hc.proj_close(p, np.array(fix, float), tol):
            bad.append(("parabolic.value", "fixed_point() = %r, spec %r" % (p.tolist(), fix)))
    except Exception as e:
        bad.append(("parabolic.raised", "%s: %s" % (type(e).__name__, e)))
    return bad


# ----------------------------------------------------------------------------------------
# (A) one state of the fixed-point machine (runs in a worker process)
# ----------------------------------------------------------------------------------------
_LIB = {}


def lib_targets(n, targets):
    """library constructors of the standard isometries named by the spec"""
    if n in _LIB:
        return _LIB[n]
    H = hc.H()
    e3 = np.zeros(n + 1)
    e3[2] = 1

    def para(k):
        w = np.zeros(n + 1)
        w[:3] = (k, k, 1)
        return H.Hyperplane(w).reflection_across() @ H.Hyperplane(e3.copy()).reflection_across()
    _LIB[n] = dict(
        ell={tuple(t): H.Isometry.standard_rotation(math.atan2(t[1], t[0]), dimension=n) for t in targets["ell"]},
        para={k: para(k) for k in targets["para"]},
        lox={}, refl={})
    return _LIB[n]


def lox_of(n, p, q):
    d = _LIB[n]["lox"]
    if (p, q) not in d:
        d[(p, q)] = hc.H().Isometry.standard_loxodromic(n, p / q)
    return d[(p, q)]


def refl_of(n, v):
    d = _LIB[n]["refl"]
    if tuple(v) not in d:
        d[tuple(v)] = hc.H().Hyperplane(np.array(v, float)).reflection_across()
    return d[tuple(v)]


def state_task(task):
    """all obligations of one state; returns (violations [(subkey, clause, detail)], counters)"""
    warnings.simplefilter("ignore")
    n, obs, targets, Rm = task["n"], task["obs"], task["targets"], task["matrix"]
    H = hc.H()
    out, cnt = [], {}

    def rec(sub, bads):
        for clause, detail in bads:
            out.append((sub, clause, detail))

    def count(k, m=1):
        cnt[k] = cnt.get(k, 0) + m
    try:
        lib = lib_targets(n, targets)
        g = H.Isometry(Rm.copy())
        gi = g.inv()
        size = max(1.0, float(np.abs(Rm).max()))
        tol = TOL * size ** 2
        if obs["kind"] == "coset":
            if n == 2:          # origin_to(p).k E (origin_to(p).k)^-1 : whatever the frame, the fixed point is p
                for t, E in lib["ell"].items():
                    rec("E%r" % (t,), elliptic_obligations(H, g @ E @ gi, n, obs["origin"], None, tol, True))
                    count("elliptic(coset)")
            cnt["__notes__"] = dict(NOTES)
            return out, cnt
        far = bool(obs.get("far"))        # far conjugator: only the loxodromic data is specified
        # the state itself: accepted by from_reflection iff the spec says it is a reflection
        if far:
            pass
        elif obs["isrefl"]:
            rec("self", accept_reflection(H, g, n, obs["normal"], [], tol))
            count("from_reflection(accept)")
        else:
            rec("self", expect_rejected(H, g, "a non-reflection word"))
            count("from_reflection(reject)")
        conj = {}
        members = {"R": [], "E": [], "L": [], "P": [], "I": []}       # derived isometries by kind, for the stacks

        def neg(C):
            """the same isometry given by the matrix -M (the sheet-exchanging representative)"""
            return H.Isometry(-real_array(C.matrix, "matrix"))

        def tagged(bads):
            return [(c, "[representative -M] " + d) for c, d in bads]
        for t, E in ([] if far else lib["ell"].items()):
            C = g @ E @ gi
            members["E"].append((C, None))
            rec("E%r" % (t,), elliptic_obligations(H, C, n, obs["origin"], obs["perp"], tol, n == 2))
            rec("E%r" % (t,), expect_rejected(H, C, "a conjugate of a rotation"))
            if -1 in targets.get("reps", []):
                rec("E%r" % (t,), tagged(elliptic_obligations(H, neg(C), n, obs["origin"], obs["perp"], tol, n == 2)))
            count("elliptic")
        for k in ([] if far else targets.get("invol", [])):
            # an involution of determinant -1 whose (-1)-eigenspace has dimension k > 1: not a reflection
            blk = np.eye(n)
            blk[n - k:, n - k:] = -np.eye(k)
            C = g @ H.Isometry.elliptic(n, blk) @ gi
            members["I"].append((C, None))
            rec("I(%d)" % k, expect_rejected(H, C, "a conjugate of the involution negating %d spatial coordinates" % k))
            count("involution(reject)")
        for L in obs["lox"]:
            C = g @ lox_of(n, L["p"], L["q"]) @ gi
            lam = max(L["p"], L["q"]) / min(L["p"], L["q"])
            rec("L(%d/%d)" % (L["p"], L["q"]), loxodromic_obligations(H, C, n, L["attr"], L["rep"], tol * lam))
            rec("L(%d/%d)" % (L["p"], L["q"]), expect_rejected(H, C, "a conjugate of a loxodromic"))
            if -1 in targets.get("reps", []):
                rec("L(%d/%d)" % (L["p"], L["q"]), tagged(loxodromic_obligations(H, neg(C), n, L["attr"], L["rep"], tol * lam)))
            conj[(L["p"], L["q"])] = C
            members["L"].append((C, None))
            count(("loxodromic(word conjugator)" if obs["far"][0] == 0 else "loxodromic(far conjugator)") if far else "loxodromic")
        for k, P in ([] if far else lib["para"].items()):
            C = g @ P @ gi
            members["P"].append((C, None))
            rec("P(%d)" % k, parabolic_obligations(H, C, n, obs["para"], PARA_TOL * size))
            rec("P(%d)" % k, expect_rejected(H, C, "a conjugate of a parabolic"))
            count("parabolic")
        for r in ([] if far else obs["refl"]):
            C = g @ refl_of(n, r["v"]) @ gi
            members["R"].append((C, r["normal"]))
            sub = "R%r" % (tuple(r["v"]),)
            rec(sub, reflection_obligations(H, C, n, r["normal"], r["wallpts"], tol))
            rec(sub, accept_reflection(H, C, n, r["normal"], r["ends"], tol))
            count("reflection(conjugate)")
        # stacks handed to from_reflection: accepted iff EVERY member is a reflection (the spec's table of kinds)
        for si, st in enumerate([] if far else targets.get("stacks", [])):
            kinds = st["kinds"]
            if any(not members[k] for k in kinds):
                continue
            chosen = [members[k][(si + i) % len(members[k])] for i, k in enumerate(kinds)]
            sub = "stack[%s]" % ",".join(kinds)
            try:
                S = H.Isometry(np.stack([real_array(C.matrix, "matrix") for C, _ in chosen]))
                if not st["accept"]:
                    rec(sub, expect_rejected(H, S, "a stack of kinds %s (R = reflection)" % "".join(kinds)))
                else:
                    hp = H.Hyperplane.from_reflection(S)
                    sv = real_array(hp.spacelike_vector, "stack normals")
                    if sv.shape != (len(kinds), n + 1):
                        out.append((sub, "stack.from_reflection_shape", "normals shape %r" % (sv.shape,)))
                    else:
                        for i, (_, u) in enumerate(chosen):
                            if not hc.proj_close(sv[i], np.array(u, float), tol):
                                out.append((sub, "stack.from_reflection_wall", "member %d: normal %r, spec wall %r" % (i, sv[i].tolist(), u)))
                                break
            except Exception as e:
                out.append((sub, "stack.raised", "%s: %s" % (type(e).__name__, e)))
            count("from_reflection(stack %s)" % ("accept" if st["accept"] else "reject"))
        # composite isometry: the loxodromic conjugates of this state as one array, under the spec's history of
        # queries and item assignments; every query must report what the CURRENT array determines
        if obs.get("arr") and len(conj) >= 2:
            done = []
            try:
                A = H.Isometry(np.array([real_array(conj[tuple(t)].matrix, "matrix") for t in targets["loxseq"]]))
                for step in obs["arr"]:
                    op = step["op"]
                    if op["op"] == "setitem":
                        A[op["k"] - 1] = conj[tuple(op["t"])]
                        done.append("[%d]=L(%d/%d)" % (op["k"] - 1, op["t"][0], op["t"][1]))
                        continue
                    done.append("query")
                    m = len(step["after"])
                    pair = real_array(A.fixed_point_pair().proj_data, "composite pair")
                    fp = real_array(A.fixed_point().proj_data, "composite fixed point")
                    ax = real_array(A.axis().endpoints, "composite axis")
                    if pair.shape != (m, 2, n + 1) or fp.shape != (m, n + 1) or ax.shape != pair.shape:
                        out.append(("composite", "composite.shape", "after %s: shapes %r %r %r" % (done, pair.shape, fp.shape, ax.shape)))
                        break
                    bad = None
                    for i, e in enumerate(step["after"]):
                        a, b = np.array(e["attr"], float), np.array(e["rep"], float)
                        tl = tol * max(e["p"], e["q"]) / min(e["p"], e["q"])
                        if not (hc.proj_close(pair[i, 0], a, tl) and hc.proj_close(pair[i, 1], b, tl) and hc.proj_close(fp[i], a, tl)
                                and hc.proj_close(ax[i, 0], a, tl) and hc.proj_close(ax[i, 1], b, tl)):
                            bad = "after %s, entry %d = L(%d/%d): pair %r fixed_point %r, spec %r" % (
                                done, i, e["p"], e["q"], pair[i].tolist(), fp[i].tolist(), [a.tolist(), b.tolist()])
                            break
                    if bad:
                        out.append(("composite", "composite.loxodromic_pair" if len(done) == 1 else "composite.history", bad))
                        break
            except Exception as e:
                out.append(("composite", "composite.raised", "after %s: %s: %s" % (done, type(e).__name__, e)))
            count("composite isometry history")
    except Exception as e:       # a library exception inside the domain is a violation, never a machinery failure
        out.append(("state", "raised", "%s: %s" % (type(e).__name__, e)))
    cnt["__notes__"] = dict(NOTES)
    return out, cnt


def key_of(s):
    return (json.dumps(s["g"]), s["kind"], s["len"])


def big_composite(run, n, tasks, hists, label):
    """all conjugators of a run as ONE composite isometry G: the composite G @ L @ G.inv() (library broadcasting) must
    report, member by member, the exact ordered endpoints of the spec"""
    H = hc.H()
    if not tasks:
        return
    G = H.Isometry(np.array([t["matrix"] for t in tasks]))
    size = np.array([max(1.0, float(np.abs(t["matrix"]).max())) for t in tasks])
    for L0 in tasks[0]["obs"]["lox"]:
        p, q = L0["p"], L0["q"]
        key = "fix:n=%d:%s:composite-of-all:L(%d/%d)" % (n, label, p, q)
        run.case(key=key, action="composite of all conjugates")
        try:
            C = G @ lox_of(n, p, q) @ G.inv()
            pair = real_array(C.fixed_point_pair().proj_data, "composite pair")
            fp = real_array(C.fixed_point().proj_data, "composite fixed point")
            if pair.shape != (len(tasks), 2, n + 1) or fp.shape != (len(tasks), n + 1):
                run.violation(key, "composite.shape", dict(n=n, shapes=[list(pair.shape), list(fp.shape)]))
                continue
            nbad = 0
            for i, t in enumerate(tasks):
                e = [x for x in t["obs"]["lox"] if (x["p"], x["q"]) == (p, q)][0]
                a, b = np.array(e["attr"], float), np.array(e["rep"], float)
                tl = TOL * size[i] ** 2 * max(p, q) / min(p, q)
                run.evaluations += 1
                if not (hc.proj_close(pair[i, 0], a, tl) and hc.proj_close(pair[i, 1], b, tl) and hc.proj_close(fp[i], a, tl)
                        and (np.abs(nnorm(pair[i])) <= tl).all()):
                    nbad += 1
                    if nbad <= 3:
                        run.violation(key + ":" + ";".join(hists[i]), "composite.loxodromic_pair",
                                      dict(n=n, conjugator_word=list(hists[i]), member=i, pair=pair[i].tolist(), fixed_point=fp[i].tolist(),
                                           spec=[a.tolist(), b.tolist()]))
        except Exception as e:
            run.violation(key, "composite.raised", dict(n=n, error="%s: %s" % (type(e).__name__, e)))


def walk_fix(run, n, r, pool, label, composite_of_all=False):
    H = hc.H()
    obs = {key_of(o): o for o in parse_lines(r.stdout, "OBS ")}
    tg = parse_lines(r.stdout, "TARGETS ")
    if not tg or not obs:
        raise core.MachineryFailure("HypFix (A) n=%d printed no OBS / TARGETS" % n)
    targets = tg[0]
    lts, init = {}, None
    for e in r.emits:
        fk, tk = key_of(e["from"]), key_of(e["to"])
        lts.setdefault(fk, []).append((e["act"], e["to"], tk))
        if e["from"]["len"] == 0:
            init = fk
    if init is None:
        raise core.MachineryFailure("no initial state in the HypFix LTS")
    atoms = {}

    def atom(a):
        k = json.dumps(a, sort_keys=True)
        if k not in atoms:
            atoms[k] = hc.lib_atom(a, n)
        return atoms[k]
    tasks, hists = [], []
    frontier, seen = [(init, H.identity(n), ())], {init}
    skipped = 0
    while frontier:
        nxt = []
        for sk, iso, hist in frontier:
            for act, to, tk in lts.get(sk, []):
                if tk in seen:
                    continue
                seen.add(tk)
                lab = act["a"] + ":" + json.dumps(act.get("atom", ""), sort_keys=True, separators=(",", ":"))
                h2 = hist + (lab,)
                try:
                    if act["a"] in ("left", "left_undet"):
                        iso2 = atom(act["atom"]) @ iso
                    elif act["a"] == "invert":
                        iso2 = iso.inv()
                    else:
                        raise core.MachineryFailure("unknown action " + act["a"])
                    Rm = real_array(iso2.matrix, "conjugator")
                except core.MachineryFailure:
                    raise
                except Exception as e:
                    run.violation("fix:n=%d:%s" % (n, ";".join(h2)), "raised:conjugator", dict(n=n, word=list(h2), error="%s: %s" % (type(e).__name__, e)))
                    continue
                nxt.append((tk, iso2, h2))
                o = obs.get(tk)
                if o is None:
                    raise core.MachineryFailure("state without OBS record")
                if not o["tame"]:
                    skipped += 1
                    continue
                if o["kind"] == "exact":
                    M = hc.spec_matrix(o["g"])
                    if not hc.mat_proj_close(Rm.T, M, 1e-9):
                        run.violation("fix:n=%d:%s" % (n, ";".join(h2)), "conjugator_matches_spec",
                                      dict(n=n, word=list(h2), library=np.round(Rm.T, 9).tolist(), spec=np.round(M, 9).tolist()))
                        continue
                tasks.append(dict(n=n, obs=o, targets=targets, matrix=Rm))
                hists.append(h2)
        frontier = nxt
    results = pool.map(state_task, tasks, chunksize=4) if pool else [state_task(t) for t in tasks]
    for (viol, cnt), h2, t in zip(results, hists, tasks):
        run.traces += 1
        run.extra.setdefault("notes_outside_property", {}).update(cnt.pop("__notes__", {}))
        for k, m in cnt.items():
            run.actions[k] = run.actions.get(k, 0) + m
            run.evaluations += m
        for sub, clause, detail in viol:
            run.violation("fix:n=%d:%s:%s" % (n, ";".join(h2), sub), clause,
                          dict(n=n, conjugator_word=list(h2), target=sub, observed=detail, spec_state=dict(g=t["obs"]["g"], origin=t["obs"]["origin"])))
    if composite_of_all:
        lib_targets(n, targets)
        big_composite(run, n, tasks, hists, label)
    run.nontrivial_count += len(tasks)
    run.extra.setdefault("fix_states", {})["n=%d,%s" % (n, label)] = dict(states_checked=len(tasks), skipped_untame=skipped)
    if tasks:
        o = tasks[len(tasks) // 2]["obs"]
        run.sample(dict(kind="fixed-point state", n=n, conjugator_word=list(hists[len(tasks) // 2]),
                        g=o["g"], origin=o.get("origin"), perp=o.get("perp"), lox=(o.get("lox") or [None])[0], para=o.get("para"),
                        refl=({k: v for k, v in o["refl"][0].items() if k != "wallpts"} if o.get("refl") else None)))


# ----------------------------------------------------------------------------------------
# (B) the wall machine
# ----------------------------------------------------------------------------------------
def independent(vectors, k):
    """k linearly independent vectors among the given ones (greedy), or None"""
    chosen = []
    for v in vectors:
        cand = chosen + [np.array(v, float) / np.linalg.norm(v)]
        if np.linalg.svd(np.array(cand), compute_uv=False).min() > 1e-3:
            chosen = cand
        if len(chosen) == k:
            return np.array([c for c in chosen])
    return None


def independent_raw(vectors, k):
    """the same, returning the vectors as given (integer coordinates)"""
    chosen, raw = [], []
    for v in vectors:
        cand = chosen + [np.array(v, float) / np.linalg.norm(v)]
        if np.linalg.svd(np.array(cand), compute_uv=False).min() > 1e-3:
            chosen, raw = cand, raw + [list(v)]
        if len(chosen) == k:
            return raw
    return None


def wall_unit_task(task):
    warnings.simplefilter("ignore")
    n, o = task["n"], task["obs"]
    H = hc.H()
    out = []
    u = np.array(o["wall"], float)
    try:
        M = hc.spec_matrix(o["g"])
        tol = TOL * max(1.0, float(np.abs(M).max())) ** 2
        hp = H.Hyperplane(u.copy())
        R = hp.reflection_across()
        if not isinstance(R, H.Isometry):
            out.append(("reflection_across.type", "result is %s" % type(R).__name__))
        if task.get("atom") is not None:          # transported by an atom: a R_u a^-1 must be the reflection of the wall a.u
            a = hc.lib_atom(task["atom"], n)
            R0 = H.Hyperplane(np.array(task["src"], float)).reflection_across()
            Rc = a @ R0 @ a.inv()
            out += [("conj:" + c, d) for c, d in reflection_obligations(H, Rc, n, u, o["wallpts"], tol, spec_g=o["g"])]
            out += [("conj:" + c, d) for c, d in accept_reflection(H, Rc, n, u, o["ends"], tol)]
        out += reflection_obligations(H, R, n, u, o["wallpts"], tol, spec_g=o["g"])
        out += accept_reflection(H, R, n, u, o["ends"], tol)
        # "the same hyperplane": the hyperplane built from the normal and the one recovered from its reflection
        sv = real_array(hp.spacelike_vector, "spacelike vector").reshape(-1)
        if not hc.proj_close(sv, u, tol):
            out.append(("hyperplane.normal", "Hyperplane(u).spacelike_vector = %r" % sv.tolist()))
        out += [("hyperplane:" + c, d) for c, d in wall_obligations(H, hp, R, n, u, tol) if c != "from_reflection.wall"]
        # the same wall held as a Subspace / Geodesic spanned by ideal points (Subspace._data_with_dual route)
        routes = [("subspace(ideal_basis)", lambda: H.Subspace(real_array(hp.ideal_basis, "ideal basis").copy()))]
        ideal = independent([w for w in o["wallpts"] if hc.mink(np.array(w, float), np.array(w, float)) == 0], n)
        if ideal is not None:
            routes.append(("subspace(exact ideal points)", lambda: H.Subspace(ideal.copy())))
        if n == 2:
            routes.append(("geodesic(from_reflection)", lambda: H.Geodesic.from_reflection(R)))
            if len(o["ends"]) == 2:
                routes.append(("geodesic(exact endpoints)", lambda: H.Geodesic(np.array(o["ends"][0], float), np.array(o["ends"][1], float))))
        # the wall is a projective class and the constructor takes numbers of any packaging: integer arrays, lists,
        # other multiples of the normal, complete (n+1) x (n+1) hyperplane data whose first row is not a unit vector
        if task.get("atom") is None:
            ibf = real_array(hp.ideal_basis, "ideal basis")
            raw = independent_raw([w for w in o["wallpts"] if hc.mink(np.array(w, float), np.array(w, float)) == 0], n)
            for v in [o["wall"]] + sorted(o.get("reps", [])):
                tag = "normal %r" % (v,)
                routes.append((tag + " as integer array", lambda v=v: H.Hyperplane(np.array(v, dtype=int))))
                routes.append((tag + " as list", lambda v=v: H.Hyperplane(list(v))))
                if v != o["wall"]:
                    routes.append((tag + " as float array", lambda v=v: H.Hyperplane(np.array(v, float))))
                routes.append((tag + " + library ideal basis as complete data",
                               lambda v=v: H.Hyperplane(np.concatenate([np.array([v], float), ibf], axis=0))))
                if raw is not None:
                    routes.append((tag + " + exact ideal points as complete integer data",
                                   lambda v=v: H.Hyperplane(np.array([list(v)] + raw, dtype=int))))
        for name, make in routes:
            try:
                RS = make().reflection_across()
                out += [(name + ":" + c, d) for c, d in reflection_obligations(H, RS, n, u, o["wallpts"], tol, spec_g=o["g"])]
            except Exception as e:
                out.append((name + ":raised", "%s: %s" % (type(e).__name__, e)))
    except Exception as e:
        out.append(("raised", "%s: %s" % (type(e).__name__, e)))
    return out


def wall_composite(run, n, walls, rng):
    """composite arrays of normals (the packaging the library itself uses: (..., 1, n+1)) against the unit results"""
    H = hc.H()
    k = len(walls)
    U = np.array([o["wall"] for o in walls], float)
    shapes = [(k,)]
    if k >= 6:
        shapes.append((k // 6, 6) if (k // 6) > 1 else (2, k // 2))
        shapes.append((1, k // 3, 3))
    variants = [(shp, float, 1) for shp in shapes] + [((k,), int, 1), ((k,), int, -3), ((k,), float, 2)]
    for shp, dtype, scale in variants:
        cnt = int(np.prod(shp))
        key = "wall:n=%d:composite%r" % (n, shp) + ("" if (dtype, scale) == (float, 1) else ":%s*%d" % (dtype.__name__, scale))
        run.case(key=("wall composite", n, shp, dtype.__name__, scale), action="composite hyperplanes")
        try:
            hp = H.Hyperplane((scale * U[:cnt]).reshape(shp + (1, n + 1)).astype(dtype))
            R = hp.reflection_across()
            Rm = real_array(R.matrix, "composite reflection")
            if Rm.shape != shp + (n + 1, n + 1):
                run.violation(key, "composite.reflection_shape", dict(n=n, shape=shp, got=list(Rm.shape)))
                continue
            hp2 = H.Hyperplane.from_reflection(R)
            sv = real_array(hp2.spacelike_vector, "composite normal")
            ib = real_array(hp2.ideal_basis, "composite ideal basis")
            if sv.shape != shp + (n + 1,) or ib.shape != shp + (n, n + 1):
                run.violation(key, "composite.from_reflection_shape", dict(n=n, shape=shp, got=[list(sv.shape), list(ib.shape)]))
                continue
            ge = None
            if n == 2:
                ge = real_array(H.Geodesic.from_reflection(R).endpoints, "composite geodesic")
                if ge.shape != shp + (2, 3):
                    run.violation(key, "composite.geodesic_shape", dict(n=n, shape=shp, got=list(ge.shape)))
                    continue
            Rf, svf, ibf = Rm.reshape(cnt, n + 1, n + 1), sv.reshape(cnt, n + 1), ib.reshape(cnt, n, n + 1)
            for i in range(cnt):
                o = walls[i]
                M = hc.spec_matrix(o["g"])
                tol = TOL * max(1.0, float(np.abs(M).max())) ** 2
                u = U[i]
                bad = None
                if not hc.mat_proj_close(Rf[i].T, M, tol):
                    bad = ("composite.reflection_matrix", np.round(Rf[i].T, 9).tolist())
                elif not hc.proj_close(svf[i], u, tol):
                    bad = ("composite.from_reflection_wall", svf[i].tolist())
                elif not ((np.abs(nnorm(ibf[i])) <= tol).all() and (perp_res(ibf[i], u) <= tol).all()
                          and np.linalg.svd(ibf[i] / np.linalg.norm(ibf[i], axis=-1, keepdims=True), compute_uv=False).min() >= 1e-6):
                    bad = ("composite.ideal_basis", ibf[i].tolist())
                elif ge is not None:
                    e = ge.reshape(cnt, 2, 3)[i]
                    if not ((np.abs(nnorm(e)) <= tol).all() and (perp_res(e, u) <= tol).all()
                            and np.linalg.svd(e / np.linalg.norm(e, axis=-1, keepdims=True), compute_uv=False).min() >= 1e-6):
                        bad = ("composite.geodesic", e.tolist())
                run.evaluations += 1
                if bad:
                    run.violation(key + ":u=%s" % (o["wall"],), bad[0], dict(n=n, shape=shp, index=i, wall=o["wall"], observed=bad[1]))
                    break
        except Exception as e:
            run.violation(key + ":raise", "raised:composite", dict(n=n, shape=shp, error="%s: %s" % (type(e).__name__, e)))


def walls(run, n, r, pool, rng, conj_limit):
    obs = {(json.dumps(o["wall"]), o["len"]): o for o in parse_lines(r.stdout, "OBS ")}
    if not obs:
        raise core.MachineryFailure("HypFix (B) n=%d printed no OBS" % n)
    units = [o for o in obs.values() if o["len"] == 1]
    units.sort(key=lambda o: o["wall"])
    tasks, keys = [], []
    for o in units:
        tasks.append(dict(n=n, obs=o))
        keys.append("wall:n=%d:u=%s" % (n, o["wall"]))
    conj = [e for e in r.emits if e["act"]["a"] == "conj"]
    rng.shuffle(conj)
    for e in conj[:conj_limit]:
        o = obs.get((json.dumps(e["to"]["wall"]), 2))
        if o is None:
            raise core.MachineryFailure("conjugated wall without OBS record")
        tasks.append(dict(n=n, obs=o, atom=e["act"]["atom"], src=e["from"]["wall"]))
        keys.append("wall:n=%d:u=%s:conj=%s" % (n, e["from"]["wall"], json.dumps(e["act"]["atom"], sort_keys=True, separators=(",", ":"))))
    results = pool.map(wall_unit_task, tasks, chunksize=8) if pool else [wall_unit_task(t) for t in tasks]
    for bads, key, t in zip(results, keys, tasks):
        run.case(key=key, action="reflection_across/from_reflection" + ("(transported)" if "atom" in t else ""))
        run.traces += 1
        for clause, detail in bads:
            run.violation(key, clause, dict(n=n, wall=t["obs"]["wall"], atom=t.get("atom"), src=t.get("src"), observed=detail, spec_reflection=t["obs"]["g"]))
    wall_composite(run, n, units, rng)
    if units:
        o = units[len(units) // 2]
        run.sample(dict(kind="wall", n=n, wall=o["wall"], reflection=o["g"], wall_points=o["wallpts"][:3], ideal_endpoints=o["ends"]))


# ----------------------------------------------------------------------------------------
# Coxeter representations (values known up to conjugacy: laws named by the spec)
# ----------------------------------------------------------------------------------------
def coxeter(run, n, r):
    tab = parse_lines(r.stdout, "COX ")
    if not tab:
        raise core.MachineryFailure("no COX table")
    tab = tab[0]
    H = hc.H()
    tol = 1e-8
    for G in tab["groups"]:
        m = tuple(G["m"])
        name = "cox%r" % (m,)
        try:
            rep = hc.cox_rep(m, n)
        except Exception as e:
            run.violation("cox:%s:rep" % name, "raised:hyperbolic_rep", dict(group=m, error="%s: %s" % (type(e).__name__, e)))
            continue

        def iso_of(w):
            return rep["".join(hc.cox_gen_name(i) for i in w)] if len(w) else H.identity(n)
        for w in tab["reflwords"]:
            key = "cox:%s:refl:%s" % (name, "".join(map(str, w)))
            run.case(key=key, action="from_reflection(coxeter reflection)")
            try:
                R = iso_of(w)
                hp = H.Hyperplane.from_reflection(R)
                sv = real_array(hp.spacelike_vector, "spacelike vector").reshape(-1)
                bad = []
                if not nnorm(sv) > 1e-9:
                    bad.append(("coxeter.wall_spacelike", "normal %r" % sv.tolist()))
                bad += [c for c in reflection_obligations(H, R, n, sv, [], tol) if c[0] != "reflection_across.matrix"]
                bad += wall_obligations(H, hp, R, n, sv, tol)
                if n == 2:
                    bad += geodesic_obligations(H.Geodesic.from_reflection(R), sv, [], tol)
            except Exception as e:
                bad = [("coxeter.from_reflection_accepts", "raised %s: %s" % (type(e).__name__, e))]
            for clause, detail in bad:
                run.violation(key, clause, dict(group=m, word=w, observed=detail))
        for w in tab["evenwords"]:
            key = "cox:%s:even:%s" % (name, "".join(map(str, w)))
            run.case(key=key, action="from_reflection(coxeter even word)")
            try:
                bad = expect_rejected(H, iso_of(w), "an even word of the Coxeter group")
            except Exception as e:
                bad = [("raised", "%s: %s" % (type(e).__name__, e))]
            for clause, detail in bad:
                run.violation(key, clause, dict(group=m, word=w, observed=detail))
        for st in tab.get("stacks", []):
            key = "cox:%s:stack:%s" % (name, "|".join("".join(map(str, w)) or "e" for w in st["words"]))
            run.case(key=key, action="from_reflection(coxeter stack %s)" % ("accept" if st["accept"] else "reject"))
            try:
                stacks = [("stacked matrices", H.Isometry(np.stack([real_array(iso_of(w).matrix, "matrix") for w in st["words"]])))]
                if all(len(w) for w in st["words"]):
                    stacks.append(("rep.isometries", rep.isometries(["".join(hc.cox_gen_name(i) for i in w) for w in st["words"]])))
                bad = []
                for how, S in stacks:
                    if not st["accept"]:
                        bad += [(c, how + ": " + d) for c, d in expect_rejected(H, S, "a stack of Coxeter words containing a non-reflection")]
                        continue
                    hp = H.Hyperplane.from_reflection(S)
                    sv = real_array(hp.spacelike_vector, "stack normals")
                    Sm = real_array(S.matrix, "stack matrices")
                    if sv.shape != (len(st["words"]), n + 1):
                        bad.append(("stack.from_reflection_shape", "%s: normals shape %r" % (how, sv.shape)))
                        continue
                    for i in range(len(sv)):
                        x = sv[i] / np.linalg.norm(sv[i])
                        if not (nnorm(x) > 1e-9 and np.abs(x @ upper(Sm[i]) + x).max() <= tol):
                            bad.append(("stack.from_reflection_wall", "%s: member %d: normal %r is not negated by its reflection" % (how, i, sv[i].tolist())))
                            break
            except Exception as e:
                bad = [("stack.raised", "%s: %s" % (type(e).__name__, e))]
            for clause, detail in bad:
                run.violation(key, clause, dict(group=m, words=st["words"], observed=detail))
        for p in G["pairs"]:
            key = "cox:%s:pair:%d%d" % (name, p["i"], p["j"])
            run.case(key=key, action="fixed_point(coxeter %s)" % p["type"])
            try:
                C = iso_of([p["i"], p["j"]])
                if p["type"] == "elliptic":
                    bad = elliptic_obligations(H, C, n, None, None, tol, False)
                else:
                    bad = parabolic_obligations(H, C, n, None, PARA_TOL * max(1.0, float(np.abs(real_array(C.matrix, "m")).max())))
            except Exception as e:
                bad = [("raised", "%s: %s" % (type(e).__name__, e))]
            for clause, detail in bad:
                run.violation(key, clause, dict(group=m, pair=p, observed=detail))
        if tab["loxword"]:
            key = "cox:%s:lox" % name
            run.case(key=key, action="fixed_point_pair(coxeter loxodromic)")
            try:
                C = iso_of(tab["loxword"])
                Cm = upper(real_array(C.matrix, "matrix"))
                pair = point_of(C.fixed_point_pair(), (2, n + 1), "fixed_point_pair()")
                bad = []
                lam = []
                for i in (0, 1):
                    x = pair[i] / np.linalg.norm(pair[i])
                    y = x @ Cm
                    l = float(y @ x)
                    lam.append(l)
                    if not np.abs(y - l * x).max() <= tol * max(1.0, abs(l)) or not abs(nnorm(x)) <= tol:
                        bad.append(("coxeter.loxodromic_fixed_ideal", "pair[%d] = %r" % (i, pair[i].tolist())))
                if not (lam[0] > 1 + 1e-6 and 0 < lam[1] < 1 - 1e-6):
                    bad.append(("coxeter.loxodromic_attracting_first", "eigenvalues of the reported pair %r" % lam))
            except Exception as e:
                bad = [("raised", "%s: %s" % (type(e).__name__, e))]
            for clause, detail in bad:
                run.violation(key, clause, dict(group=m, word=tab["loxword"], observed=detail))
    run.sample(dict(kind="coxeter table", n=n, groups=[G["m"] for G in tab["groups"]], reflection_words=tab["reflwords"][:4],
                    even_words=tab["evenwords"][:4], pairs=tab["groups"][0]["pairs"] if tab["groups"] else []))


# ----------------------------------------------------------------------------------------
def run(run, replay=None):
    quick = run.tier == "quick"
    rng = random.Random(run.seed)
    run.rule = ("(A) one behaviour per state of HypFix's fixed-point machine: the library conjugator of the state, every derived "
                "isometry g T g^-1 and every obligation of its reported fixed points / recovered wall; (B) one case per wall "
                "(and per transported wall, per composite packaging); Coxeter: one case per word; evaluations count derived isometries")
    run.assumptions += [
        "conjugators g: words in HypIso's exact atoms (reflections, Pythagorean rotations, rational loxodromics, signed "
        "permutations) and inverses, origin_to cosets in dimension 2 (rotations only); quick: length <= 2, all atoms for n = 2 and "
        "13 of 22 atoms for n = 3, 4; thorough: length <= 3 for n = 2, 3 (all atoms) and n = 4 (13 atoms), <= 2 with all atoms for n = 4; "
        "integer entries <= 15000",
        "derived isometries g T g^-1: rotations by 6 Pythagorean angles (incl. quarter and half turn), loxodromics lambda in "
        "{2, 1/2, 3/2, 11/10, 5, 1/4}, parabolics R_(k,k,1) R_(0,0,1) (k = 1, -1, 2), reflections in 3-5 normals, and (n >= 3) the "
        "involution negating 3 spatial coordinates (determinant -1, not a reflection: must be rejected); Rich = FALSE (quick n = 3, 4) "
        "uses half of each list",
        "far conjugators: a translation of length ln 20, ln 55, ln 148, ln 403 (3..6; quick n >= 3: ln 20 and ln 403) along the first "
        "axis after at most one origin-fixing letter, optionally followed by a quarter turn or a coordinate swap; for these only "
        "the loxodromic conjugates (incl. -M and the composite history) are specified; tolerance 1e-9 * |g|^2 * lambda as elsewhere",
        "loxodromic-word machine (n = 3, 4; thorough also n = 2 and all six lambdas): ALL words of length <= 3 over nine letters "
        "(4 reflections, a rotation, translations ln 2 and ln 3, the coordinate cycle, a rotation of the last two coordinates) with at "
        "most one far translation ln 20 anywhere: ~820 non-normal conjugators per dimension, each with every lambda, as unit "
        "objects, as -M, in the composite history, and all of them together as one composite G @ L @ G.inv()",
        "stacks handed to from_reflection: every ordered pair of kinds {R, E, L, P, I} of derived isometries of a state and the "
        "triples RRR, RkR, kRk: accepted iff every member is a reflection (then each returned wall is the member's wall); the same "
        "for stacks of Coxeter words (stacked matrices and rep.isometries)",
        "every elliptic and loxodromic conjugate is also handed over as the matrix -M (the other representative of the same "
        "projective map): the reported fixed points must be the same",
        "composite isometries: the array of the loxodromic conjugates of a state under the spec's history query, [0] = other, query, "
        "[last] = other, [1] = other, query (item assignment through the public __setitem__)",
        "walls: every primitive spacelike integer normal with |entries| <= WB (quick n=2: 3, n=3: 2, n=4: 1; thorough 5/3/2), "
        "given as float array, integer array, list, the multiples 2u and -3u, and as complete (n+1)x(n+1) data with a non-unit first "
        "row (library ideal basis / exact integer ideal points); transported by one exact atom (quick: n = 2 only, a seeded sample); "
        "composite hyperplanes are packaged as arrays of shape (..., 1, n+1) (float and integer dtype), the form from_reflection itself "
        "produces (a bare (k, n+1) array of normals is not a supported constructor input: it raises, and for k = n+1 is read as the "
        "data of ONE hyperplane)",
        "the wall is also handed over as Subspace(ideal basis) and (n = 2) Geodesic(endpoints): their reflection_across must be the same R_u",
        "parabolic fixed points are compared with tolerance 2e-4 * |g| (cube-root conditioning of a 3x3 Jordan block); "
        "everything else 1e-9 * |g|^2",
        "elliptic isometries in dimension >= 3 fix a whole subspace: the reported point must be an interior point of the exact "
        "fixed subspace g.{x2 = x3 = 0}, not a particular one",
        "fixed_point(max_eigval=False) / fixed_point_pair(sort_eigvals=False): a refusal reports no point and is only noted "
        "(notes_outside_property); a reported point must satisfy the property",
        "Coxeter reflections / products: value known up to conjugacy, so only the laws named by the spec are measured",
    ]
    # ---- TLC: all runs side by side
    if quick:
        planA = [(2, 2, True), (3, 2, False), (4, 2, False)]
        planB = {2: (3, 2), 3: (2, 1), 4: (1, 1)}
        planC = [(3, 3, False), (4, 3, False)]
        conj_limit = {2: 200, 3: 0, 4: 0}
        wA, wB = 4, 2
    else:
        planA = [(2, 3, True), (3, 3, True), (4, 3, False), (4, 2, True)]
        planB = {2: (5, 2), 3: (3, 2), 4: (2, 2)}
        planC = [(2, 3, True), (3, 3, True), (4, 3, True)]
        conj_limit = {2: 4000, 3: 6000, 4: 4000}
        wA, wB = 5, 3
    jobs = {}
    # the worker processes are forked before any thread exists; the replay of a run starts as soon as TLC has
    # finished it (fixed order: walls first, they are the short runs), while the other TLC runs are still going
    nproc = min(8 if quick else 12, core.NCPU)
    res = {}
    t_rep = 0.0
    with mp.get_context("fork").Pool(nproc) as pool, ThreadPoolExecutor(8) as ex:
        for n, (wb, L) in planB.items():
            c = core.cfg(constants=dict(N=n, MaxLen=L, WB=wb, Rich=False), init="InitWall", next_="NextWall",
                         invariants=["WallLaws", "ObsWall"], view="ViewFix", action_constraints=["EmitFix"])
            jobs[("B", n)] = ex.submit(run.tlc, "hyp/HypFix.tla", c, name="HypFix_wall_n%d" % n, workers=min(wB, core.NCPU), timeout=1500)
        for n, L, rich in planA:
            c = core.cfg(constants=dict(N=n, MaxLen=L, WB=1, Rich=rich), init="InitFix", next_="NextFix",
                         invariants=["FixLaws", "FarLaws", "FormPreserved", "Normalised", "ObsFix"], view="ViewFix", action_constraints=["EmitFix"])
            jobs[("A", n, L, rich)] = ex.submit(run.tlc, "hyp/HypFix.tla", c, name="HypFix_fix_n%d_len%d%s" % (n, L, "_rich" if rich else ""),
                                                workers=min(wA, core.NCPU), timeout=1500)
        for n, L, rich in planC:
            c = core.cfg(constants=dict(N=n, MaxLen=L, WB=1, Rich=rich), init="InitFix".replace("Fix", "Lox"), next_="NextLox",
                         invariants=["LoxWordLaws", "FormPreserved", "Normalised", "ObsFix"], view="ViewFix", action_constraints=["EmitFix"])
            jobs[("C", n, L, rich)] = ex.submit(run.tlc, "hyp/HypFix.tla", c, name="HypFix_lox_n%d_len%d%s" % (n, L, "_rich" if rich else ""),
                                                workers=min(wB, core.NCPU), timeout=1500)
        for n in planB:
            res[("B", n)] = jobs[("B", n)].result()
            t1 = time.time()
            walls(run, n, res[("B", n)], pool, rng, conj_limit[n])
            t_rep += time.time() - t1
        for n, L, rich in planA:
            res[("A", n, L, rich)] = jobs[("A", n, L, rich)].result()
            t1 = time.time()
            walk_fix(run, n, res[("A", n, L, rich)], pool, "len<=%d%s" % (L, ",rich" if rich else ""))
            t_rep += time.time() - t1
        for n, L, rich in planC:
            res[("C", n, L, rich)] = jobs[("C", n, L, rich)].result()
            t1 = time.time()
            walk_fix(run, n, res[("C", n, L, rich)], pool, "loxwords,len<=%d%s" % (L, ",rich" if rich else ""), composite_of_all=True)
            t_rep += time.time() - t1
    t_tlc = max(r.wall for r in res.values())
    t1 = time.time()
    for n in (2, 3):
        coxeter(run, n, res[("B", n)])
    run.extra["timing_s"] = dict(tlc_longest_run=round(t_tlc, 1), replay_overlapped=round(t_rep, 1), coxeter=round(time.time() - t1, 1),
                                 tlc_runs={"".join(map(str, k)): round(r.wall, 1) for k, r in res.items()})
