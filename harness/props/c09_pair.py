"""C09, independence of the automata a caller holds (spec/fsa/FSAPair.tla).

FSAPair.tla is a state machine over TWO automata and the input the first one was obtained from; TLC checks its
frame invariants and emits every complete history (first construction, edits of either automaton with the mutating
actions of FSA.tla, obtaining the second automaton through the same route with the same input / from the first
one's views / as a copy) with the specified state of BOTH automata after every step.  Each history is executed on
real objects: the caller's dictionary (list, parsed record, file name) is kept alive and passed again, and after every
step all three views of both automata must equal the specified states; at the end every read-only query is run on
both.  Routes: label->target and target->labels dictionaries, FSA(), the free-group constructor over generating
sequences of every case pattern, built-in file and kbmag text / file (named routes whose meaning is the table in
the text)."""
import copy
import json
import multiprocessing as mp
import os

from .. import core
from .. import fsa_common as fc
from . import c09

ALL_KINDS = {"add_vertices", "add_edge", "add_edge_list", "add_two_edges", "delete_vertex", "delete_vertices",
             "recurrent_inplace", "rename_inplace"}
INVARIANTS = ["PairTypeOK", "Deterministic", "NoDangling", "OtherDeterministic", "OtherNoDangling",
              "SrcIsAutomaton", "Frame", "EmitHist"]
NAMED = {}      # name -> dict(kind=..., text/path/..., init=...)


def first_object(act, ctx):
    """the first construction; `ctx` keeps the caller's input alive"""
    fsa = fc.fsa_mod()
    a = act["a"]
    if a == "build_empty":
        ctx.update(route="empty", again=lambda: fsa.FSA(start_vertices=[0]))
    elif a == "build_graph_dict":
        d = {k: {} for k in act["keys"]}
        for (t, l, h) in act["edges"]:
            d[t][l] = h
        ctx.update(route="graph", d=d, again=lambda: fsa.FSA(d, start_vertices=[0]))
    elif a == "build_out_dict":
        d = {k: {} for k in act["keys"]}
        for (t, l, h) in act["edges"]:
            d[t].setdefault(h, []).append(l)
        ctx.update(route="out", d=d, again=lambda: fsa.FSA(d, start_vertices=[0], graph_dict=False))
    elif a == "build_free":
        gens = list(act["gens"])
        ctx.update(route="free", d=gens, again=lambda: fsa.free_automaton(gens))
    elif a == "build_named":
        nm = NAMED[act["name"]]
        if nm["kind"] == "builtin":
            ctx.update(route="builtin", again=lambda: fsa.load_builtin(nm["file"]))
        elif nm["kind"] == "kbmag_file":
            ctx.update(route="kbmag_file", again=lambda: fsa.load_kbmag_file(nm["path"]))
        else:   # one parsed record (the caller's object) converted twice
            from geometry_tools.automata import gap_parse
            record, _ = gap_parse.parse_record(nm["text"])
            ctx.update(route="kbmag_record", d=record, again=lambda: fsa._from_gap_record(record))
        ctx["init"] = nm["init"]
    else:
        raise KeyError(a)
    return ctx["again"]()


def second_object(first, prov, ctx, labels):
    fsa = fc.fsa_mod()
    if prov == "same_input":
        return ctx["again"]()
    if prov == "graph_view":
        return fsa.FSA(first.graph_dict, start_vertices=list(first.start_vertices))
    if prov == "out_view":
        return fsa.FSA(first.out_dict, start_vertices=list(first.start_vertices), graph_dict=False)
    if prov == "deepcopy":
        return copy.deepcopy(first)
    if prov == "recurrent_copy":
        return first.recurrent(inplace=False)
    if prov == "rename_copy":
        return first.rename_generators({l: l for l in labels}, inplace=False)
    raise KeyError(prov)


def render(h, al):
    """the history with every label rendered through the alphabet (fsa_common.ALPHABETS)"""
    if al is None:
        return h["steps"]
    out = []
    for st in h["steps"]:
        st = dict(st, act=fc.tr_act(al, st["act"]))
        for k in ("E", "oE"):
            st[k] = fc.tr_edges(al, st[k])
        out.append(st)
    return out


def replay_history(h, labels, battery=True, al=None):
    """returns None or (actions so far, clause, detail)"""
    steps = render(h, al)
    if al is not None:
        labels = [al[l] for l in labels]
    objs = {}
    ctx = {}
    done = []
    for i, st in enumerate(steps):
        act = st["act"]
        done.append((fc.alphabet_tag(al) if i == 0 else "") + c09.act_str(h["steps"][i]["act"]))
        cur = st["cur"]
        try:
            if i == 0:
                objs[1] = first_object(act, ctx)
            elif act["a"] == "second":
                objs[2] = second_object(objs[1], act["prov"], ctx, labels)
            elif act["a"] == "swap":
                pass
            else:
                objs[cur] = fc.apply_action(objs[cur], act)
        except Exception as e:
            return done, "raised:" + act["a"], "%s: %s" % (type(e).__name__, e)
        who = {cur: (st["vs"], st["E"])}
        if st["has2"]:
            who[3 - cur] = (st["ovs"], st["oE"])
        for k in sorted(who):
            V, S = who[k]
            try:
                bad = fc.project_check(objs[k], set(V), {tuple(e) for e in S})
            except Exception as e:
                bad = ("raised:projection", "%s: %s" % (type(e).__name__, e))
            if bad:
                role = "obtained" if (i == 0 or (act["a"] == "second" and k == 2)) else \
                       ("edited" if (k == cur and act["a"] != "swap") else "untouched")
                return done, "%s_automaton(%d):%s" % (role, k, bad[0]), bad[1]
        if i == 0 and "init" in ctx and list(objs[1].start_vertices) != [ctx["init"]]:
            return done, "start", "start_vertices %r != [%r]" % (objs[1].start_vertices, ctx["init"])
    if not battery:
        return None
    # read-only queries on both automata: specified results, and they move neither
    last = steps[-1]
    who = {last["cur"]: (last["vs"], last["E"]), 3 - last["cur"]: (last["ovs"], last["oE"])}
    for rnd in ("queries", "after_queries"):
        for k in sorted(who):
            V, S = set(who[k][0]), {tuple(e) for e in who[k][1]}
            try:
                bad = fc.query_battery(objs[k], V, S) if rnd == "queries" else fc.project_check(objs[k], V, S)
            except Exception as e:
                bad = ("raised", "%s: %s" % (type(e).__name__, e))
            if bad:
                return done + [rnd], "%s(%d):%s" % (rnd, k, bad[0]), bad[1]
    return None


def replay_chunk(args):
    hists, labels, battery_every, alphabets = args
    viol = []
    per_action = {}
    n_steps = 0
    for j, h in enumerate(hists):
        n_steps += len(h[1]["steps"])
        for st in h[1]["steps"]:
            a = st["act"]["a"] + (":" + st["act"]["prov"] if st["act"]["a"] == "second" else "")
            per_action[a] = per_action.get(a, 0) + 1
        # (index in the emitted order, history): the alphabet cycles with the index, the battery with index // 3
        idx, h = h
        al = fc.ALPHABETS[idx % len(fc.ALPHABETS)] if alphabets else None
        bad = replay_history(h, labels, battery=((idx // 3) % battery_every == 0), al=al)
        if bad and len(viol) < 20:
            viol.append(bad)
    return n_steps, viol, per_action


def prepare(run, name, verts, labels, routes, provs, kinds, budget, max_build=0, named=None, alphabets=False):
    """one TLC job: (name, module path, cfg text, description)"""
    consts = dict(Verts=set(verts), Labels=set(labels), MaxBuildEdges=max_build, Routes=set(routes), Provs=set(provs),
                  EditKinds=set(kinds), Budget=budget)
    module = os.path.join(core.SPEC, "fsa/FSAPair.tla")
    extra = ""
    if named:
        recs = []
        for nm, (V, S) in sorted(named.items()):
            recs.append("[name |-> %s, vs |-> %s, E |-> %s]" % (
                core.tla_expr(nm), core.tla_expr(set(V)), core.tla_expr({tuple(e) for e in S})))
        module = core.write_module(os.path.join(run.work, "pair_" + name), "FSAPair_" + name, ["FSAPair"],
                                   "NamedDef == {%s}" % ",\n  ".join(recs))
        extra = "CONSTANT Named <- NamedDef"
    else:
        consts["Named"] = set()
    c = core.cfg(init="PairInit", next_="PairNext", constants=consts, invariants=INVARIANTS, extra=extra)
    desc = dict(run=name, routes=sorted(routes), second_object=sorted(provs), edits=sorted(kinds), budget=budget,
                alphabets=[fc.alphabet_tag(a) or "letters" for a in fc.ALPHABETS] if alphabets else ["as written"])
    return name, module, c, sorted(labels), desc


def tlc_all(run, jobs):
    """the TLC runs of the jobs are independent: run them side by side (one worker each, so that together they stay
    within the allowed number of cores); bookkeeping as in Run.tlc, done in this thread"""
    from concurrent.futures import ThreadPoolExecutor

    def one(job):
        name, module, c = job[0], job[1], job[2]
        return core.run_tlc(module, c, os.path.join(run.work, "FSAPair_" + name), workers=1, seed=run.seed,
                            emit_prefix="HIST ")
    with ThreadPoolExecutor(max_workers=max(1, min(len(jobs), core.NCPU))) as ex:
        results = list(ex.map(one, jobs))
    for job, r in zip(jobs, results):
        run.states += r.distinct
        run.transitions += r.generated
        d = r.as_dict()
        d["module"] = "spec/fsa/FSAPair.tla"
        d["run"] = "FSAPair_" + job[0]
        run.tlc_runs.append(d)
    return results


def replay(run, job, r, battery_every):
    name, labels, desc = job[0], job[3], job[4]
    # canonical order (the alphabet of a history and whether it ends with the query battery go by position)
    hists = sorted(r.emits, key=lambda h: json.dumps([st["act"] for st in h["steps"]], sort_keys=True))
    if not hists:
        raise core.MachineryFailure("FSAPair.tla (%s) emitted no history" % name)
    n = min(core.NCPU, len(hists))
    with mp.get_context("fork").Pool(n) as pool:
        ih = list(enumerate(hists))
        outs = pool.map(replay_chunk, [(ih[i::n], labels, battery_every, bool(desc["alphabets"] != ["as written"])) for i in range(n)])
    steps = 0
    for (k, viol, per_action) in outs:
        steps += k
        for a, cnt in per_action.items():
            run.actions["pair:" + a] = run.actions.get("pair:" + a, 0) + cnt
        for (done, clause, detail) in viol:
            run.violation(key="pair:" + ";".join(done), clause="pair:" + clause, detail=dict(history=done, observed=detail))
    run.evaluations += steps
    run.traces += len(hists)
    run.nontrivial_count += len(hists)
    run.extra.setdefault("pair", []).append(dict(desc, histories=len(hists), steps=steps))
    mid = hists[len(hists) // 2]
    run.sample(dict(kind="two automata, " + name, actions=[c09.act_str(s["act"]) for s in mid["steps"]],
                    first_after=dict(vs=mid["steps"][-1]["vs"], E=mid["steps"][-1]["E"], cursor=mid["steps"][-1]["cur"]),
                    other_after=dict(vs=mid["steps"][-1]["ovs"], E=mid["steps"][-1]["oE"])))


def named_routes(run):
    """named routes: one built-in file and two kbmag records emitted by GapRecord.tla (as a file on disk and as a
    parsed record converted twice); their meaning is the table written in the text"""
    from . import c09_gap
    named = {}
    NAMED.clear()
    vs, E, init = c09_gap.read_builtin_table("f2.wa")
    named["builtin:f2.wa"] = (vs, E)
    NAMED["builtin:f2.wa"] = dict(kind="builtin", file="f2.wa", init=init)
    for i, rec in enumerate(c09_gap.PICKED):
        text = c09_gap.render(rec)
        nm = ("kbmag_file:%d" if i == 0 else "kbmag_record:%d") % i
        named[nm] = (set(range(1, rec["n"] + 1)), {tuple(e) for e in rec["E"]})
        if i == 0:
            path = os.path.join(run.work, "pair_rec%d.wa" % i)
            with open(path, "w") as fh:
                fh.write(text)
            NAMED[nm] = dict(kind="kbmag_file", path=path, init=rec["init"])
        else:
            NAMED[nm] = dict(kind="kbmag_record", text=text, init=rec["init"])
    return named


def run(run):
    quick = run.tier == "quick"
    light = {"add_edge", "delete_vertex", "recurrent_inplace"}
    jobs = []
    if quick:
        jobs.append(prepare(run, "dict", [0, 1], ["a", "b"], {"empty", "graph", "out"},
                            {"same_input", "graph_view", "out_view"}, ALL_KINDS - {"add_two_edges", "delete_vertices"}, 1,
                            max_build=2, alphabets=True))
    else:
        jobs.append(prepare(run, "dict", [0, 1], ["a", "b"], {"empty", "graph", "out"},
                            {"same_input", "graph_view", "out_view", "deepcopy", "recurrent_copy", "rename_copy"},
                            ALL_KINDS, 1, max_build=3, alphabets=True))
        jobs.append(prepare(run, "dict2", [0, 1], ["a", "b"], {"empty", "graph", "out"},
                            {"same_input", "out_view"},
                            {"add_edge", "add_edge_list", "delete_vertex", "rename_inplace"}, 2, max_build=1, alphabets=True))
    jobs.append(prepare(run, "free", ["", "a", "A", "b", "B"], ["a", "A", "b", "B"], {"free"},
                        {"same_input"} if quick else {"same_input", "out_view", "graph_view"}, light, 1))
    named = named_routes(run)
    verts = set().union(*[v for v, _ in named.values()]) | {6}
    labels = {e[1] for _, S in named.values() for e in S}
    jobs.append(prepare(run, "named", sorted(verts), sorted(labels), {"named"},
                        {"same_input"} if quick else {"same_input", "out_view", "deepcopy"}, light, 1, named=named))
    results = tlc_all(run, jobs)
    for job, r in zip(jobs, results):
        # the read-only query battery on both automata closes every history (every third one in the quick tier)
        replay(run, job, r, battery_every=3 if quick else 1)
