"""X07 (extension check) — affine disk containment helpers and the remaining lines of
complex_projective.py / utils/cp1.py.

spec/cp1/DiskRel.tla   : contract of utils.affine_disks_contain / utils.disk_containments
                         (Cont(O, I) <=> |c_O - c_I| + r_I < r_O: closed inner disk inside the open
                         outer disk; tangent and equal disks are not related), checked by TLC against
                         point membership (probe grid + exact witnesses, also ON the boundary for the
                         tangent cases), strict-partial-order laws and the containment of CP1.tla;
                         one emitted verdict per ordered pair of a universe of Gaussian-integer
                         centred disks containing tangent (on and off the axes), equal and concentric
                         pairs.
spec/cp1/CP1Maps.tla   : to_standard_triple (exact matrix sending a triple to 0, infinity, 1 and
                         the images of further points), the column_vectors=True layout of
                         projective_to_spherical / spherical_to_projective, and the two conversions
                         of utils/cp1.py between Fubini-Study and Euclidean centres.

Binding: every emitted case is replayed on the library: elementwise (whole table, sub-batches
of only tangent / only equal pairs, random batches, 2-d shapes, broadcasting one disk against a
family, single pairs as arrays and as Python scalars) and pairwise (square and rectangular
families); triples as one batch, through both entry points and as units, with rescaled
representatives; layouts as single matrices and stacks of matrices; centre conversions as arrays,
2-d arrays and scalars.  The functions are pure (no mutable object, hence no histories).
"""
import json
import math
import random

import numpy as np

from .. import core
from . import c20
from .c20 import G, PT, table, err

TOL = 1e-9


def consts(tier, **kw):
    c = c20.constants("quick", "disks")
    c.update(kw)
    return c


def rat(x):
    return x[0] / x[1]


# ----------------------------------------------------------------------------------------
# (A) affine_disks_contain / disk_containments
# ----------------------------------------------------------------------------------------
def relations(run):
    from geometry_tools import utils
    quick = run.tier == "quick"
    c = consts(run.tier, GridN=11, XSpan=8)
    if quick:
        c.update(XReS={0, 1, 4}, XImS={0, 1, 3}, XRadiiHalf={1, 2, 3, 4, 11, 12})
    else:
        c.update(XReS={0, 1, 2, 3, 4, 5}, XImS={0, 1, 2, 3, 4}, XRadiiHalf={1, 2, 3, 4, 6, 8, 11, 12})
    r = run.tlc("cp1/DiskRel.tla", core.cfg(constants=c, init="InitRel", next_="NextRel",
                                            invariants=["RelSound", "RelComplete", "RelBoundary", "RelOrder",
                                                        "RelAgreesCP1", "ObsRel"]),
                name="DiskRel", workers=min(8, core.NCPU), emit_prefix="OBS ")
    U = table(r.stdout, "XDISKS")
    N = len(U)
    obs = r.emits
    if len(obs) != N * N:
        raise core.MachineryFailure("DiskRel emitted %d pairs for %d disks" % (len(obs), N))
    C = np.array([[d["c"][0], d["c"][1]] for d in U], dtype=float)
    R = np.array([rat(d["r"]) for d in U], dtype=float)
    I = np.array([o["i"] - 1 for o in obs])          # outer
    J = np.array([o["j"] - 1 for o in obs])          # inner
    W1 = np.array([o["rel"][0] for o in obs], dtype=bool)     # outer contains inner
    W2 = np.array([o["rel"][1] for o in obs], dtype=bool)     # inner contains outer
    TG = np.array([o["tangent"] for o in obs], dtype=bool)
    EQ = np.array([o["equal"] for o in obs], dtype=bool)
    OC = np.zeros((N, N), dtype=bool)
    OC[I, J] = W1
    if not (W1.any() and W2.any() and TG.any() and EQ.any() and (TG & ~EQ).any()):
        raise core.MachineryFailure("disk universe lacks contained / tangent / equal pairs")
    run.extra["disk_relation_universe"] = dict(disks=N, pairs=len(obs), contained=int(W1.sum()),
                                               tangent_or_equal=int(TG.sum()), equal=int(EQ.sum()))
    k0 = int(np.nonzero(TG & ~EQ)[0][0])
    run.sample(dict(kind="tangent pair", outer=U[I[k0]], inner=U[J[k0]], spec=[bool(W1[k0]), bool(W2[k0])]))
    k0 = int(np.nonzero(W1)[0][len(np.nonzero(W1)[0]) // 2])
    run.sample(dict(kind="contained pair", outer=U[I[k0]], inner=U[J[k0]], spec=[bool(W1[k0]), bool(W2[k0])]))

    crashed = set()

    def dname(k):
        return "c=%d%+dj,r=%s" % (U[k]["c"][0], U[k]["c"][1], rat(U[k]["r"]))

    def viol(fn, mode, i, j, got, want, extra=None):
        d = dict(kind="relation", function=fn, mode=mode, outer=U[i], inner=U[j], got=got, spec=want)
        if extra:
            d.update(extra)
        if isinstance(got, str) and got.startswith("raised"):
            # one key per call family: the failing inputs of a crash are not a stable set
            k_ = "%s:%s:%s" % (fn, mode.split("(")[0], got.split(":")[0].replace("raised ", ""))
            if k_ in crashed:
                return
            crashed.add(k_)
            run.violation("%s:%s:%s" % (fn, mode.split("(")[0], got.split(":")[0].replace("raised ", "")), "relation:raised", d)
        else:
            run.violation("%s:%s:%s|%s" % (fn, mode, dname(i), dname(j)), "relation:value", d)

    rng = random.Random(run.seed)
    allsel = np.arange(len(obs))
    for fn, parts in (("affine_disks_contain", (W1,)), ("disk_containments", (W1, W2))):
        f = getattr(utils, fn)

        def unpack(res, shape):
            """library result -> list of boolean arrays, one per specified component"""
            if len(parts) == 1:
                comps = [res]
            else:
                if not isinstance(res, (tuple, list)) or len(res) != 2:
                    raise ValueError("result is not a pair: %r" % (type(res),))
                comps = list(res)
            out = []
            for x in comps:
                x = np.asarray(x)
                if x.shape != shape:
                    raise ValueError("result shape %r, specified %r" % (x.shape, shape))
                if x.dtype != bool:
                    raise ValueError("result dtype %r is not boolean" % (x.dtype,))
                out.append(x)
            return out

        def elementwise(sel, label, shape=None, explicit=True):
            if len(sel) == 0:
                return
            i0, j0 = int(I[sel[0]]), int(J[sel[0]])
            a = [C[I[sel]], R[I[sel]], C[J[sel]], R[J[sel]]]
            shp = (len(sel),)
            if shape is not None:
                a = [a[0].reshape(shape + (2,)), a[1].reshape(shape), a[2].reshape(shape + (2,)), a[3].reshape(shape)]
                shp = shape
            try:
                with np.errstate(all="ignore"):
                    res = f(*a, broadcast="elementwise") if explicit else f(*a)
                comps = unpack(res, shp)
            except Exception as e:
                viol(fn, label, i0, j0, "raised " + err(e), None, dict(batch=len(sel)))
                return
            for want, got in zip(parts, comps):
                got = got.reshape(-1)
                wrong = np.nonzero(got != want[sel])[0]
                for w in wrong[:3]:
                    viol(fn, label, int(I[sel[w]]), int(J[sel[w]]), bool(got[w]), bool(want[sel[w]]),
                         dict(component=0 if want is W1 else 1, batch=len(sel), n_wrong=len(wrong),
                              tangent=bool(TG[sel[w]]), equal=bool(EQ[sel[w]])))
            run.evaluations += len(sel) * len(parts)

        elementwise(allsel, "elementwise(all)")
        elementwise(allsel, "elementwise(default argument)", explicit=False)
        elementwise(allsel[TG & ~EQ], "elementwise(tangent only)")
        elementwise(allsel[EQ], "elementwise(equal only)")
        elementwise(allsel[W1], "elementwise(contained only)")
        m = (len(obs) // 12) * 12
        elementwise(allsel[:m], "elementwise(2-d)", shape=(12, m // 12))
        elementwise(allsel[:m], "elementwise(3-d)", shape=(2, 6, m // 12))
        for t in range(8 if quick else 40):
            elementwise(np.array(sorted(rng.sample(range(len(obs)), rng.choice([1, 2, 3, 5, 8])))), "elementwise(random batch)")
        # one disk against a family (NumPy broadcasting of a unit against an array)
        for i in rng.sample(range(N), min(N, 6 if quick else 20)):
            run.case(key=(fn, "one-vs-many", i), action=fn + ":broadcast")
            for label, args, want in (("one outer / many inner", (C[i], R[i], C, R), [OC[i, :], OC[:, i]]),
                                      ("many outer / one inner", (C, R, C[i], R[i]), [OC[:, i], OC[i, :]])):
                try:
                    with np.errstate(all="ignore"):
                        comps = unpack(f(*args), (N,))
                    for ci, got in enumerate(comps):
                        for k in np.nonzero(got != want[ci])[0][:3]:
                            o, n_ = (i, int(k)) if label.startswith("one outer") else (int(k), i)
                            viol(fn, "elementwise(%s)" % label, o, n_, bool(got[k]), bool(want[ci][k]), dict(component=ci))
                    run.evaluations += N * len(parts)
                except Exception as e:
                    viol(fn, "elementwise(%s)" % label, i, 0, "raised " + err(e), None)
        # single pairs: (2,) centres with NumPy scalar radii, and with Python floats
        per = 12 if quick else 60
        singles = []
        for mask in (W1, W2, TG & ~EQ, EQ, ~(W1 | W2 | TG)):
            pool = list(allsel[mask])
            singles += rng.sample(pool, min(per, len(pool)))
        for s in singles:
            i, j = int(I[s]), int(J[s])
            run.case(key=(fn, "single", i, j), action=fn + ":single")
            for label, args in (("numpy scalars", (C[i], R[i], C[j], R[j])),
                                ("python floats", (C[i], float(R[i]), C[j], float(R[j])))):
                try:
                    with np.errstate(all="ignore"):
                        comps = unpack(f(*args), ())
                    for want, got in zip(parts, comps):
                        if bool(got) != bool(want[s]):
                            viol(fn, "single(%s)" % label, i, j, bool(got), bool(want[s]),
                                 dict(tangent=bool(TG[s]), equal=bool(EQ[s])))
                except Exception as e:
                    viol(fn, "single(%s)" % label, i, j, "raised " + err(e), None)
        # pairwise: result[i_inner, j_outer]; square and rectangular families
        fams = [(list(range(N)), list(range(N)), "pairwise(all)")]
        for t in range(3 if quick else 10):
            fams.append((sorted(rng.sample(range(N), rng.choice([1, 4, 7]))), sorted(rng.sample(range(N), rng.choice([2, 5, 11]))),
                         "pairwise(rectangular)"))
        for outer, inner, label in fams:
            run.case(key=(fn, label, tuple(outer), tuple(inner)), action=fn + ":pairwise")
            want1 = OC[np.ix_(outer, inner)].T          # [inner, outer]: outer contains inner
            want2 = OC[np.ix_(inner, outer)]            # [inner, outer]: inner contains outer
            try:
                with np.errstate(all="ignore"):
                    comps = unpack(f(C[outer], R[outer], C[inner], R[inner], broadcast="pairwise"), (len(inner), len(outer)))
                for ci, (want, got) in enumerate(zip([want1, want2], comps)):
                    wrong = np.argwhere(got != want)
                    for (y, x) in wrong[:3]:
                        viol(fn, label, outer[x], inner[y], bool(got[y, x]), bool(want[y, x]),
                             dict(component=ci, n_wrong=len(wrong), n_outer=len(outer), n_inner=len(inner)))
                run.evaluations += len(inner) * len(outer) * len(parts)
            except Exception as e:
                viol(fn, label, outer[0], inner[0], "raised " + err(e), None, dict(n_outer=len(outer), n_inner=len(inner)))
    run.traces += 2 * len(obs)
    run.nontrivial_count += 2 * len(obs)
    run.actions["relation pairs"] = 2 * len(obs)


# ----------------------------------------------------------------------------------------
# (B) to_standard_triple
# ----------------------------------------------------------------------------------------
def proj_matrix_residual(T, M):
    """|| T - s M || / || T || for the best complex scalar s (batched over the first axis)"""
    a = np.asarray(T, dtype=complex).reshape(len(M), 4)
    b = np.asarray(M, dtype=complex).reshape(len(M), 4)
    with np.errstate(all="ignore"):
        s = np.sum(np.conj(b) * a, axis=1) / np.sum(np.conj(b) * b, axis=1)
        return np.linalg.norm(a - s[:, None] * b, axis=1) / np.linalg.norm(a, axis=1)


def triples(run):
    cp, projective = c20.lib()
    from geometry_tools.base import GeometryError
    r = run.tlc("cp1/CP1Maps.tla", core.cfg(constants=consts(run.tier), init="InitTriple", next_="Stutter",
                                            invariants=["TripleSends", "TripleUnique", "TripleInversion", "ObsTriple"]),
                name="CP1Maps_triples", workers=min(4, core.NCPU), emit_prefix="OBS ")
    obs = r.emits
    if not obs:
        raise core.MachineryFailure("no triples emitted")
    n = len(obs)
    Tri = np.array([[PT(p) for p in o["t"]] for o in obs])              # (n, 3, 2)
    Mx = np.array([[[G(x) for x in row] for row in o["M"]] for o in obs])  # (n, 2, 2)
    run.sample(dict(kind="standard triple", triple=obs[n // 2]["t"], matrix=obs[n // 2]["M"]))
    rng = random.Random(run.seed)
    scale = np.array([[complex(rng.choice([1, -1, 2, 1j, 1 + 1j, -2 + 1j, 0.5])) for _ in range(3)] for _ in range(n)])

    def viol(mode, k, clause, observed):
        run.violation("to_standard_triple:%s:%s" % (mode, json.dumps(obs[k]["t"])), "triple:" + clause,
                      dict(kind="triple", mode=mode, triple=obs[k]["t"], spec_matrix=obs[k]["M"], observed=observed))

    for mode, data, call in (("function,batch", Tri, lambda x: cp.to_standard_triple(x)),
                             ("method,batch", Tri, lambda x: cp.CP1Point(x).to_standard_triple()),
                             ("function,batch,rescaled", Tri * scale[:, :, None], lambda x: cp.to_standard_triple(x)),
                             ("function,2-d batch", Tri[:(n // 4) * 4].reshape(4, n // 4, 3, 2), lambda x: cp.to_standard_triple(x))):
        run.case(key=("triple", mode), action="to_standard_triple:" + mode.split(",")[1])
        try:
            with np.errstate(all="ignore"):
                T = call(data)
            mats = np.asarray(T.proj_data)
            if mats.shape != data.shape[:-2] + (2, 2):
                viol(mode, 0, "shape", "%r for input %r" % (mats.shape, data.shape))
                continue
            mats = mats.reshape(-1, 2, 2)
            res = proj_matrix_residual(mats, Mx[:len(mats)])
            for k in np.nonzero(~(res <= TOL))[0][:5]:
                viol(mode, int(k), "matrix", dict(got=str(mats[k].tolist()), residual=float(res[k])))
            run.evaluations += len(mats)
        except Exception as e:
            viol(mode, 0, "raised", err(e))
    units = range(n) if run.tier != "quick" else sorted(rng.sample(range(n), 300))
    for k in units:
        run.case(key=("triple", "unit", k), action="to_standard_triple:unit")
        o = obs[k]
        try:
            with np.errstate(all="ignore"):
                T = cp.to_standard_triple(Tri[k] * scale[k][:, None])
                mats = np.asarray(T.proj_data)
                if mats.shape != (2, 2):
                    viol("unit", k, "shape", "%r" % (mats.shape,))
                    continue
                if not proj_matrix_residual(mats[None], Mx[k:k + 1])[0] <= TOL:
                    viol("unit", k, "matrix", dict(got=str(mats.tolist())))
                    continue
                # the returned Transformation acts as specified on further points
                Qs = np.array([PT(q[0]) for q in o["img"]])
                Im = np.array([PT(q[1]) for q in o["img"]])
                got = np.asarray((T @ cp.CP1Point(Qs)).proj_data).reshape(-1, 2)
                mis = c20.chordal(got, Im)
            for b in np.nonzero(~(mis <= TOL))[0][:3]:
                viol("unit", k, "image", dict(point=o["img"][b][0], got=str(got[b].tolist()), spec=o["img"][b][1]))
            run.evaluations += 1 + len(Qs)
        except Exception as e:
            viol("unit", k, "raised", err(e))
    # arrays whose unit is not a triple of points are rejected with GeometryError
    for label, bad in (("pair", Tri[0][:2]), ("quadruple", np.concatenate([Tri[0], Tri[1][:1]])), ("batch of pairs", Tri[:5, :2])):
        run.case(key=("triple", "arity", label), action="to_standard_triple:arity")
        try:
            with np.errstate(all="ignore"):
                cp.to_standard_triple(bad)
            run.violation("to_standard_triple:not_a_triple:accepted", "triple:arity", dict(kind="arity", input=label, observed="accepted"))
        except GeometryError:
            pass
        except Exception as e:
            run.violation("to_standard_triple:not_a_triple:" + type(e).__name__, "triple:arity",
                          dict(kind="arity", input=label, shape=list(bad.shape), observed=err(e), spec="GeometryError"))
    run.traces += n
    run.nontrivial_count += n


# ----------------------------------------------------------------------------------------
# (C) column / row layouts of the conversions
# ----------------------------------------------------------------------------------------
def layouts(run):
    cp, _ = c20.lib()
    r = run.tlc("cp1/CP1Maps.tla", core.cfg(constants=consts(run.tier), init="InitLayout", next_="Stutter",
                                            invariants=["LayoutShapes", "LayoutInverse", "ObsLayout"]),
                name="CP1Maps_layouts", workers=min(4, core.NCPU), emit_prefix="OBS ")
    obs = r.emits
    if not obs:
        raise core.MachineryFailure("no layout cases emitted")

    def render(o):
        if o["dir"] == "toProj":
            inp = np.array([[rat(x) for x in row] for row in o["inp"]], dtype=float)
            out = np.array([[G(x) for x in row] for row in o["out"]], dtype=complex)
        else:
            inp = np.array([[G(x) for x in row] for row in o["inp"]], dtype=complex)
            out = np.array([[rat(x) for x in row] for row in o["out"]], dtype=float)
        return inp, out

    crashed = {}

    def compare(o, got, out):
        """None or (clause, observed)"""
        got = np.asarray(got)
        if got.shape != out.shape:
            return ("shape", "%r, specified %r" % (got.shape, out.shape))
        if o["dir"] == "toProj":
            g, w = (np.swapaxes(got, -1, -2), np.swapaxes(out, -1, -2)) if o["cols"] else (got, out)
            with np.errstate(all="ignore"):
                mis = c20.chordal(g.reshape(-1, 2), w.reshape(-1, 2))
            if not (mis <= 1e-11).all():
                return ("value", str(got.tolist()))
        else:
            with np.errstate(all="ignore"):
                if not (np.abs(got - out) <= 1e-11).all():
                    return ("value", str(got.tolist()))
        return None

    def fname(o):
        return "spherical_to_projective" if o["dir"] == "toProj" else "projective_to_spherical"

    def call(o, inp):
        f = getattr(cp, fname(o))
        with np.errstate(all="ignore"):
            return f(inp, column_vectors=True) if o["cols"] else f(inp, column_vectors=False)

    def report(o, label, bad):
        fam = "%s:column_vectors=%s" % (fname(o), o["cols"])
        if bad[0] == "raised":
            # a crash does not depend on the input: one stable key per function and layout
            crashed.setdefault((fam, bad[1].split(":")[0]), [0, o, bad[1], label])[0] += 1
        else:
            run.violation("%s:%s:%s" % (fam, label, json.dumps(o["inp"])), "layout:" + bad[0],
                          dict(kind="layout", function=fname(o), column_vectors=o["cols"], input=o["inp"], spec=o["out"], observed=bad[1]))

    groups = {}
    for o in obs:
        run.case(key=("layout", o["dir"], o["cols"], json.dumps(o["inp"])), action="%s(cols=%s)" % (fname(o), o["cols"]))
        inp, out = render(o)
        groups.setdefault((o["dir"], o["cols"], o["k"]), []).append((o, inp, out))
        try:
            bad = compare(o, call(o, inp), out)
        except Exception as e:
            bad = ("raised", err(e))
        if bad:
            report(o, "single", bad)
    # stacks of matrices: the layout flag concerns the last two axes only
    for (d, cols, k), items in sorted(groups.items()):
        o0 = items[0][0]
        inp = np.array([x[1] for x in items])
        out = np.array([x[2] for x in items])
        run.case(key=("layout-stack", d, cols, k), action="%s(cols=%s)" % (fname(o0), cols))
        try:
            got = np.asarray(call(o0, inp))
            if got.shape != out.shape:
                report(o0, "stack", ("shape", "%r, specified %r" % (got.shape, out.shape)))
                continue
            for i, (o, _, w) in enumerate(items):
                bad = compare(o, got[i], w)
                if bad:
                    report(o, "stack", bad)
                    break
        except Exception as e:
            report(o0, "stack", ("raised", err(e)))
        run.evaluations += len(items)
    for (fam, exc), (cnt, o, msg, label) in sorted(crashed.items()):
        run.violation("%s:%s" % (fam, exc), "layout:raised",
                      dict(kind="layout", function=fname(o), column_vectors=o["cols"], input=o["inp"], spec=o["out"],
                           observed=msg, cases_raising=cnt))
    s = next(o for o in obs if o["cols"] and o["k"] == 2 and o["dir"] == "toProj")
    run.sample(dict(kind="column layout", function="spherical_to_projective", input=s["inp"], spec=s["out"]))
    run.traces += len(obs)
    run.nontrivial_count += len(obs)


# ----------------------------------------------------------------------------------------
# (D) utils/cp1.py
# ----------------------------------------------------------------------------------------
def centres(run):
    from geometry_tools.utils import cp1 as ucp1
    r = run.tlc("cp1/CP1Maps.tla", core.cfg(constants=c20.constants(run.tier, "disks"), init="InitCentre", next_="Stutter",
                                            invariants=["CentreLaw", "CentreCircle", "ObsCentre"]),
                name="CP1Maps_centres", workers=min(4, core.NCPU), emit_prefix="OBS ")
    obs = [o for o in r.emits if o["affine"]]
    if not obs:
        raise core.MachineryFailure("no centre cases emitted")

    def ident(o):
        return "%s:%s:%s" % (o["kind"], json.dumps(o["p"]), json.dumps(o["r"]))

    def viol(fn, label, o, observed):
        d = dict(kind="centre", function=fn, mode=label, case=o, observed=observed)
        if fn == "fs_ctr_to_aff_ctr" and o["pt"][1] == [0, 0]:
            # Fubini-Study centre at the origin: one stable key whatever the packaging of the call
            run.violation("fs_ctr_to_aff_ctr:origin", "centre:origin", d)
        elif isinstance(observed, str):
            run.violation("%s:%s:%s" % (fn, ident(o), observed.split(":")[0]), "centre:raised", d)
        else:
            run.violation("%s:%s:%s" % (fn, label, ident(o)), "centre:value", d)

    # ---- fs_ctr_to_aff_ctr(w, rho): fs cases whose centre is finite
    fs = [o for o in obs if o["kind"] == "fs" and o["pt"][0] != [0, 0]]
    w = np.array([G(o["pt"][1]) / G(o["pt"][0]) for o in fs])
    rho = np.array([0.5 * math.acos(rat(o["r"])) for o in fs])
    cexp = np.array([complex(o["centre"][0], o["centre"][1]) / o["centre"][2] for o in fs])
    rexp = np.sqrt(np.array([rat(o["r2"]) for o in fs]))
    scale = 1 + np.abs(cexp) + rexp
    nz = np.array([o["pt"][1] != [0, 0] for o in fs])
    run.sample(dict(kind="fs centre", case=fs[len(fs) // 2]))

    def check_fs(label, sel, got):
        got = np.asarray(got).reshape(-1)
        with np.errstate(all="ignore"):
            bad = ~(np.abs(got - cexp[sel]) <= TOL * scale[sel])
        for k in np.nonzero(bad)[0][:5]:
            viol("fs_ctr_to_aff_ctr", label, fs[sel[k]], dict(got=str(got[k]), spec=str(cexp[sel[k]])))
        run.evaluations += len(sel)

    for label, sel in (("array", np.nonzero(nz)[0]), ("array with the origin", np.arange(len(fs)))):
        if len(sel) == 0:
            continue
        run.case(key=("fs_ctr", label), action="fs_ctr_to_aff_ctr:array")
        try:
            with np.errstate(all="ignore"):
                check_fs(label, sel, ucp1.fs_ctr_to_aff_ctr(w[sel], rho[sel]))
        except Exception as e:
            viol("fs_ctr_to_aff_ctr", label, fs[sel[0]], err(e))
    sel = np.nonzero(nz)[0]
    m = (len(sel) // 4) * 4
    try:
        with np.errstate(all="ignore"):
            got = np.asarray(ucp1.fs_ctr_to_aff_ctr(w[sel[:m]].reshape(4, -1), rho[sel[:m]].reshape(4, -1)))
        if got.shape != (4, m // 4):
            viol("fs_ctr_to_aff_ctr", "2-d array", fs[sel[0]], dict(shape=list(got.shape)))
        else:
            check_fs("2-d array", sel[:m], got)
    except Exception as e:
        viol("fs_ctr_to_aff_ctr", "2-d array", fs[sel[0]], err(e))
    for k in range(len(fs)):
        run.case(key=("fs_ctr", "scalar", ident(fs[k])), action="fs_ctr_to_aff_ctr:scalar")
        for label, args in (("python scalars", (complex(w[k]), float(rho[k]))), ("numpy scalars", (w[k], rho[k]))):
            try:
                with np.errstate(all="ignore"):
                    check_fs(label, np.array([k]), ucp1.fs_ctr_to_aff_ctr(*args))
            except Exception as e:
                viol("fs_ctr_to_aff_ctr", label, fs[k], err(e))

    # ---- aff_ctr_to_fs_ctr(c, r): modulus of the Fubini-Study centre of the bounded disk
    call_c = np.array([complex(o["centre"][0], o["centre"][1]) / o["centre"][2] for o in obs])
    call_r = np.sqrt(np.array([rat(o["r2"]) for o in obs]))
    fd = np.array([o["fsdir"] for o in obs], dtype=float)
    hor = np.sqrt(fd[:, 0] ** 2 + fd[:, 1] ** 2)
    has_mod = np.array([o["kind"] == "fs" for o in obs])
    mod = np.array([math.sqrt(o["mod2"][0] / o["mod2"][1]) if o["kind"] == "fs" else 0.0 for o in obs])

    def check_aff(label, sel, got):
        got = np.asarray(got)
        if np.iscomplexobj(got):
            if not (np.abs(got.imag) <= TOL).all():
                viol("aff_ctr_to_fs_ctr", label, obs[sel[0]], dict(got=str(got.reshape(-1)[0]), spec="a real modulus"))
                return
            got = got.real
        t = got.reshape(-1).astype(float)
        with np.errstate(all="ignore"):
            # the law of CP1Maps.tla (CentreLaw), and the exact modulus where it is rational
            law = np.abs(2 * t * fd[sel, 2] - hor[sel] * (t * t - 1)) / ((1 + t * t) * np.linalg.norm(fd[sel], axis=1))
            bad = ~((law <= TOL) & (t >= 0))
            bad |= has_mod[sel] & ~(np.abs(t - mod[sel]) <= TOL * (1 + mod[sel]))
        for k in np.nonzero(bad)[0][:5]:
            o = obs[sel[k]]
            viol("aff_ctr_to_fs_ctr", label, o, dict(got=float(t[k]), spec_modulus=float(mod[sel[k]]) if has_mod[sel[k]] else None,
                                                     spec_direction=o["fsdir"]))
        run.evaluations += len(sel)

    everything = np.arange(len(obs))
    run.case(key=("aff_ctr", "array"), action="aff_ctr_to_fs_ctr:array")
    try:
        with np.errstate(all="ignore"):
            check_aff("array", everything, ucp1.aff_ctr_to_fs_ctr(call_c, call_r))
        m = (len(obs) // 3) * 3
        with np.errstate(all="ignore"):
            got = np.asarray(ucp1.aff_ctr_to_fs_ctr(call_c[:m].reshape(3, -1), call_r[:m].reshape(3, -1)))
        if got.shape != (3, m // 3):
            viol("aff_ctr_to_fs_ctr", "2-d array", obs[0], dict(shape=list(got.shape)))
        else:
            check_aff("2-d array", everything[:m], got)
    except Exception as e:
        viol("aff_ctr_to_fs_ctr", "array", obs[0], err(e))
    for k in range(len(obs)):
        run.case(key=("aff_ctr", "scalar", ident(obs[k])), action="aff_ctr_to_fs_ctr:scalar")
        try:
            with np.errstate(all="ignore"):
                check_aff("python scalars", np.array([k]), ucp1.aff_ctr_to_fs_ctr(complex(call_c[k]), float(call_r[k])))
        except Exception as e:
            viol("aff_ctr_to_fs_ctr", "python scalars", obs[k], err(e))
    run.traces += len(fs) + len(obs)
    run.nontrivial_count += len(fs) + len(obs)


def run(run, replay=None):
    run.rule = ("a case is one emitted exact value compared with the library: the verdict(s) for an ordered pair of "
                "disks, the matrix of a standard triple and the images of further points, a converted matrix of points "
                "in a given layout, a converted centre; distinct_nontrivial counts the emitted cases")
    run.assumptions += [
        "contract of affine_disks_contain / disk_containments (no docstring, no caller): closed inner disk inside the open "
        "outer disk, |c_O - c_I| + r_I < r_O; pairwise layout result[i_inner, j_outer] as both functions are written",
        "disks: Gaussian-integer centres, radii k/2 (distances of tangent pairs are rational, so tangency is exact in floats)",
        "to_standard_triple: pairwise distinct points; matrices compared up to a complex scalar",
        "utils.cp1: circles avoiding infinity; Fubini-Study centres at rational points of S^2 and cos(2 rho) = k/65; "
        "aff_ctr_to_fs_ctr on circles with irrational Fubini-Study centre is bound by the law CentreLaw",
    ]
    if replay:
        with open(replay) as f:
            print("replay: the functions are pure and the check is cheap; re-running it. recorded first violation: %s"
                  % json.dumps(json.load(f).get("first", {}), default=str)[:600])
    relations(run)
    triples(run)
    layouts(run)
    centres(run)
